"""Co-execution on the extracted Coq 6502 semantics (build/ocaml/sem.native):
lays variables out, builds program records from harness dumps, runs them from chosen initial
states and returns final states / traces / cycles."""
import os
import shutil
from .common import *

BOUNDARY = [0, 1, 2, 127, 128, 129, 254, 255]


class LayoutError(Exception):
    pass



class _ShardProc:
    """one driver process on one shard file, stdout/stderr redirected to files next to it"""

    def __init__(self, drv, fn):
        self.fn = fn
        self.p = subprocess.Popen(['bash', '-c', 'ulimit -s unlimited; exec "$0" "$1" > "$1.out" 2> "$1.err"', drv, fn])

    def communicate(self, timeout=None):
        self.p.wait(timeout=timeout)
        self.returncode = self.p.returncode
        return (open(self.fn + '.out', 'rb').read(), open(self.fn + '.err', 'rb').read())

def var_bytes(v):
    t, size = v['type'], v['size']
    if t == 'Char':
        return 1
    if t == 'Short':
        return 2
    if t == 'CharPtr':
        return size if (size > 1 or v['const']) else 2   # array of char / pointer variable
    return 2 * size                                      # CharPtrPtr, ShortPtr: lo bytes then hi bytes


def make_layout(vars_, funcs=()):
    """-> dict(sym={name:addr}, base={addr:val}, ports=[(w,r,size)], cells={name:[addrs]}, ram=[names])"""
    sym = {'cctmp': 0x80}
    base = {}
    cells = {}
    ports = []
    zp = 0x81
    rom = 0xF000
    sc = 0x1000
    other = 0x2000
    for v in vars_:
        n = v['name']
        d = v['def']
        mem = v['memory']
        if mem == 'Dummy':
            continue
        if v['const'] and d is not None and d[0] == 'value':
            val = d[1]
            if isinstance(val, int):
                sym[n] = val & 0xffff
            continue
        nb = var_bytes(v)
        if d is not None:           # initialised data: ROM
            addr = rom
            rom += max(nb, len(d[1]) * (2 if d[0] == 'ptrs' else 1))
            sym[n] = addr
            continue
        if mem == 'Zeropage':
            addr = zp
            zp += nb
            if zp > 0xF0:
                raise LayoutError('zero page overflow')
        elif mem == 'Superchip':
            addr = sc
            sc += nb
            if sc > 0x1080:
                raise LayoutError('superchip overflow')
        else:
            addr = other
            other += nb
        sym[n] = addr
        cells[n] = list(range(addr, addr + nb))
    if sc > 0x1000:
        ports.append((0x1000, 0x1080, 0x80))
    k = 0
    for f in funcs:
        if f not in sym:
            sym[f] = 0xE000 + 64 * k
            k += 1
    # second pass: contents of ROM tables (may reference symbols)
    for v in vars_:
        d = v['def']
        n = v['name']
        if d is None or n not in sym or (v['const'] and d[0] == 'value'):
            continue
        addr = sym[n]

        def val(x):
            if isinstance(x, int):
                return x & 0xff
            kind, s, off = x
            a = (sym.get(s, 0) + off) & 0xffff
            return (a & 0xff) if kind == 'lo' else (a >> 8)
        if d[0] == 'array':
            for i, x in enumerate(d[1]):
                base[addr + i] = val(x)
        elif d[0] == 'ptrs':
            n_ = len(d[1])
            for i, (s, off) in enumerate(d[1]):
                a = (sym.get(s, 0) + off) & 0xffff
                base[addr + i] = a & 0xff
                base[addr + n_ + i] = a >> 8
        elif d[0] == 'value':
            base[addr] = val(d[1])
    # const values defined as lo/hi of a symbol
    for v in vars_:
        d = v['def']
        if v['const'] and d is not None and d[0] == 'value' and not isinstance(d[1], int):
            kind, s, off = d[1]
            a = (sym.get(s, 0) + off) & 0xffff
            sym[v['name']] = (a & 0xff) if kind == 'lo' else (a >> 8)
    return {'sym': sym, 'base': base, 'ports': ports, 'cells': cells}


def gen_states(rng, lay, n, pointer_targets=None):
    """n initial states: registers + every RAM cell; boundary-biased bytes, all flag patterns."""
    states = []
    for k in range(n):
        def b():
            return rng.choice(BOUNDARY) if rng.random() < 0.5 else rng.randrange(256)
        fl = format(k % 16, '04b')
        cells = {}
        for name, addrs in lay['cells'].items():
            for a in addrs:
                cells[a] = b() if k > 0 else 0
            if len(addrs) == 2 and k > 0 and rng.random() < 0.4:
                # 16-bit boundaries: a carry / borrow between the bytes is one step away
                v = rng.choice([0x0100, 0x00FF, 0x0101, 0xFF00, 0x0001, 0xFFFF, 0x0200, 0x01FF, 0x8000, 0x7FFF, 0x0000, 0x0201, 0xFF01, 0x8001, 0x80FF])
                cells[addrs[0]], cells[addrs[1]] = v & 0xff, v >> 8
        if pointer_targets:
            for pname, targets in pointer_targets.items():
                if pname in lay['cells'] and targets:
                    t = lay['sym'][rng.choice(targets)]
                    lo, hi = lay['cells'][pname][0], lay['cells'][pname][1]
                    cells[lo], cells[hi] = t & 0xff, t >> 8
        states.append({'A': b(), 'X': b(), 'Y': b(), 'S': 0xFF, 'flags': fl, 'cells': cells})
    return states


def prog_record(pid, funcs, lay, states, fuel=200000, entry='main', watch=None):
    """funcs: {name: [line tuples]}"""
    o = ['@prog %s' % pid]
    for n, a in lay['sym'].items():
        o.append('sym %s %d' % (hx(n), a))
    for w, r, s in lay['ports']:
        o.append('port %d %d %d' % (w, r, s))
    for a, v in lay['base'].items():
        o.append('mem %d %d' % (a, v))
    for name, lines in funcs.items():
        o.append('func ' + hx(name))
        o.append(enc_lines(lines))
        o.append('endfunc')
    if watch is None:
        watch = sorted(a for addrs in lay['cells'].values() for a in addrs)
    o.append('watch ' + ' '.join(str(a) for a in watch))
    o.append('fuel %d' % fuel)
    o.append('entry ' + hx(entry))
    for st in states:
        o.append('state %d %d %d %d %s %s' % (st['A'], st['X'], st['Y'], st['S'], st['flags'],
                                               ' '.join('%d=%d' % (a, v) for a, v in st['cells'].items())))
    o.append('@end')
    return '\n'.join(o) + '\n', watch


def parse_runs(text):
    res = {}
    for l in text.splitlines():
        if not l.startswith('@run '):
            continue
        head, _, rest = l.partition(' | ')
        f = head.split(' ')
        pid, k, tag = f[1], int(f[2]), f[3]
        r = {'tag': tag}
        if len(f) >= 10:
            r.update({'A': int(f[4]), 'X': int(f[5]), 'Y': int(f[6]), 'S': int(f[7]), 'flags': f[8], 'cycles': int(f[9])})
            cells, _, tr = rest.partition(' | ')
            r['cells'] = [int(x) for x in cells.split()] if cells.strip() else []
            r['trace'] = tr.split() if tr.strip() else []
        if tag.startswith('fault:'):
            p = tag.split(':')
            try:
                r['why'] = bytes.fromhex(p[1]).decode() if p[1] != '-' else ''
                r['fn'] = bytes.fromhex(p[2]).decode() if p[2] != '-' else ''
                r['pc'] = int(p[3])
            except Exception:
                pass
            r['tag'] = 'fault'
        res.setdefault(pid, {})[k] = r
    return res


def run_sem(text, shards=None):
    """Runs the semantics driver (sharded over the cores at @prog boundaries)."""
    drv = ocaml_driver('sem')
    d = os.path.join('/dev/shm', 'semx.%d' % os.getpid())
    os.makedirs(d, exist_ok=True)
    try:
        recs = text.split('@prog ')
        recs = ['@prog ' + r for r in recs[1:]]
        ns = max(1, min(shards or NCPU, len(recs)))
        files = []
        for i in range(ns):
            fn = os.path.join(d, 'p%d.txt' % i)
            open(fn, 'w').write(''.join(recs[i::ns]))
            files.append(fn)
        # results go to files: a shard never waits on a full pipe while an earlier one is being read
        procs = [_ShardProc(drv, fn) for fn in files]
        out = []
        for p in procs:
            o, e = p.communicate(timeout=7200)
            if p.returncode != 0:
                raise HarnessError('sem.native failed: ' + e.decode()[-2000:])
            out.append(o.decode('utf-8', 'replace'))
        return parse_runs('\n'.join(out))
    finally:
        shutil.rmtree(d, ignore_errors=True)


def observable(r, with_a=False):
    """what the properties compare: outcome kind, X, Y, watched cells"""
    if r['tag'] != 'halt':
        return (r['tag'], r.get('why'))
    return ('halt', r['X'], r['Y'], tuple(r['cells'])) + ((r['A'],) if with_a else ())
