(** C01 — emitted 6502 code computes what the C source says: COMPOSITIONAL CONTROL FLOW.
    The exact -O0 output of the compiler for [if (a OP b) S;], [if (a OP b) S1; else S2;],
    [if (a OP 5) S1; else S2;], [while (a OP b) a++;] with OP in == != < >= > <= over
    [unsigned char a, b, c;] (Model/GenIf.v: [cond_code], [if_tpl], [ifelse_tpl], [while_tpl], as
    functions of ARBITRARY body code; the [ilisting_NN] examples there are compared line for line
    with the real compiler by tools/props) is run on the executable 6502 semantics.

    [C01_ctl_cond_code]: the load / CMP / branch skeleton (GenTables' [branch_seq] of the negated
    operator) is just past its last line when the C relation holds on the byte values of the
    operands and at the label otherwise; memory, X, Y, S unchanged.
    [C01_ctl_if], [C01_ctl_ifelse], [C01_ctl_while]: for ANY body with a specification, without
    RTS / RTI, that does not define the labels of the template: the composition theorems (for
    [while]: the total-correctness rule with invariant and measure, by [C01_loop_rule]).
    Then the instances on the bodies of the listing.
    Statements only; proofs in Proofs/GenIfFacts.v. *)
From Coq Require Import String List Bool NArith ZArith Lia.
From CC Require Import Base.Str Asm.Lines M6502.Isa Asm.Operand M6502.Sem Model.OptSem
  Model.GenTemplates Proofs.GenTemplatesFacts Proofs.GenCmp16Facts Model.GenLoops
  Proofs.GenLoopsFacts Model.GenTables Model.GenIf Proofs.GenIfFacts.
Import ListNotations.
Open Scope Z_scope.

(** the lemma behind the composition: a halting run of [slB] alone is, inside
    [pre ++ slB ++ post] ([pre] defining no label of [slB]), a run from the first line of [slB]
    to the line after its last, same final state, in fewer steps than the fuel *)
Theorem C01_ctl_embed : forall cfg slB pre post,
  no_ret_s slB ->
  (forall l, In l (sdefs slB) -> find_label l pre 0 = None) ->
  forall fuel pc s tr cy st' tr' cy', (pc <= length slB)%nat ->
    Sem.run cfg [] (fun _ _ => None) (fun _ _ => None) fuel ""%string slB pc [] s tr cy
    = Halt st' tr' cy' ->
    exists n, (n < fuel)%nat /\
      stepn cfg (pre ++ slB ++ post) n (length pre + pc) s
      = Some ((length pre + length slB)%nat, st').
Proof. exact embed_halt. Qed.

(** the condition, all six operators, variable or constant right operand *)
Theorem C01_ctl_cond_code : forall cfg c lbl here cpre cpost sl kl st,
  ports cfg = [] -> cond_wf cfg c ->
  lbl <> ""%string -> here <> ""%string -> lbl <> here ->
  slines_of (cpre ++ cond_code_at c lbl here ++ cpost) = Some sl ->
  ~ In here (defs cpre) -> find_label lbl sl 0 = Some kl -> bytes_ok st ->
  reach cfg sl (length cpre) st
    (fun (n pc' : nat) (s' : mstate) =>
       (n <= length (cond_code_at c lbl here))%nat /\
       s' = cond_state cfg c st /\ same_mxys st s' /\ bytes_ok s' /\
       pc' = if cond_holds cfg c st
             then (length cpre + length (cond_code_at c lbl here))%nat else kl).
Proof. exact cond_code_correct. Qed.

Theorem C01_ctl_cond_code_n : forall cfg c lbl n cpre cpost sl kl st,
  ports cfg = [] -> cond_wf cfg c ->
  lbl <> ""%string -> lbl <> lname ".ifhere" n ->
  slines_of (cpre ++ cond_code c lbl n ++ cpost) = Some sl ->
  ~ In (lname ".ifhere" n) (defs cpre) -> find_label lbl sl 0 = Some kl -> bytes_ok st ->
  reach cfg sl (length cpre) st
    (fun (k pc' : nat) (s' : mstate) =>
       (k <= length (cond_code c lbl n))%nat /\
       s' = cond_state cfg c st /\ same_mxys st s' /\ bytes_ok s' /\
       pc' = if cond_holds cfg c st then (length cpre + length (cond_code c lbl n))%nat else kl).
Proof. exact cond_code_correct_n. Qed.

(** [if (c) B] *)
Theorem C01_ctl_if : forall cfg c B lend here (R : mstate -> mstate -> Prop) st,
  ports cfg = [] -> cond_wf cfg c ->
  lend <> ""%string -> here <> ""%string -> lend <> here ->
  no_ret B -> fresh_in lend B -> fresh_in here B ->
  (forall s, bytes_ok s -> exists s', runs_to cfg B s s' /\ R s s') ->
  bytes_ok st ->
  exists st', runs_to cfg (if_tpl_at c B lend here) st st' /\
    (if cond_holds cfg c st
     then exists mid, same_mxys st mid /\ bytes_ok mid /\ R mid st'
     else same_mxys st st').
Proof. exact if_tpl_correct. Qed.

Theorem C01_ctl_if_h : forall cfg c B lend here (R : mstate -> mstate -> Prop) st,
  ports cfg = [] -> cond_wf cfg c ->
  lend <> ""%string -> here <> ""%string -> lend <> here ->
  no_ret B -> fresh_in lend B -> fresh_in here B ->
  (forall s, bytes_ok s -> exists s', halts_to cfg B s s' /\ R s s') ->
  bytes_ok st ->
  exists st', halts_to cfg (if_tpl_at c B lend here) st st' /\
    (if cond_holds cfg c st
     then exists mid, same_mxys st mid /\ bytes_ok mid /\ R mid st'
     else same_mxys st st').
Proof. exact if_tpl_correct_h. Qed.

(** [if (c) B1 else B2] *)
Theorem C01_ctl_ifelse : forall cfg c B1 B2 lelse lend here
    (R1 R2 : mstate -> mstate -> Prop) st,
  ports cfg = [] -> cond_wf cfg c ->
  lelse <> ""%string -> lend <> ""%string -> here <> ""%string ->
  lelse <> here -> lend <> here -> lelse <> lend ->
  no_ret B1 -> no_ret B2 ->
  fresh_in lelse B1 -> fresh_in lend B1 -> fresh_in here B1 ->
  fresh_in lelse B2 -> fresh_in lend B2 -> fresh_in here B2 ->
  defs_disjoint B1 B2 ->
  (forall s, bytes_ok s -> exists s', runs_to cfg B1 s s' /\ R1 s s') ->
  (forall s, bytes_ok s -> exists s', runs_to cfg B2 s s' /\ R2 s s') ->
  bytes_ok st ->
  exists st', runs_to cfg (ifelse_tpl_at c B1 B2 lelse lend here) st st' /\
    exists mid, same_mxys st mid /\ bytes_ok mid /\
      if cond_holds cfg c st then R1 mid st' else R2 mid st'.
Proof. exact ifelse_tpl_correct. Qed.

Theorem C01_ctl_ifelse_h : forall cfg c B1 B2 lelse lend here
    (R1 R2 : mstate -> mstate -> Prop) st,
  ports cfg = [] -> cond_wf cfg c ->
  lelse <> ""%string -> lend <> ""%string -> here <> ""%string ->
  lelse <> here -> lend <> here -> lelse <> lend ->
  no_ret B1 -> no_ret B2 ->
  fresh_in lelse B1 -> fresh_in lend B1 -> fresh_in here B1 ->
  fresh_in lelse B2 -> fresh_in lend B2 -> fresh_in here B2 ->
  defs_disjoint B1 B2 ->
  (forall s, bytes_ok s -> exists s', halts_to cfg B1 s s' /\ R1 s s') ->
  (forall s, bytes_ok s -> exists s', halts_to cfg B2 s s' /\ R2 s s') ->
  bytes_ok st ->
  exists st', halts_to cfg (ifelse_tpl_at c B1 B2 lelse lend here) st st' /\
    exists mid, same_mxys st mid /\ bytes_ok mid /\
      if cond_holds cfg c st then R1 mid st' else R2 mid st'.
Proof. exact ifelse_tpl_correct_h. Qed.

(** [while (c) B]: the while rule *)
Theorem C01_ctl_while : forall cfg c B lhead lend here
    (I : mstate -> Prop) (mu : mstate -> Z) st,
  ports cfg = [] -> cond_wf cfg c ->
  lhead <> ""%string -> lend <> ""%string -> here <> ""%string ->
  lhead <> lend -> lhead <> here -> lend <> here ->
  no_ret B -> fresh_in lhead B -> fresh_in lend B -> fresh_in here B ->
  (exists slB, slines_of B = Some slB) ->
  (forall s s', same_mxys s s' -> I s -> I s') ->
  (forall s s', same_mxys s s' -> mu s' = mu s) ->
  (forall s, bytes_ok s -> I s -> cond_holds cfg c s = true ->
     0 <= mu s /\ exists s', halts_to cfg B s s' /\ I s' /\ mu s' < mu s) ->
  bytes_ok st -> I st ->
  exists st', halts_to cfg (while_tpl_at c B lhead lend here) st st' /\
    I st' /\ cond_holds cfg c st' = false /\ bytes_ok st'.
Proof. exact while_tpl_correct. Qed.

(** the body [dst = k;] of the listing *)
Theorem C01_ctl_assign8 : forall cfg dst k pd st,
  ports cfg = [] -> var_name dst -> layout cfg dst = Some pd -> 0 <= pd < 65536 -> 0 <= k < 256 ->
  exists st', runs_to cfg (assign8 dst k) st st' /\
    mget (mem st') pd = k /\ only_changes [pd] st st' /\ keeps_xys st st'.
Proof. exact assign8_correct. Qed.

(** [if (c) dst = k;] and [if (c) dst = k1; else dst = k2;] for any 8-bit condition and labels *)
Theorem C01_ctl_if_assign : forall cfg c dst k lend here pd st,
  ports cfg = [] -> cond_wf cfg c ->
  lend <> ""%string -> here <> ""%string -> lend <> here ->
  var_name dst -> layout cfg dst = Some pd -> 0 <= pd < 65536 -> 0 <= k < 256 ->
  bytes_ok st ->
  exists st', runs_to cfg (if_tpl_at c (assign8 dst k) lend here) st st' /\
    mget (mem st') pd = (if cond_holds cfg c st then k else mget (mem st) pd) /\
    only_changes [pd] st st' /\ keeps_xys st st'.
Proof. exact if_assign_correct. Qed.

Theorem C01_ctl_ifelse_assign : forall cfg c dst k1 k2 lelse lend here pd st,
  ports cfg = [] -> cond_wf cfg c ->
  lelse <> ""%string -> lend <> ""%string -> here <> ""%string ->
  lelse <> here -> lend <> here -> lelse <> lend ->
  var_name dst -> layout cfg dst = Some pd -> 0 <= pd < 65536 ->
  0 <= k1 < 256 -> 0 <= k2 < 256 ->
  bytes_ok st ->
  exists st', runs_to cfg (ifelse_tpl_at c (assign8 dst k1) (assign8 dst k2) lelse lend here) st st' /\
    mget (mem st') pd = (if cond_holds cfg c st then k1 else k2) /\
    only_changes [pd] st st' /\ keeps_xys st st'.
Proof. exact ifelse_assign_correct. Qed.

(** the 18 if / if-else listings: generic in the operator, the compiler's labels, any number,
    any addresses.  Listings 01 05 09 13 17 21: [if (a o b) c = 1;] *)
Theorem C01_ctl_if_var_listing : forall o cfg x y dst k n px py pd st,
  ports cfg = [] -> var_name x -> var_name y -> var_name dst ->
  layout cfg x = Some px -> layout cfg y = Some py -> layout cfg dst = Some pd ->
  0 <= px < 65536 -> 0 <= py < 65536 -> 0 <= pd < 65536 -> 0 <= k < 256 ->
  bytes_ok st ->
  exists st', runs_to cfg (if_tpl (CVar o x y) (assign8 dst k) n) st st' /\
    mget (mem st') pd
    = (if rel_holds o (mget (mem st) px) (mget (mem st) py) then k else mget (mem st) pd) /\
    only_changes [pd] st st' /\ keeps_xys st st'.
Proof. exact if_var_listing. Qed.

(** listings 02 06 10 14 18 22: [if (a o b) c = 1; else c = 2;] *)
Theorem C01_ctl_ifelse_var_listing : forall o cfg x y dst k1 k2 n px py pd st,
  ports cfg = [] -> var_name x -> var_name y -> var_name dst ->
  layout cfg x = Some px -> layout cfg y = Some py -> layout cfg dst = Some pd ->
  0 <= px < 65536 -> 0 <= py < 65536 -> 0 <= pd < 65536 -> 0 <= k1 < 256 -> 0 <= k2 < 256 ->
  bytes_ok st ->
  exists st', runs_to cfg (ifelse_tpl (CVar o x y) (assign8 dst k1) (assign8 dst k2) n) st st' /\
    mget (mem st') pd = (if rel_holds o (mget (mem st) px) (mget (mem st) py) then k1 else k2) /\
    only_changes [pd] st st' /\ keeps_xys st st'.
Proof. exact ifelse_var_listing. Qed.

(** listings 03 07 11 15 19 23: [if (a o 5) c = 1; else c = 2;] *)
Theorem C01_ctl_ifelse_const_listing : forall o cfg x kc dst k1 k2 n px pd st,
  ports cfg = [] -> var_name x -> var_name dst ->
  layout cfg x = Some px -> layout cfg dst = Some pd ->
  0 <= px < 65536 -> 0 <= pd < 65536 -> 0 <= kc < 256 -> 0 <= k1 < 256 -> 0 <= k2 < 256 ->
  bytes_ok st ->
  exists st', runs_to cfg (ifelse_tpl (CConst o x kc) (assign8 dst k1) (assign8 dst k2) n) st st' /\
    mget (mem st') pd = (if rel_holds o (mget (mem st) px) kc then k1 else k2) /\
    only_changes [pd] st st' /\ keeps_xys st st'.
Proof. exact ifelse_const_listing. Qed.

(** on the listing's own names (a, b, c at 128, 129, 130) *)
Theorem C01_ctl_listing_if_lt_else : forall st, bytes_ok st ->
  exists st', runs_to cfg_listing (ifelse_tpl (CVar RLt "a" "b") (assign8 "c" 1) (assign8 "c" 2) 1) st st' /\
    mget (mem st') 130 = (if mget (mem st) 128 <? mget (mem st) 129 then 1 else 2) /\
    mget (mem st') 128 = mget (mem st) 128 /\ mget (mem st') 129 = mget (mem st) 129 /\
    only_changes [130] st st' /\ keeps_xys st st'.
Proof. exact listing_if_lt_else. Qed.

Theorem C01_ctl_listing_if_le : forall st, bytes_ok st ->
  exists st', runs_to cfg_listing (if_tpl (CVar RLte "a" "b") (assign8 "c" 1) 1) st st' /\
    mget (mem st') 130 = (if mget (mem st) 128 <=? mget (mem st) 129 then 1 else mget (mem st) 130) /\
    only_changes [130] st st' /\ keeps_xys st st'.
Proof. exact listing_if_le. Qed.

Theorem C01_ctl_listing_if_gt5_else : forall st, bytes_ok st ->
  exists st', runs_to cfg_listing (ifelse_tpl (CConst RGt "a" 5) (assign8 "c" 1) (assign8 "c" 2) 1) st st' /\
    mget (mem st') 130 = (if 5 <? mget (mem st) 128 then 1 else 2) /\
    only_changes [130] st st' /\ keeps_xys st st'.
Proof. exact listing_if_gt5_else. Qed.

(** the while rule on the listing: [while (a != b) a++;] (08) halts from EVERY byte-valued state
    with [a = b]; [while (a < b) a++;] (12) ends with [a = max a b] *)
Theorem C01_ctl_while_ne_inc : forall cfg a b n pa pb st,
  ports cfg = [] -> var_name a -> var_name b ->
  layout cfg a = Some pa -> layout cfg b = Some pb ->
  0 <= pa < 65536 -> 0 <= pb < 65536 -> pa <> pb ->
  bytes_ok st ->
  exists st', halts_to cfg (while_tpl (CVar RNeq a b) (template (SInc8 a)) n) st st' /\
    mget (mem st') pa = mget (mem st) pb /\
    only_changes [pa] st st' /\ keeps_xys st st'.
Proof. exact while_ne_inc_correct. Qed.

Theorem C01_ctl_while_lt_inc : forall cfg a b n pa pb st,
  ports cfg = [] -> var_name a -> var_name b ->
  layout cfg a = Some pa -> layout cfg b = Some pb ->
  0 <= pa < 65536 -> 0 <= pb < 65536 -> pa <> pb ->
  bytes_ok st ->
  exists st', halts_to cfg (while_tpl (CVar RLt a b) (template (SInc8 a)) n) st st' /\
    mget (mem st') pa = Z.max (mget (mem st) pa) (mget (mem st) pb) /\
    only_changes [pa] st st' /\ keeps_xys st st'.
Proof. exact while_lt_inc_correct. Qed.

Theorem C01_ctl_listing_while_ne : forall st, bytes_ok st ->
  exists st', halts_to cfg_listing (while_tpl (CVar RNeq "a" "b") (template (SInc8 "a")) 1) st st' /\
    mget (mem st') 128 = mget (mem st) 129 /\
    only_changes [128] st st' /\ keeps_xys st st'.
Proof. exact listing_while_ne. Qed.

Theorem C01_ctl_listing_while_lt : forall st, bytes_ok st ->
  exists st', halts_to cfg_listing (while_tpl (CVar RLt "a" "b") (template (SInc8 "a")) 1) st st' /\
    mget (mem st') 128 = Z.max (mget (mem st) 128) (mget (mem st) 129) /\
    only_changes [128] st st' /\ keeps_xys st st'.
Proof. exact listing_while_lt. Qed.

(** the templates nest: [if (a < b) while (a != b) a++;] *)
Theorem C01_ctl_nested_if_while : forall cfg a b n m pa pb st,
  ports cfg = [] -> var_name a -> var_name b ->
  layout cfg a = Some pa -> layout cfg b = Some pb ->
  0 <= pa < 65536 -> 0 <= pb < 65536 -> pa <> pb ->
  bytes_ok st ->
  exists st', halts_to cfg (if_tpl (CVar RLt a b)
                              (while_tpl (CVar RNeq a b) (template (SInc8 a)) m) n) st st' /\
    mget (mem st') pa = Z.max (mget (mem st) pa) (mget (mem st) pb) /\
    only_changes [pa] st st' /\ keeps_xys st st'.
Proof. exact nested_if_while_correct. Qed.

(** * do-while, for, switch (Model/GenCtl.v; the [clisting_NN] examples there are compared with the
    real compiler; proofs in Proofs/GenCtlFacts.v).  The labels: no label is defined twice in the
    emitted statement ([NoDup (defs ...)]); the bodies: a specification, no RTS / RTI. *)
From CC Require Import Model.GenCtl Proofs.GenCtlFacts.

(** [do B while (c)]: the do-while rule *)
Theorem C01_ctl_dowhile : forall cfg c B lhead lend here
    (I Q : mstate -> Prop) (mu : mstate -> Z) st,
  ports cfg = [] -> cond_wf cfg c ->
  lhead <> ""%string -> here <> ""%string -> lhead <> here ->
  NoDup (defs (dowhile_tpl_at c B lhead lend here)) -> no_ret B ->
  (forall s s', same_mxys s s' -> I s -> I s') ->
  (forall s s', same_mxys s s' -> Q s -> Q s') ->
  (forall s s', same_mxys s s' -> mu s' = mu s) ->
  (forall s, bytes_ok s -> I s ->
     exists s', halts_to cfg B s s' /\ Q s' /\
       (cond_holds cfg c s' = true -> I s' /\ 0 <= mu s' < mu s)) ->
  bytes_ok st -> I st ->
  exists st', halts_to cfg (dowhile_tpl_at c B lhead lend here) st st' /\
    Q st' /\ cond_holds cfg c st' = false /\ bytes_ok st'.
Proof. exact dowhile_tpl_correct. Qed.

(** [for (Init; c; U) B], bodies without [break] / [continue] *)
Theorem C01_ctl_for : forall cfg Init c U B lfor lupd lend here
    (I : mstate -> Prop) (mu : mstate -> Z) st,
  ports cfg = [] -> cond_wf cfg c ->
  lfor <> ""%string -> lend <> ""%string -> here <> ""%string -> lfor <> here -> lend <> here ->
  NoDup (defs (for_tpl_at Init c U B lfor lupd lend here)) ->
  no_ret Init -> no_ret B -> no_ret U ->
  (exists slB, slines_of B = Some slB) -> (exists slU, slines_of U = Some slU) ->
  (forall s s', same_mxys s s' -> I s -> I s') ->
  (forall s s', same_mxys s s' -> mu s' = mu s) ->
  (exists s0, halts_to cfg Init st s0 /\ I s0) ->
  (forall s, bytes_ok s -> I s -> cond_holds cfg c s = true ->
     0 <= mu s /\
     exists s1, halts_to cfg B s s1 /\ exists s2, halts_to cfg U s1 s2 /\ I s2 /\ mu s2 < mu s) ->
  bytes_ok st ->
  exists st', halts_to cfg (for_tpl_at Init c U B lfor lupd lend here) st st' /\
    I st' /\ cond_holds cfg c st' = false /\ bytes_ok st'.
Proof. exact for_tpl_correct. Qed.

(** bodies that may [break] / [continue]: [body_exits]; a body that simply halts is one *)
Theorem C01_ctl_body_exits_halts : forall cfg B lbrk lcont s s' (Nm : mstate -> Prop),
  halts_to cfg B s s' -> no_ret B -> Nm s' ->
  body_exits cfg B lbrk lcont s Nm (fun _ => False) (fun _ => False).
Proof. exact halts_body_exits. Qed.

(** [if (c) break; B'] *)
Theorem C01_ctl_break_if : forall cfg c B' lbrk lcont here s (Nm Bk : mstate -> Prop),
  ports cfg = [] -> cond_wf cfg c ->
  lbrk <> ""%string -> here <> ""%string -> lbrk <> here ->
  no_ret B' -> (exists sl, slines_of B' = Some sl) -> bytes_ok s ->
  (cond_holds cfg c s = true -> Bk (cond_state cfg c s)) ->
  (cond_holds cfg c s = false -> exists s', halts_to cfg B' (cond_state cfg c s) s' /\ Nm s') ->
  body_exits cfg (break_if_at c lbrk here ++ B') lbrk lcont s Nm Bk (fun _ => False).
Proof. exact break_if_exits. Qed.

(** the for rule for a body that may [break] / [continue] *)
Theorem C01_ctl_for_break : forall cfg Init c U B lfor lupd lend here
    (I Bk : mstate -> Prop) (J : mstate -> mstate -> Prop) (mu : mstate -> Z) st,
  ports cfg = [] -> cond_wf cfg c ->
  lfor <> ""%string -> lend <> ""%string -> here <> ""%string -> lfor <> here -> lend <> here ->
  NoDup (defs (for_tpl_at Init c U B lfor lupd lend here)) ->
  no_ret Init -> no_ret U ->
  (exists slB, slines_of B = Some slB) -> (exists slU, slines_of U = Some slU) ->
  (forall s s', same_mxys s s' -> I s -> I s') ->
  (forall s s', same_mxys s s' -> mu s' = mu s) ->
  (exists s0, halts_to cfg Init st s0 /\ I s0) ->
  (forall s, bytes_ok s -> I s -> cond_holds cfg c s = true ->
     0 <= mu s /\
     body_exits cfg B lend lupd s (fun s1 => bytes_ok s1 /\ J s s1)
       (fun s1 => bytes_ok s1 /\ Bk s1) (fun s1 => bytes_ok s1 /\ J s s1)) ->
  (forall s s1, bytes_ok s1 -> J s s1 -> exists s2, halts_to cfg U s1 s2 /\ I s2 /\ mu s2 < mu s) ->
  bytes_ok st ->
  exists st', halts_to cfg (for_tpl_at Init c U B lfor lupd lend here) st st' /\
    bytes_ok st' /\ ((I st' /\ cond_holds cfg c st' = false) \/ Bk st').
Proof. exact for_tpl_break_correct. Qed.

(** switch, ANY list of cases: the code runs exactly the bodies [switch_sem] computes *)
Theorem C01_ctl_switch : forall cfg e cs d L st,
  ports cfg = [] -> sw_wf cfg e -> labels_ne L ->
  NoDup (defs (switch_tpl_at e cs d L)) ->
  (forall cse, In cse cs -> forall v, In v (sc_vals cse) -> 0 <= v < 256) ->
  (forall B, In B (sw_bodies cs d) -> body_total cfg B) ->
  bytes_ok st ->
  exists mid st', same_mxys st mid /\ bytes_ok mid /\
    halts_to cfg (switch_tpl_at e cs d L) st st' /\
    exec_bodies cfg (switch_sem (sw_val cfg e st) cs d) mid st' /\ bytes_ok st'.
Proof. exact switch_tpl_correct. Qed.

(** with the compiler's labels *)
Theorem C01_ctl_switch_n : forall cfg e cs d n st,
  ports cfg = [] -> sw_wf cfg e ->
  NoDup (defs (switch_tpl e cs d n)) ->
  (forall cse, In cse cs -> forall v, In v (sc_vals cse) -> 0 <= v < 256) ->
  (forall B, In B (sw_bodies cs d) -> body_total cfg B) ->
  bytes_ok st ->
  exists mid st', same_mxys st mid /\ bytes_ok mid /\
    halts_to cfg (switch_tpl e cs d n) st st' /\
    exec_bodies cfg (switch_sem (sw_val cfg e st) cs d) mid st' /\ bytes_ok st'.
Proof. exact switch_tpl_correct_n. Qed.

(** switches whose statements are [dst = k;]: the last assignment executed *)
Theorem C01_ctl_switch_assign : forall cfg e (ks : list (sw_case Z)) (dk : option Z) dst pd L st,
  ports cfg = [] -> sw_wf cfg e -> labels_ne L ->
  var_name dst -> layout cfg dst = Some pd -> 0 <= pd < 65536 ->
  NoDup (defs (switch_tpl_at e (map (map_case (assign8 dst)) ks) (option_map (assign8 dst) dk) L)) ->
  (forall c, In c ks -> (forall v, In v (sc_vals c) -> 0 <= v < 256) /\ 0 <= sc_body c < 256) ->
  (forall k, dk = Some k -> 0 <= k < 256) ->
  bytes_ok st ->
  exists st',
    halts_to cfg (switch_tpl_at e (map (map_case (assign8 dst)) ks) (option_map (assign8 dst) dk) L)
      st st' /\
    mget (mem st') pd = last (switch_sem (sw_val cfg e st) ks dk) (mget (mem st) pd) /\
    only_changes [pd] st st' /\ keeps_xys st st'.
Proof. exact switch_assign_correct. Qed.

(** listing 07: switch (a) { case 1: c = 1; break; case 2: c = 2; break; default: c = 3; } *)
Theorem C01_ctl_switch_listing_07 : forall cfg x dst px pd st,
  ports cfg = [] -> var_name x -> var_name dst ->
  layout cfg x = Some px -> layout cfg dst = Some pd -> 0 <= px < 65536 -> 0 <= pd < 65536 ->
  bytes_ok st ->
  exists st',
    halts_to cfg (switch_tpl (SwMem x) [mkCase [1] (assign8 dst 1) false;
                                        mkCase [2] (assign8 dst 2) false]
                    (Some (assign8 dst 3)) 1) st st' /\
    mget (mem st') pd
    = (if mget (mem st) px =? 1 then 1 else if mget (mem st) px =? 2 then 2 else 3) /\
    only_changes [pd] st st' /\ keeps_xys st st'.
Proof. exact switch_listing_07. Qed.

(** listing 08: switch (a) { case 1: c = 1; case 2: c = 2; break; } *)
Theorem C01_ctl_switch_listing_08 : forall cfg x dst px pd st,
  ports cfg = [] -> var_name x -> var_name dst ->
  layout cfg x = Some px -> layout cfg dst = Some pd -> 0 <= px < 65536 -> 0 <= pd < 65536 ->
  bytes_ok st ->
  exists st',
    halts_to cfg (switch_tpl (SwMem x) [mkCase [1] (assign8 dst 1) true;
                                        mkCase [2] (assign8 dst 2) false] None 1) st st' /\
    mget (mem st') pd
    = (if (mget (mem st) px =? 1) || (mget (mem st) px =? 2) then 2 else mget (mem st) pd) /\
    only_changes [pd] st st' /\ keeps_xys st st'.
Proof. exact switch_listing_08. Qed.

(** listing 09: switch (a) { case 1: case 3: c = 1; break; default: c = 2; } *)
Theorem C01_ctl_switch_listing_09 : forall cfg x dst px pd st,
  ports cfg = [] -> var_name x -> var_name dst ->
  layout cfg x = Some px -> layout cfg dst = Some pd -> 0 <= px < 65536 -> 0 <= pd < 65536 ->
  bytes_ok st ->
  exists st',
    halts_to cfg (switch_tpl (SwMem x) [mkCase [1; 3] (assign8 dst 1) false]
                    (Some (assign8 dst 2)) 1) st st' /\
    mget (mem st') pd
    = (if (mget (mem st) px =? 1) || (mget (mem st) px =? 3) then 1 else 2) /\
    only_changes [pd] st st' /\ keeps_xys st st'.
Proof. exact switch_listing_09. Qed.

(** listing 10: switch (X) { case 0: c = 1; break; case 5: c = 2; break; } *)
Theorem C01_ctl_switch_listing_10 : forall cfg dst pd st,
  ports cfg = [] -> var_name dst -> layout cfg dst = Some pd -> 0 <= pd < 65536 ->
  bytes_ok st ->
  exists st',
    halts_to cfg (switch_tpl SwX [mkCase [0] (assign8 dst 1) false;
                                  mkCase [5] (assign8 dst 2) false] None 1) st st' /\
    mget (mem st') pd
    = (if rX st =? 0 then 1 else if rX st =? 5 then 2 else mget (mem st) pd) /\
    only_changes [pd] st st' /\ keeps_xys st st'.
Proof. exact switch_listing_10. Qed.

(** listing 01: do { c = 1; } while (a < b); (ends iff a >= b at the start) *)
Theorem C01_ctl_dowhile_lt_assign : forall cfg a b c n pa pb pc st,
  ports cfg = [] -> var_name a -> var_name b -> var_name c ->
  layout cfg a = Some pa -> layout cfg b = Some pb -> layout cfg c = Some pc ->
  0 <= pa < 65536 -> 0 <= pb < 65536 -> 0 <= pc < 65536 -> pc <> pa -> pc <> pb ->
  bytes_ok st -> mget (mem st) pb <= mget (mem st) pa ->
  exists st', halts_to cfg (dowhile_tpl (CVar RLt a b) (assign8 c 1) n) st st' /\
    mget (mem st') pc = 1 /\ only_changes [pc] st st' /\ keeps_xys st st'.
Proof. exact dowhile_lt_assign_correct. Qed.

(** listing 02: do { a++; } while (a != b); *)
Theorem C01_ctl_dowhile_ne_inc : forall cfg a b n pa pb st,
  ports cfg = [] -> var_name a -> var_name b ->
  layout cfg a = Some pa -> layout cfg b = Some pb ->
  0 <= pa < 65536 -> 0 <= pb < 65536 -> pa <> pb ->
  bytes_ok st ->
  exists st', halts_to cfg (dowhile_tpl (CVar RNeq a b) (template (SInc8 a)) n) st st' /\
    mget (mem st') pa = mget (mem st) pb /\
    only_changes [pa] st st' /\ keeps_xys st st'.
Proof. exact dowhile_ne_inc_correct. Qed.

(** listing 03: do { a++; } while (a <= b); (for b < 255) *)
Theorem C01_ctl_dowhile_le_inc : forall cfg a b n pa pb st,
  ports cfg = [] -> var_name a -> var_name b ->
  layout cfg a = Some pa -> layout cfg b = Some pb ->
  0 <= pa < 65536 -> 0 <= pb < 65536 -> pa <> pb ->
  bytes_ok st -> mget (mem st) pb < 255 ->
  exists st', halts_to cfg (dowhile_tpl (CVar RLte a b) (template (SInc8 a)) n) st st' /\
    mget (mem st') pa
    = (if (mget (mem st) pa + 1) mod 256 <=? mget (mem st) pb
       then mget (mem st) pb + 1 else (mget (mem st) pa + 1) mod 256) /\
    only_changes [pa] st st' /\ keeps_xys st st'.
Proof. exact dowhile_le_inc_correct. Qed.

(** listing 04: for (i = 0; i != b; i++) c = 1; *)
Theorem C01_ctl_for_ne_assign : forall cfg i b c n pi pb pc st,
  ports cfg = [] -> var_name i -> var_name b -> var_name c ->
  layout cfg i = Some pi -> layout cfg b = Some pb -> layout cfg c = Some pc ->
  0 <= pi < 65536 -> 0 <= pb < 65536 -> 0 <= pc < 65536 ->
  pi <> pb -> pc <> pi -> pc <> pb ->
  bytes_ok st ->
  exists st',
    halts_to cfg (for_tpl (assign8 i 0) (CVar RNeq i b) (template (SInc8 i)) (assign8 c 1) n) st st' /\
    mget (mem st') pi = mget (mem st) pb /\
    mget (mem st') pc = (if mget (mem st) pb =? 0 then mget (mem st) pc else 1) /\
    only_changes [pi; pc] st st' /\ keeps_xys st st'.
Proof. exact for_ne_assign_correct. Qed.

(** listing 05: for (i = a; i < b; i++) c = 1; *)
Theorem C01_ctl_for_lt_assign : forall cfg i a b c n pi pa pb pc st,
  ports cfg = [] -> var_name i -> var_name a -> var_name b -> var_name c ->
  layout cfg i = Some pi -> layout cfg a = Some pa -> layout cfg b = Some pb ->
  layout cfg c = Some pc ->
  0 <= pi < 65536 -> 0 <= pa < 65536 -> 0 <= pb < 65536 -> 0 <= pc < 65536 ->
  pi <> pb -> pc <> pi -> pc <> pb ->
  bytes_ok st ->
  exists st',
    halts_to cfg (for_tpl (template (SCopy8 i a)) (CVar RLt i b) (template (SInc8 i)) (assign8 c 1) n)
      st st' /\
    mget (mem st') pi = Z.max (mget (mem st) pa) (mget (mem st) pb) /\
    mget (mem st') pc = (if mget (mem st) pa <? mget (mem st) pb then 1 else mget (mem st) pc) /\
    only_changes [pi; pc] st st' /\ keeps_xys st st'.
Proof. exact for_lt_assign_correct. Qed.

(** listing 06: for (i = 0; i != 4; i++) { if (a == b) break; c = 1; } *)
Theorem C01_ctl_for_break_listing : forall cfg i a b c n pi pa pb pc st,
  ports cfg = [] -> var_name i -> var_name a -> var_name b -> var_name c ->
  layout cfg i = Some pi -> layout cfg a = Some pa -> layout cfg b = Some pb ->
  layout cfg c = Some pc ->
  0 <= pi < 65536 -> 0 <= pa < 65536 -> 0 <= pb < 65536 -> 0 <= pc < 65536 ->
  pi <> pa -> pi <> pb -> pc <> pa -> pc <> pb -> pc <> pi ->
  bytes_ok st ->
  exists st',
    halts_to cfg (for_tpl (assign8 i 0) (CConst RNeq i 4) (template (SInc8 i))
                    (break_if (CVar REq a b) n ++ assign8 c 1) n) st st' /\
    mget (mem st') pi = (if mget (mem st) pa =? mget (mem st) pb then 0 else 4) /\
    mget (mem st') pc = (if mget (mem st) pa =? mget (mem st) pb then mget (mem st) pc else 1) /\
    only_changes [pi; pc] st st' /\ keeps_xys st st'.
Proof. exact for_break_correct. Qed.
