(** Function calls as the code generator emits them at -O0 (no recursion: parameters are STATIC
    cells).  Declarations of the listing:
      unsigned char a, b, c, i;
      void f() { c = 1; }                     unsigned char g() { return a; }
      unsigned char h(unsigned char x) { return x + 1; }
      unsigned char k(unsigned char x, unsigned char y) { return x + y; }
      void set(unsigned char x) { c = x; }
      unsigned char m(unsigned char x) { if (x < b) return b; return x; }

    The calling convention: the parameter [p] of the function [fn] is the cell named [fn_p]
    ([param_name]); a call evaluates the arguments in order, each into A ([arg_eval]: any code that
    leaves the value in A: a variable, a constant, another call), stores it into the parameter
    cell, then [JSR fn] ([call_tpl]); the result is in A.  [c = f(..)] appends [STA c]
    ([assign_call]); as an operand of [+ k] the result is followed by [CLC; ADC #k]
    ([eadd_const]); as a condition it is compared with 0 ([cond_expr_code_at], [if_expr_tpl]: the
    branch skeleton is GenTables' [branch_seq] of the negated [!=], as in Model/GenIf.v).
    A callee ends its [return e;] with [RTS] ([return_tpl]); a body that can fall off its end has
    no final RTS of its own: the harness (tools/lib/pipeline.py [funcs_of], as the builder
    src/tests/build.rs does) appends one [RTS] line to EVERY function body ([harness_fun]).

    The [Example]s pin the six callee bodies (without the appended RTS) and eleven call statements
    to the listing, line for line; they are compared with the real compiler on every run. *)
From Coq Require Import String Ascii List Bool NArith ZArith.
From CC Require Import Base.Str Asm.Lines M6502.Isa Asm.Operand M6502.Sem Model.GenTables
  Model.GenTemplates Model.GenLoops Model.GenIf Model.GenCtl.
Import ListNotations.
Open Scope string_scope.
Open Scope list_scope.

(** the static cell of parameter [p] of function [fn] *)
Definition param_name (fn p : string) : string := (fn ++ "_" ++ p)%string.

(** an argument: the parameter it goes to, and the code that leaves its value in A *)
Record arg_code := mkArg { arg_param : string; arg_eval : code }.

Definition pass_arg (fn : string) (a : arg_code) : code :=
  arg_eval a ++ [ins STA (param_name fn (arg_param a))].

Definition call_tpl (fn : string) (args : list arg_code) : code :=
  flat_map (pass_arg fn) args ++ [ins JSR fn].

(** expressions whose value is left in A *)
Definition evar (x : string) : code := [ins LDA x].
Definition econst (k : Z) : code := [ins LDA (imm k)].
Definition eadd_const (e : code) (k : Z) : code := e ++ [ins CLC ""; ins ADC (imm k)].
Definition eadd_var (e : code) (y : string) : code := e ++ [ins CLC ""; ins ADC y].

(** [dst = e;] and [dst = fn(args);] *)
Definition assign_expr (dst : string) (e : code) : code := e ++ [ins STA dst].
Definition assign_call (dst fn : string) (args : list arg_code) : code :=
  assign_expr dst (call_tpl fn args).

(** [return e;] *)
Definition return_tpl (e : code) : code := e ++ [ins RTS ""].

(** an expression as a condition: [e o k] is false -> jump to [lbl] *)
Definition cond_expr_code_at (e : code) (o : relop) (k : Z) (lbl here : string) : code :=
  e ++ [ins CMP (imm k)] ++ branch_seq (negate_op o) false lbl here.

(** [if (e) body] is [if (e != 0) body] *)
Definition if_expr_tpl_at (e : code) (body : code) (lend here : string) : code :=
  cond_expr_code_at e RNeq 0 lend here ++ body ++ [Lbl lend].
Definition if_expr_tpl (e : code) (body : code) (n : N) : code :=
  if_expr_tpl_at e body (lname ".ifend" n) (lname ".ifhere" (n + 1)).

(** the functions of the listing *)
Definition fun_f : code := assign8 "c" 1.
Definition fun_g : code := return_tpl (evar "a").
Definition fun_h : code := return_tpl (eadd_const (evar (param_name "h" "x")) 1).
Definition fun_k : code := return_tpl (eadd_var (evar (param_name "k" "x")) (param_name "k" "y")).
Definition fun_set : code := template (SCopy8 "c" (param_name "set" "x")).
Definition fun_m : code :=
  if_tpl (CVar RLt (param_name "m" "x") "b") (return_tpl (evar "b")) 1
  ++ return_tpl (evar (param_name "m" "x")).

(** what is run: the body and the RTS the harness appends to every function *)
Definition harness_fun (body : code) : code := body ++ [ins RTS ""].

(** a program table from the function bodies *)
Fixpoint prog_of (fs : list (string * code)) : option sprogram :=
  match fs with
  | [] => Some []
  | (n, b) :: r =>
      match slines_of (harness_fun b), prog_of r with
      | Some sl, Some p => Some ((n, sl) :: p)
      | _, _ => None
      end
  end.

Definition listing_funs : list (string * code) :=
  [("f", fun_f); ("g", fun_g); ("h", fun_h); ("k", fun_k); ("set", fun_set); ("m", fun_m)].

(** * The 17 listings: six callee bodies, eleven statements of main *)
Local Open Scope Z_scope.
(** function f *)
Example flisting_01 : map show (fun_f) =
  ["LDA #1"; "STA c"].
Proof. vm_compute. reflexivity. Qed.

(** function g *)
Example flisting_02 : map show (fun_g) =
  ["LDA a"; "RTS "].
Proof. vm_compute. reflexivity. Qed.

(** function h *)
Example flisting_03 : map show (fun_h) =
  ["LDA h_x"; "CLC "; "ADC #1"; "RTS "].
Proof. vm_compute. reflexivity. Qed.

(** function k *)
Example flisting_04 : map show (fun_k) =
  ["LDA k_x"; "CLC "; "ADC k_y"; "RTS "].
Proof. vm_compute. reflexivity. Qed.

(** function set *)
Example flisting_05 : map show (fun_set) =
  ["LDA set_x"; "STA c"].
Proof. vm_compute. reflexivity. Qed.

(** function m *)
Example flisting_06 : map show (fun_m) =
  ["LDA m_x"; "CMP b"; "BCS .ifend1"; "LDA b"; "RTS "; ".ifend1:"; "LDA m_x"; "RTS "].
Proof. vm_compute. reflexivity. Qed.

(** f(); *)
Example flisting_07 : map show (call_tpl "f" []) =
  ["JSR f"].
Proof. vm_compute. reflexivity. Qed.

(** c = g(); *)
Example flisting_08 : map show (assign_call "c" "g" []) =
  ["JSR g"; "STA c"].
Proof. vm_compute. reflexivity. Qed.

(** c = h(a); *)
Example flisting_09 : map show (assign_call "c" "h" [mkArg "x" (evar "a")]) =
  ["LDA a"; "STA h_x"; "JSR h"; "STA c"].
Proof. vm_compute. reflexivity. Qed.

(** c = k(a, b); *)
Example flisting_10 : map show (assign_call "c" "k" [mkArg "x" (evar "a"); mkArg "y" (evar "b")]) =
  ["LDA a"; "STA k_x"; "LDA b"; "STA k_y"; "JSR k"; "STA c"].
Proof. vm_compute. reflexivity. Qed.

(** set(5); *)
Example flisting_11 : map show (call_tpl "set" [mkArg "x" (econst 5)]) =
  ["LDA #5"; "STA set_x"; "JSR set"].
Proof. vm_compute. reflexivity. Qed.

(** c = h(h(a)); *)
Example flisting_12 : map show (assign_call "c" "h" [mkArg "x" (call_tpl "h" [mkArg "x" (evar "a")])]) =
  ["LDA a"; "STA h_x"; "JSR h"; "STA h_x"; "JSR h"; "STA c"].
Proof. vm_compute. reflexivity. Qed.

(** c = k(g(), 3); *)
Example flisting_13 : map show (assign_call "c" "k" [mkArg "x" (call_tpl "g" []); mkArg "y" (econst 3)]) =
  ["JSR g"; "STA k_x"; "LDA #3"; "STA k_y"; "JSR k"; "STA c"].
Proof. vm_compute. reflexivity. Qed.

(** if (g()) c = 1; *)
Example flisting_14 : map show (if_expr_tpl (call_tpl "g" []) (assign8 "c" 1) 1) =
  ["JSR g"; "CMP #0"; "BEQ .ifend1"; "LDA #1"; "STA c"; ".ifend1:"].
Proof. vm_compute. reflexivity. Qed.

(** for (i = 0; i != 3; i++) f(); *)
Example flisting_15 : map show (for_tpl (assign8 "i" 0) (CConst RNeq "i" 3) (template (SInc8 "i")) (call_tpl "f" []) 1) =
  ["LDA #0"; "STA i"; "LDA i"; "CMP #3"; "BEQ .forend1"; ".for1:"; "JSR f"; ".forupdate1:";
   "INC i"; "LDA i"; "CMP #3"; "BNE .for1"; ".forend1:"].
Proof. vm_compute. reflexivity. Qed.

(** c = m(a); *)
Example flisting_16 : map show (assign_call "c" "m" [mkArg "x" (evar "a")]) =
  ["LDA a"; "STA m_x"; "JSR m"; "STA c"].
Proof. vm_compute. reflexivity. Qed.

(** a = h(a) + 1; *)
Example flisting_17 : map show (assign_expr "a" (eadd_const (call_tpl "h" [mkArg "x" (evar "a")]) 1)) =
  ["LDA a"; "STA h_x"; "JSR h"; "CLC "; "ADC #1"; "STA a"].
Proof. vm_compute. reflexivity. Qed.
