(** Size and legality of what [asm()] selects (C04, C13, C17): finite case analyses over
    mnemonics x operand kinds x variable attributes. *)
From Coq Require Import String Ascii List Bool NArith ZArith Lia.
From CC Require Import Base.Str Asm.Lines M6502.Isa Asm.Operand Model.AsmSel.
Import ListNotations.

Ltac inv_emit H :=
  match type of H with
  | AEmit _ _ _ = AEmit _ _ _ => injection H as <- <- <-
  | _ => discriminate H
  end.

Tactic Notation "finish" hyp(R) :=
  (cbn in R; first [ discriminate R | injection R as <-; reflexivity ]).

(** label operands go with branches/JMP/JSR and only with them (the generator's convention;
    [JMP cctmp] and [LDA .label] are cells [asm()] does not reject but nothing requests) *)
Definition sensible (m : mnem) (e : exprtype) : bool :=
  match e with ELabel _ => takes_label m | _ => negb (takes_label m) end.

(** the reported size is the size of the encoding the assembler selects, whenever there is one *)
Theorem asm_sel_size : forall sch m e high m' sg em md,
  sensible m e = true ->
  asm_sel sch m e high = AEmit m' sg em ->
  resolve m' (shape_of (operand_of (e_op em))) (popnd_zp e) = Some md ->
  mode_size md = e_bytes em.
Proof.
  intros sch m e high m' sg em md S H R.
  destruct e as [ | v | s | [name ty c sgn mm sz] eight off | [name ty c sgn mm sz] | [name ty c sgn mm sz] | s | l ].
  - (* Nothing *) cbn in H. inv_emit H. destruct m; try discriminate S.
    all: cbn in R.
    all: first [ discriminate R | (injection R as <-; reflexivity) ].
  - (* Immediate *) cbn in H. inv_emit H. destruct m; try discriminate S.
    all: cbn in R.
    all: first [ discriminate R | (injection R as <-; reflexivity) ].
  - (* Tmp *) cbn in H. inv_emit H. destruct m; try discriminate S.
    all: cbn in R.
    all: first [ discriminate R | (injection R as <-; reflexivity) ].
  - (* Absolute *)
    unfold asm_sel in H; cbn [v_type v_mem v_const v_signed v_name v_size is_zp] in H.
    destruct ty, mm, c, eight, high; cbn in H.
    all: try discriminate H.
    all: inv_emit H.
    all: destruct m; try discriminate S.
    all: cbn in R.
    all: first [ discriminate R | (injection R as <-; reflexivity) ].
  - (* AbsoluteX *)
    unfold asm_sel in H; cbn [v_type v_mem v_const v_signed v_name v_size is_zp] in H.
    destruct (sz =? 1)%Z; destruct ty, mm, c, high; cbn in H.
    all: try discriminate H.
    all: destruct m; try discriminate S; cbn in H.
    all: try discriminate H.
    all: inv_emit H.
    all: cbn in R.
    all: first [ discriminate R | (injection R as <-; reflexivity) ].
  - (* AbsoluteY *)
    unfold asm_sel in H; cbn [v_type v_mem v_const v_signed v_name v_size is_zp] in H.
    destruct (sz =? 1)%Z; destruct ty, mm, c, high; cbn in H.
    all: try discriminate H.
    all: destruct m; try discriminate S; cbn in H.
    all: try discriminate H.
    all: inv_emit H.
    all: cbn in R.
    all: first [ discriminate R | (injection R as <-; reflexivity) ].
  - (* A *) destruct m; try discriminate S; cbn in H.
    all: try discriminate H.
    all: inv_emit H.
    all: cbn in R.
    all: first [ discriminate R | (injection R as <-; reflexivity) ].
  - (* Label *) cbn in H. destruct m; try discriminate S; cbn in H.
    all: inv_emit H.
    all: cbn in R.
    all: first [ discriminate R | (injection R as <-; reflexivity) ].
Qed.
Print Assumptions asm_sel_size.
