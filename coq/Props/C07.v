(** C07 — conditional compilation keeps exactly the active text.  Statements only.
    (The general theorem over all well-nested trees is in Proofs/CondFacts.v when present; the
    statements below are the pinned facts about the evaluator.) *)
From Coq Require Import String Ascii List Bool NArith.
From CC Require Import Base.Str Model.Cpp.
Import ListNotations.
Open Scope string_scope.

(** the known deviation of the #if evaluator from C, on the model (known findings F-C07-...) *)
Theorem C07_evaluate_two_refuted : evaluate "2" = EvOk false "" /\ evaluate "2 == 3" = EvOk true "".
Proof. split; vm_compute; reflexivity. Qed.

(** a concrete nested arrangement: only the selected branches survive, inert directives ignored *)
Theorem C07_example_nested :
  match run_cpp [] "m.c" [] (map (fun l => l ++ nl)
        ["#if 1"; "a;"; "#if 0"; "#error no"; "#define a broken"; "#elif 1"; "b;"; "#else"; "c;"; "#endif";
         "#else"; "d;"; "#include <nofile.h>"; "#endif"; "e;"]) with
  | POk p => p_out p = "a;" ++ nl ++ "b;" ++ nl ++ "e;" ++ nl /\ p_stack p = [] /\ c_macros (p_ctx p) = []
  | PErr _ => False
  end.
Proof. vm_compute. repeat split; reflexivity. Qed.
