(** C17 — split-port cartridge RAM is read and written through the right ports.  Statements on
    Model/AsmSel.v (compared exhaustively with asm()) and on the split-port memory of M6502/Sem.v. *)
From Coq Require Import String Ascii List Bool NArith ZArith Lia.
From CC Require Import Base.Str Asm.Lines M6502.Isa Asm.Operand M6502.Sem Model.AsmSel.
Import ListNotations.
Open Scope Z_scope.

(** the address offset asm() applies: stores get the write port, everything else the read port *)
Theorem C17_port_offsets : forall sch m,
  port_offset sch MSuperchip m = (if is_st m then 0 else 128) /\
  port_offset S3E MOnChip m = (if is_st m then 1024 else 0) /\
  port_offset S3EP MOnChip m = (if is_st m then 512 else 0) /\
  port_offset SOther MOnChip m = 0 /\
  port_offset sch MZeropage m = 0 /\ port_offset sch MOther m = 0.
Proof. intros sch m. destruct sch, m; repeat split; reflexivity. Qed.

(** the offset really reaches the emitted operand of a plain (8-bit, low byte) access to a char:
    "v+off" with off = requested offset + port offset *)
Theorem C17_char_access_offset : forall sch m name (c sg : bool) sz ad off,
  asm_sel sch m (EAbsolute (mkVar name VChar c sg MSuperchip sz ad) true off) false
  = AEmit m sg (mkE (PMem name (off + (if is_st m then 0 else 128)) IxNone false) 3%N (base_cyc m + 2)%N None).
Proof. intros. unfold asm_sel. cbn. destruct m; reflexivity. Qed.

(** indexed accesses to a superchip array *)
Theorem C17_indexed_offset : forall sch m name (sg : bool) sz ad,
  match asm_sel sch m (EAbsoluteX (mkVar name VCharPtr true sg MSuperchip sz ad)) false with
  | AEmit _ _ e => e_op e = PMem name (if is_st m then 0 else 128) IxX false
  | ANoEmit _ => False
  | AErr _ => True
  end.
Proof. intros. unfold asm_sel. cbn. destruct m; cbn; try exact I; reflexivity. Qed.

(** the memory model: superchip ports.  A byte stored through the write address is what a load
    through the read address (+$80) returns; a load from a write address or a store to a read
    address faults; so does any read-modify-write *)
Definition superchip_ports : list port := [(4096, 4224, 128)].

Theorem C17_write_then_read : forall a, 4096 <= a < 4224 ->
  write_addr superchip_ports a = Some a /\ read_addr superchip_ports (a + 128) = Some a.
Proof.
  intros a H. unfold superchip_ports, write_addr, read_addr, in_range.
  replace (4224 <=? a) with false by (symmetry; apply Z.leb_gt; lia).
  replace (4096 <=? a) with true by (symmetry; apply Z.leb_le; lia).
  replace (a <? 4096 + 128) with true by (symmetry; apply Z.ltb_lt; lia).
  replace (4096 <=? a + 128) with true by (symmetry; apply Z.leb_le; lia).
  replace (a + 128 <? 4096 + 128) with false by (symmetry; apply Z.ltb_ge; lia).
  replace (4224 <=? a + 128) with true by (symmetry; apply Z.leb_le; lia).
  replace (a + 128 <? 4224 + 128) with true by (symmetry; apply Z.ltb_lt; lia).
  cbn. split; [reflexivity | f_equal; lia].
Qed.

Theorem C17_wrong_port_faults : forall a, 4096 <= a < 4224 ->
  read_addr superchip_ports a = None /\ write_addr superchip_ports (a + 128) = None.
Proof.
  intros a H. unfold superchip_ports, write_addr, read_addr, in_range.
  replace (4096 <=? a) with true by (symmetry; apply Z.leb_le; lia).
  replace (a <? 4096 + 128) with true by (symmetry; apply Z.ltb_lt; lia).
  replace (4224 <=? a + 128) with true by (symmetry; apply Z.leb_le; lia).
  replace (a + 128 <? 4224 + 128) with true by (symmetry; apply Z.ltb_lt; lia).
  cbn. split; reflexivity.
Qed.

(** ordinary memory is unaffected by the port description *)
Theorem C17_ordinary_unaffected : forall a, 0 <= a < 4096 ->
  read_addr superchip_ports a = Some a /\ write_addr superchip_ports a = Some a.
Proof.
  intros a H. unfold superchip_ports, write_addr, read_addr, in_range.
  replace (4096 <=? a) with false by (symmetry; apply Z.leb_gt; lia).
  replace (4224 <=? a) with false by (symmetry; apply Z.leb_gt; lia).
  cbn. split; reflexivity.
Qed.

(** * Statement templates for split-port variables (Model/GenSplit.v, Proofs/GenSplitFacts.v)

    For each statement shape the compiler emits on [superchip] variables (25 listings pinned to
    the real compiler's output by the [slisting_NN] examples of Model/GenSplit.v): the sequence
    load-through-the-read-port / compute / store-through-the-write-port runs on [Sem.run] without
    a fault under the superchip port description, leaves the C result in the physical cell of
    the destination (16-bit: the carry reaches the high byte), changes no other cell and keeps
    X, Y, S.  The pointer forms [p++] / [p--] are [PInc16] / [PDec16].  Last: the lowering used
    for ordinary variables ([INC v]) faults on such a variable. *)
From CC Require Import Model.OptSem Model.GenTemplates Proofs.GenTemplatesFacts Model.GenSplit
  Proofs.GenSplitFacts.
Open Scope string_scope.
Open Scope list_scope.
Open Scope Z_scope.

(** the configuration of the theorems is the port description of this file *)
Theorem C17_split_cfg_superchip : forall cfg, split_cfg cfg <-> ports cfg = superchip_ports.
Proof. intros cfg. unfold split_cfg, superchip_ports. tauto. Qed.

Theorem C17_split_copy_in : forall cfg dst x pd px st,
  split_cfg cfg -> split_name dst -> split_name x ->
  layout cfg dst = Some pd -> layout cfg x = Some px ->
  in_wport pd -> ordinary px ->
  exists st', runs_to cfg (stemplate (PCopyIn dst x)) st st' /\
    mget (mem st') pd = mget (mem st) px /\
    only_changes [pd] st st' /\ keeps_xys st st'.
Proof. exact split_copy_in_correct. Qed.

Theorem C17_split_copy_out : forall cfg dst x pd px st,
  split_cfg cfg -> split_name dst -> split_name x ->
  layout cfg dst = Some pd -> layout cfg x = Some px ->
  ordinary pd -> in_wport px ->
  exists st', runs_to cfg (stemplate (PCopyOut dst x)) st st' /\
    mget (mem st') pd = mget (mem st) px /\
    only_changes [pd] st st' /\ keeps_xys st st'.
Proof. exact split_copy_out_correct. Qed.

Theorem C17_split_copy : forall cfg dst x pd px st,
  split_cfg cfg -> split_name dst -> split_name x ->
  layout cfg dst = Some pd -> layout cfg x = Some px ->
  in_wport pd -> in_wport px ->
  exists st', runs_to cfg (stemplate (PCopy dst x)) st st' /\
    mget (mem st') pd = mget (mem st) px /\
    only_changes [pd] st st' /\ keeps_xys st st'.
Proof. exact split_copy_correct. Qed.

Theorem C17_split_inc8 : forall cfg v pv st,
  split_cfg cfg -> split_name v -> layout cfg v = Some pv -> in_wport pv ->
  exists st', runs_to cfg (stemplate (PInc8 v)) st st' /\
    mget (mem st') pv = (mget (mem st) pv + 1) mod 256 /\
    only_changes [pv] st st' /\ keeps_xys st st'.
Proof. exact split_inc8_correct. Qed.

Theorem C17_split_dec8 : forall cfg v pv st,
  split_cfg cfg -> split_name v -> layout cfg v = Some pv -> in_wport pv ->
  exists st', runs_to cfg (stemplate (PDec8 v)) st st' /\
    mget (mem st') pv = (mget (mem st) pv - 1) mod 256 /\
    only_changes [pv] st st' /\ keeps_xys st st'.
Proof. exact split_dec8_correct. Qed.

Theorem C17_split_addassign8 : forall cfg v x pv px st,
  split_cfg cfg -> split_name v -> split_name x ->
  layout cfg v = Some pv -> layout cfg x = Some px ->
  in_wport pv -> ordinary px ->
  exists st', runs_to cfg (stemplate (PAddAssign8 v x)) st st' /\
    mget (mem st') pv = (mget (mem st) pv + mget (mem st) px) mod 256 /\
    only_changes [pv] st st' /\ keeps_xys st st'.
Proof. exact split_addassign8_correct. Qed.

Theorem C17_split_shl8_1 : forall cfg v pv st,
  split_cfg cfg -> split_name v -> layout cfg v = Some pv -> in_wport pv ->
  exists st', runs_to cfg (stemplate (PShl8_1 v)) st st' /\
    mget (mem st') pv = (2 * mget (mem st) pv) mod 256 /\
    only_changes [pv] st st' /\ keeps_xys st st'.
Proof. exact split_shl8_1_correct. Qed.

Theorem C17_split_shr8_1 : forall cfg v pv st,
  split_cfg cfg -> split_name v -> layout cfg v = Some pv -> in_wport pv ->
  exists st', runs_to cfg (stemplate (PShr8_1 v)) st st' /\
    mget (mem st') pv = mget (mem st) pv / 2 /\
    only_changes [pv] st st' /\ keeps_xys st st'.
Proof. exact split_shr8_1_correct. Qed.

Theorem C17_split_add8 : forall cfg dst x y pd px py st,
  split_cfg cfg -> split_name dst -> split_name x -> split_name y ->
  layout cfg dst = Some pd -> layout cfg x = Some px -> layout cfg y = Some py ->
  in_wport pd -> in_wport px -> in_wport py ->
  exists st', runs_to cfg (stemplate (PAdd8 dst x y)) st st' /\
    mget (mem st') pd = (mget (mem st) px + mget (mem st) py) mod 256 /\
    only_changes [pd] st st' /\ keeps_xys st st'.
Proof. exact split_add8_correct. Qed.

Theorem C17_split_neg8 : forall cfg dst x pd px st,
  split_cfg cfg -> split_name dst -> split_name x ->
  layout cfg dst = Some pd -> layout cfg x = Some px ->
  in_wport pd -> in_wport px ->
  exists st', runs_to cfg (stemplate (PNeg8 dst x)) st st' /\
    mget (mem st') pd = (256 - mget (mem st) px) mod 256 /\
    only_changes [pd] st st' /\ keeps_xys st st'.
Proof. exact split_neg8_correct. Qed.

Theorem C17_split_xorassign8 : forall cfg v x pv px st,
  split_cfg cfg -> split_name v -> split_name x ->
  layout cfg v = Some pv -> layout cfg x = Some px ->
  in_wport pv -> ordinary px ->
  exists st', runs_to cfg (stemplate (PXorAssign8 v x)) st st' /\
    mget (mem st') pv = Z.lxor (mget (mem st) pv) (mget (mem st) px) /\
    only_changes [pv] st st' /\ keeps_xys st st'.
Proof. exact split_xorassign8_correct. Qed.

Theorem C17_split_inc16 : forall cfg v pv st,
  split_cfg cfg -> split_name v -> layout cfg v = Some pv ->
  in_wport pv -> in_wport (pv + 1) -> bytes_ok st ->
  exists st', runs_to cfg (stemplate (PInc16 v)) st st' /\
    word (mem st') pv = (word (mem st) pv + 1) mod 65536 /\
    only_changes [pv; pv + 1] st st' /\ keeps_xys st st'.
Proof. exact split_inc16_correct. Qed.

Theorem C17_split_dec16 : forall cfg v pv st,
  split_cfg cfg -> split_name v -> layout cfg v = Some pv ->
  in_wport pv -> in_wport (pv + 1) -> bytes_ok st ->
  exists st', runs_to cfg (stemplate (PDec16 v)) st st' /\
    word (mem st') pv = (word (mem st) pv - 1) mod 65536 /\
    only_changes [pv; pv + 1] st st' /\ keeps_xys st st'.
Proof. exact split_dec16_correct. Qed.

Theorem C17_split_addconst16 : forall cfg v k pv st,
  split_cfg cfg -> split_name v -> layout cfg v = Some pv ->
  in_wport pv -> in_wport (pv + 1) -> 0 <= k < 65536 -> bytes_ok st ->
  exists st', runs_to cfg (stemplate (PAddConst16 v k)) st st' /\
    word (mem st') pv = (word (mem st) pv + k) mod 65536 /\
    only_changes [pv; pv + 1] st st' /\ keeps_xys st st'.
Proof. exact split_addconst16_correct. Qed.

Theorem C17_split_shl16_1 : forall cfg v pv st,
  split_cfg cfg -> split_name v -> layout cfg v = Some pv ->
  in_wport pv -> in_wport (pv + 1) -> bytes_ok st ->
  exists st', runs_to cfg (stemplate (PShl16_1 v)) st st' /\
    word (mem st') pv = (2 * word (mem st) pv) mod 65536 /\
    only_changes [pv; pv + 1] st st' /\ keeps_xys st st'.
Proof. exact split_shl16_1_correct. Qed.

Theorem C17_split_shr16_1 : forall cfg v pv st,
  split_cfg cfg -> split_name v -> layout cfg v = Some pv ->
  in_wport pv -> in_wport (pv + 1) -> bytes_ok st ->
  exists st', runs_to cfg (stemplate (PShr16_1 v)) st st' /\
    word (mem st') pv = word (mem st) pv / 2 /\
    only_changes [pv; pv + 1] st st' /\ keeps_xys st st'.
Proof. exact split_shr16_1_correct. Qed.

Theorem C17_split_copy16 : forall cfg dst x pd px st,
  split_cfg cfg -> split_name dst -> split_name x ->
  layout cfg dst = Some pd -> layout cfg x = Some px ->
  in_wport pd -> in_wport (pd + 1) -> in_wport px -> in_wport (px + 1) ->
  pd <> px + 1 ->
  exists st', runs_to cfg (stemplate (PCopy16 dst x)) st st' /\
    mget (mem st') pd = mget (mem st) px /\ mget (mem st') (pd + 1) = mget (mem st) (px + 1) /\
    word (mem st') pd = word (mem st) px /\
    only_changes [pd; pd + 1] st st' /\ keeps_xys st st'.
Proof. exact split_copy16_correct. Qed.

Theorem C17_split_store_idx : forall cfg arr r x pa px n st,
  split_cfg cfg -> split_name arr -> split_name x ->
  layout cfg arr = Some pa -> layout cfg x = Some px ->
  in_wport pa -> pa + n <= 4224 -> 0 <= rval r st < n -> ordinary px ->
  exists st', runs_to cfg (stemplate (PStoreIdx arr r x)) st st' /\
    mget (mem st') (pa + rval r st) = mget (mem st) px /\
    only_changes [pa + rval r st] st st' /\ keeps_xys st st'.
Proof. exact split_store_idx_correct. Qed.

Theorem C17_split_load_idx : forall cfg dst arr r pd pa n st,
  split_cfg cfg -> split_name dst -> split_name arr ->
  layout cfg dst = Some pd -> layout cfg arr = Some pa ->
  ordinary pd -> in_wport pa -> pa + n <= 4224 -> 0 <= rval r st < n ->
  exists st', runs_to cfg (stemplate (PLoadIdx dst arr r)) st st' /\
    mget (mem st') pd = mget (mem st) (pa + rval r st) /\
    only_changes [pd] st st' /\ keeps_xys st st'.
Proof. exact split_load_idx_correct. Qed.

Theorem C17_split_inc_idx : forall cfg arr r pa n st,
  split_cfg cfg -> split_name arr -> layout cfg arr = Some pa ->
  in_wport pa -> pa + n <= 4224 -> 0 <= rval r st < n ->
  exists st', runs_to cfg (stemplate (PIncIdx arr r)) st st' /\
    mget (mem st') (pa + rval r st) = (mget (mem st) (pa + rval r st) + 1) mod 256 /\
    only_changes [pa + rval r st] st st' /\ keeps_xys st st'.
Proof. exact split_inc_idx_correct. Qed.

Theorem C17_split_dec_idx : forall cfg arr r pa n st,
  split_cfg cfg -> split_name arr -> layout cfg arr = Some pa ->
  in_wport pa -> pa + n <= 4224 -> 0 <= rval r st < n ->
  exists st', runs_to cfg (stemplate (PDecIdx arr r)) st st' /\
    mget (mem st') (pa + rval r st) = (mget (mem st) (pa + rval r st) - 1) mod 256 /\
    only_changes [pa + rval r st] st st' /\ keeps_xys st st'.
Proof. exact split_dec_idx_correct. Qed.

Theorem C17_split_addassign_idx : forall cfg arr r x pa px n st,
  split_cfg cfg -> split_name arr -> split_name x ->
  layout cfg arr = Some pa -> layout cfg x = Some px ->
  in_wport pa -> pa + n <= 4224 -> 0 <= rval r st < n -> ordinary px ->
  exists st', runs_to cfg (stemplate (PAddAssignIdx arr r x)) st st' /\
    mget (mem st') (pa + rval r st)
    = (mget (mem st) (pa + rval r st) + mget (mem st) px) mod 256 /\
    only_changes [pa + rval r st] st st' /\ keeps_xys st st'.
Proof. exact split_addassign_idx_correct. Qed.

Theorem C17_split_copy_elem : forall cfg arr i j pa st,
  split_cfg cfg -> split_name arr -> layout cfg arr = Some pa ->
  0 <= i -> 0 <= j -> in_wport (pa + i) -> in_wport (pa + j) ->
  exists st', runs_to cfg (stemplate (PCopyElem arr i j)) st st' /\
    mget (mem st') (pa + i) = mget (mem st) (pa + j) /\
    only_changes [pa + i] st st' /\ keeps_xys st st'.
Proof. exact split_copy_elem_correct. Qed.

Theorem C17_split_rmw_faults : forall cfg m v pv j s,
  split_cfg cfg -> is_rmw_m m = true -> layout cfg v = Some pv -> in_wport (pv + j) ->
  exec cfg m (OMem v j IxNone) s = XFault "read-modify-write on split-port memory" /\
  exec cfg m (OMem v (128 + j) IxNone) s = XFault "read-modify-write on split-port memory".
Proof. exact rmw_split_faults. Qed.

Theorem C17_split_inc_faults : forall cfg v pv s,
  split_cfg cfg -> layout cfg v = Some pv -> in_wport pv ->
  exec cfg INC (OMem v 0 IxNone) s = XFault "read-modify-write on split-port memory".
Proof. exact inc_split_faults. Qed.

Theorem C17_split_inc_run_faults : forall cfg v pv st prog inl_sem ext_call fname fuel,
  split_cfg cfg -> split_name v -> layout cfg v = Some pv -> in_wport pv ->
  exists sl, slines_of (template (SInc8 v)) = Some sl /\
    Sem.run cfg prog inl_sem ext_call (S fuel) fname sl 0 [] st [] 0%N
    = Faulted "read-modify-write on split-port memory" fname 0%nat st.
Proof. exact inc_split_run_faults. Qed.

Theorem C17_split_inc_never_runs : forall cfg v pv st,
  split_cfg cfg -> split_name v -> layout cfg v = Some pv -> in_wport pv ->
  ~ exists st', runs_to cfg (template (SInc8 v)) st st'.
Proof. exact inc_split_never_runs. Qed.

Theorem C17_split_read_is_cell : forall cfg s v pv, split_cfg cfg -> layout cfg v = Some pv ->
  in_wport pv ->
  exists c, exec cfg LDA (OMem v 128 IxNone) s
            = XOk (set_nz (set_a s (mget (mem s) pv)) (mget (mem s) pv)) c FNext.
Proof. exact split_read_is_cell. Qed.

Theorem C17_split_write_sets_cell : forall cfg s v pv, split_cfg cfg -> layout cfg v = Some pv ->
  in_wport pv ->
  exists c, exec cfg STA (OMem v 0 IxNone) s = XOk (set_mem s (mset (mem s) pv (rA s))) c FNext.
Proof. exact split_write_sets_cell. Qed.
