#!/usr/bin/env python3
"""development aid: compile a C text with the real compiler (through ccv) and print the emitted lines
usage: cc.py [-O0|-O1..] 'source text' | cc.py -O1 @file.c"""
import sys, os
sys.path.insert(0, os.path.dirname(os.path.abspath(__file__)))
from lib.common import *
args = [a for a in sys.argv[1:] if a.startswith('-')] or ['-O1']
for s in [a for a in sys.argv[1:] if not a.startswith('-')]:
    if s.startswith('@'):
        s = open(s[1:]).read()
    r = run_ccv(compile_job('x', s, args=args, want=['vars', 'funcs']), timeout_ms=4000, tag='cc')[0]
    if r['status'] != 'ok':
        print(r)
        continue
    for f in r['funcs']:
        print('%s:%s' % (f['name'], ' (inline)' if f.get('inline') else ''))
        for l in f['final'] or []:
            if l[0] == 'I':
                print('    %s %s%s' % (l[1], l[6], '   ; protected' if l[2] else ''))
            elif l[0] == 'L':
                print('%s:' % l[1])
            elif l[0] == 'N':
                print('    <asm> %s' % l[2])
