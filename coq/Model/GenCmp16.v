(** 16-bit conditional statements of the code generator at -O0: for 20 C conditionals over
    [unsigned char a,b,c; unsigned short s,t,u; short ss,st;] the exact instruction sequence the
    compiler emits, as a function of the variable names, of the constant and of the local labels.
    16-bit variables are little-endian (low byte at [v], high byte at [v+1]); [cctmp] is the
    compiler's one-byte scratch variable: it keeps the low byte of the 16-bit difference while the
    high byte is computed.

    [code16] is what the compiler emits NOW ([listing16_NN], pinned line for line with the [show] of
    Model/GenTemplates.v).  [code16_old] is what it emitted for five of the statements before the
    unsigned [>] / [<=] forms were repaired ([old16_NN]): the old [<=] and the old do-while [>]
    sequences tested the high byte of the difference BEFORE the borrow (a protected [BEQ .ifhere])
    and are wrong when that byte is 0 although a borrow occurred (Proofs/GenCmp16Facts.v); the old
    [if (x > y)] sequences are the same as the new ones.

    Only the instances of the listing are pinned; the generalisations (any constant instead of
    1000, [!=] with a constant) are the obvious ones and are not claimed of the compiler. *)
From Coq Require Import String Ascii List Bool NArith ZArith.
From CC Require Import Base.Str Asm.Lines Model.GenTemplates.
Import ListNotations.
Open Scope string_scope.
Open Scope list_scope.

(** a protected instruction (the optimiser must not touch it; no semantic effect) *)
Definition pins (m : mnem) (op : string) : line := Ins (mkI m op 0 None 0 true).

(** the scratch byte *)
Definition cctmp : string := "cctmp".

Inductive relop16 := REq | RNe | RLt | RGe | RGt | RLe.

Inductive cond16 :=
| CIf16 (o : relop16) (x y dst lend lstart : string)             (* if (x o y) dst = 1;  unsigned short *)
| CIf16K (o : relop16) (x : string) (k : Z) (dst lend lstart : string)  (* if (x o k) dst = 1; *)
| CIfNz16 (x dst lend lstart : string)                           (* if (x) dst = 1;  if (x != 0) dst = 1; *)
| CIfZ16 (x dst lend : string)                                   (* if (!x) dst = 1;  if (x == 0) dst = 1; *)
| CDoLt16 (x y v lloop lend : string)                            (* do { v++; } while (x < y); *)
| CDoGt16 (x y v lloop lstart lend : string)                     (* do { v++; } while (x > y); *)
| CIfSLt16 (x y dst lend : string)                               (* if (x < y) dst = 1;  short *)
| CIfSGe16 (x y dst lend : string)                               (* if (x >= y) dst = 1;  short *)
| CIfLt16_8 (x y dst lend : string).                             (* if (x16 < y8) dst = 1; *)

(** the sequences emitted before the repair *)
Inductive cond16_old :=
| OIfGt16 (x y dst lend lstart : string)                         (* if (x > y) dst = 1; *)
| OIfLe16 (x y dst lend lhere lstart : string)                   (* if (x <= y) dst = 1; *)
| OIfGt16K (x : string) (k : Z) (dst lend lstart : string)       (* if (x > k) dst = 1; *)
| OIfLe16K (x : string) (k : Z) (dst lend lhere lstart : string) (* if (x <= k) dst = 1; *)
| ODoGt16 (x y v lloop lhere lstart lend : string).              (* do { v++; } while (x > y); *)

(** [x - (lo, hi)]: the flags of the 16-bit subtraction; the low byte of the difference goes to
    [cctmp] when the branches need it *)
Definition sub16 (keep : bool) (x lo hi_ : string) : code :=
  [ins LDA x; ins SEC ""; ins SBC lo] ++ (if keep then [ins STA cctmp] else [])
  ++ [ins LDA (hi x); ins SBC hi_].

(** the body of the listing's conditionals: [dst = 1] *)
Definition set1 (dst : string) : code := [ins LDA (imm 1); ins STA dst].

Definition keeps_lo (o : relop16) : bool :=
  match o with RLt | RGe => false | _ => true end.

(** the branches after the subtraction (C = no borrow, Z/A = high byte of the difference, [cctmp] =
    low byte), the body, the end label *)
Definition branch16 (o : relop16) (dst lend lstart : string) : code :=
  match o with
  | REq => [ins BNE lend; ins LDA cctmp; ins BNE lend] ++ set1 dst ++ [Lbl lend]
  | RNe => [ins BNE lstart; ins LDA cctmp; ins BEQ lend; Lbl lstart] ++ set1 dst ++ [Lbl lend]
  | RLt => [ins BCS lend] ++ set1 dst ++ [Lbl lend]
  | RGe => [ins BCC lend] ++ set1 dst ++ [Lbl lend]
  | RGt => [ins BCC lend; ins BNE lstart; ins LDA cctmp; ins BEQ lend; Lbl lstart]
           ++ set1 dst ++ [Lbl lend]
  | RLe => [ins BCC lstart; ins BNE lend; ins LDA cctmp; ins BNE lend; Lbl lstart]
           ++ set1 dst ++ [Lbl lend]
  end.

(** the old [<=]: high byte first (protected), then the borrow *)
Definition branch16_old_le (dst lend lhere lstart : string) : code :=
  [pins BEQ lhere; ins BCS lend; Lbl lhere; ins BNE lstart; ins LDA cctmp; ins BNE lend; Lbl lstart]
  ++ set1 dst ++ [Lbl lend].

Definition code16 (t : cond16) : code :=
  match t with
  | CIf16 o x y dst lend lstart => sub16 (keeps_lo o) x y (hi y) ++ branch16 o dst lend lstart
  | CIf16K o x k dst lend lstart =>
      sub16 (keeps_lo o) x (imm (k mod 256)) (imm (k / 256)) ++ branch16 o dst lend lstart
  | CIfNz16 x dst lend lstart =>
      [ins LDA x; ins STA cctmp; ins LDA (hi x)] ++ branch16 RNe dst lend lstart
  | CIfZ16 x dst lend =>
      [ins LDA x; ins STA cctmp; ins LDA (hi x)] ++ branch16 REq dst lend lend
  | CDoLt16 x y v lloop lend =>
      [Lbl lloop; ins INC v] ++ sub16 false x y (hi y) ++ [ins BCC lloop; Lbl lend]
  | CDoGt16 x y v lloop lstart lend =>
      [Lbl lloop; ins INC v] ++ sub16 true x y (hi y)
      ++ [ins BCC lstart; ins BNE lloop; ins LDA cctmp; ins BNE lloop; Lbl lstart; Lbl lend]
  | CIfSLt16 x y dst lend => sub16 false x y (hi y) ++ [ins BPL lend] ++ set1 dst ++ [Lbl lend]
  | CIfSGe16 x y dst lend => sub16 false x y (hi y) ++ [ins BMI lend] ++ set1 dst ++ [Lbl lend]
  | CIfLt16_8 x y dst lend => sub16 false x y (imm 0) ++ [ins BCS lend] ++ set1 dst ++ [Lbl lend]
  end.

Definition code16_old (t : cond16_old) : code :=
  match t with
  | OIfGt16 x y dst lend lstart => code16 (CIf16 RGt x y dst lend lstart)
  | OIfLe16 x y dst lend lhere lstart =>
      sub16 true x y (hi y) ++ branch16_old_le dst lend lhere lstart
  | OIfGt16K x k dst lend lstart => code16 (CIf16K RGt x k dst lend lstart)
  | OIfLe16K x k dst lend lhere lstart =>
      sub16 true x (imm (k mod 256)) (imm (k / 256)) ++ branch16_old_le dst lend lhere lstart
  | ODoGt16 x y v lloop lhere lstart lend =>
      [Lbl lloop; ins INC v] ++ sub16 true x y (hi y)
      ++ [pins BEQ lhere; ins BCS lloop; Lbl lhere; ins BNE lstart; ins LDA cctmp; ins BNE lloop;
          Lbl lstart; Lbl lend]
  end.

(** which lines carry the protected flag *)
Definition is_protected (l : line) : bool :=
  match l with Ins i => i_prot i | _ => false end.

(** * The 20 listings (the compiler as it is now) *)
(** if (s == t) a = 1; *)
Example listing16_01 : map show (code16 (CIf16 REq "s" "t" "a" ".ifend1" ".ifstart1")) =
  ["LDA s"; "SEC "; "SBC t"; "STA cctmp"; "LDA s+1"; "SBC t+1"; "BNE .ifend1"; "LDA cctmp";
   "BNE .ifend1"; "LDA #1"; "STA a"; ".ifend1:"].
Proof. vm_compute. reflexivity. Qed.

(** if (s != t) a = 1; *)
Example listing16_02 : map show (code16 (CIf16 RNe "s" "t" "a" ".ifend1" ".ifstart1")) =
  ["LDA s"; "SEC "; "SBC t"; "STA cctmp"; "LDA s+1"; "SBC t+1"; "BNE .ifstart1"; "LDA cctmp";
   "BEQ .ifend1"; ".ifstart1:"; "LDA #1"; "STA a"; ".ifend1:"].
Proof. vm_compute. reflexivity. Qed.

(** if (s < t) a = 1; *)
Example listing16_03 : map show (code16 (CIf16 RLt "s" "t" "a" ".ifend1" ".ifstart1")) =
  ["LDA s"; "SEC "; "SBC t"; "LDA s+1"; "SBC t+1"; "BCS .ifend1"; "LDA #1"; "STA a"; ".ifend1:"].
Proof. vm_compute. reflexivity. Qed.

(** if (s >= t) a = 1; *)
Example listing16_04 : map show (code16 (CIf16 RGe "s" "t" "a" ".ifend1" ".ifstart1")) =
  ["LDA s"; "SEC "; "SBC t"; "LDA s+1"; "SBC t+1"; "BCC .ifend1"; "LDA #1"; "STA a"; ".ifend1:"].
Proof. vm_compute. reflexivity. Qed.

(** if (s > t) a = 1; *)
Example listing16_05 : map show (code16 (CIf16 RGt "s" "t" "a" ".ifend1" ".ifstart1")) =
  ["LDA s"; "SEC "; "SBC t"; "STA cctmp"; "LDA s+1"; "SBC t+1"; "BCC .ifend1"; "BNE .ifstart1";
   "LDA cctmp"; "BEQ .ifend1"; ".ifstart1:"; "LDA #1"; "STA a"; ".ifend1:"].
Proof. vm_compute. reflexivity. Qed.

(** if (s <= t) a = 1; *)
Example listing16_06 : map show (code16 (CIf16 RLe "s" "t" "a" ".ifend1" ".ifstart1")) =
  ["LDA s"; "SEC "; "SBC t"; "STA cctmp"; "LDA s+1"; "SBC t+1"; "BCC .ifstart1"; "BNE .ifend1";
   "LDA cctmp"; "BNE .ifend1"; ".ifstart1:"; "LDA #1"; "STA a"; ".ifend1:"].
Proof. vm_compute. reflexivity. Qed.

(** if (s == 1000) a = 1; *)
Example listing16_07 : map show (code16 (CIf16K REq "s" 1000 "a" ".ifend1" ".ifstart1")) =
  ["LDA s"; "SEC "; "SBC #232"; "STA cctmp"; "LDA s+1"; "SBC #3"; "BNE .ifend1"; "LDA cctmp";
   "BNE .ifend1"; "LDA #1"; "STA a"; ".ifend1:"].
Proof. vm_compute. reflexivity. Qed.

(** if (s < 1000) a = 1; *)
Example listing16_08 : map show (code16 (CIf16K RLt "s" 1000 "a" ".ifend1" ".ifstart1")) =
  ["LDA s"; "SEC "; "SBC #232"; "LDA s+1"; "SBC #3"; "BCS .ifend1"; "LDA #1"; "STA a"; ".ifend1:"].
Proof. vm_compute. reflexivity. Qed.

(** if (s >= 1000) a = 1; *)
Example listing16_09 : map show (code16 (CIf16K RGe "s" 1000 "a" ".ifend1" ".ifstart1")) =
  ["LDA s"; "SEC "; "SBC #232"; "LDA s+1"; "SBC #3"; "BCC .ifend1"; "LDA #1"; "STA a"; ".ifend1:"].
Proof. vm_compute. reflexivity. Qed.

(** if (s > 1000) a = 1; *)
Example listing16_10 : map show (code16 (CIf16K RGt "s" 1000 "a" ".ifend1" ".ifstart1")) =
  ["LDA s"; "SEC "; "SBC #232"; "STA cctmp"; "LDA s+1"; "SBC #3"; "BCC .ifend1"; "BNE .ifstart1";
   "LDA cctmp"; "BEQ .ifend1"; ".ifstart1:"; "LDA #1"; "STA a"; ".ifend1:"].
Proof. vm_compute. reflexivity. Qed.

(** if (s <= 1000) a = 1; *)
Example listing16_11 : map show (code16 (CIf16K RLe "s" 1000 "a" ".ifend1" ".ifstart1")) =
  ["LDA s"; "SEC "; "SBC #232"; "STA cctmp"; "LDA s+1"; "SBC #3"; "BCC .ifstart1"; "BNE .ifend1";
   "LDA cctmp"; "BNE .ifend1"; ".ifstart1:"; "LDA #1"; "STA a"; ".ifend1:"].
Proof. vm_compute. reflexivity. Qed.

(** if (s) a = 1; *)
Example listing16_12 : map show (code16 (CIfNz16 "s" "a" ".ifend1" ".ifstart1")) =
  ["LDA s"; "STA cctmp"; "LDA s+1"; "BNE .ifstart1"; "LDA cctmp"; "BEQ .ifend1"; ".ifstart1:";
   "LDA #1"; "STA a"; ".ifend1:"].
Proof. vm_compute. reflexivity. Qed.

(** if (!s) a = 1; *)
Example listing16_13 : map show (code16 (CIfZ16 "s" "a" ".ifend1")) =
  ["LDA s"; "STA cctmp"; "LDA s+1"; "BNE .ifend1"; "LDA cctmp"; "BNE .ifend1"; "LDA #1"; "STA a";
   ".ifend1:"].
Proof. vm_compute. reflexivity. Qed.

(** if (s != 0) a = 1; *)
Example listing16_14 : map show (code16 (CIfNz16 "s" "a" ".ifend1" ".ifstart1")) =
  ["LDA s"; "STA cctmp"; "LDA s+1"; "BNE .ifstart1"; "LDA cctmp"; "BEQ .ifend1"; ".ifstart1:";
   "LDA #1"; "STA a"; ".ifend1:"].
Proof. vm_compute. reflexivity. Qed.

(** if (s == 0) a = 1; *)
Example listing16_15 : map show (code16 (CIfZ16 "s" "a" ".ifend1")) =
  ["LDA s"; "STA cctmp"; "LDA s+1"; "BNE .ifend1"; "LDA cctmp"; "BNE .ifend1"; "LDA #1"; "STA a";
   ".ifend1:"].
Proof. vm_compute. reflexivity. Qed.

(** do { a++; } while (s < t); *)
Example listing16_16 : map show (code16 (CDoLt16 "s" "t" "a" ".dowhile1" ".dowhileend1")) =
  [".dowhile1:"; "INC a"; "LDA s"; "SEC "; "SBC t"; "LDA s+1"; "SBC t+1"; "BCC .dowhile1";
   ".dowhileend1:"].
Proof. vm_compute. reflexivity. Qed.

(** do { a++; } while (s > t); *)
Example listing16_17 : map show (code16 (CDoGt16 "s" "t" "a" ".dowhile1" ".ifstart0" ".dowhileend1")) =
  [".dowhile1:"; "INC a"; "LDA s"; "SEC "; "SBC t"; "STA cctmp"; "LDA s+1"; "SBC t+1";
   "BCC .ifstart0"; "BNE .dowhile1"; "LDA cctmp"; "BNE .dowhile1"; ".ifstart0:"; ".dowhileend1:"].
Proof. vm_compute. reflexivity. Qed.

(** if (ss < st) a = 1; *)
Example listing16_18 : map show (code16 (CIfSLt16 "ss" "st" "a" ".ifend1")) =
  ["LDA ss"; "SEC "; "SBC st"; "LDA ss+1"; "SBC st+1"; "BPL .ifend1"; "LDA #1"; "STA a"; ".ifend1:"].
Proof. vm_compute. reflexivity. Qed.

(** if (ss >= st) a = 1; *)
Example listing16_19 : map show (code16 (CIfSGe16 "ss" "st" "a" ".ifend1")) =
  ["LDA ss"; "SEC "; "SBC st"; "LDA ss+1"; "SBC st+1"; "BMI .ifend1"; "LDA #1"; "STA a"; ".ifend1:"].
Proof. vm_compute. reflexivity. Qed.

(** if (s < c) a = 1; *)
Example listing16_20 : map show (code16 (CIfLt16_8 "s" "c" "a" ".ifend1")) =
  ["LDA s"; "SEC "; "SBC c"; "LDA s+1"; "SBC #0"; "BCS .ifend1"; "LDA #1"; "STA a"; ".ifend1:"].
Proof. vm_compute. reflexivity. Qed.

(** no instruction of the new sequences is protected *)
Example listing16_06_prot :
  existsb is_protected (code16 (CIf16 RLe "s" "t" "a" ".ifend1" ".ifstart1")) = false.
Proof. vm_compute. reflexivity. Qed.
Example listing16_17_prot :
  existsb is_protected (code16 (CDoGt16 "s" "t" "a" ".dowhile1" ".ifstart0" ".dowhileend1")) = false.
Proof. vm_compute. reflexivity. Qed.

(** * The five sequences before the repair *)
(** if (s > t) a = 1; *)
Example old16_05 : map show (code16_old (OIfGt16 "s" "t" "a" ".ifend1" ".ifstart1")) =
  ["LDA s"; "SEC "; "SBC t"; "STA cctmp"; "LDA s+1"; "SBC t+1"; "BCC .ifend1"; "BNE .ifstart1";
   "LDA cctmp"; "BEQ .ifend1"; ".ifstart1:"; "LDA #1"; "STA a"; ".ifend1:"].
Proof. vm_compute. reflexivity. Qed.

(** if (s <= t) a = 1; *)
Example old16_06 : map show (code16_old (OIfLe16 "s" "t" "a" ".ifend1" ".ifhere2" ".ifstart2")) =
  ["LDA s"; "SEC "; "SBC t"; "STA cctmp"; "LDA s+1"; "SBC t+1"; "BEQ .ifhere2"; "BCS .ifend1";
   ".ifhere2:"; "BNE .ifstart2"; "LDA cctmp"; "BNE .ifend1"; ".ifstart2:"; "LDA #1"; "STA a";
   ".ifend1:"].
Proof. vm_compute. reflexivity. Qed.

(** if (s > 1000) a = 1; *)
Example old16_10 : map show (code16_old (OIfGt16K "s" 1000 "a" ".ifend1" ".ifstart1")) =
  ["LDA s"; "SEC "; "SBC #232"; "STA cctmp"; "LDA s+1"; "SBC #3"; "BCC .ifend1"; "BNE .ifstart1";
   "LDA cctmp"; "BEQ .ifend1"; ".ifstart1:"; "LDA #1"; "STA a"; ".ifend1:"].
Proof. vm_compute. reflexivity. Qed.

(** if (s <= 1000) a = 1; *)
Example old16_11 : map show (code16_old (OIfLe16K "s" 1000 "a" ".ifend1" ".ifhere2" ".ifstart2")) =
  ["LDA s"; "SEC "; "SBC #232"; "STA cctmp"; "LDA s+1"; "SBC #3"; "BEQ .ifhere2"; "BCS .ifend1";
   ".ifhere2:"; "BNE .ifstart2"; "LDA cctmp"; "BNE .ifend1"; ".ifstart2:"; "LDA #1"; "STA a";
   ".ifend1:"].
Proof. vm_compute. reflexivity. Qed.

(** do { a++; } while (s > t); *)
Example old16_17 :
  map show (code16_old (ODoGt16 "s" "t" "a" ".dowhile1" ".ifhere1" ".ifstart1" ".dowhileend1")) =
  [".dowhile1:"; "INC a"; "LDA s"; "SEC "; "SBC t"; "STA cctmp"; "LDA s+1"; "SBC t+1";
   "BEQ .ifhere1"; "BCS .dowhile1"; ".ifhere1:"; "BNE .ifstart1"; "LDA cctmp"; "BNE .dowhile1";
   ".ifstart1:"; ".dowhileend1:"].
Proof. vm_compute. reflexivity. Qed.

(** the protected lines of the old sequences: the [BEQ .ifhere] only *)
Example old16_06_prot :
  map show (filter is_protected (code16_old (OIfLe16 "s" "t" "a" ".ifend1" ".ifhere2" ".ifstart2")))
  = ["BEQ .ifhere2"].
Proof. vm_compute. reflexivity. Qed.
Example old16_11_prot :
  map show (filter is_protected (code16_old (OIfLe16K "s" 1000 "a" ".ifend1" ".ifhere2" ".ifstart2")))
  = ["BEQ .ifhere2"].
Proof. vm_compute. reflexivity. Qed.
Example old16_17_prot :
  map show (filter is_protected
              (code16_old (ODoGt16 "s" "t" "a" ".dowhile1" ".ifhere1" ".ifstart1" ".dowhileend1")))
  = ["BEQ .ifhere1"].
Proof. vm_compute. reflexivity. Qed.

(** the old [if (x > y)] sequences are the new ones: only [<=] and the do-while [>] changed *)
Lemma old_gt_is_new : forall x y dst lend lstart,
  code16_old (OIfGt16 x y dst lend lstart) = code16 (CIf16 RGt x y dst lend lstart).
Proof. reflexivity. Qed.
Lemma old_gtk_is_new : forall x k dst lend lstart,
  code16_old (OIfGt16K x k dst lend lstart) = code16 (CIf16K RGt x k dst lend lstart).
Proof. reflexivity. Qed.

(** the zero tests are the [!=] / [==] branches on (high byte, [cctmp] = low byte) *)
Lemma code_nz_branches : forall x dst lend lstart,
  code16 (CIfNz16 x dst lend lstart)
  = [ins LDA x; ins STA cctmp; ins LDA (hi x)] ++ branch16 RNe dst lend lstart.
Proof. reflexivity. Qed.
