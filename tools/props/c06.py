"""C06 — diagnostics name the true source location.

proof   : Props/C06.v on Model/Cpp.v: exactly one table entry per emitted output line; every entry is
          (file, number of the last physical line of the logical line, include site); the
          offset-to-line translation used by the error constructors
corr-M  : cpp::process vs the extracted model: the line table itself, exact, on inputs full of
          line-shifting constructs (multi-line comments, splices, skipped regions, defines, includes
          of C and assembler files)
corr-S  : error injection: one defect of each kind (preprocessor, syntax, semantic, code generation)
          is planted at a known (file, physical line) behind random line-shifting constructs, in the
          main file or an included one; the returned error must carry that file, one of the physical
          lines of the offending logical line, and the include site
"""
import re
from lib.common import *
from lib.cppcorr import *

LEVEL = 'proof'


def theorems():
    p = os.path.join(COQ, 'Props', 'C06.v')
    return re.findall(r'^Theorem (\w+)', open(p).read(), re.M) if os.path.exists(p) else []


DEFECTS = {
    # kind: (where, text, class)
    'pp_error': ('top', '#error planted', 'preprocessor'),
    'pp_bad_directive': ('top', '#pragma planted', 'preprocessor'),
    'pp_unterminated': ('top', 'char *zz = "abc;', 'preprocessor'),
    'pp_if_undefined': ('top', '#if NOT_DEFINED_NAME', 'preprocessor'),
    'pp_if_badnum': ('top', '#if 08', 'preprocessor'),
    'pp_if_garbage': ('top', '#if 1 1', 'preprocessor'),
    'syn_stray': ('top', 'char q1 q2;', 'syntax'),
    'syn_paren': ('body', 'X = (1;', 'syntax'),
    'sem_unknown': ('body', 'nothere = 1;', 'semantic'),
    'sem_unknown_fn': ('body', 'nofunction();', 'semantic'),
    'gen_csleep': ('body', 'csleep(1);', 'codegen'),
    'gen_complex': ('body', 'arr[g1] = arr[g1];', 'codegen'),
    'gen_strobe': ('body', 'strobe(X);', 'codegen'),
    'sem_short_ptr': ('top', 'short *zp;', 'semantic'),
    'sem_sizeof': ('body', 'g1 = sizeof(nothing);', 'semantic'),
    'sem_void_value': ('body', 'g1 = main();', 'semantic'),
    'syn_bad_stmt': ('body', 'g1 = = 2;', 'syntax'),
}


class Builder:
    def __init__(self, rng, fname):
        self.rng = rng
        self.fname = fname
        self.lines = []          # physical lines (without newline)
        self.k = 0

    def phys(self, text):
        self.lines.append(text)
        return len(self.lines)

    def shifter(self):
        """a construct that makes output line numbers differ from source line numbers"""
        rng = self.rng
        # in a header that is included twice only constructs that declare nothing are used
        k = rng.randrange(8) if not getattr(self, 'declare_nothing', False) else rng.choice([0, 1, 4])
        self.k += 1
        if k == 0:
            self.phys('/* a comment')
            for _ in range(rng.randrange(0, 3)):
                self.phys('   over "several" lines')
            self.phys('*/')
        elif k == 1:
            self.phys('#if 0')
            for _ in range(rng.randrange(1, 4)):
                self.phys('char skipped%d;' % self.k)
            self.phys('#endif')
        elif k == 2:
            self.phys('#define SH%s_%d %d' % (self.fname.replace('.', '_'), self.k, self.k))
        elif k == 3:
            self.phys('char sp%s%d, \\' % (self.fname[0], self.k))
            self.phys('   sq%s%d;' % (self.fname[0], self.k))
        elif k == 4:
            self.phys('')
            self.phys('// just a comment')
        elif k == 5:
            self.phys('#ifdef NOT_DEFINED_ANYWHERE')
            self.phys('#error not reached')
            self.phys('#else')
            self.phys('char el%s%d;' % (self.fname[0], self.k))
            self.phys('#endif')
        elif k == 6:
            self.phys('char m%s%d; /* trailing' % (self.fname[0], self.k))
            self.phys('comment */ char n%s%d;' % (self.fname[0], self.k))
        else:
            self.phys('char u%s%d;' % (self.fname[0], self.k))

    def text(self, crlf=False):
        return ('\r\n' if crlf else '\n').join(self.lines) + '\n'


def build_case(rng, cid, kind):
    where, defect, cls = DEFECTS[kind]
    # the construct may start in the first column, after blanks or after a tab
    ind = rng.choice(['', '', '  ', '\t', '      '])
    in_include = rng.random() < 0.4
    files = []
    main = Builder(rng, 'main.c')
    main.phys('char arr[4]; char g1;')
    target_file = 'main.c'
    inc_site = None
    for _ in range(rng.randrange(0, 4)):
        main.shifter()
    # an assembler include and a clean C include before the defect, sometimes
    if rng.random() < 0.4:
        # the assembler text reaches the compiler as it is: multi-byte characters in it must not shift positions
        files.append(('lib.inc', rng.choice(['; assembler text\n lda #1 ; "quoted"\n', '; d\u00e9j\u00e0 vu \u00e9\u00e9\u00e9\u00e9 \u20ac\u20ac\n lda #1 ; "quoted"\n'])))
        main.phys('#include "lib.inc"')
    if rng.random() < 0.4:
        # half of the time the included file lacks its final newline (the includer's next line must
        # not be glued to it: repaired defect F-C06-glued-include-line)
        files.append(('ok.h', rng.choice(['char from_ok;\n/* c */\n', 'char from_ok;', 'char from_ok;\nchar from_ok2;'])))
        main.phys('#include "ok.h"')
    for _ in range(rng.randrange(0, 3)):
        main.shifter()
    expected_lines = None
    if cls != 'preprocessor' and rng.random() < 0.2:
        # the same header included twice (X-macro style): the defect only exists in the SECOND inclusion,
        # on a line that also produced output in the first one; the include site must be the second
        inc = Builder(rng, 'part.h')
        inc.declare_nothing = True
        for _ in range(rng.randrange(0, 3)):
            inc.shifter()
        if where == 'top':
            expected_lines = [inc.phys(ind + 'DL')]
        else:
            inc.phys('void FN()')
            inc.phys('{')
            expected_lines = [inc.phys(ind + 'DL')]
            inc.phys('  g1 = 7;')
            inc.phys('}')
        for _ in range(rng.randrange(0, 2)):
            inc.shifter()
        files.append(('part.h', inc.text()))
        main.phys('#define FN incA')
        main.phys('#define DL %s' % ('char okA;' if where == 'top' else 'g1 = 1;'))
        main.phys('#include "part.h"')
        for _ in range(rng.randrange(0, 2)):
            main.shifter()
        main.phys('#undef DL')
        main.phys('#undef FN')
        main.phys('#define FN incB')
        main.phys('#define DL %s' % defect)
        site = main.phys('#include "part.h"')
        main.phys('void main()')
        main.phys('{')
        main.phys('  g1 = 1;')
        main.phys('}')
        return {'id': cid, 'kind': kind, 'class': cls, 'src': main.text(crlf=False), 'files': files,
                'file': 'part.h', 'lines': expected_lines, 'inc': ['main.c', site]}
    if in_include:
        inc = Builder(rng, 'part.h')
        for _ in range(rng.randrange(0, 4)):
            inc.shifter()
        if where == 'top':
            n = inc.phys(defect)
            expected_lines = [n]
        else:
            inc.phys('void incfn()')
            inc.phys('{')
            for _ in range(rng.randrange(0, 3)):
                inc.phys('  g1 = %d;' % rng.randrange(9))
            if rng.random() < 0.3 and ' ' in defect:
                a, b = defect.split(' ', 1)
                n1 = inc.phys(ind + a + ' \\')
                n2 = inc.phys('     ' + b)
                expected_lines = [n1, n2]
            else:
                expected_lines = [inc.phys(ind + defect)]
            inc.phys('  g1 = 7;')
            inc.phys('}')
        for _ in range(rng.randrange(0, 2)):
            inc.shifter()
        files.append(('part.h', inc.text()))
        site = main.phys('#include "part.h"')
        inc_site = ['main.c', site]
        target_file = 'part.h'
        main.phys('void main()')
        main.phys('{')
        main.phys('  g1 = 1;')
        main.phys('}')
    else:
        if where == 'top':
            expected_lines = [main.phys(defect)]
            for _ in range(rng.randrange(0, 2)):
                main.shifter()
            main.phys('void main()')
            main.phys('{')
            main.phys('  g1 = 1;')
            main.phys('}')
        else:
            main.phys('void main()')
            main.phys('{')
            for _ in range(rng.randrange(0, 3)):
                main.phys('  g1 = %d;' % rng.randrange(9))
                if rng.random() < 0.3:
                    main.phys('  /* inner')
                    main.phys('     comment */')
            if rng.random() < 0.3 and ' ' in defect:
                a, b = defect.split(' ', 1)
                n1 = main.phys(ind + a + ' \\')
                n2 = main.phys('     ' + b)
                expected_lines = [n1, n2]
            else:
                expected_lines = [main.phys(ind + defect)]
            main.phys('  g1 = 3;')
            main.phys('}')
    return {'id': cid, 'kind': kind, 'class': cls, 'src': main.text(crlf=(rng.random() < 0.1)), 'files': files,
            'file': target_file, 'lines': expected_lines, 'inc': inc_site}


def run(ctx):
    quick = ctx.tier == 'quick'
    rng = ctx.rng
    th = theorems()
    if th:
        ctx.proof_stage('Props.C06', th)
    # corr-M: the line table
    n_gen = 2500 if quick else 60000
    cases = [gen_case(rng, 'g%d' % i) for i in range(n_gen)]
    n, mism, impl, model = compare(cases)
    ctx.cov['evaluations'] = n
    tables = sum(1 for r in impl if r.get('status') == 'ok' and len(r.get('map', [])) > 2)
    ctx.cov['correspondence']['corr-M line table'] = {'cases': n, 'mismatches': len(mism), 'tables_with_3+_entries': tables}
    # corr-S: error injection
    n_inj = 150 if quick else 3000
    inj = []
    for kind in DEFECTS:
        for i in range(n_inj):
            inj.append(build_case(rng, '%s_%d' % (kind, i), kind))
    jobs = ''.join(compile_job(c['id'], c['src'], args=['-O1'], files=c['files'], want=['funcs']) for c in inj)
    res = run_ccv(jobs)
    viol = []
    stats = {}
    known = [f for f in ctx.findings if f.get('status') == 'open']
    reported = 0
    for c, r in zip(inj, res):
        key = c['kind']
        if r['status'] != 'err':
            lab = key + ':' + ('accepted' if r['status'] == 'ok' else r['status'])
            stats[lab] = stats.get(lab, 0) + 1
            if r['status'] == 'ok':
                v = {'why': 'the planted defect was not reported at all', 'case': c}
            else:
                v = {'why': 'crash instead of a located error: %s %s' % (r['status'], r.get('msg')), 'case': c}
        else:
            e = r['err']
            good = (e.get('file') == c['file'] and e.get('line') in c['lines'] and e.get('inc') == c['inc'])
            stats[key + (':located' if good else ':WRONG')] = stats.get(key + (':located' if good else ':WRONG'), 0) + 1
            if good:
                continue
            v = {'why': 'error located at %s:%s (included in %s), the defect is at %s:%s (included in %s)'
                        % (e.get('file'), e.get('line'), e.get('inc'), c['file'], c['lines'], c['inc']),
                 'message': e.get('msg'), 'case': c}
        att = None
        for f in known:
            if f.get('kinds') and c['kind'] in f['kinds'] and (not f.get('only_included') or c['inc'] is not None):
                att = f
                break
        if att:
            ctx.known_finding(att['id'], att['text'])
            continue
        if reported < 3:
            ctx.violation('location', v)
            reported += 1
    ctx.cov['programs'] = len(inj)
    ctx.cov['distinct_nontrivial'] = len(inj)
    ctx.cov['correspondence']['corr-S error injection'] = {'cases': len(inj), 'outcomes': stats}
    ctx.sample({'injected_case': {k: v for k, v in inj[0].items() if k != 'files'}})
    if mism and not reported:
        ctx.violation_noinput('Model/Cpp.v no longer matches cpp::process (line table) on %d of %d inputs; first: %s'
                              % (len(mism), n, json.dumps(mism[0])[:2000]), 'corr-M:cpp')
    ctx.cov['rule'] = ('10 defect kinds (3 preprocessor, 2 syntax, 2 semantic, 3 code generation) x random combinations of line-shifting '
                       'constructs before them (multi-line comments, splices, skipped #if/#ifdef regions, #define lines, assembler and C '
                       'includes, CR-LF), in the main file or in an included file; non-trivial = every injected case')
    ctx.cov['trusted_base'] = ['Coq 8.16.1 kernel', 'extraction of Model/Cpp.v', 'hook cpp_process', 'harness ccv', 'the case builder (tools/props/c06.py) knows the planted line']
    ctx.assumptions = ['warnings (printed to stdout by the library) are not captured', 'pest\'s own position for syntax errors is taken as is']
