(** Extraction of the executable 6502 semantics (engine "sem") used for co-execution. *)
From Coq Require Import ExtrOcamlBasic ExtrOcamlString.
From CC Require Import Base.Str Asm.Lines Asm.Operand M6502.Isa M6502.Sem Model.WfCode Model.AsmSel Model.CallGraph.
Extraction Language OCaml.
Extraction "../build/ocaml/sem_model.ml"
  mnem_of_name mnem_name slines_of sline_of run_function mkCfg mkS mem_empty mset mget
  resolved_size shape_of parse_operand legal resolve enc_size wf_check asm_sel print_popnd instr_of mkVar in_use.
