"""corr-S oracles built from the extracted semantics: C semantics vs emitted code (C01, C17, C18)
and variant vs variant (C02, C14, C15)."""
from .common import *
from .coexec import *
from .pipeline import *
from .csem import *


def name_states(lay, states):
    """address-keyed initial states -> name-keyed (portable across layouts)"""
    inv = {}
    for n, addrs in lay['cells'].items():
        for i, a in enumerate(addrs):
            inv[a] = (n, i)
    out = []
    for st in states:
        out.append({'A': st['A'], 'X': st['X'], 'Y': st['Y'], 'S': st['S'], 'flags': st['flags'],
                    'named': {'%s:%d' % inv[a]: v for a, v in st['cells'].items() if a in inv}})
    return out


def states_for(lay, named):
    out = []
    for st in named:
        cells = {}
        for n, addrs in lay['cells'].items():
            for i, a in enumerate(addrs):
                cells[a] = st['named'].get('%s:%d' % (n, i), 0)
        out.append({'A': st['A'], 'X': st['X'], 'Y': st['Y'], 'S': st['S'], 'flags': st['flags'], 'cells': cells})
    return out


def small_index_states(rng, lay, n):
    """initial states biased so that X and Y are valid indices of the 8-element arrays"""
    # pointer variables (p, q of the generator) start on some char variable or array of the program
    tg = [n_ for n_ in ('a', 'b', 'c', 'd', 'arr', 'tab') if n_ in lay['sym']]
    sts = gen_states(rng, lay, n, pointer_targets={'p': tg, 'q': tg} if tg else None)
    for k, st in enumerate(sts):
        if k % 4 != 3:
            st['X'] = rng.randrange(8)
            st['Y'] = rng.randrange(8)
    return sts


def c_vs_machine(progs, args, nstates, rng, named=None, fuel=300000, trace=False):
    """progs: {pid: Prog}.  Compiles each with [args], runs the emitted code and the C semantics
    from the same states.  -> {pid: {'status', 'err', 'cases': [(k, verdict, detail)], 'meta'}}
    verdict in: agree | DIFF | MACHINE-fault | MACHINE-fuel | undecided | unsupported | cfuel"""
    srcs = {k: p.source() for k, p in progs.items()}
    comp = compile_variants(srcs, {'v': list(args)})
    out = {}
    ok = {}
    for pid, v in comp.items():
        if getattr(progs[pid], 'rename', None):
            from .gen_c import unrename_result
            v['v'] = unrename_result(v['v'], progs[pid].rename)
        r = v['v']
        out[pid] = {'status': r['status'], 'err': r.get('err'), 'msg': r.get('msg'), 'loc': r.get('loc'), 'cases': []}
        if r['status'] == 'ok':
            ok[pid] = v
    text = []
    meta = {}
    for pid, vs in ok.items():
        ref = vs['v']
        try:
            lay = make_layout(ref['vars'], [f['name'] for f in ref.get('funcs', [])])
        except LayoutError:
            out[pid]['status'] = 'layout'
            continue
        if named is not None:
            nm = named[pid] if isinstance(named, dict) else named
            states = states_for(lay, nm)
        else:
            states = small_index_states(rng, lay, nstates)
        t, watch = prog_record(pid, funcs_of(ref), lay, states, fuel=fuel)
        meta[pid] = {'layout': lay, 'states': states, 'watch': watch}
        text.append(t)
    runs = run_sem(''.join(text)) if text else {}
    ctext = []
    cw = {}
    for pid, m in meta.items():
        t, w = cprog_record(pid, progs[pid], m['layout'], m['states'])
        ctext.append(t)
        cw[pid] = w
    cr = run_csem(''.join(ctext)) if ctext else {}
    from .features import features
    wide_lit = {pid: 'const_wider_than_16' in features(progs[pid]) for pid in meta}
    for pid, m in meta.items():
        o = out[pid]
        o['meta'] = m
        o['src'] = srcs[pid]
        for k in range(len(m['states'])):
            a = cr.get(pid, {}).get(k)
            b = runs.get(pid, {}).get(k)
            if a is None or b is None:
                o['cases'].append((k, 'missing', None))
                continue
            if a['tag'] == 'ok' and wide_lit.get(pid):
                # an all-literal operand whose exact value needs more than 16 bits feeds >>, / or a comparison: C types
                # literals above 32767 as long and the compiler folds in 32 bits, Src/CSem.v has 16-bit arithmetic only:
                # the reference does not decide these runs
                o['cases'].append((k, 'undecided', 'literal arithmetic wider than 16 bits'))
            elif a['tag'] == 'ok':
                if b['tag'] == 'halt':
                    d = expected_vs_machine(cw[pid], a, b, m['layout'], m['watch'])
                    if d:
                        o['cases'].append((k, 'DIFF', d))
                    elif trace and norm_ctrace(a['trace']) != norm_mtrace(b['trace'], m['layout']):
                        o['cases'].append((k, 'TRACE', (a['trace'], b['trace'])))
                    else:
                        o['cases'].append((k, 'agree', None))
                else:
                    o['cases'].append((k, 'MACHINE-' + b['tag'], b.get('why')))
            elif a['tag'] == 'fuel':
                o['cases'].append((k, 'cfuel', None))
            else:
                o['cases'].append((k, a['tag'], a.get('why')))
    return out


def norm_ctrace(tr):
    return list(tr)


def norm_mtrace(tr, lay):
    return list(tr)


def failing(o):
    return [c for c in o['cases'] if c[1] in ('DIFF', 'MACHINE-fault', 'MACHINE-fuel', 'TRACE')]


def shrink_c01(prog, args, named_state, rng, want_kinds=('DIFF', 'MACHINE-fault', 'MACHINE-fuel', 'TRACE'), trace=False):
    from .shrink import shrink

    def batch(cands):
        ps = {'c%d' % i: c for i, c in enumerate(cands)}
        try:
            res = c_vs_machine(ps, args, 1, rng, named=[named_state], trace=trace)
        except Exception:
            return [False] * len(cands)
        return [any(c[1] in want_kinds for c in res['c%d' % i]['cases']) for i in range(len(cands))]
    return shrink(prog, batch)
