(** Specification side of C07 (conditional compilation).

    A source file is described as a tree of conditional groups; [flatten] gives its physical
    lines, [spec_active] the lines that must reach the compiler: a line is kept iff in every
    enclosing group the branch containing it is the selected one, the selected branch being the
    first whose condition holds (or #else when none does).  [wf] says where the "inert"
    directives (#define, #undef, #include, #error) may occur: only in unselected regions, where
    they must have no effect.

    Everything here is executable / decidable.  The truth value of an #if condition is the one
    the model's own evaluator ([Cpp.evaluate]) gives it; no macro is defined, so [#ifdef n] is
    false and [#ifndef n] is true. *)
From Coq Require Import String Ascii List Bool Arith NArith.
From CC Require Import Base.Str Model.Cpp.
Import ListNotations.
Open Scope list_scope.
Open Scope string_scope.

(** ** conditions *)

(** value of an #if / #elif expression according to the model's evaluator *)
Definition cond_value (c : string) : option bool :=
  match evaluate c with
  | EvOk b EmptyString => Some b
  | _ => None
  end.

Definition cond_true (c : string) : bool :=
  match cond_value c with Some b => b | None => false end.

Fixpoint all_chars (f : ascii -> bool) (s : string) : bool :=
  match s with
  | EmptyString => true
  | String a r => f a && all_chars f r
  end.

(** non-empty and the first character is not white space *)
Definition edge_ok (s : string) : bool :=
  match s with
  | String a _ => negb (is_ws a)
  | EmptyString => false
  end.

(** non-empty, no leading or trailing white space *)
Definition tight (s : string) : bool := edge_ok s && edge_ok (rev_string s).

Definition newline : ascii := ascii_of_nat 10.

(** characters allowed in the argument of #if/#elif/#ifdef/#ifndef: anything but slash, double
    quote, backslash and newline *)
Definition arg_char (a : ascii) : bool :=
  negb (Ascii.eqb a "/" || Ascii.eqb a """" || Ascii.eqb a "\" || Ascii.eqb a newline).

(** "simple text" argument *)
Definition arg_ok (s : string) : bool := tight s && all_chars arg_char s.

(** a condition: simple text the evaluator gives a truth value to *)
Definition cond_ok (c : string) : bool :=
  arg_ok c && match cond_value c with Some _ => true | None => false end.

(** ** ordinary lines *)

(** no string literal, no comment opener, no backslash *)
Definition text_ok (l : string) : bool :=
  negb (contains """" l) && negb (contains "//" l) && negb (contains "/*" l)
  && negb (contains "\" l).

(** exactly one newline, which is the last character *)
Definition one_line (l : string) : bool :=
  ends_with nl l && negb (contains nl (string_take (String.length l - 1) l)).

(** an ordinary source line: its first non-blank character is not '#' *)
Definition plain_ok (l : string) : bool :=
  one_line l && text_ok l && negb (starts_with "#" (trim l)).

(** the trimmed line is the directive word [d] alone or [d] followed by a space *)
Definition is_directive (d t : string) : bool :=
  String.eqb t d || starts_with (d ++ " ") t.

(** a #define / #undef / #include / #error line (any indentation, any argument not containing
    a quote, a comment opener or a backslash, e.g. "#include <f.h>") *)
Definition inert_ok (l : string) : bool :=
  one_line l && text_ok l
  && (is_directive "#define" (trim l) || is_directive "#undef" (trim l)
      || is_directive "#include" (trim l) || is_directive "#error" (trim l)).

(** ** trees *)

Inductive head :=
| HIf (c : string)
| HIfdef (n : string)
| HIfndef (n : string).

Inductive item :=
| Plain (l : string)                               (* an ordinary source line *)
| Inert (l : string)                               (* a #define / #undef / #include / #error line *)
| Group (h : head) (body : list item) (rest : tail)
with tail :=
| Elif (c : string) (body : list item) (rest : tail)
| Else (body : list item)                          (* #else body #endif *)
| Endif.                                           (* #endif *)

(** the same with the branches given as lists:
    #if.. body (#elif c body)* (#else body)? #endif *)
Fixpoint mk_tail (elifs : list (string * list item)) (els : option (list item)) : tail :=
  match elifs with
  | (c, b) :: r => Elif c b (mk_tail r els)
  | [] => match els with Some b => Else b | None => Endif end
  end.
Definition group (h : head) (body : list item) (elifs : list (string * list item))
           (els : option (list item)) : item :=
  Group h body (mk_tail elifs els).

(** *** the physical lines *)
Definition head_line (h : head) : string :=
  match h with
  | HIf c => "#if " ++ c ++ nl
  | HIfdef n => "#ifdef " ++ n ++ nl
  | HIfndef n => "#ifndef " ++ n ++ nl
  end.
Definition elif_line (c : string) : string := "#elif " ++ c ++ nl.
Definition else_line : string := "#else" ++ nl.
Definition endif_line : string := "#endif" ++ nl.

Fixpoint flatten_item (i : item) : list string :=
  match i with
  | Plain l => [l]
  | Inert l => [l]
  | Group h body rest => head_line h :: flat_map flatten_item body ++ flatten_tail rest
  end
with flatten_tail (r : tail) : list string :=
  match r with
  | Elif c body rest => elif_line c :: flat_map flatten_item body ++ flatten_tail rest
  | Else body => else_line :: flat_map flatten_item body ++ [endif_line]
  | Endif => [endif_line]
  end.
Definition flatten (t : list item) : list string := flat_map flatten_item t.

(** *** the property: which lines reach the compiler *)
Definition head_true (h : head) : bool :=
  match h with
  | HIf c => cond_true c
  | HIfdef _ => false          (* no macro is defined *)
  | HIfndef _ => true
  end.

Fixpoint active_item (i : item) : list string :=
  match i with
  | Plain l => [l]
  | Inert _ => []
  | Group h body rest => if head_true h then flat_map active_item body else active_tail rest
  end
with active_tail (r : tail) : list string :=
  match r with
  | Elif c body rest => if cond_true c then flat_map active_item body else active_tail rest
  | Else body => flat_map active_item body
  | Endif => []
  end.
Definition spec_active (t : list item) : list string := flat_map active_item t.

(** *** where inert directives may occur
    [sel]: the item lies in a selected region.  [live]: the enclosing regions are selected and
    no earlier branch of this group has been. *)
Fixpoint wf_item (sel : bool) (i : item) : bool :=
  match i with
  | Plain _ => true
  | Inert _ => negb sel
  | Group h body rest =>
      forallb (wf_item (sel && head_true h)) body && wf_tail (sel && negb (head_true h)) rest
  end
with wf_tail (live : bool) (r : tail) : bool :=
  match r with
  | Elif c body rest =>
      forallb (wf_item (live && cond_true c)) body && wf_tail (live && negb (cond_true c)) rest
  | Else body => forallb (wf_item live) body
  | Endif => true
  end.
Definition wf (sel : bool) (t : list item) : bool := forallb (wf_item sel) t.

(** *** side conditions on the text of the lines *)
Definition head_ok (h : head) : bool :=
  match h with
  | HIf c => cond_ok c
  | HIfdef n => arg_ok n
  | HIfndef n => arg_ok n
  end.

Fixpoint lines_ok_item (i : item) : bool :=
  match i with
  | Plain l => plain_ok l
  | Inert l => inert_ok l
  | Group h body rest => head_ok h && forallb lines_ok_item body && lines_ok_tail rest
  end
with lines_ok_tail (r : tail) : bool :=
  match r with
  | Elif c body rest => cond_ok c && forallb lines_ok_item body && lines_ok_tail rest
  | Else body => forallb lines_ok_item body
  | Endif => true
  end.
Definition lines_ok (t : list item) : bool := forallb lines_ok_item t.

Definition tree_ok (t : list item) : Prop := lines_ok t = true /\ wf true t = true.

(** ** the #if expression language: 0, 1, prefix !, infix == (left associative, no parentheses) *)
Inductive uexp := U0 | U1 | UNot (u : uexp).
Inductive bexp := BU (u : uexp) | BEq (e : bexp) (u : uexp).     (* e == u *)

Fixpoint print_u (u : uexp) : string :=
  match u with
  | U0 => "0"
  | U1 => "1"
  | UNot u' => "!" ++ print_u u'
  end.
Fixpoint print (e : bexp) : string :=
  match e with
  | BU u => print_u u
  | BEq e' u => print e' ++ " == " ++ print_u u
  end.

Fixpoint value_u (u : uexp) : bool :=
  match u with
  | U0 => false
  | U1 => true
  | UNot u' => negb (value_u u')
  end.
Fixpoint value (e : bexp) : bool :=
  match e with
  | BU u => value_u u
  | BEq e' u => Bool.eqb (value e') (value_u u)
  end.

(** sanity checks (all by computation) *)
Example conds_ok :
  forallb cond_ok ["0"; "1"; "!0"; "1 == 1"; "0 == 0"; "!1 == 0"] = true.
Proof. vm_compute. reflexivity. Qed.

Example plain_ok_ex : plain_ok ("  lda #1 / 2;" ++ nl) = true /\ plain_ok nl = true
                      /\ plain_ok (" #define X" ++ nl) = false.
Proof. vm_compute. repeat split. Qed.

Example inert_ok_ex :
  forallb inert_ok ["#define X 1" ++ nl; "  #undef X" ++ nl; "#include <f.h>" ++ nl;
                    "#error boom" ++ nl] = true.
Proof. vm_compute. reflexivity. Qed.

Example spec_ex :
  let t := [Plain ("a" ++ nl);
            group (HIf "0") [Inert ("#error boom" ++ nl); Plain ("b" ++ nl)]
                  [("1 == 1", [Plain ("c" ++ nl); group (HIfdef "X") [Plain ("d" ++ nl)] [] (Some [Plain ("e" ++ nl)])]);
                   ("1", [Inert ("#define X 1" ++ nl); Plain ("f" ++ nl)])]
                  (Some [Plain ("g" ++ nl)]);
            Plain ("h" ++ nl)] in
  lines_ok t = true /\ wf true t = true
  /\ spec_active t = ["a" ++ nl; "c" ++ nl; "e" ++ nl; "h" ++ nl]
  /\ match run_cpp [] "t.c" [] (flatten t) with
     | POk p => p_out p = String.concat "" (spec_active t)
     | PErr _ => False
     end.
Proof. vm_compute. repeat split. Qed.
