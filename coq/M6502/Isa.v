(** The 6502 instruction set restricted to the 45 mnemonics of [AsmMnemonic]: addressing modes,
    the real opcode table, and what is *derived* from it: legality, encoded size.  Base cycle
    counts are the datasheet's.  Transcribed from the MOS 6502 datasheet (trusted base). *)
From Coq Require Import String List Bool NArith ZArith.
From CC Require Import Asm.Lines.
Import ListNotations.

Inductive mode := Imp | Acc | Imm | Zp | ZpX | ZpY | Abs | AbsX | AbsY | IndY | Rel.

Definition mode_eqb (a b : mode) : bool :=
  match a, b with
  | Imp, Imp | Acc, Acc | Imm, Imm | Zp, Zp | ZpX, ZpX | ZpY, ZpY
  | Abs, Abs | AbsX, AbsX | AbsY, AbsY | IndY, IndY | Rel, Rel => true
  | _, _ => false
  end.

Definition all_modes : list mode := [Imp; Acc; Imm; Zp; ZpX; ZpY; Abs; AbsX; AbsY; IndY; Rel].

Open Scope N_scope.

(** the opcode byte of (mnemonic, mode), [None] when the 6502 has no such instruction *)
Definition opcode (m : mnem) (md : mode) : option N :=
  match m, md with
  | LDA, Imm => Some 0xA9 | LDA, Zp => Some 0xA5 | LDA, ZpX => Some 0xB5 | LDA, Abs => Some 0xAD
  | LDA, AbsX => Some 0xBD | LDA, AbsY => Some 0xB9 | LDA, IndY => Some 0xB1
  | LDX, Imm => Some 0xA2 | LDX, Zp => Some 0xA6 | LDX, ZpY => Some 0xB6 | LDX, Abs => Some 0xAE
  | LDX, AbsY => Some 0xBE
  | LDY, Imm => Some 0xA0 | LDY, Zp => Some 0xA4 | LDY, ZpX => Some 0xB4 | LDY, Abs => Some 0xAC
  | LDY, AbsX => Some 0xBC
  | STA, Zp => Some 0x85 | STA, ZpX => Some 0x95 | STA, Abs => Some 0x8D | STA, AbsX => Some 0x9D
  | STA, AbsY => Some 0x99 | STA, IndY => Some 0x91
  | STX, Zp => Some 0x86 | STX, ZpY => Some 0x96 | STX, Abs => Some 0x8E
  | STY, Zp => Some 0x84 | STY, ZpX => Some 0x94 | STY, Abs => Some 0x8C
  | TAX, Imp => Some 0xAA | TAY, Imp => Some 0xA8 | TXA, Imp => Some 0x8A | TYA, Imp => Some 0x98
  | ADC, Imm => Some 0x69 | ADC, Zp => Some 0x65 | ADC, ZpX => Some 0x75 | ADC, Abs => Some 0x6D
  | ADC, AbsX => Some 0x7D | ADC, AbsY => Some 0x79 | ADC, IndY => Some 0x71
  | SBC, Imm => Some 0xE9 | SBC, Zp => Some 0xE5 | SBC, ZpX => Some 0xF5 | SBC, Abs => Some 0xED
  | SBC, AbsX => Some 0xFD | SBC, AbsY => Some 0xF9 | SBC, IndY => Some 0xF1
  | EOR, Imm => Some 0x49 | EOR, Zp => Some 0x45 | EOR, ZpX => Some 0x55 | EOR, Abs => Some 0x4D
  | EOR, AbsX => Some 0x5D | EOR, AbsY => Some 0x59 | EOR, IndY => Some 0x51
  | AND, Imm => Some 0x29 | AND, Zp => Some 0x25 | AND, ZpX => Some 0x35 | AND, Abs => Some 0x2D
  | AND, AbsX => Some 0x3D | AND, AbsY => Some 0x39 | AND, IndY => Some 0x31
  | ORA, Imm => Some 0x09 | ORA, Zp => Some 0x05 | ORA, ZpX => Some 0x15 | ORA, Abs => Some 0x0D
  | ORA, AbsX => Some 0x1D | ORA, AbsY => Some 0x19 | ORA, IndY => Some 0x11
  | LSR, Acc => Some 0x4A | LSR, Zp => Some 0x46 | LSR, ZpX => Some 0x56 | LSR, Abs => Some 0x4E
  | LSR, AbsX => Some 0x5E
  | ASL, Acc => Some 0x0A | ASL, Zp => Some 0x06 | ASL, ZpX => Some 0x16 | ASL, Abs => Some 0x0E
  | ASL, AbsX => Some 0x1E
  | ROL, Acc => Some 0x2A | ROL, Zp => Some 0x26 | ROL, ZpX => Some 0x36 | ROL, Abs => Some 0x2E
  | ROL, AbsX => Some 0x3E
  | ROR, Acc => Some 0x6A | ROR, Zp => Some 0x66 | ROR, ZpX => Some 0x76 | ROR, Abs => Some 0x6E
  | ROR, AbsX => Some 0x7E
  | CLC, Imp => Some 0x18 | SEC, Imp => Some 0x38
  | CMP, Imm => Some 0xC9 | CMP, Zp => Some 0xC5 | CMP, ZpX => Some 0xD5 | CMP, Abs => Some 0xCD
  | CMP, AbsX => Some 0xDD | CMP, AbsY => Some 0xD9 | CMP, IndY => Some 0xD1
  | CPX, Imm => Some 0xE0 | CPX, Zp => Some 0xE4 | CPX, Abs => Some 0xEC
  | CPY, Imm => Some 0xC0 | CPY, Zp => Some 0xC4 | CPY, Abs => Some 0xCC
  | BCC, Rel => Some 0x90 | BCS, Rel => Some 0xB0 | BEQ, Rel => Some 0xF0 | BMI, Rel => Some 0x30
  | BNE, Rel => Some 0xD0 | BPL, Rel => Some 0x10
  | INC, Zp => Some 0xE6 | INC, ZpX => Some 0xF6 | INC, Abs => Some 0xEE | INC, AbsX => Some 0xFE
  | INX, Imp => Some 0xE8 | INY, Imp => Some 0xC8
  | DEC, Zp => Some 0xC6 | DEC, ZpX => Some 0xD6 | DEC, Abs => Some 0xCE | DEC, AbsX => Some 0xDE
  | DEX, Imp => Some 0xCA | DEY, Imp => Some 0x88
  | JMP, Abs => Some 0x4C | JSR, Abs => Some 0x20 | RTS, Imp => Some 0x60 | RTI, Imp => Some 0x40
  | PHA, Imp => Some 0x48 | PLA, Imp => Some 0x68 | PHP, Imp => Some 0x08 | PLP, Imp => Some 0x28
  | NOP, Imp => Some 0xEA
  | _, _ => None
  end.

Definition legal (m : mnem) (md : mode) : bool :=
  match opcode m md with Some _ => true | None => false end.

Definition mode_size (md : mode) : N :=
  match md with
  | Imp | Acc => 1
  | Imm | Zp | ZpX | ZpY | IndY | Rel => 2
  | Abs | AbsX | AbsY => 3
  end.

(** encoded size of a legal instruction *)
Definition enc_size (m : mnem) (md : mode) : option N :=
  if legal m md then Some (mode_size md) else None.

(** instruction classes for timing *)
Definition is_store (m : mnem) : bool := match m with STA | STX | STY => true | _ => false end.
Definition is_rmw (m : mnem) : bool :=
  match m with INC | DEC | ASL | LSR | ROL | ROR => true | _ => false end.

(** base cycles of a legal (mnemonic, mode) pair, without page-cross / branch-taken penalties *)
Definition base_cycles (m : mnem) (md : mode) : N :=
  match m, md with
  | (PHA | PHP), _ => 3
  | (PLA | PLP), _ => 4
  | (JSR | RTS | RTI), _ => 6
  | JMP, _ => 3
  | _, (Imp | Acc | Imm | Rel) => 2
  | _, Zp => if is_rmw m then 5 else 3
  | _, (ZpX | ZpY) => if is_rmw m then 6 else 4
  | _, Abs => if is_rmw m then 6 else 4
  | _, (AbsX | AbsY) => if is_rmw m then 7 else if is_store m then 5 else 4
  | _, IndY => if is_store m then 6 else 5
  end.

(** a read through an indexed mode pays one more cycle when the index crosses a page *)
Definition pays_page_cross (m : mnem) (md : mode) : bool :=
  match md with
  | AbsX | AbsY | IndY => negb (is_store m) && negb (is_rmw m)
  | _ => false
  end.

(** operand shapes as an assembler sees them *)
Inductive shape := ShNone | ShImm | ShMem | ShMemX | ShMemY | ShIndY | ShLabel.

(** the mode DASM selects: the zero-page form when the address is known to be < $100 and the
    form exists, else the absolute form *)
Definition resolve (m : mnem) (sh : shape) (zp : bool) : option mode :=
  let pick (short long : mode) :=
    if zp && legal m short then Some short
    else if legal m long then Some long else None in
  match sh with
  | ShNone => if legal m Imp then Some Imp else if legal m Acc then Some Acc else None
  | ShImm => if legal m Imm then Some Imm else None
  | ShMem => pick Zp Abs
  | ShMemX => pick ZpX AbsX
  | ShMemY => pick ZpY AbsY
  | ShIndY => if zp && legal m IndY then Some IndY else None
  | ShLabel => if legal m Rel then Some Rel else if legal m Abs then Some Abs else None
  end.

Definition resolved_size (m : mnem) (sh : shape) (zp : bool) : option N :=
  match resolve m sh zp with Some md => Some (mode_size md) | None => None end.
