(** C01 — emitted 6502 code computes what the C source says: FUNCTION CALLS with arguments and
    return values, on the real semantics [Sem.run] with a NON-EMPTY program table.
    The exact -O0 output of the compiler for six callee bodies and eleven call statements
    (Model/GenCall.v, [flisting_NN], compared with the real compiler by tools/props) under the
    calling convention of the generator: parameters are static cells [fn_param], arguments are
    evaluated into A and stored in order, [JSR fn], result in A.  The program table holds every
    function as the harness lays it out: the body followed by one RTS ([harness_fun], [prog_has]).
    [JSR] pushes two marker bytes in page 1 and enters the callee with the caller's frame on the
    call stack; [RTS] pulls them, checks them, resumes the caller.
    [goes cfg prog fname c stack pc s pc' s']: inside function [fname] (lines [c]) under the call
    stack [stack], [Sem.run] goes from line [pc], state [s], to line [pc'], state [s'], the call
    stack being [stack] again.  [calls_to cfg prog C st st']: main = the lines of [C], run with the
    table from an empty call stack, halts normally in [st'].
    The variables and parameter cells are anywhere outside the stack page ([off_stack]); the frame
    conditions ([only_changes_off]) are about the memory outside page 1, where the markers are
    written; S, X, Y are unchanged by every statement ([keeps_xys]): the calls are balanced, for
    all byte-valued states, whatever S.
    Statements only; proofs in Proofs/GenCallFacts.v. *)
From Coq Require Import String List Bool NArith ZArith Lia.
From CC Require Import Base.Str Asm.Lines M6502.Isa Asm.Operand M6502.Sem Model.OptSem
  Model.GenTemplates Proofs.GenTemplatesFacts Proofs.GenCmp16Facts Model.GenLoops
  Proofs.GenLoopsFacts Model.GenTables Model.GenIf Proofs.GenIfFacts Model.GenCtl Proofs.GenCtlFacts
  Model.GenCall Proofs.GenCallFacts.
Import ListNotations.
Open Scope Z_scope.

(** the call rule with the two pulls explicit: arbitrary call stack (any depth) *)
Theorem C01_call_rule_raw :
  forall (cfg : config) (prog : sprogram) (fname : string) (c : list sline)
         (stack : list (string * list sline * nat)) (i : nat) (s : mstate)
         (f : string) (cf : list sline) (p : bool) (raw : string) (pr : nat)
         (s2 s3 s4 : mstate),
       nth_error c i = Some (SIns JSR (OLbl f) p raw) ->
       find_func f prog = Some cf ->
       goes cfg prog f cf ((fname, c, S i) :: stack) 0
         (enter (Z.of_nat (Datatypes.length stack) + 1) s) pr s2 ->
       is_rts cf pr ->
       pull s2 = (s3, byte (255 - (Z.of_nat (Datatypes.length stack) + 1))) ->
       pull s3 = (s4, byte (Z.of_nat (Datatypes.length stack) + 1)) ->
       goes cfg prog fname c stack i s (S i) s4.
Proof. exact call_rule_raw. Qed.

(** THE CALL RULE.  [s]: the state at the [JSR], line [i] of the caller, under ANY call stack; the
    callee, entered in [enter d s] (the two markers pushed: [d] = new depth at [256 + S], [255 - d]
    at [256 + byte (S - 1)]), goes to one of its RTS lines in [s2], with the S it was entered with
    and the two marker cells intact.  Then the caller goes on at line [i + 1] in the state the
    callee left, S restored: every register and every cell of memory as the callee left it. *)
Theorem C01_call_rule :
  forall (cfg : config) (prog : sprogram) (fname : string) (c : list sline)
         (stack : list (string * list sline * nat)) (i : nat) (s : mstate)
         (f : string) (cf : list sline) (p : bool) (raw : string) (pr : nat)
         (s2 : mstate),
       nth_error c i = Some (SIns JSR (OLbl f) p raw) ->
       find_func f prog = Some cf ->
       0 <= rS s < 256 ->
       goes cfg prog f cf ((fname, c, S i) :: stack) 0
         (enter (Z.of_nat (Datatypes.length stack) + 1) s) pr s2 ->
       is_rts cf pr ->
       rS s2 = rS (enter (Z.of_nat (Datatypes.length stack) + 1) s) ->
       mget (mem s2) (256 + rS s) = byte (Z.of_nat (Datatypes.length stack) + 1) ->
       mget (mem s2) (256 + byte (rS s - 1)) = byte (255 - (Z.of_nat (Datatypes.length stack) + 1)) ->
       goes cfg prog fname c stack i s (S i) (set_sp s2 (rS s)).
Proof. exact call_rule. Qed.

(** the two cells below the caller's S hold the markers after the call *)
Theorem C01_call_rule_stack_cells :
  forall (d : Z) (s s2 : mstate),
       mget (mem s2) (256 + rS s) = byte d ->
       mget (mem s2) (256 + byte (rS s - 1)) = byte (255 - d) ->
       mem (set_sp s2 (rS s)) = mem s2 /\
       rS (set_sp s2 (rS s)) = rS s /\
       rA (set_sp s2 (rS s)) = rA s2 /\
       rX (set_sp s2 (rS s)) = rX s2 /\
       rY (set_sp s2 (rS s)) = rY s2 /\
       mget (mem (set_sp s2 (rS s))) (256 + rS s) = byte d /\
       mget (mem (set_sp s2 (rS s))) (256 + byte (rS s - 1)) = byte (255 - d).
Proof. exact call_rule_stack_cells. Qed.

(** the [JSR] of a function with a specification, anywhere, under any call stack: balanced *)
Theorem C01_call_seg :
  forall (cfg : config) (prog : sprogram) (f : string) (W : list Z)
         (res : mstate -> Z) (eff : list (Z * (mstate -> Z))) (p : bool)
         (raw : string) (s : mstate),
       fun_ok cfg prog f W res eff ->
       (forall a : Z, In a W -> off_stack a) ->
       res_off res ->
       eff_off eff ->
       bytes_ok s -> seg_wp cfg prog [SIns JSR (OLbl f) p raw] s (call_rel W res eff s).
Proof. exact call_seg. Qed.

(** the call template: arguments with specifications, then the call *)
Theorem C01_call_tpl :
  forall (cfg : config) (prog : sprogram),
       ports cfg = [] ->
       forall (fn : string) (args : list arg_sem) (D Wf : list Z) (res : mstate -> Z)
         (eff : list (Z * (mstate -> Z))),
       fn <> "" ->
       fun_ok cfg prog fn Wf res eff ->
       (forall a : Z, In a Wf -> off_stack a) ->
       res_off res ->
       eff_off eff ->
       args_ok cfg prog fn D [] args ->
       code_ok cfg prog (call_tpl fn (map as_arg args))
         (fun s s' : mstate =>
          exists s1 : mstate,
            pass_rel D args [] s s1 /\
            call_rel Wf res eff s1 s' /\ only_changes_off (D ++ Wf) s s' /\ keeps_xys s s').
Proof. exact call_tpl_correct. Qed.

(** a call is an expression again: calls nest as arguments *)
Theorem C01_call_expr :
  forall (cfg : config) (prog : sprogram),
       ports cfg = [] ->
       forall (fn : string) (args : list arg_sem) (D Wf : list Z) (res : mstate -> Z)
         (eff : list (Z * (mstate -> Z))) (val : mstate -> Z),
       fn <> "" ->
       fun_ok cfg prog fn Wf res eff ->
       (forall a : Z, In a Wf -> off_stack a) ->
       res_off res ->
       eff_off eff ->
       args_ok cfg prog fn D [] args ->
       (forall s s1 : mstate, bytes_ok s -> pass_rel D args [] s s1 -> res s1 = val s) ->
       expr_ok cfg prog (call_tpl fn (map as_arg args)) (D ++ Wf) val.
Proof. exact call_expr_ok. Qed.

(** a statement with a specification, run as main with the program table *)
Theorem C01_call_code_ok_calls_to :
  forall (cfg : config) (prog : sprogram) (C : code) (R : mstate -> mstate -> Prop)
         (st : mstate),
       code_ok cfg prog C R ->
       bytes_ok st -> exists st' : mstate, calls_to cfg prog C st st' /\ R st st'.
Proof. exact code_ok_calls_to. Qed.

(** the final state is unique, and byte-valued again *)
Theorem C01_call_calls_to_det :
  forall (cfg : config) (prog : sprogram) (C : code) (st s1 s2 : mstate),
       calls_to cfg prog C st s1 -> calls_to cfg prog C st s2 -> s1 = s2.
Proof. exact calls_to_det. Qed.

Theorem C01_call_calls_to_bytes :
  forall (cfg : config) (prog : sprogram) (C : code) (st st' : mstate),
       calls_to cfg prog C st st' -> bytes_ok st -> bytes_ok st'.
Proof. exact calls_to_bytes_ok. Qed.

(** the six functions of the listing, as the harness lays them out (body, RTS) *)
Theorem C01_call_fun_f :
  forall (cfg : config) (prog : sprogram) (pc : Z),
       ports cfg = [] ->
       var_cell cfg "c" pc ->
       prog_has prog "f" fun_f ->
       fun_ok cfg prog "f" [pc] (fun _ : mstate => 1) [(pc, fun _ : mstate => 1)].
Proof. exact fun_f_ok. Qed.

Theorem C01_call_fun_g :
  forall (cfg : config) (prog : sprogram) (pa : Z),
       ports cfg = [] ->
       var_cell cfg "a" pa ->
       prog_has prog "g" fun_g -> fun_ok cfg prog "g" [] (fun s : mstate => mget (mem s) pa) [].
Proof. exact fun_g_ok. Qed.

Theorem C01_call_fun_h :
  forall (cfg : config) (prog : sprogram) (px : Z),
       ports cfg = [] ->
       var_cell cfg "h_x" px ->
       prog_has prog "h" fun_h ->
       fun_ok cfg prog "h" [] (fun s : mstate => (mget (mem s) px + 1) mod 256) [].
Proof. exact fun_h_ok. Qed.

Theorem C01_call_fun_k :
  forall (cfg : config) (prog : sprogram) (px py : Z),
       ports cfg = [] ->
       var_cell cfg "k_x" px ->
       var_cell cfg "k_y" py ->
       prog_has prog "k" fun_k ->
       fun_ok cfg prog "k" [] (fun s : mstate => (mget (mem s) px + mget (mem s) py) mod 256) [].
Proof. exact fun_k_ok. Qed.

Theorem C01_call_fun_set :
  forall (cfg : config) (prog : sprogram) (px pc : Z),
       ports cfg = [] ->
       var_cell cfg "set_x" px ->
       var_cell cfg "c" pc ->
       prog_has prog "set" fun_set ->
       fun_ok cfg prog "set" [pc] (fun s : mstate => mget (mem s) px)
         [(pc, fun s : mstate => mget (mem s) px)].
Proof. exact fun_set_ok. Qed.

Theorem C01_call_fun_m :
  forall (cfg : config) (prog : sprogram) (px pb : Z),
       ports cfg = [] ->
       var_cell cfg "m_x" px ->
       var_cell cfg "b" pb ->
       prog_has prog "m" fun_m ->
       fun_ok cfg prog "m" [] (fun s : mstate => Z.max (mget (mem s) px) (mget (mem s) pb)) [].
Proof. exact fun_m_ok. Qed.

(** the eleven call statements of the listing.  f(); *)
Theorem C01_call_stmt_f :
  forall (cfg : config) (prog : sprogram) (A : call_addrs) (st : mstate),
       call_env cfg prog A ->
       bytes_ok st ->
       exists st' : mstate,
         calls_to cfg prog (call_tpl "f" []) st st' /\
         mget (mem st') (ad_c A) = 1 /\ only_changes_off [ad_c A] st st' /\ keeps_xys st st'.
Proof. exact stmt_f_correct. Qed.

(** c = g(); *)
Theorem C01_call_stmt_g :
  forall (cfg : config) (prog : sprogram) (A : call_addrs) (st : mstate),
       call_env cfg prog A ->
       bytes_ok st ->
       exists st' : mstate,
         calls_to cfg prog (assign_call "c" "g" []) st st' /\
         mget (mem st') (ad_c A) = mget (mem st) (ad_a A) /\
         only_changes_off [ad_c A] st st' /\ keeps_xys st st'.
Proof. exact stmt_g_correct. Qed.

(** c = h(a); *)
Theorem C01_call_stmt_h :
  forall (cfg : config) (prog : sprogram) (A : call_addrs) (st : mstate),
       call_env cfg prog A ->
       bytes_ok st ->
       exists st' : mstate,
         calls_to cfg prog (assign_call "c" "h" [{| arg_param := "x"; arg_eval := evar "a" |}]) st
           st' /\
         mget (mem st') (ad_c A) = (mget (mem st) (ad_a A) + 1) mod 256 /\
         mget (mem st') (ad_hx A) = mget (mem st) (ad_a A) /\
         mget (mem st') (ad_a A) = mget (mem st) (ad_a A) /\
         mget (mem st') (ad_b A) = mget (mem st) (ad_b A) /\
         mget (mem st') (ad_i A) = mget (mem st) (ad_i A) /\
         only_changes_off [ad_c A; ad_hx A] st st' /\ keeps_xys st st'.
Proof. exact stmt_h_correct. Qed.

(** c = k(a, b); *)
Theorem C01_call_stmt_k :
  forall (cfg : config) (prog : sprogram) (A : call_addrs),
       call_env cfg prog A ->
       forall st : mstate,
       bytes_ok st ->
       exists st' : mstate,
         calls_to cfg prog
           (assign_call "c" "k"
              [{| arg_param := "x"; arg_eval := evar "a" |};
               {| arg_param := "y"; arg_eval := evar "b" |}]) st st' /\
         mget (mem st') (ad_c A) = (mget (mem st) (ad_a A) + mget (mem st) (ad_b A)) mod 256 /\
         only_changes_off [ad_c A; ad_kx A; ad_ky A] st st' /\ keeps_xys st st'.
Proof. exact stmt_k_correct. Qed.

(** set(5); *)
Theorem C01_call_stmt_set :
  forall (cfg : config) (prog : sprogram) (A : call_addrs),
       call_env cfg prog A ->
       forall st : mstate,
       bytes_ok st ->
       exists st' : mstate,
         calls_to cfg prog (call_tpl "set" [{| arg_param := "x"; arg_eval := econst 5 |}]) st st' /\
         mget (mem st') (ad_c A) = 5 /\
         only_changes_off [ad_c A; ad_sx A] st st' /\ keeps_xys st st'.
Proof. exact stmt_set_correct. Qed.

(** c = h(h(a)); *)
Theorem C01_call_stmt_hh :
  forall (cfg : config) (prog : sprogram) (A : call_addrs),
       call_env cfg prog A ->
       forall st : mstate,
       bytes_ok st ->
       exists st' : mstate,
         calls_to cfg prog
           (assign_call "c" "h"
              [{|
                 arg_param := "x";
                 arg_eval := call_tpl "h" [{| arg_param := "x"; arg_eval := evar "a" |}]
               |}]) st st' /\
         mget (mem st') (ad_c A) = (mget (mem st) (ad_a A) + 2) mod 256 /\
         only_changes_off [ad_c A; ad_hx A] st st' /\ keeps_xys st st'.
Proof. exact stmt_hh_correct. Qed.

(** c = k(g(), 3); *)
Theorem C01_call_stmt_kg3 :
  forall (cfg : config) (prog : sprogram) (A : call_addrs),
       call_env cfg prog A ->
       forall st : mstate,
       bytes_ok st ->
       exists st' : mstate,
         calls_to cfg prog
           (assign_call "c" "k"
              [{| arg_param := "x"; arg_eval := call_tpl "g" [] |};
               {| arg_param := "y"; arg_eval := econst 3 |}]) st st' /\
         mget (mem st') (ad_c A) = (mget (mem st) (ad_a A) + 3) mod 256 /\
         only_changes_off [ad_c A; ad_kx A; ad_ky A] st st' /\ keeps_xys st st'.
Proof. exact stmt_kg3_correct. Qed.

(** if (g()) c = 1; *)
Theorem C01_call_stmt_if_g :
  forall (cfg : config) (prog : sprogram) (A : call_addrs) (st : mstate),
       call_env cfg prog A ->
       bytes_ok st ->
       exists st' : mstate,
         calls_to cfg prog (if_expr_tpl (call_tpl "g" []) (assign8 "c" 1) 1) st st' /\
         mget (mem st') (ad_c A) =
         (if mget (mem st) (ad_a A) =? 0 then mget (mem st) (ad_c A) else 1) /\
         only_changes_off [ad_c A] st st' /\ keeps_xys st st'.
Proof. exact stmt_if_g_correct. Qed.

(** for (i = 0; i != 3; i++) f(); *)
Theorem C01_call_stmt_for_f :
  forall (cfg : config) (prog : sprogram) (A : call_addrs) (st : mstate),
       call_env cfg prog A ->
       bytes_ok st ->
       exists st' : mstate,
         calls_to cfg prog
           (for_tpl (assign8 "i" 0) (CConst RNeq "i" 3) (template (SInc8 "i")) (call_tpl "f" []) 1)
           st st' /\
         mget (mem st') (ad_i A) = 3 /\
         mget (mem st') (ad_c A) = 1 /\
         only_changes_off [ad_i A; ad_c A] st st' /\ keeps_xys st st'.
Proof. exact stmt_for_f_correct. Qed.

(** c = m(a);  (two RTS in the callee) *)
Theorem C01_call_stmt_m :
  forall (cfg : config) (prog : sprogram) (A : call_addrs),
       call_env cfg prog A ->
       forall st : mstate,
       bytes_ok st ->
       exists st' : mstate,
         calls_to cfg prog (assign_call "c" "m" [{| arg_param := "x"; arg_eval := evar "a" |}]) st
           st' /\
         mget (mem st') (ad_c A) = Z.max (mget (mem st) (ad_a A)) (mget (mem st) (ad_b A)) /\
         only_changes_off [ad_c A; ad_mx A] st st' /\ keeps_xys st st'.
Proof. exact stmt_m_correct. Qed.

(** a = h(a) + 1; *)
Theorem C01_call_stmt_h_plus1 :
  forall (cfg : config) (prog : sprogram) (A : call_addrs),
       call_env cfg prog A ->
       forall st : mstate,
       bytes_ok st ->
       exists st' : mstate,
         calls_to cfg prog
           (assign_expr "a"
              (eadd_const (call_tpl "h" [{| arg_param := "x"; arg_eval := evar "a" |}]) 1)) st st' /\
         mget (mem st') (ad_a A) = (mget (mem st) (ad_a A) + 2) mod 256 /\
         only_changes_off [ad_a A; ad_hx A] st st' /\ keeps_xys st st'.
Proof. exact stmt_h_plus1_correct. Qed.

(** S, X, Y after every statement of the listing are what they were before, for ALL byte-valued
    states (no lower bound on S) *)
Theorem C01_call_listing_balanced :
  forall (cfg : config) (prog : sprogram) (A : call_addrs) (C : code) (st : mstate),
       call_env cfg prog A ->
       In C listing_stmts ->
       bytes_ok st ->
       exists st' : mstate,
         calls_to cfg prog C st st' /\ rS st' = rS st /\ rX st' = rX st /\ rY st' = rY st.
Proof. exact listing_balanced. Qed.

(** the environment is satisfiable *)
Theorem C01_call_env_listing :
  call_env cfg_calls prog_calls addrs_calls.
Proof. exact call_env_listing. Qed.
