"""Seeded generator of C programs of the subset cc6502 accepts, as ASTs (nested tuples) plus a
pretty-printer.  All loops are bounded by construction (dedicated counters the body never
writes), so every generated program terminates under C semantics.

Expr:  ('num',n) ('var',name) ('idx',arr,e) ('bin',op,l,r) ('un',op,e) ('inc',kind,lv)  kind in
       {'++x','x++','--x','x--'}   ('asg',op,lv,e)  ('call',f,[e]) ('tern',c,a,b)
Stmt:  ('expr',e) ('if',c,s,s|None) ('while',c,s) ('do',s,c) ('for',e|None,e|None,e|None,s)
       ('block',[s]) ('switch',e,[([vals],[s])],[s]|None) ('break',) ('continue',) ('return',e|None)
       ('load',e) ('store',e) ('strobe',name) ('csleep',n) ('asm',text) ('local',type,name,e|None)
"""

BINOPS_ARITH = ['+', '-', '&', '|', '^']
RELOPS = ['==', '!=', '<', '<=', '>', '>=']


class Prog:
    def __init__(self):
        self.globals = []     # (ctype, name, init-or-None, array_len-or-None, qualifiers)
        self.funcs = []       # dict(name, ret, params[(type,name)], body[stmts], inline)
        self.main = []

    # ---- printing
    def _source(self):
        # [prefix]: preprocessor text in front of the program (groups that are not selected, ...)
        o = [self.prefix.rstrip('\n')] if getattr(self, 'prefix', None) else []
        for (t, n, init, alen, qual) in self.globals:
            s = (qual + ' ' if qual else '') + t + ' ' + n
            if alen is not None:
                s += '[%d]' % alen
            if init is not None:
                if isinstance(init, list):
                    s += ' = {' + ', '.join(str(x) for x in init) + '}'
                else:
                    s += ' = ' + str(init)
            o.append(s + ';')
        for f in self.funcs:
            o.append(fn_src(f))
        o.append('void main()\n' + stmt_src(('block', self.main), 0))
        return rename_ids('\n'.join(o) + '\n', getattr(self, 'rename', None))

    def source(self):
        MINIMAL_PARENS[0] = bool(getattr(self, 'minimal_parens', False))
        try:
            return self._source()
        finally:
            MINIMAL_PARENS[0] = False


# alpha-renaming: a program whose variables and functions are called like a keyword followed by more letters
# (return_a, elsewhere, sizeofa, short_s, ...) means the same as with the plain names
RENAMES = [{'a': 'return_a', 'b': 'elsewhere', 'c': 'gotoc', 'd': 'do_d', 'i': 'if_i', 'j': 'int_j', 's': 'short_s', 't': 'while1',
            'g': 'for_g', 'arr': 'char_arr', 'cnt': 'case_cnt', 'wrap': 'break_w'},
           {'a': 'asm_a', 'b': 'load_b', 'c': 'store_c', 'd': 'strobe_d', 'i': 'inline_i', 'j': 'csleep_j', 's': 'signed_s',
            't': 'switch_t', 'g': 'const_g', 'arr': 'sizeof_arr', 'cnt': 'continue_c', 'wrap': 'default_w'},
           {'a': 'returna', 'b': 'elseb', 'c': 'gotoc', 'd': 'dod', 'i': 'ifi', 'j': 'forj', 's': 'whiles', 't': 'caset',
            'g': 'breakg', 'arr': 'unsignedarr', 'cnt': 'voidcnt', 'wrap': 'continuew'},
           {'a': 'sizeofa', 'b': 'constb', 'c': 'charc', 'd': 'shortd', 'i': 'inti', 'j': 'signedj', 's': 'interrupts',
            't': 'bank1t', 'g': 'superchipg', 'arr': 'alignedarr', 'cnt': 'inlinecnt', 'wrap': 'scatteredw'},
           # ... and the rest of the name is another variable of the program: 'return_b = 3' must not be 'return _b = 3',
           # 'elsec = 1' after an if not 'else c = 1', 'sizeofj' not 'sizeof j'
           {'a': 'return_b', 'b': '_b', 'd': 'elsec', 'i': 'sizeofj', 's': 'sizeoft', 'g': 'sizeofc', 'cnt': 'constwrap'}]


def rename_ids(text, m):
    if not m:
        return text
    import re
    return re.sub(r'[A-Za-z_]\w*', lambda mo: m.get(mo.group(0), mo.group(0)), text)


def unrename_result(r, m):
    """a compile result of a renamed program, expressed with the original names again"""
    if not m:
        return r
    import json
    inv = {v: k for k, v in m.items()}
    return json.loads(rename_ids(json.dumps(r), inv))


def fn_src(f):
    ps = ', '.join('%s %s' % (t, n) for t, n in f['params'])
    return '%s%s %s(%s)\n%s' % ('inline ' if f.get('inline') else '', f['ret'], f['name'], ps,
                               stmt_src(('block', f['body']), 0))


PREC = {',': 1, '=': 2, '?': 3, '||': 4, '&&': 5, '|': 6, '^': 7, '&': 8,
        '==': 9, '!=': 9, '<': 9, '<=': 9, '>': 9, '>=': 9, '<<': 10, '>>': 10, '+': 11, '-': 11, '*': 12, '/': 12}


# C's precedence levels of the binary operators (higher binds tighter; all left-associative)
C_PREC = {'*': 12, '/': 12, '+': 11, '-': 11, '<<': 10, '>>': 10, '<': 9, '<=': 9, '>': 9, '>=': 9, '==': 8, '!=': 8,
          '&': 7, '^': 6, '|': 5, '&&': 4, '||': 3, ',': 0}
MINIMAL_PARENS = [False]


def expr_src(e, ctx=0):
    """fully parenthesised below the top level: the meaning never depends on the compiler's own
    precedence table (C10/C01 test precedence separately)"""
    k = e[0]
    if k == 'num':
        return str(e[1])
    if k == 'var':
        return e[1]
    if k == 'idx':
        return '%s[%s]' % (e[1], expr_src(e[2]))
    if k == 'deref':
        return '*%s' % e[1]
    if k == 'addr':
        return '&%s' % e[1]
    if k == 'bin' and MINIMAL_PARENS[0]:
        # C's own precedence decides: parentheses only where the tree differs from the way C reads the text
        me = C_PREC[e[1]]

        def side(x, right):
            t = expr_src(x, 1)
            if x[0] == 'bin':
                px = C_PREC[x[1]]
                need = px < me or (right and px == me)
                t = expr_src(x, 0)
                return '(' + t + ')' if need else t
            return t
        s = '%s %s %s' % (side(e[2], False), e[1], side(e[3], True))
        return '(' + s + ')' if ctx == 2 else s
    if k == 'bin':
        s = '%s %s %s' % (expr_src(e[2], 1), e[1], expr_src(e[3], 1))
        return '(' + s + ')' if ctx else s
    if k == 'un':
        return '%s%s' % (e[1], expr_src(e[2], 1)) if e[2][0] in ('num', 'var', 'idx') or True else ''
    if k == 'inc':
        lv = expr_src(e[2], 1)
        if e[2][0] == 'deref':
            lv = '(' + lv + ')'
        return {'++x': '++' + lv, 'x++': lv + '++', '--x': '--' + lv, 'x--': lv + '--'}[e[1]]
    if k == 'asg':
        s = '%s %s %s' % (expr_src(e[2], 1), e[1], expr_src(e[3], 0 if e[3][0] != 'asg' else 1))
        return '(' + s + ')' if ctx else s
    if k == 'call':
        return '%s(%s)' % (e[1], ', '.join(expr_src(a) for a in e[2]))
    if k == 'tern':
        s = '%s ? %s : %s' % (expr_src(e[1], 1), expr_src(e[2], 1), expr_src(e[3], 1))
        return '(' + s + ')' if ctx else s
    raise ValueError(e)


def stmt_src(s, ind):
    p = '    ' * ind
    k = s[0]
    if k == 'expr':
        return p + expr_src(s[1]) + ';'
    if k == 'block':
        return p + '{\n' + '\n'.join(stmt_src(x, ind + 1) for x in s[1]) + '\n' + p + '}'
    if k == 'if':
        o = p + 'if (%s)\n%s' % (expr_src(s[1]), stmt_src(s[2], ind + 1))
        if s[3] is not None:
            o += '\n' + p + 'else\n' + stmt_src(s[3], ind + 1)
        return o
    if k == 'while':
        return p + 'while (%s)\n%s' % (expr_src(s[1]), stmt_src(s[2], ind + 1))
    if k == 'do':
        return p + 'do\n%s\n%swhile (%s);' % (stmt_src(s[1], ind + 1), p, expr_src(s[2]))
    if k == 'for':
        f = lambda e: expr_src(e) if e is not None else ''
        return p + 'for (%s; %s; %s)\n%s' % (f(s[1]), f(s[2]), f(s[3]), stmt_src(s[4], ind + 1))
    if k == 'switch':
        o = p + 'switch (%s) {\n' % expr_src(s[1])
        for vals, body in s[2]:
            for v in vals:
                o += p + 'case %d:\n' % v
            o += '\n'.join(stmt_src(x, ind + 1) for x in body) + '\n'
        if s[3] is not None:
            o += p + 'default:\n' + '\n'.join(stmt_src(x, ind + 1) for x in s[3]) + '\n'
        return o + p + '}'
    if k == 'break':
        return p + 'break;'
    if k == 'continue':
        return p + 'continue;'
    if k == 'return':
        return p + ('return %s;' % expr_src(s[1]) if s[1] is not None else 'return;')
    if k in ('load', 'store'):
        return p + '%s(%s);' % (k, expr_src(s[1]))
    if k == 'strobe':
        return p + ('strobe(%s[%d]);' % (s[1], s[2]) if len(s) > 2 else 'strobe(%s);' % s[1])
    if k == 'csleep':
        return p + 'csleep(%d);' % s[1]
    if k == 'asm':
        esc = lambda x: x.replace('\\', '\\\\').replace('\n', '\\n').replace('\t', '\\t')
        # ('asm', text, size, cuts): the text written as adjacent string literals cut at the given positions
        cuts = [0] + sorted(s[3]) + [len(s[1])] if len(s) > 3 and s[3] else [0, len(s[1])]
        t = ('" "' if len(cuts) % 2 else '"\n        "').join(esc(s[1][a:b]) for a, b in zip(cuts, cuts[1:]))
        if len(s) > 2 and s[2] is not None:
            return p + 'asm("%s", %d);' % (t, s[2])
        return p + 'asm("%s");' % t
    if k == 'local':
        return p + '%s %s%s;' % (s[1], s[2], ' = ' + expr_src(s[3]) if s[3] is not None else '')
    raise ValueError(s)


# ------------------------------------------------------------------ generation

class Gen:
    def __init__(self, rng, opts=None):
        self.r = rng
        o = dict(shorts=True, signed=True, arrays=True, calls=True, switch=True, loops=True,
                 hw=False, superchip=False, inline=False, pointers=False, ternary=True,
                 max_stmts=10, max_depth=2)
        if opts:
            o.update(opts)
        self.o = o

    def program(self):
        r = self.r
        o = self.o
        p = Prog()
        self.p = p
        self.uchars = ['a', 'b', 'c', 'd']
        self.schars = ['sa', 'sb'] if o['signed'] and r.random() < 0.4 else []
        self.shorts = ['s', 't'] if o['shorts'] == 'always' or (o['shorts'] and r.random() < 0.5) else []
        self.arrays = ['arr'] if o['arrays'] and r.random() < 0.6 else []
        self.tables = ['tab'] if o['arrays'] and r.random() < 0.5 else []
        self.counters = ['i', 'j']
        self.ptrs = ['p', 'q'] if o['pointers'] and r.random() < 0.7 else []
        self.hwregs = []
        q = lambda: ('superchip' if o['superchip'] and r.random() < 0.5 else '')
        for n in self.uchars:
            p.globals.append(('unsigned char', n, None, None, q()))
        for n in self.schars:
            p.globals.append(('signed char', n, None, None, q()))
        for n in self.shorts:
            p.globals.append((r.choice(['short', 'unsigned short']), n, None, None, q()))
        for n in self.arrays:
            p.globals.append(('unsigned char', n, None, 8, q()))
        for n in self.tables:
            p.globals.append(('const unsigned char', n, [r.randrange(256) for _ in range(8)], 8, ''))
        for n in self.counters:
            p.globals.append(('unsigned char', n, None, None, ''))
        for n in self.ptrs:
            p.globals.append(('unsigned char *', n, None, None, ''))
        if o['hw']:
            p.globals.append(('unsigned char *const', 'HW0', 0x02, None, ''))
            p.globals.append(('unsigned char *const', 'HW1', 0x10, None, ''))
            self.hwregs = ['HW0', 'HW1']
        self.fnames = []
        if o['calls'] and r.random() < 0.6:
            for k in range(r.randrange(1, 3)):
                self.function('f%d' % k)
        self.counter_fn = None
        if o['calls'] and o.get('bait') and r.random() < 0.4:
            # a function with a side effect whose last instruction is not a load of its result: only
            # used by the baits below, as a whole condition operand or a whole right-hand side
            p.globals.append(('unsigned char', 'g', None, None, ''))
            p.funcs.append(dict(name='cnt', ret='unsigned char', params=[], inline=self.o['inline'] and r.random() < 0.3,
                                body=[('return', ('inc', 'x++', ('var', 'g')))]))
            self.counter_fn = 'cnt'
        self.free_counters = list(self.counters) + ['X', 'Y']
        self.in_loop = 0
        head = []
        self.flags_bait(head)
        p.main = head + self.stmts(r.randrange(1, o['max_stmts']), 0)
        return p

    def note_last_assigned(self, body):
        """the global a function's last statement assigns (what the flags describe when it ends)"""
        self.last_fn_assigned = None
        if body and body[-1][0] == 'expr' and body[-1][1][0] == 'asg' and body[-1][1][1] == '=' and body[-1][1][2][0] == 'var':
            v = body[-1][1][2][1]
            if v in ('a', 'b', 'c', 'd'):
                self.last_fn_assigned = v

    def flags_bait(self, body):
        """a function starting with a test of the variable the previously generated function ended on"""
        v = getattr(self, 'last_fn_assigned', None)
        if v and self.o.get('bait') and self.r.random() < 0.5:
            cond = self.r.choice([('var', v), ('bin', '==', ('var', v), ('num', 0)), ('bin', '!=', ('var', v), ('num', 0))])
            body.append(('if', cond, ('block', [('expr', ('asg', '=', ('var', self.r.choice(['a', 'b', 'c', 'd'])), ('num', 11)))]), None))

    def function(self, name):
        r = self.r
        np = r.randrange(0, 3)
        params = [('unsigned char', '%sp%d' % (name, i)) for i in range(np)]
        ret = r.choice(['unsigned char', 'void', 'unsigned char'])
        saved = (self.uchars, getattr(self, 'free_counters', None))
        self.uchars = self.uchars + [n for _, n in params]
        self.free_counters = []
        self.in_loop = 1      # no writes to X / Y inside helper functions
        self.cur_ret = ret
        callable_before = list(self.fnames)
        body = []
        # functions with a result are pure (used inside expressions, whose evaluation order C
        # leaves open); procedures may write globals and are only called as statements
        nst = r.randrange(0, 3) if ret == 'void' else 0
        self._fn_callable = [f for f in callable_before if f[1] != 'void'] if ret != 'void' else callable_before
        if ret == 'void':
            self.flags_bait(body)
        for _ in range(nst):
            body.append(self.simple_stmt(0))
        if self.o.get('asm_sized') and ret == 'void' and r.random() < 0.6:
            body.append(self.asm_stmt(big=r.random() < 0.5))
        if ret != 'void':
            if r.random() < 0.3:
                # two constant results: an early return and a different last one
                k1, k2 = r.sample([1, 2, 3, 5, 9, 200], 2)
                body.append(('if', self.cond(0), ('return', ('num', k1)), None))
                body.append(('return', ('num', k2)))
                if not hasattr(self, 'const_ret'):
                    self.const_ret = {}
                self.const_ret[name] = (k1, k2, np)
            else:
                if r.random() < 0.3:
                    body.append(('if', self.cond(0), ('return', self.expr8(1)), None))
                body.append(('return', self.expr8(1)))
        elif callable_before and r.random() < 0.5:
            # a procedure calling an earlier function (nested inlining when both are inline)
            f = r.choice(callable_before)
            if f[1] == 'void':
                body.append(('expr', ('call', f[0], [self.atom8() for _ in range(f[2])])))
            else:
                body.append(('expr', ('asg', '=', ('var', r.choice(saved[0])), ('call', f[0], [self.atom8() for _ in range(f[2])]))))
        if ret == 'void' and self.o.get('bait') and not self.o.get('asm_sized') and r.random() < 0.6:
            body.append(('expr', ('asg', '=', ('var', r.choice(['a', 'b', 'c', 'd'])), ('var', r.choice(['a', 'b', 'c', 'd'])))))
        self.note_last_assigned(body)
        self.uchars, self.free_counters = saved
        self._fn_callable = None
        self.p.funcs.append(dict(name=name, ret=ret, params=params, body=body,
                                 inline=self.o['inline'] and r.random() < 0.5))
        self.fnames.append((name, ret, np))

    # ---- expressions
    def lv8(self):
        r = self.r
        k = r.random()
        if k < 0.6 or not self.arrays:
            return ('var', r.choice(self.uchars + self.schars))
        if k < 0.8:
            return ('idx', r.choice(self.arrays), ('var', r.choice(['X', 'Y'])))
        return ('idx', r.choice(self.arrays), ('num', r.randrange(8)))

    def atom8(self):
        r = self.r
        k = r.random()
        if k < 0.30:
            return ('num', r.choice([0, 1, 2, 3, 7, 8, 15, 16, 127, 128, 200, 255, r.randrange(256)]))
        if k < 0.70:
            return ('var', r.choice(self.uchars + self.schars))
        if k < 0.78:
            return ('var', r.choice(['X', 'Y']))
        if k < 0.84 and getattr(self, 'ptrs', None):
            pn = r.choice(self.ptrs)
            return ('deref', pn) if r.random() < 0.5 else ('idx', pn, r.choice([('var', 'Y'), ('num', 0), ('num', 1)]))
        if k < 0.90 and (self.arrays or self.tables):
            arr = r.choice(self.arrays + self.tables)
            ix = ('var', r.choice(['X', 'Y'])) if r.random() < 0.6 else ('num', r.randrange(8))
            return ('idx', arr, ix)
        return ('var', r.choice(self.uchars))

    def expr8(self, depth):
        r = self.r
        if depth <= 0 or r.random() < 0.35:
            return self.atom8()
        k = r.random()
        if k < 0.62:
            return ('bin', r.choice(BINOPS_ARITH), self.expr8(depth - 1), self.expr8(depth - 1))
        if k < 0.74:
            return ('bin', r.choice(['<<', '>>']), self.expr8(depth - 1), ('num', r.randrange(0, 8)))
        if k < 0.80:
            return ('un', r.choice(['-', '~']), self.atom8())
        if k < 0.86 and self.o['ternary']:
            if r.random() < 0.5:
                return ('tern', self.cond(0), ('num', r.randrange(256)), ('num', r.randrange(256)))
            return ('tern', self.cond(0), ('var', r.choice(self.uchars)), ('var', r.choice(self.uchars)))
        callable_ = self._fn_callable if getattr(self, '_fn_callable', None) is not None else self.fnames
        cands = [f for f in callable_ if f[1] != 'void']
        if k < 0.94 and cands:
            f = r.choice(cands)
            return ('call', f[0], [self.atom8() for _ in range(f[2])])
        return ('bin', r.choice(BINOPS_ARITH), self.atom8(), self.atom8())

    def expr16(self, depth):
        r = self.r
        if depth <= 0 or r.random() < 0.4:
            k = r.random()
            if k < 0.5 and self.shorts:
                return ('var', r.choice(self.shorts))
            if k < 0.75:
                return ('num', r.choice([0, 1, 255, 256, 257, 1000, 32767, 65535, r.randrange(65536)]))
            return ('var', r.choice(self.uchars))
        k = r.random()
        if k < 0.8:
            return ('bin', r.choice(BINOPS_ARITH), self.expr16(depth - 1), self.expr16(depth - 1))
        return ('bin', r.choice(['<<', '>>']), self.expr16(depth - 1), ('num', r.choice([1, 2, 8])))

    def cond(self, depth):
        r = self.r
        k = r.random()
        if depth > 0 and k < 0.25:
            return ('bin', r.choice(['&&', '||']), self.cond(depth - 1), self.cond(depth - 1))
        if k < 0.33:
            if r.random() < 0.5:
                return ('un', '!', self.cond(0))
            l = self.atom8()
            while l[0] == 'num':
                l = self.atom8()
            return l
        if self.shorts and k < 0.43:
            return ('bin', r.choice(RELOPS), ('var', r.choice(self.shorts)), self.expr16(0))
        if self.schars and k < 0.53:
            return ('bin', r.choice(RELOPS), ('var', r.choice(self.schars)),
                    r.choice([('var', r.choice(self.schars)), ('num', r.choice([0, 1, 5, 100]))]))
        l = self.atom8()
        while l[0] == 'num':
            l = self.atom8()
        return ('bin', r.choice(RELOPS), l, self.atom8())

    # ---- statements
    def simple_stmt(self, depth):
        r = self.r
        k = r.random()
        if getattr(self, 'ptrs', None) and r.random() < 0.22:
            pn = r.choice(self.ptrs)
            kk = r.random()
            if kk < 0.3:
                return ('expr', ('asg', '=', ('var', pn), ('addr', r.choice(self.uchars[:4]))))
            if kk < 0.45 and (self.arrays or self.tables):
                return ('expr', ('asg', '=', ('var', pn), ('var', r.choice(self.arrays + self.tables))))
            if kk < 0.7:
                return ('expr', ('asg', r.choice(['=', '=', '+=', '|=']), ('deref', pn), self.expr8(1)))
            if kk < 0.85:
                return ('expr', ('asg', '=', ('idx', pn, r.choice([('var', 'Y'), ('num', 0), ('num', 1)])), self.expr8(1)))
            return ('expr', ('inc', r.choice(['x++', '++x', 'x--']), ('deref', pn)))
        if k < 0.45:
            return ('expr', ('asg', '=', self.lv8(), self.expr8(self.o['max_depth'])))
        if k < 0.60:
            op = r.choice(['+=', '-=', '&=', '|=', '^=', '<<=', '>>='])
            rhs = ('num', r.randrange(1, 8)) if op in ('<<=', '>>=') else self.expr8(1)
            return ('expr', ('asg', op, self.lv8(), rhs))
        if k < 0.70:
            return ('expr', ('inc', r.choice(['++x', 'x++', '--x', 'x--']), self.lv8()))
        if k < 0.80 and self.shorts:
            s = r.choice(self.shorts)
            kk = r.random()
            if kk < 0.6:
                return ('expr', ('asg', '=', ('var', s), self.expr16(2)))
            if kk < 0.8:
                return ('expr', ('asg', r.choice(['+=', '-=', '<<=', '>>=']), ('var', s),
                                 ('num', r.randrange(1, 8))))
            return ('expr', ('inc', r.choice(['++x', 'x++', '--x', 'x--']), ('var', s)))
        if k < 0.86:
            reg = r.choice(['X', 'Y'])
            if reg in self.free_counters or not self.in_loop:
                return ('expr', ('asg', '=', ('var', reg), self.atom8()))
        callable_ = self._fn_callable if getattr(self, '_fn_callable', None) is not None else self.fnames
        if k < 0.92 and callable_:
            f = r.choice(callable_)
            return ('expr', ('call', f[0], [self.atom8() for _ in range(f[2])]))
        if k < 0.97 and self.o['hw']:
            kk = r.random()
            if kk < 0.3:
                return ('load', self.atom8())
            if kk < 0.5:
                return ('store', ('var', r.choice(self.uchars)))
            if kk < 0.7:
                if r.random() < 0.08:
                    # a subscripted strobe: rejected, or a strobe of THAT address
                    return ('strobe', r.choice(self.hwregs), r.randrange(1, 4))
                return ('strobe', r.choice(self.hwregs))
            if kk < 0.9:
                return ('csleep', r.choice([2, 3, 4, 5, 6, 7, 8, 9, 10]))
            if self.o.get('asm_sized'):
                return self.asm_stmt()
            # every asm statement has its own text: an exchange of two texts is visible in the trace
            self.asm_plain = getattr(self, 'asm_plain', 0) + 1
            return ('asm', 'nop ; q%d' % self.asm_plain)
        return ('expr', ('asg', '=', self.lv8(), self.expr8(1)))

    def asm_stmt(self, big=False):
                # tagged texts with declared sizes: one line, several lines, a leading line break,
                # blocks big enough to push a branch out of range
                r = self.r
                self.asm_tag = getattr(self, 'asm_tag', 0) + 1
                tag = 'tg%d' % self.asm_tag
                form = 3 if big else r.randrange(8)
                if form >= 6:
                    # texts that mention the names the compiler itself generates or renames when it copies an
                    # inline function into its caller (.endof, local labels, other functions): still opaque text
                    ref = r.choice(['.endof', '.ifend1', '.for1', 'main', '.endofinline1', '.fix1'])
                    n = r.choice([1, 2, 5, 8])
                    st = ('asm', '\tLDA $3C\n\tBMI %s ; %s\n\tINC $81' % (ref, tag), n)
                elif form == 0:
                    st = ('asm', 'nop ; ' + tag, None)
                elif form == 1:
                    st = ('asm', '\tLDA #1 ; %s\n\tNOP' % tag, 3)
                elif form == 2:
                    st = ('asm', '\n\tNOP ; %s\n\tNOP' % tag, 2)
                elif form == 3:
                    n = r.choice([40, 60, 100, 130])
                    st = ('asm', '\tDS.B %d ; %s' % (n, tag), n)
                elif form == 4:
                    st = ('asm', ' \n\n\tNOP ; %s' % tag, 1)
                else:
                    st = ('asm', 'nop ; %s' % tag, 1)
                if not hasattr(self.p, 'asm_decl'):
                    self.p.asm_decl = {}
                self.p.asm_decl[tag] = 3 if st[2] is None else st[2]
                return st

    def stmt(self, depth):
        r = self.r
        o = self.o
        k = r.random()
        if depth >= 2 or k < 0.55:
            return self.simple_stmt(depth)
        if k < 0.72:
            els = ('block', self.stmts(r.randrange(1, 3), depth + 1)) if r.random() < 0.5 else None
            return ('if', self.cond(1), ('block', self.stmts(r.randrange(1, 3), depth + 1)), els)
        if k < 0.90 and o['loops'] and self.free_counters:
            return self.loop(depth)
        if k < 0.97 and o['switch']:
            cases = []
            vals = r.sample(range(0, 6), r.randrange(1, 4))
            for v in vals:
                body = self.stmts(r.randrange(1, 3), depth + 1)
                if getattr(self, 'cont_ok', None) and self.cont_ok[-1] and r.random() < 0.3:
                    body.append(('continue',))
                elif r.random() < 0.8:
                    body.append(('break',))
                cases.append(([v], body))
            dflt = self.stmts(1, depth + 1) if r.random() < 0.5 else None
            return ('switch', ('var', r.choice(self.uchars + ['X', 'Y'])), cases, dflt)
        return self.simple_stmt(depth)

    def loop(self, depth):
        r = self.r
        ctr = r.choice(self.free_counters)
        self.free_counters.remove(ctr)
        hidden = None
        if ctr in self.uchars:
            self.uchars = [x for x in self.uchars if x != ctr]
            hidden = ctr
        self.in_loop += 1
        n = r.randrange(1, 6)
        cv = ('var', ctr)
        kind = r.randrange(5)
        # continue is only generated where the loop's update still runs after it (for loops)
        self.cont_ok = getattr(self, 'cont_ok', []) + [kind in (0, 1)]
        body = ('block', self.stmts(r.randrange(1, 3), depth + 1))
        if self.cont_ok[-1] and r.random() < 0.2:
            body[1].insert(r.randrange(len(body[1]) + 1), ('if', self.cond(depth + 1), ('continue',), None))
        self.cont_ok = self.cont_ok[:-1]
        if kind == 0:
            st = ('for', ('asg', '=', cv, ('num', 0)), ('bin', r.choice(['!=', '<']), cv, ('num', n)),
                  ('inc', r.choice(['x++', '++x']), cv), body)
        elif kind == 1:
            st = ('for', ('asg', '=', cv, ('num', n)), ('bin', '!=', cv, ('num', 0)),
                  ('inc', r.choice(['x--', '--x']), cv), body)
        elif kind == 2:
            st = ('block', [('expr', ('asg', '=', cv, ('num', n))),
                            ('while', cv if r.random() < 0.5 else ('bin', '>', cv, ('num', 0)),
                             ('block', [('expr', ('inc', 'x--', cv))] + body[1]))])
        elif kind == 3:
            st = ('block', [('expr', ('asg', '=', cv, ('num', n))),
                            ('do', ('block', body[1] + [('expr', ('inc', 'x--', cv))]),
                             ('bin', '!=', cv, ('num', 0)))])
        else:
            st = ('block', [('expr', ('asg', '=', cv, ('num', 0))),
                            ('do', ('block', body[1] + [('expr', ('inc', 'x++', cv))]),
                             ('bin', '<', cv, ('num', n)))])
        self.in_loop -= 1
        self.free_counters.append(ctr)
        if hidden:
            self.uchars.append(hidden)
        return st

    def stmts(self, n, depth):
        out = []
        for _ in range(n):
            if self.o.get('bait') and self.r.random() < self.o.get('bait_p', 0.25):
                out.extend(self.bait())
            else:
                out.append(self.stmt(depth))
        return out

    def bait(self):
        """statement sequences that re-read an operand after something changed it: what a
        peephole optimiser with stale register knowledge gets wrong"""
        r = self.r
        V = lambda n: ('var', n)
        N = lambda n: ('num', n)
        asg = lambda lv, e: ('expr', ('asg', '=', lv, e))
        u = lambda: V(r.choice(self.uchars))
        reg = r.choice(['X', 'Y'])
        if self.in_loop and reg not in self.free_counters:
            reg = None
        if getattr(self, 'ptrs', None) and r.random() < 0.35:
            # two names for one cell: a variable and a pointer to it; a read through one name, a write
            # through the other, the same read again
            pn = r.choice(self.ptrs)
            v = V(r.choice(self.uchars[:4]))
            tgt = r.choice([V(reg)] if reg else []) if (reg and r.random() < 0.5) else u()
            if r.random() < 0.5:
                return [asg(V(pn), ('addr', v[1])), asg(tgt, v), asg(('deref', pn), N(r.randrange(1, 9))), asg(tgt, v)]
            return [asg(V(pn), ('addr', v[1])), asg(tgt, ('deref', pn)), asg(v, r.choice([N(r.randrange(1, 9)), V('X')])), asg(tgt, ('deref', pn))]
        k = r.randrange(24)
        if k == 23:
            k = 21
        if self.o['hw'] and reg and r.random() < 0.2:
            k = 19
        if k == 22 and self.arrays:
            # an update of one array element, then a zero test of ANOTHER element of the same array
            # (same symbol, other offset): the flags of the update do not describe it
            a = r.choice(self.arrays)
            c1, c2 = r.sample(range(8), 2)
            x = ('idx', a, N(c1))
            upd = r.choice([('expr', ('inc', r.choice(['++x', 'x++', '--x', 'x--']), x)), asg(x, u()), asg(x, N(r.choice([0, 1]))),
                            ('expr', ('asg', r.choice(['+=', '-=', '&=']), x, N(1)))])
            y = ('idx', a, r.choice([N(c2), N(c2), V(reg)] if reg else [N(c2)]))
            tst = r.choice([y, ('bin', '!=', y, N(0)), ('bin', '==', y, N(0)), ('un', '!', y)])
            return [upd, ('if', tst, ('block', [asg(u(), N(18))]), ('block', [asg(u(), N(19))]))]
        if k == 22:
            k = r.randrange(13)
        if k == 21 and self.shorts:
            # ++/-- of a 16-bit variable as an operand: the side effect happens once whichever bytes of
            # the operand the operator evaluates (a shift by 8 or more only needs the high byte)
            sv = r.choice(self.shorts)
            others = [x for x in self.shorts if x != sv]
            inc = ('inc', r.choice(['++x', '--x', '++x', 'x++', 'x--']), V(sv))
            if others and r.random() < 0.6:
                # 16-bit target: the compiler evaluates the operand once per byte of the result (only a
                # shift by 8 is accepted there)
                tgt = V(r.choice(others))
                e = r.choice([('bin', r.choice(['>>', '<<']), inc, N(8)), ('bin', r.choice(['>>', '<<']), inc, N(8)),
                              ('bin', r.choice(['+', '-', '&', '|']), inc, N(r.choice([1, 255, 256, 0x1234]))), inc])
            else:
                tgt = u()
                e = r.choice([('bin', r.choice(['>>', '<<']), inc, N(r.choice([1, 7, 8, 8, 9, 15]))),
                              ('bin', r.choice(['+', '-', '&', '|']), inc, N(r.choice([1, 255, 256, 0x1234]))), inc])
            return [asg(tgt, e)]
        if k == 21:
            k = r.randrange(13)
        if k == 20 and self.counter_fn and not getattr(self, '_fn_callable', None):
            # the result of a function with a side effect: tested against 0 (the flags the callee left
            # describe something else), or widened to 16 bits (the call must happen once)
            call = ('call', self.counter_fn, [])
            if self.shorts and r.random() < 0.4:
                return [asg(V(r.choice(self.shorts)), call)]
            return [('if', r.choice([('bin', '!=', call, N(0)), ('bin', '==', call, N(0)), call]),
                     ('block', [asg(u(), N(13))]), ('block', [asg(u(), N(14))]))]
        if k == 19 and reg and self.o['hw']:
            # a register assignment, an explicit load()/store() (changes the flags behind the
            # generator's back), a zero test of the register
            mid = r.choice([('load', N(0)), ('load', u()), ('store', u())])
            return [asg(V(reg), u()), mid, ('if', r.choice([V(reg), ('bin', '!=', V(reg), N(0))]), ('block', [asg(u(), N(15))]), None)]
        if k >= 18 and reg:
            # the same constant loaded twice into a register with something in between which sets
            # N and Z from another value, then a zero test of the register
            other = 'Y' if reg == 'X' else 'X'
            kk = r.choice([0, 1, 5, 200])
            mid = asg(u(), r.choice([N(0), N(1), ('bin', '+', V(other), N(1)), ('bin', '&', u(), N(1)), V(other)]))
            return [asg(V(reg), N(kk)), mid, asg(V(reg), N(kk)),
                    ('if', r.choice([V(reg), ('bin', '==', V(reg), N(0))]), ('block', [asg(u(), N(16))]), ('block', [asg(u(), N(17))]))]
        if k >= 18:
            k = r.randrange(13)
        if k == 17 and reg:
            # a constant comparison the optimiser can decide, then a change of the register as the very
            # first thing of the body, then the constant again
            k1, k2 = r.sample([0, 1, 3, 5, 200], 2)
            inner = ('if', ('bin', r.choice(['==', '!=']), V(reg), N(k1)), ('block', [asg(u(), N(12))]), None)
            return [asg(V(reg), N(k1)),
                    ('if', ('bin', '!=', V(reg), N(k2)), ('block', [('expr', ('inc', r.choice(['x++', 'x--']), V(reg))), inner]), None)]
        if k == 17:
            k = r.randrange(13)
        if k >= 15 and self.o['hw'] and self.hwregs:
            # explicit hardware reads around something that invalidates the flags but not A, followed by
            # a store and an indexed read: every load() must still be executed
            v = r.choice([u(), N(5), V(r.choice(self.hwregs))]) if False else u()
            mid = r.choice([('expr', ('inc', 'x++', V(reg))) if reg else ('csleep', 5), ('csleep', r.choice([5, 9, 10])),
                            ('expr', ('inc', r.choice(['x++', 'x--']), u()))])
            tail = []
            if self.arrays or self.tables:
                a = r.choice(self.arrays + self.tables)
                tail = [asg(u(), ('idx', a, r.choice([V('X'), V('Y'), N(r.randrange(8))])))]
            return [('load', v), mid, ('load', v), r.choice([('store', u()), ('strobe', r.choice(self.hwregs))])] + tail
        if k >= 15:
            k = r.randrange(13)
        if k >= 13:
            # an update immediately followed by a zero test of the same object (8 or 16 bits, or an
            # array element): the flags of the update must describe the whole object
            cands = [u()]
            if self.shorts:
                cands += [V(r.choice(self.shorts))] * 3
            if self.arrays and reg:
                cands.append(('idx', r.choice(self.arrays), V(reg)))
            x = r.choice(cands)
            upd = r.choice([('expr', ('inc', r.choice(['++x', 'x++', '--x', 'x--']), x)),
                            ('expr', ('asg', r.choice(['+=', '-=']), x, N(1)))])
            tst = r.choice([x, ('bin', '!=', x, N(0)), ('bin', '==', x, N(0)), ('un', '!', x)])
            return [upd, ('if', tst, ('block', [asg(u(), N(8))]), ('block', [asg(u(), N(9))]))]
        if k == 12:
            # a subtraction (sets the carry), then ++/-- of a byte, then that byte ordered against 0
            v, w, x = u(), u(), u()
            upd = ('expr', ('inc', r.choice(['++x', 'x++', '--x', 'x--']), x))
            return [asg(v, ('bin', '-', v, w)), upd,
                    ('if', ('bin', r.choice(['>', '<=', '==', '!=']), x, N(0)), ('block', [asg(u(), N(7))]), None)]
        if k == 9 and getattr(self, 'const_ret', None) and not getattr(self, '_fn_callable', None):
            # the result of a two-result function compared with one of its results
            name = r.choice(list(self.const_ret))
            k1, k2, np_ = self.const_ret[name]
            call = ('call', name, [self.atom8() for _ in range(np_)])
            return [('if', ('bin', r.choice(['==', '!=']), call, N(r.choice([k1, k2, k2]))), ('block', [asg(u(), N(6))]), None)]
        if k == 10 and reg and (self.arrays or self.tables):
            # a register reloaded from a table indexed by itself, twice (linked-list walk)
            a = r.choice(self.arrays + self.tables)
            cell = ('idx', a, V(reg))
            return [asg(V(reg), N(r.randrange(8))), asg(V(reg), cell), asg(r.choice([V(reg), u()]), cell)]
        if k == 11 and self.fnames and not getattr(self, '_fn_callable', None):
            # the same function expanded / called twice in a row
            f = r.choice(self.fnames)
            mk = lambda: ('call', f[0], [self.atom8() for _ in range(f[2])])
            if f[1] == 'void':
                return [('expr', mk()), ('expr', mk())]
            return [asg(u(), mk()), asg(u(), mk())]
        rmw = lambda lv: ('expr', r.choice([('inc', r.choice(['++x', 'x++', '--x', 'x--']), lv),
                                             ('asg', r.choice(['<<=', '>>=']), lv, N(1)),
                                             ('asg', r.choice(['+=', '-=', '^=']), lv, N(r.randrange(1, 9)))]))
        if k == 0 and self.shorts and reg:
            s_ = V(r.choice(self.shorts))
            e = r.choice([('bin', '>>', s_, N(8)), s_])
            return [asg(V(reg), e), rmw(s_), asg(V(reg), e)]
        if k == 1 and reg:
            v = V(r.choice(self.uchars + self.schars))
            e = r.choice([v, ('bin', '>>', v, N(1)), ('bin', '<<', v, N(1))])
            return [asg(V(reg), e), asg(u(), v), asg(u(), N(1))]
        if k == 2 and self.arrays and reg:
            a = r.choice(self.arrays)
            other = 'Y' if reg == 'X' else 'X'
            cell = ('idx', a, V(other))
            return [asg(V(reg), cell), rmw(('idx', a, N(r.randrange(8)))), asg(V(reg), cell)]
        if k == 3 and reg:
            v = u()
            return [asg(V(reg), v), rmw(v), asg(V(reg), v)]
        if k == 4 and reg and self.o['hw']:
            v = u()
            return [('load', v), ('expr', ('inc', r.choice(['x++', 'x--']), V(reg))),
                    ('if', v, ('block', [asg(u(), N(1))]), None)]
        if k == 5:
            v, w = u(), u()
            return [asg(v, w), ('if', v, ('block', [asg(u(), N(2))]), ('block', [asg(u(), N(3))]))]
        if k == 6 and reg:
            v = u()
            return [asg(v, V(reg)), ('if', r.choice([v, ('bin', '==', v, N(0))]), ('block', [asg(u(), N(4))]), None)]
        if k == 7 and reg:
            v = u()
            return [asg(V(reg), v), rmw(V(reg)), asg(u(), V(reg)), asg(V(reg), v)]
        v = u()
        return [asg(v, ('bin', '+', v, N(1))), ('if', ('bin', r.choice(['==', '!=']), v, N(r.choice([0, 1]))),
                                                ('block', [asg(u(), N(5))]), None)]


def gen_program(rng, opts=None):
    return Gen(rng, opts).program()


def nested_inline_program(rng, inline=True):
    """inline functions that themselves expand inline functions, each expanded several times in its
    caller (label renaming must stay unique per expansion); with inline=False the same program
    with ordinary calls (the C14 twin)"""
    kw = 'inline ' if inline else ''
    L = ['unsigned char a;', 'unsigned char b;', 'unsigned char c;']
    depth = rng.choice([2, 2, 3])
    names = []
    for d in range(depth):
        name = 'n%d' % d
        ret_val = rng.random() < 0.5
        body = []
        shape = rng.randrange(4)
        if shape == 0:
            body.append('if (%s) { %s = %d; }' % (rng.choice(['a', 'b', 'Y']), rng.choice(['b', 'c']), rng.randrange(9)))
        elif shape == 1:
            body.append('for (c = 0; c != %d; c++) { a++; }' % rng.randrange(1, 4))
        elif shape == 2:
            body.append('if (a == %d) { b++; } else { b--; }' % rng.randrange(3))
        else:
            body.append('do { b = b + 1; } while (b < %d);' % rng.randrange(2, 6))
        if names:
            callee, callee_val = names[-1]
            for _ in range(rng.choice([1, 2])):
                body.append(('%s = %s();' % (rng.choice(['a', 'b']), callee)) if callee_val else ('%s();' % callee))
        if ret_val:
            body.insert(0, 'if (%s) return %d;' % (rng.choice(['Y', 'a', 'b']), rng.randrange(1, 9)))
            body.append('return %d;' % rng.randrange(1, 9))
        L.append('%s%s %s() { %s }' % (kw, 'unsigned char' if ret_val else 'void', name, ' '.join(body)))
        names.append((name, ret_val))
    top, top_val = names[-1]
    calls = []
    for _ in range(rng.choice([2, 2, 3])):
        calls.append(('%s = %s();' % (rng.choice(['a', 'b', 'c']), top)) if top_val else ('%s();' % top))
        if rng.random() < 0.3:
            calls.append('Y--;')
    L.append('void main() { %s }' % ' '.join(calls))
    return '\n'.join(L) + '\n'


def directed_programs():
    """A FIXED enumeration of small programs over the bait families (what the random baits draw from):
    every (update form x object kind x zero-test form), repeated register loads around a flag-setting
    statement, tests of another element, results of functions that end on something else than a load,
    register / hardware-statement interplay, 16-bit ++/-- as an operand.  Deterministic: the same
    programs every run, so a change that breaks one of these shapes cannot be missed by sampling."""
    V = lambda n: ('var', n)
    N = lambda n: ('num', n)
    asg = lambda lv, e: ('expr', ('asg', '=', lv, e))
    out = {}

    def mk(name, main, funcs=(), hw=False, extra=()):
        p = Prog()
        p.globals = [('unsigned char', n, None, None, '') for n in ('a', 'b', 'c', 'd')]
        p.globals += [('unsigned short', 's', None, None, ''), ('short', 't', None, None, ''), ('unsigned char', 'arr', None, 8, ''),
                      ('unsigned char', 'i', None, None, ''), ('unsigned char', 'j', None, None, ''), ('unsigned char', 'g', None, None, '')]
        p.globals += list(extra)
        if hw:
            p.globals.append(('unsigned char *const', 'HW0', 0x02, None, ''))
        p.funcs = [dict(f) for f in funcs]
        p.main = list(main)
        out[name] = p

    then_else = lambda k: (('block', [asg(V('c'), N(k))]), ('block', [asg(V('c'), N(k + 1))]))
    # A. an update immediately followed by a zero test of the same object
    objs = [('u8', V('a')), ('u16', V('s')), ('s16', V('t')), ('elx', ('idx', 'arr', V('X'))), ('el2', ('idx', 'arr', N(2)))]
    upds = [('pre++', lambda x: ('expr', ('inc', '++x', x))), ('post++', lambda x: ('expr', ('inc', 'x++', x))),
            ('pre--', lambda x: ('expr', ('inc', '--x', x))), ('post--', lambda x: ('expr', ('inc', 'x--', x))),
            ('+=1', lambda x: ('expr', ('asg', '+=', x, N(1)))), ('-=1', lambda x: ('expr', ('asg', '-=', x, N(1))))]
    tsts = [('x', lambda x: x), ('x!=0', lambda x: ('bin', '!=', x, N(0))), ('x==0', lambda x: ('bin', '==', x, N(0))), ('!x', lambda x: ('un', '!', x))]
    for on, x in objs:
        for un, u in upds:
            for tn, t in tsts:
                th, el = then_else(8)
                mk('A_%s_%s_%s' % (on, un, tn), [u(x), ('if', t(x), th, el)])
    # B. the same constant loaded twice into a register, a flag-setting statement in between, a zero test
    for reg in ('X', 'Y'):
        other = 'Y' if reg == 'X' else 'X'
        for kk in (0, 5):
            for mn, mid in (('zero', asg(V('a'), N(0))), ('one', asg(V('a'), N(1))), ('other+1', asg(V('a'), ('bin', '+', V(other), N(1)))),
                            ('and', asg(V('a'), ('bin', '&', V('b'), N(1)))), ('other', asg(V('a'), V(other)))):
                for tn, t in tsts[:3]:
                    th, el = then_else(16)
                    mk('B_%s_%d_%s_%s' % (reg, kk, mn, tn), [asg(V(reg), N(kk)), mid, asg(V(reg), N(kk)), ('if', t(V(reg)), th, el)])
    # C. an update of one element, a test of another element of the same array
    for un, u in upds[:4] + [('=b', lambda x: asg(x, V('b'))), ('=0', lambda x: asg(x, N(0)))]:
        for tn, t in tsts:
            th, el = then_else(18)
            mk('C_%s_%s' % (un, tn), [u(('idx', 'arr', N(1))), ('if', t(('idx', 'arr', N(3))), th, el)])
    # D. results of functions whose last instruction is not a load of the result
    for rn, ret in (('g++', ('inc', 'x++', V('g'))), ('g--', ('inc', 'x--', V('g'))), ('g+1', ('bin', '+', V('g'), N(1)))):
        for inl in (False, True):
            for wrap in (False, True):
                funcs = [dict(name='cnt', ret='unsigned char', params=[], inline=inl, body=[('return', ret)])]
                top = 'cnt'
                if wrap:
                    funcs.append(dict(name='wrap', ret='unsigned char', params=[], inline=inl, body=[('return', ('call', 'cnt', []))]))
                    top = 'wrap'
                call = ('call', top, [])
                for tn, t in tsts[:3]:
                    th, el = then_else(13)
                    mk('D_%s_%d%d_%s' % (rn, inl, wrap, tn), [('if', t(call), th, el)], funcs)
                mk('D_%s_%d%d_s' % (rn, inl, wrap), [asg(V('s'), call)], funcs)
                mk('D_%s_%d%d_a' % (rn, inl, wrap), [asg(V('a'), call), asg(V('b'), call)], funcs)
    # E. a register assignment, an explicit hardware statement, a zero test of the register
    for reg in ('X', 'Y'):
        for mn, mid in (('load0', ('load', N(0))), ('loadb', ('load', V('b'))), ('storeb', ('store', V('d'))), ('strobe', ('strobe', 'HW0')),
                        ('csleep', ('csleep', 5))):
            for tn, t in tsts[:3]:
                th, el = then_else(15)
                mk('E_%s_%s_%s' % (reg, mn, tn), [asg(V(reg), V('a')), mid, ('if', t(V(reg)), th, el)], hw=True)
    #    ... and a load() of a memory operand followed by a zero test of the same operand: 8-bit, 16-bit (load() reads
    #    the low byte only: the test must still look at both), array elements; the test guards a hardware access
    for on, o in (('a', V('a')), ('s', V('s')), ('t', V('t')), ('arr2', ('idx', 'arr', N(2))), ('arrx', ('idx', 'arr', V('X')))):
        for tn, t in tsts:
            mk('E_loadmem_%s_%s' % (on, tn), [('load', o), ('if', t(o), ('block', [('strobe', 'HW0'), asg(V('c'), N(1))]), ('block', [asg(V('c'), N(2))]))], hw=True)
            # (the same with nothing but the hardware access in the branch: the final state says nothing, the trace does)
            mk('E_loadhw_%s_%s' % (on, tn), [('load', o), ('if', t(o), ('block', [('strobe', 'HW0')]), None), ('store', V('d'))], hw=True)
        mk('E_loadmem_do_%s' % on, [asg(V('i'), N(0)), ('do', ('block', [('strobe', 'HW0'), ('expr', ('inc', 'x++', V('i'))), ('if', ('bin', '==', V('i'), N(3)), ('break',), None),
                                                                       ('expr', ('asg', '-=', o, N(1))), ('load', o)]), o)], hw=True)
    # G. an instruction whose only effect on what follows is N and Z: a reload after a store, OR with 0
    loop = ('for', ('asg', '=', V('i'), N(1)), ('bin', '!=', V('i'), N(0)), ('inc', '--x', V('i')), ('block', [asg(V('b'), V('a'))]))
    for tn, t in tsts:
        th, el = then_else(20)
        mk('G_store_%s' % tn, [loop, ('store', V('d')), ('if', t(V('d')), th, el)], hw=True)
        mk('G_storesw_%s' % tn, [loop, ('store', V('d')), ('switch', V('d'), [([0], [asg(V('c'), N(20)), ('break',)]), ([5], [asg(V('c'), N(21)), ('break',)])], None)], hw=True)
        for reg in ('X', 'Y'):
            mk('G_chain_%s_%s' % (reg, tn), [asg(V('i'), N(1)), ('expr', ('inc', 'x++', V(reg))), asg(V('j'), N(1)), asg(V('i'), V('j')),
                                             ('if', t(V('i')), th, el)])
            mk('G_chain0_%s_%s' % (reg, tn), [asg(V('i'), N(0)), ('expr', ('inc', 'x--', V(reg))), asg(V('j'), N(0)), asg(V('i'), V('j')),
                                              ('if', t(V('i')), th, el)])
    cntf = [dict(name='cnt', ret='unsigned char', params=[], inline=False, body=[('return', ('inc', 'x++', V('g')))])]
    for on, e in (('|0', ('bin', '|', ('call', 'cnt', []), N(0))), ('0|', ('bin', '|', N(0), ('call', 'cnt', []))), ('+0', ('bin', '+', ('call', 'cnt', []), N(0))),
                  ('^0', ('bin', '^', ('call', 'cnt', []), N(0))), ('&255', ('bin', '&', ('call', 'cnt', []), N(255)))):
        for tn, t in tsts[:3]:
            th, el = then_else(22)
            mk('G_call%s_%s' % (on, tn), [('if', t(e), th, el)], cntf)
    # H. an assignment, then a statement that sets N and Z from something else without loading anything new into
    #    the accumulator's source, then a zero test of the assigned object (8-bit variable or register)
    mids = [('s>>=1', ('expr', ('asg', '>>=', V('s'), N(1)))), ('s<<=1', ('expr', ('asg', '<<=', V('s'), N(1)))),
            ('t>>=1', ('expr', ('asg', '>>=', V('t'), N(1)))), ('s>>=3', ('expr', ('asg', '>>=', V('s'), N(3)))),
            ('s++', ('expr', ('inc', 'x++', V('s')))), ('t--', ('expr', ('inc', 'x--', V('t')))), ('s=t', asg(V('s'), V('t'))),
            ('el++', ('expr', ('inc', 'x++', ('idx', 'arr', N(2))))), ('d++', ('expr', ('inc', 'x++', V('d')))),
            ('d>>=1', ('expr', ('asg', '>>=', V('d'), N(1)))), ('s+=300', ('expr', ('asg', '+=', V('s'), N(300)))),
            ('Y=Y', asg(V('Y'), V('Y'))), ('X=X', asg(V('X'), V('X')))]
    mids.append(('asm', ('asm', '; inline text')))
    for mn, mid in mids:
        for dn, dst in (('a', V('a')), ('X', V('X')), ('Y', V('Y'))):
            if mn in ('Y=Y', 'X=X') and dn != 'a':
                continue
            for tn, t in tsts[:3]:
                th, el = then_else(24)
                mk('H_%s_%s_%s' % (mn, dn, tn), [asg(dst, V('b')), mid, ('if', t(dst), th, el)])
    # M. a condition made of several tests, an else part that starts with a test of one of its operands: the else
    #    label is reached from every test of the condition, with different flags
    ops2 = [('a&&b', ('bin', '&&', V('a'), V('b'))), ('a||b', ('bin', '||', V('a'), V('b'))), ('!(a&&b)', ('un', '!', ('bin', '&&', V('a'), V('b')))),
            ('a&&b&&d', ('bin', '&&', ('bin', '&&', V('a'), V('b')), V('d'))), ('X>d&&d', ('bin', '&&', ('bin', '>', V('X'), V('d')), V('d'))),
            ('a==1||b', ('bin', '||', ('bin', '==', V('a'), N(1)), V('b')))]
    for cn, cnd in ops2:
        for en, inner in (('b', V('b')), ('!b', ('un', '!', V('b'))), ('a', V('a')), ('d', V('d')), ('b!=0', ('bin', '!=', V('b'), N(0)))):
            mk('M_%s_%s' % (cn, en), [('if', cnd, ('block', [asg(V('c'), N(1))]),
                                       ('block', [('if', inner, ('block', [asg(V('c'), N(2))]), ('block', [asg(V('c'), N(3))]))]))])
            mk('M2_%s_%s' % (cn, en), [('if', cnd, ('block', [asg(V('c'), N(1))]), None), ('if', inner, ('block', [asg(V('c'), N(2))]), ('block', [asg(V('i'), N(3))]))])
    # K. the comma operator: a sequence point between its operands (pending ++/-- of the left one are done
    #    before the right one is evaluated), as a statement and in the header of a for loop
    C2 = lambda a_, b_: ('bin', ',', a_, b_)
    mk('K_for_upd', [('for', C2(('asg', '=', V('i'), N(0)), ('asg', '=', V('j'), N(0))), ('bin', '<', V('i'), N(3)),
                      C2(('inc', 'x++', V('i')), ('asg', '=', V('j'), V('i'))), ('block', [('expr', ('asg', '+=', V('c'), V('j')))]))])
    mk('K_for_upd2', [('for', ('asg', '=', V('i'), N(0)), ('bin', '!=', V('i'), N(3)),
                       C2(('inc', 'x++', V('i')), ('asg', '=', ('idx', 'arr', V('i')), V('i'))), ('block', [('expr', ('inc', 'x++', V('c')))]))])
    for n_, (l_, r_) in enumerate([(('inc', 'x++', V('i')), ('asg', '=', V('j'), V('i'))), (('inc', 'x--', V('i')), ('asg', '=', V('j'), V('i'))),
                                   (('inc', 'x++', V('X')), ('asg', '=', ('idx', 'arr', V('X')), N(7))), (('inc', 'x++', V('a')), ('asg', '+=', V('b'), V('a'))),
                                   (('asg', '=', V('a'), ('inc', 'x++', V('b'))), ('asg', '=', V('c'), V('b'))), (('inc', 'x++', V('s')), ('asg', '=', V('t'), V('s')))]):
        mk('K_stmt_%d' % n_, [asg(V('X'), N(2)), ('expr', C2(l_, r_))])
    # F. ++/-- of a 16-bit variable as an operand
    for iname in ('++x', '--x', 'x++', 'x--'):
        inc = ('inc', iname, V('s'))
        for en, e in (('>>8', ('bin', '>>', inc, N(8))), ('<<8', ('bin', '<<', inc, N(8))), ('+256', ('bin', '+', inc, N(256))), ('&255', ('bin', '&', inc, N(255))), ('plain', inc)):
            for tgt in ('t', 'a'):
                mk('F_%s_%s_%s' % (iname, en, tgt), [asg(V(tgt), e)])
    # N. every position a name can take (for the renamed twins, RENAMES): each variable first in a statement that
    #    follows an if without else, first in a statement of a function that returns a value, alone after a
    #    unary operator, as an operand, as a subscript, in a condition, as a goto label's neighbour
    for n_, x in enumerate(('a', 'b', 'c', 'd', 'i', 'j', 'g')):
        y = 'b' if x != 'b' else 'a'
        f1 = dict(name='cnt', ret='unsigned char', params=[], inline=False, body=[asg(V(x), ('bin', '+', V(x), N(3))), ('return', V(x))])
        mk('N_first_%s' % x, [('if', V(y), asg(V(y), N(7)), None), asg(V(x), N(5)), ('if', V(y), ('block', [asg(V(y), N(9))]), None), asg(V(x), ('bin', '+', V(x), N(1)))])
        mk('N_fn_%s' % x, [asg(V(y), ('call', 'cnt', []))], funcs=[f1])
        mk('N_opnd_%s' % x, [asg(V(y), ('bin', '+', V(x), N(1))), asg(V('arr'), V(x)) if False else asg(('idx', 'arr', N(1)), ('un', '-', V(x))),
                             asg(('idx', 'arr', N(2)), ('un', '~', V(x))), ('if', ('un', '!', V(x)), asg(V(y), N(4)), None),
                             asg(('idx', 'arr', N(3)), ('bin', '+', N(2), V(x)))])
    # S. the end of a case: what follows the last statement of a case that is not the last one (fall-through unless
    #    the statement leaves the switch on every path)
    add_ = lambda v, k: asg(V(v), ('bin', '+', V(v), N(k)))
    lasts = [('ifbreak', [('if', V('b'), ('break',), None)]), ('ifblockbreak', [('if', V('b'), ('block', [asg(V('d'), N(1)), ('break',)]), None)]),
             ('ifbreakelse', [('if', V('b'), ('break',), asg(V('d'), N(2)))]), ('ifelsebreak', [('if', V('b'), asg(V('d'), N(2)), ('break',))]),
             ('ifbothbreak', [('if', V('b'), ('block', [asg(V('d'), N(3)), ('break',)]), ('break',))]), ('fall', []), ('break', [('break',)]),
             ('ifnotbreak', [('if', ('un', '!', V('b')), ('break',), None)]), ('nestedif', [('if', V('b'), ('if', V('d'), ('break',), None), None)])]
    for ln, last in lasts:
        for on, opnd in (('a', V('a')), ('X', V('X'))):
            mk('S_%s_%s' % (ln, on), [('switch', opnd, [([1], [asg(V('c'), N(1))] + last), ([2, 3], [add_('c', 2), ('break',)])], [add_('c', 4)])])
        mk('S_%s_nodefault' % ln, [('switch', V('a'), [([1], [asg(V('c'), N(1))] + last), ([2], [add_('c', 2)] + last), ([5], [add_('c', 8)])], None)])
    for ln, jump in (('continue', ('continue',)), ('break', ('break',))):
        mk('S_loop_%s' % ln, [asg(V('c'), N(0)), ('for', ('asg', '=', V('i'), N(0)), ('bin', '!=', V('i'), N(2)), ('inc', 'x++', V('i')),
                                                   ('block', [('switch', V('a'), [([1], [add_('c', 1), ('if', V('b'), jump, None)]), ([2], [add_('c', 2), ('break',)])], [add_('c', 4)]),
                                                              add_('c', 16)]))])
    fS = dict(name='cnt', ret='unsigned char', params=[], inline=False,
              body=[('switch', V('a'), [([1], [asg(V('c'), N(1)), ('if', V('b'), ('return', N(7)), None)]), ([2], [add_('c', 2), ('break',)])], [add_('c', 4)]), ('return', V('c'))])
    for inl in (False, True):
        fS2 = dict(fS); fS2['inline'] = inl
        mk('S_return_%d' % inl, [asg(V('d'), ('call', 'cnt', []))], funcs=[fS2])
    # T. truth values and conditional expressions stored into 16-bit objects (both bytes), alone and as operands
    for on, o in (('eq', '=='), ('ne', '!='), ('lt', '<'), ('ge', '>='), ('gt', '>'), ('le', '<='), ('and', '&&'), ('or', '||')):
        tv = ('bin', o, V('a'), V('b'))
        mk('T_store_%s' % on, [asg(V('s'), tv), asg(V('t'), ('bin', '+', tv, N(1))), asg(V('c'), tv)])
        mk('T_add_%s' % on, [asg(V('s'), ('bin', '+', V('s'), tv)), asg(V('t'), ('bin', '-', N(1000), tv))])
    for tn, (x1, x2) in (('vars', (V('t'), V('s'))), ('const', (N(1000), N(300))), ('mixed', (V('t'), N(7))), ('bytes', (V('b'), N(1000))), ('byte_byte', (V('b'), V('d')))):
        mk('T_tern_%s' % tn, [asg(V('s'), ('tern', V('a'), x1, x2))])
        mk('T_tern_cmp_%s' % tn, [asg(V('s'), ('tern', ('bin', '<', V('a'), V('b')), x1, x2)), asg(V('c'), ('tern', V('a'), V('b'), N(3)))])
    mk('T_tern_nested', [asg(V('s'), ('tern', V('a'), ('tern', V('b'), N(300), N(400)), N(500)))])
    mk('T_tern_add', [asg(V('s'), ('bin', '+', ('tern', V('a'), V('t'), N(256)), N(1)))])
    # P. two names for one cell: a read through a pointer indexed by Y, a write to the cell BY NAME (or through
    #    another pointer), the same read again with Y unchanged
    PTR = [('unsigned char *', 'p', None, None, ''), ('unsigned char *', 'q', None, None, '')]
    for tn, setp, k, cell in (('arr', asg(V('p'), V('arr')), 1, ('idx', 'arr', N(1))), ('arr3', asg(V('p'), V('arr')), 3, ('idx', 'arr', N(3))),
                              ('scalar', asg(V('p'), ('addr', 'a')), 0, V('a'))):
        for sn, store in (('stx', [asg(cell, V('X'))]), ('sty', [asg(cell, V('Y'))]), ('const', [asg(cell, N(7))]), ('var', [asg(cell, V('b'))]),
                          ('inc', [('expr', ('inc', 'x++', cell))]), ('add', [('expr', ('asg', '+=', cell, N(2)))]),
                          ('viaq', [asg(V('q'), V('p')), asg(('idx', 'q', V('Y')), V('X'))]), ('derefq', [asg(V('q'), ('bin', '+', V('p'), N(k))) if False else asg(V('q'), V('p')), asg(('idx', 'q', V('Y')), N(9))])):
            mk('P_%s_%s' % (tn, sn), [setp, asg(V('Y'), N(k)), asg(V('X'), N(5)), asg(V('c'), ('idx', 'p', V('Y')))] + store + [asg(V('d'), ('idx', 'p', V('Y')))], extra=PTR)
            mk('P2_%s_%s' % (tn, sn), [setp, asg(V('Y'), N(k)), asg(V('X'), N(5)), ('if', ('idx', 'p', V('Y')), asg(V('c'), N(1)), None)] + store +
                                         [('if', ('bin', '==', ('idx', 'p', V('Y')), N(5)), asg(V('d'), N(1)), asg(V('d'), N(2)))], extra=PTR)
    # Q. conditions with a constant operand under && / || (configuration macros), used as VALUES: the condition of
    #    ?: and the operand of ! (contexts that fold constants), next to the statement contexts
    qc = [('or0', ('bin', '||', V('a'), N(0))), ('or1', ('bin', '||', V('a'), N(1))), ('0or', ('bin', '||', N(0), V('a'))), ('1or', ('bin', '||', N(1), V('a'))),
          ('and1', ('bin', '&&', V('a'), N(1))), ('and0', ('bin', '&&', V('a'), N(0))), ('1and', ('bin', '&&', N(1), V('a'))), ('0and', ('bin', '&&', N(0), V('a'))),
          ('or0or', ('bin', '||', ('bin', '||', V('a'), N(0)), V('b'))), ('orand1', ('bin', '||', V('a'), ('bin', '&&', V('b'), N(1)))),
          ('and_or0', ('bin', '&&', V('a'), ('bin', '||', V('b'), N(0)))), ('cmp_or0', ('bin', '||', ('bin', '<', V('a'), V('b')), N(0)))]
    for cn, cnd in qc:
        mk('Q_tern_%s' % cn, [asg(V('d'), ('tern', cnd, N(1), N(2)))])
        mk('Q_ternvar_%s' % cn, [asg(V('d'), ('tern', cnd, V('b'), V('c')))])
        mk('Q_nottern_%s' % cn, [asg(V('d'), ('tern', ('un', '!', cnd), N(2), N(1)))])
        mk('Q_not_%s' % cn, [asg(V('d'), ('un', '!', cnd)), asg(V('c'), cnd)])
        mk('Q_if_%s' % cn, [('if', cnd, asg(V('d'), N(1)), asg(V('d'), N(2))), ('if', ('un', '!', cnd), asg(V('c'), N(1)), asg(V('c'), N(2)))])
        mk('Q_s16_%s' % cn, [asg(V('s'), ('tern', cnd, N(1000), N(300)))])
    # R. precedence: `a op1 b op2 c` written WITHOUT parentheses, for every pair of binary operators, in an assignment,
    #    in the initialiser of a local variable (parsed with its own operator table) and in a condition; the tree is
    #    the one C prescribes
    rops = ['+', '-', '<<', '>>', '<', '>=', '==', '!=', '&', '^', '|', '&&', '||']
    for o1 in rops:
        for o2 in rops:
            right = (lambda o: N(1) if o in ('<<', '>>') else None)
            x1, x2, x3 = V('a'), right(o1) or V('b'), right(o2) or V('c')
            if C_PREC[o1] >= C_PREC[o2]:
                tree = ('bin', o2, ('bin', o1, x1, x2), x3)
            else:
                tree = ('bin', o1, x1, ('bin', o2, x2 if o1 not in ('<<', '>>') else N(1), x3))
                if o1 in ('<<', '>>'):
                    continue      # a shift by an expression is not supported
            tag = '%s_%s' % (rops.index(o1), rops.index(o2))
            mk('R_asg_' + tag, [asg(V('d'), tree)])
            mk('R_local_' + tag, [('local', 'unsigned char', 'lx', tree), asg(V('d'), V('lx'))])
            mk('R_cond_' + tag, [('if', tree, asg(V('d'), N(1)), asg(V('d'), N(2)))])
            for nm in ('R_asg_' + tag, 'R_local_' + tag, 'R_cond_' + tag):
                out[nm].minimal_parens = True
    for n_, x in enumerate(('s', 't')):
        mk('N_first16_%s' % x, [('if', V('a'), asg(V('a'), N(7)), None), asg(V(x), N(500)), asg(V('b'), ('bin', '+', V(x), N(1))),
                                asg(V('s' if x == 't' else 't'), ('bin', '+', V(x), N(300)))])
    return out


def long_programs():
    """A FIXED enumeration of programs whose conditional branches span about 128 bytes (the reach of a
    relative branch): every comparison operator x statement context x body size around the limit x
    (operands equal at run time | arbitrary), a far branch nested in a span that is itself within three
    bytes of the limit, Y-indexed 16-bit array accesses (3-byte instructions on zero-page symbols)."""
    V = lambda n: ('var', n)
    N = lambda n: ('num', n)
    asg = lambda lv, e: ('expr', ('asg', '=', lv, e))
    inc = lambda v: ('expr', ('inc', 'x++', V(v)))
    out = {}

    def mk(name, main, extra=(), funcs=()):
        p = Prog()
        p.globals = [('unsigned char', n, None, None, '') for n in ('a', 'b', 'c', 'd', 'i')] + list(extra)
        p.funcs = [dict(f) for f in funcs]
        p.main = list(main)
        out[name] = p

    ops = ['==', '!=', '<', '>=', '>', '<=']
    for oi, op in enumerate(ops):
        for n in (62, 63, 64, 65):
            body = ('block', [inc('c')] * n)
            for eq in (False, True):
                pre = [asg(V('b'), V('a'))] if eq else []
                cond = ('bin', op, V('a'), V('b'))
                tag = '%d_%d_%d' % (oi, n, eq)
                mk('L_if_' + tag, pre + [('if', cond, body, None), inc('d')])
                mk('L_ifelse_' + tag, pre + [('if', cond, body, ('block', [inc('d')] * n))])
                # a loop that runs at most twice: i counts the iterations, the condition is evaluated at the bottom
                mk('L_do_' + tag, pre + [asg(V('i'), N(0)), ('do', ('block', [inc('c')] * n + [inc('i'), ('if', ('bin', '==', V('i'), N(2)), ('break',), None),
                                                                                            asg(V('b'), V('a')) if not eq else inc('d')]), cond)])
                mk('L_for_' + tag, pre + [('for', ('asg', '=', V('i'), N(0)), ('bin', '&&', ('bin', '!=', V('i'), N(2)), cond), ('inc', 'x++', V('i')), body)])
    # a far branch inside a span that is itself 125..127 bytes long
    for k in range(44, 54):
        mk('L_nested_%d' % k, [('for', ('asg', '=', V('X'), N(0)), ('bin', '!=', V('X'), N(3)), ('inc', 'x++', V('X')),
                                ('block', [('if', V('Y'), ('block', [inc('c')] * 10 + [('if', ('bin', '==', V('X'), N(2)), ('break',), None)] + [inc('d')] * k), None)] +
                                 [inc('a')] * 30))])
    # a condition that is long itself: the branches of || alternatives (and of the left operand of &&) jump over
    # the evaluation of everything to their right, to a label of the condition, not of the statement
    ARR = [('unsigned char', 'arr', None, 32, '')]
    for n in range(19, 25):
        big = ('bin', '==', ('idx', 'arr', N(0)), N(1))
        for k in range(1, n):
            big = ('bin', '||', big, ('bin', '==', ('idx', 'arr', N(k)), N(k + 1)))
        mk('L_or_%d' % n, [('if', ('bin', '||', V('a'), big), ('block', [asg(V('c'), N(1))]), ('block', [asg(V('c'), N(2))]))], extra=ARR)
        mk('L_whileor_%d' % n, [asg(V('i'), N(0)), ('while', ('bin', '||', V('a'), big), ('block', [inc('i'), asg(V('a'), N(0)), asg(('idx', 'arr', N(n - 1)), N(0)),
                                                                                                  ('if', ('bin', '==', V('i'), N(3)), ('break',), None)]))], extra=ARR)
        mk('L_doand_%d' % n, [asg(V('i'), N(0)), ('do', ('block', [inc('c'), inc('i'), ('if', ('bin', '==', V('i'), N(2)), ('break',), None)]),
                                                  ('bin', '&&', V('a'), big))], extra=ARR)
        mk('L_ifand_%d' % n, [('if', ('bin', '&&', ('un', '!', V('a')), ('un', '!', big)), ('block', [asg(V('c'), N(1))]), ('block', [asg(V('c'), N(2))]))], extra=ARR)
    # an early `return` of an inline function whose body is long: the branch to the end of the expansion
    for n in range(61, 67):
        for inl in (True, False):
            f = dict(name='upd', ret='void', params=[], inline=inl, body=[('if', ('bin', '==', V('a'), N(0)), ('return', None), None)] + [inc('c')] * n)
            f2 = dict(name='upd', ret='void', params=[], inline=inl, body=[('if', ('bin', '==', V('a'), N(0)), ('block', [('return', None)]), None)] + [inc('c')] * n)
            mk('L_inlret_%d_%d' % (n, inl), [('expr', ('call', 'upd', [])), inc('d')], funcs=[f])
            mk('L_inlret2_%d_%d' % (n, inl), [('expr', ('call', 'upd', [])), inc('d'), ('expr', ('call', 'upd', []))], funcs=[f2])
    # Y-indexed elements of a 16-bit array in zero page: absolute,Y is the only form
    for k in (11, 12, 13, 14):
        mk('L_sarr_%d' % k, [asg(V('X'), N(2)), ('do', ('block', [asg(V('s'), ('idx', 'sarr', V('Y')))] * k + [('expr', ('inc', 'x--', V('X')))]), V('X'))],
           extra=[('short', 'sarr', None, 4, ''), ('short', 's', None, None, '')])
    return out
