(** Deterministic output ordering by an insertion counter.

    The Rust keeps its tables (functions, variables) in a HashMap, i.e. in an arbitrary iteration
    order depending on the hash seed, and obtains the output order by a STABLE sort on the [order]
    field each entry received when it was inserted. *)
From Coq Require Import String List Bool Arith Sorting.Permutation.
Import ListNotations.

(* a table entry: key and the order number it was given *)
Definition entry := (string * nat)%type.

(** Stable insertion sort by the order field.

    [sort_by_order] processes the list from the right ([fold_right]): [sort (x :: l) =
    insert_sorted x (sort l)].  The element [x] being inserted therefore stood BEFORE every element
    of [l] in the input, so for stability it must end up before all elements with an equal order:
    [insert_sorted e] skips the elements STRICTLY smaller than [e] and puts [e] in front of the
    first element [x] with [snd e <= snd x].  With this choice [sort_by_order] is a stable sort
    (elements with equal order keep their input order; see [sort_by_order_stable] in
    Proofs/OrderFacts.v), like Rust's [sort_by_key] / [sort_by]. *)
Fixpoint insert_sorted (e : entry) (l : list entry) : list entry :=
  match l with
  | [] => [e]
  | x :: r => if Nat.leb (snd e) (snd x) then e :: l else x :: insert_sorted e r
  end.

Definition sort_by_order (l : list entry) : list entry := fold_right insert_sorted [] l.

(** The compiler's insertion, BEFORE the repair: a new key gets order = current number of entries;
    RE-inserting an existing key (function definition after its prototype) replaces the entry
    ([HashMap::insert] replaces) and gives it order = current length again; the length is taken
    BEFORE the replacement, as [order: self.functions.len()] is evaluated first. *)
Definition insert_key_old (tbl : list entry) (k : string) : list entry :=
  (k, length tbl) :: filter (fun e => negb (String.eqb (fst e) k)) tbl.

Definition build_old (ks : list string) : list entry := fold_left insert_key_old ks [].

(** The current code: re-inserting an existing key KEEPS its old order number (the kept entry is
    unchanged: a HashMap replace with the same order); a new key gets order = current number of
    entries. *)
Definition insert_key (tbl : list entry) (k : string) : list entry :=
  if existsb (fun e => String.eqb (fst e) k) tbl then tbl else (k, length tbl) :: tbl.

Definition build (ks : list string) : list entry := fold_left insert_key ks [].

(** [nodup_first ks]: the history [ks] with only the FIRST occurrence of each key kept, in order
    (["f"; "g"; "f"; "h"; "g"] gives ["f"; "g"; "h"]).  [nodup_first_from seen ks] does the same
    but also drops the keys already in [seen]. *)
Fixpoint nodup_first_from (seen : list string) (ks : list string) : list string :=
  match ks with
  | [] => []
  | k :: r =>
      if existsb (String.eqb k) seen then nodup_first_from seen r
      else k :: nodup_first_from (k :: seen) r
  end.

Definition nodup_first (ks : list string) : list string := nodup_first_from [] ks.
