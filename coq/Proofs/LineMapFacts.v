(** Facts about the line-mapping table of the preprocessor model (property C06): one entry per
    output line (L1), origin of the entries (L2, L3), the offset -> line translation (L4) and its
    two boundary defects (L5).  Specification: Model/LineMapSpec.v. *)
From Coq Require Import String Ascii List Bool Arith NArith Lia Sorted.
From CC Require Import Base.Str Model.Cpp Model.LineMapSpec Model.ScanSpec.
Import ListNotations.

Open Scope list_scope.
Open Scope string_scope.

(** * Part A: newlines and the string operations of the model *)

Lemma app_empty_r (s : string) : s ++ "" = s.
Proof. induction s; simpl; congruence. Qed.

Lemma app_assoc_s (a b c : string) : (a ++ b) ++ c = a ++ b ++ c.
Proof. induction a; simpl; congruence. Qed.

Lemma length_app_s (a b : string) : String.length (a ++ b) = String.length a + String.length b.
Proof. induction a; simpl; congruence. Qed.

Lemma count_nl_app (a b : string) : count_nl (a ++ b) = count_nl a + count_nl b.
Proof. induction a; simpl; [reflexivity|rewrite IHa; lia]. Qed.

Lemma nlfree_app (a b : string) : nlfree (a ++ b) = nlfree a && nlfree b.
Proof. induction a; simpl; [reflexivity|rewrite IHa, andb_assoc; reflexivity]. Qed.

Lemma nlfree_count (s : string) : nlfree s = true -> count_nl s = 0.
Proof.
  induction s; simpl; intros H; [reflexivity|].
  apply andb_true_iff in H. destruct H as [H1 H2]. destruct (is_nl a); [discriminate|].
  rewrite IHs; auto.
Qed.

Lemma nlfree_one_line (s : string) : nlfree s = true -> one_line s = true.
Proof.
  induction s; simpl; intros H; [reflexivity|].
  apply andb_true_iff in H. destruct H as [H1 H2]. destruct (is_nl a); [discriminate|auto].
Qed.

(** one_line of a concatenation *)
Lemma one_line_app_nonempty (a b : string) :
  one_line (a ++ b) = true -> b <> "" -> nlfree a = true.
Proof.
  induction a; simpl; intros H Hb; [reflexivity|].
  destruct (is_nl a) eqn:E; simpl.
  - destruct a0; simpl in H; [destruct b; [congruence|discriminate]|discriminate].
  - auto.
Qed.

Lemma one_line_app_r (a b : string) : one_line (a ++ b) = true -> one_line b = true.
Proof.
  induction a; simpl; intros H; [exact H|].
  destruct (is_nl a).
  - destruct a0; simpl in H; [destruct b; [reflexivity|discriminate]|discriminate].
  - auto.
Qed.

Lemma one_line_app_l (a b : string) : one_line (a ++ b) = true -> one_line a = true.
Proof.
  destruct b as [|c b].
  - rewrite app_empty_r. auto.
  - intros H. apply nlfree_one_line. eapply one_line_app_nonempty; [exact H|discriminate].
Qed.

Lemma one_line_nlfree_app (a b : string) : nlfree a = true -> one_line (a ++ b) = one_line b.
Proof.
  induction a; simpl; intros H; [reflexivity|].
  apply andb_true_iff in H. destruct H as [H1 H2]. destruct (is_nl a); [discriminate|auto].
Qed.

(** removing a middle part, inserting a newline-free part *)
Lemma one_line_drop_mid (a b c : string) : one_line (a ++ b ++ c) = true -> one_line (a ++ c) = true.
Proof.
  intros H. destruct c as [|x c].
  - rewrite app_empty_r in *. eapply one_line_app_l; exact H.
  - assert (Ha : nlfree a = true) by (eapply one_line_app_nonempty; [exact H|destruct b; discriminate]).
    rewrite one_line_nlfree_app by exact Ha.
    apply one_line_app_r in H. apply one_line_app_r in H. exact H.
Qed.


(** inserting just before the end is only safe when the left part is newline-free or nothing follows *)
Lemma one_line_insert_mid (a m c : string) :
  one_line (a ++ c) = true -> nlfree m = true -> c <> "" -> one_line (a ++ m ++ c) = true.
Proof.
  intros H Hm Hc.
  assert (Ha : nlfree a = true) by (eapply one_line_app_nonempty; eauto).
  rewrite !one_line_nlfree_app by assumption.
  eapply one_line_app_r; exact H.
Qed.

Lemma one_line_cases (s : string) :
  one_line s = true -> nlfree s = true \/ exists s', s = s' ++ nl /\ nlfree s' = true.
Proof.
  induction s; simpl; intros H; [left; reflexivity|].
  destruct (is_nl a) eqn:E.
  - destruct s; [|discriminate]. right. exists "". split; [|reflexivity].
    unfold is_nl in E. apply Ascii.eqb_eq in E. subst. reflexivity.
  - destruct (IHs H) as [F|[s' [-> F]]].
    + left. simpl. exact F.
    + right. exists (String a s'). split; [reflexivity|]. simpl. rewrite E. exact F.
Qed.

Lemma one_line_count (s : string) : one_line s = true -> count_nl s = if ends_nl s then 1 else 0.
Proof.
  induction s; simpl; intros H; [reflexivity|].
  destruct (is_nl a) eqn:E.
  - destruct s; [reflexivity|discriminate].
  - rewrite IHs by exact H. destruct s; reflexivity.
Qed.

Lemma ends_nl_app (a b : string) : b <> "" -> ends_nl (a ++ b) = ends_nl b.
Proof.
  intros Hb. induction a; [reflexivity|].
  simpl. destruct (a0 ++ b) eqn:E.
  - destruct a0; simpl in E; [congruence|discriminate].
  - exact IHa.
Qed.

Lemma ends_nl_app_nl (a : string) : ends_nl (a ++ nl) = true.
Proof. rewrite ends_nl_app by discriminate. reflexivity. Qed.

Lemma ends_nl_nonempty (s : string) : ends_nl s = true -> s <> "".
Proof. destruct s; [discriminate|discriminate]. Qed.

Lemma complete_app (a b : string) : ends_nl b = true -> complete (a ++ b) = true.
Proof.
  intros H. pose proof (ends_nl_nonempty _ H) as Hb.
  unfold complete. destruct (a ++ b) eqn:E.
  - reflexivity.
  - rewrite <- E. rewrite ends_nl_app by exact Hb. exact H.
Qed.

(** ** rev_string / ends_with *)
Lemma rev_string_aux_app (s acc : string) : rev_string_aux s acc = rev_string_aux s "" ++ acc.
Proof.
  revert acc. induction s; intros acc; simpl; [reflexivity|].
  rewrite IHs. rewrite (IHs (String a "")). rewrite app_assoc_s. reflexivity.
Qed.

Lemma rev_string_cons (a : ascii) (s : string) : rev_string (String a s) = rev_string s ++ String a "".
Proof. unfold rev_string. simpl. apply rev_string_aux_app. Qed.

Lemma rev_string_app (a b : string) : rev_string (a ++ b) = rev_string b ++ rev_string a.
Proof.
  induction a; simpl.
  - change (rev_string "") with "". rewrite app_empty_r. reflexivity.
  - rewrite !rev_string_cons, IHa, app_assoc_s. reflexivity.
Qed.

Lemma rev_string_involutive (s : string) : rev_string (rev_string s) = s.
Proof.
  induction s; [reflexivity|].
  rewrite rev_string_cons, rev_string_app, IHs. reflexivity.
Qed.

Lemma nlfree_rev (s : string) : nlfree (rev_string s) = nlfree s.
Proof.
  induction s; [reflexivity|].
  rewrite rev_string_cons, nlfree_app, IHs. simpl. rewrite andb_true_r, andb_comm. reflexivity.
Qed.

Lemma ends_with_nl (s : string) : ends_with nl s = ends_nl s.
Proof.
  unfold ends_with. change (rev_string nl) with nl.
  induction s; [reflexivity|].
  rewrite rev_string_cons.
  destruct s as [|b s].
  - simpl. unfold is_nl, nlc. rewrite Ascii.eqb_sym. rewrite andb_true_r. reflexivity.
  - change (ends_nl (String a (String b s))) with (ends_nl (String b s)). rewrite <- IHs.
    rewrite rev_string_cons. destruct (rev_string s); simpl; reflexivity.
Qed.

(** ** starts_with / string_drop / split_once / before *)
Lemma starts_with_drop (p s : string) :
  starts_with p s = true -> s = p ++ string_drop (String.length p) s.
Proof.
  revert s. induction p; intros s H; simpl in *; [reflexivity|].
  destruct s; [discriminate|]. apply andb_true_iff in H. destruct H as [H1 H2].
  apply Ascii.eqb_eq in H1. subst. f_equal. auto.
Qed.

Lemma drop_suffix (n : nat) (s : string) : exists x, s = x ++ string_drop n s.
Proof.
  revert s. induction n; intros s; simpl.
  - exists "". reflexivity.
  - destruct s; [exists ""; reflexivity|]. destruct (IHn s) as [x Hx].
    exists (String a x). simpl. congruence.
Qed.

Lemma take_prefix (n : nat) (s : string) : exists x, s = string_take n s ++ x.
Proof.
  revert s. induction n; intros s; simpl.
  - exists s. reflexivity.
  - destruct s; [exists ""; reflexivity|]. destruct (IHn s) as [x Hx].
    exists x. simpl. congruence.
Qed.

Lemma drop_app_length (a b : string) : string_drop (String.length a) (a ++ b) = b.
Proof. induction a; simpl; auto. Qed.

Lemma take_app_length (a b : string) : string_take (String.length a) (a ++ b) = a.
Proof. induction a; simpl; congruence. Qed.

Lemma split_once_spec (pat s b t : string) : split_once pat s = Some (b, t) -> s = b ++ pat ++ t.
Proof.
  revert b t. induction s; intros b t H.
  - simpl in H. destruct (starts_with pat "") eqn:E.
    + inversion H; subst. simpl. apply starts_with_drop in E. rewrite E at 1. reflexivity.
    + discriminate.
  - cbn [split_once] in H. destruct (starts_with pat (String a s)) eqn:E.
    + inversion H; subst. simpl. apply starts_with_drop in E. exact E.
    + destruct (split_once pat s) as [[b' t']|] eqn:E2; [|discriminate].
      inversion H; subst. simpl. f_equal. apply IHs. reflexivity.
Qed.

Lemma before_prefix (pat s : string) : exists x, s = before pat s ++ x.
Proof.
  unfold before. destruct (split_once pat s) as [[b t]|] eqn:E.
  - apply split_once_spec in E. exists (pat ++ t). exact E.
  - exists "". rewrite app_empty_r. reflexivity.
Qed.

(** newline-freeness / one-line-ness of parts *)
Lemma nlfree_app_l (a b : string) : nlfree (a ++ b) = true -> nlfree a = true.
Proof. rewrite nlfree_app. intros H. apply andb_true_iff in H. tauto. Qed.
Lemma nlfree_app_r (a b : string) : nlfree (a ++ b) = true -> nlfree b = true.
Proof. rewrite nlfree_app. intros H. apply andb_true_iff in H. tauto. Qed.

Lemma nlfree_drop (n : nat) (s : string) : nlfree s = true -> nlfree (string_drop n s) = true.
Proof. intros H. destruct (drop_suffix n s) as [x Hx]. rewrite Hx in H. eapply nlfree_app_r; eauto. Qed.

Lemma nlfree_take (n : nat) (s : string) : nlfree s = true -> nlfree (string_take n s) = true.
Proof. intros H. destruct (take_prefix n s) as [x Hx]. rewrite Hx in H. eapply nlfree_app_l; eauto. Qed.

Lemma one_line_drop (n : nat) (s : string) : one_line s = true -> one_line (string_drop n s) = true.
Proof. intros H. destruct (drop_suffix n s) as [x Hx]. rewrite Hx in H. eapply one_line_app_r; eauto. Qed.

Lemma one_line_take (n : nat) (s : string) : one_line s = true -> one_line (string_take n s) = true.
Proof. intros H. destruct (take_prefix n s) as [x Hx]. rewrite Hx in H. eapply one_line_app_l; eauto. Qed.

Lemma nlfree_before (pat s : string) : nlfree s = true -> nlfree (before pat s) = true.
Proof. intros H. destruct (before_prefix pat s) as [x Hx]. rewrite Hx in H. eapply nlfree_app_l; eauto. Qed.

Lemma nlfree_split_once (pat s b t : string) :
  split_once pat s = Some (b, t) -> nlfree s = true -> nlfree b = true /\ nlfree t = true.
Proof.
  intros E H. apply split_once_spec in E. subst.
  split; [eapply nlfree_app_l; eauto|]. apply nlfree_app_r in H. eapply nlfree_app_r; eauto.
Qed.

(** ** trimming *)
Lemma trim_start_suffix (s : string) : exists x, s = x ++ trim_start s.
Proof.
  induction s; simpl; [exists ""; reflexivity|].
  destruct (is_ws a).
  - destruct IHs as [x Hx]. exists (String a x). simpl. congruence.
  - exists "". reflexivity.
Qed.

Lemma nlfree_trim_start (s : string) : nlfree s = true -> nlfree (trim_start s) = true.
Proof. intros H. destruct (trim_start_suffix s) as [x Hx]. rewrite Hx in H. eapply nlfree_app_r; eauto. Qed.

Lemma nlfree_trim_end (s : string) : nlfree s = true -> nlfree (trim_end s) = true.
Proof.
  intros H. unfold trim_end. rewrite nlfree_rev. apply nlfree_trim_start. rewrite nlfree_rev. exact H.
Qed.

Lemma nlfree_trim (s : string) : nlfree s = true -> nlfree (trim s) = true.
Proof. intros H. unfold trim. apply nlfree_trim_end, nlfree_trim_start, H. Qed.

Lemma is_ws_nl : is_ws nlc = true.
Proof. reflexivity. Qed.

(** trimming a one-line text removes its newline *)
Lemma one_line_trim_end (s : string) : one_line s = true -> nlfree (trim_end s) = true.
Proof.
  intros H. destruct (one_line_cases s H) as [F|[s' [-> F]]].
  - apply nlfree_trim_end, F.
  - unfold trim_end. rewrite nlfree_rev, rev_string_app. change (rev_string nl) with nl.
    cbn [append nl trim_start]. change (ascii_of_nat 10) with nlc. rewrite is_ws_nl.
    apply nlfree_trim_start. rewrite nlfree_rev. exact F.
Qed.

Lemma one_line_trim_start (s : string) : one_line s = true -> one_line (trim_start s) = true.
Proof. intros H. destruct (trim_start_suffix s) as [x Hx]. rewrite Hx in H. eapply one_line_app_r; eauto. Qed.

Lemma one_line_trim (s : string) : one_line s = true -> nlfree (trim s) = true.
Proof. intros H. unfold trim. apply one_line_trim_end, one_line_trim_start, H. Qed.

Open Scope list_scope.
Open Scope string_scope.

(** * Part B: the scanner keeps a line a line *)

Lemma find_close_suffix (f : nat) (s acc body rest : string) :
  find_close f s acc = Some (body, rest) -> exists m, s = m ++ rest.
Proof.
  revert s acc. induction f; intros s acc H; cbn [find_close] in H; [discriminate|].
  destruct (split_once """" s) as [[lft r0]|] eqn:E; [|discriminate].
  apply split_once_spec in E.
  destruct (Nat.even (trailing_backslashes lft)).
  - inversion H; subst. exists (lft ++ """"). rewrite app_assoc_s. reflexivity.
  - apply IHf in H. destruct H as [m Hm]. exists (lft ++ """" ++ m). rewrite Hm in E.
    rewrite E. rewrite !app_assoc_s. reflexivity.
Qed.

Lemma digit_not_nl (n : N) : is_nl (ascii_of_N (48 + N.modulo n 10)) = false.
Proof.
  assert (H : (N.modulo n 10 < 10)%N) by (apply N.mod_lt; discriminate).
  remember (N.modulo n 10) as d.
  assert (C : (d = 0 \/ d = 1 \/ d = 2 \/ d = 3 \/ d = 4 \/ d = 5 \/ d = 6 \/ d = 7 \/ d = 8 \/ d = 9)%N) by lia.
  repeat (destruct C as [C|C]; [subst d; rewrite C; reflexivity|]). subst d; rewrite C; reflexivity.
Qed.

Lemma nlfree_dec_digits (f : nat) (n : N) (acc : string) :
  nlfree acc = true -> nlfree (dec_digits f n acc) = true.
Proof.
  revert n acc. induction f; intros n acc H; cbn [dec_digits]; [exact H|].
  assert (H' : nlfree (String (ascii_of_N (48 + N.modulo n 10)) acc) = true).
  { cbn [nlfree]. rewrite digit_not_nl. exact H. }
  destruct (N.eqb (N.div n 10) 0); [exact H'|]. apply IHf. exact H'.
Qed.

Lemma nlfree_string_of_N (n : N) : nlfree (string_of_N n) = true.
Proof. apply nlfree_dec_digits. reflexivity. Qed.

Lemma drop_S_app (a : string) (c : ascii) (w : string) :
  string_drop (S (String.length a)) (a ++ String c w) = w.
Proof. induction a; simpl; auto. Qed.

Lemma drop_open_app (a z : string) :
  string_drop (String.length a + 2) (a ++ "/*" ++ z) = z.
Proof. induction a as [|c a IH]; [reflexivity|]. cbn [String.length Nat.add append string_drop]. exact IH. Qed.

Lemma literal_step (remaining lft W out body rest m : string) (q : ascii) (k : nat) :
  remaining = lft ++ String q W ->
  find_close k (string_drop (S (String.length lft)) remaining) "" = Some (body, rest) ->
  one_line (out ++ remaining) = true -> nlfree m = true ->
  one_line ((out ++ lft ++ m) ++ rest) = true.
Proof.
  intros -> Hfc Hinv Hm. rewrite drop_S_app in Hfc.
  apply find_close_suffix in Hfc. destruct Hfc as [mm ->].
  assert (Hpre : nlfree (out ++ lft) = true).
  { rewrite <- app_assoc_s in Hinv. eapply one_line_app_nonempty; [exact Hinv|discriminate]. }
  rewrite one_line_nlfree_app.
  - apply one_line_app_r in Hinv. apply one_line_app_r in Hinv.
    change (String q (mm ++ rest)) with (String q mm ++ rest) in Hinv.
    eapply one_line_app_r; exact Hinv.
  - rewrite <- app_assoc_s, nlfree_app, Hpre, Hm. reflexivity.
Qed.

Lemma nlfree_marker (n : N) : nlfree ("@" ++ string_of_N n ++ "@") = true.
Proof.
  change ("@" ++ string_of_N n ++ "@") with (String "@" (string_of_N n ++ "@")).
  cbn [nlfree]. rewrite nlfree_app, nlfree_string_of_N. reflexivity.
Qed.

(** whichever way the scan ends ([ScanOk], or [ScanUnterminated] with the text before the quote) *)
Lemma scan_loop_one_line_parts (f : nat) (asm : bool) :
  forall remaining out ins st out' ins' st',
    scan_parts (scan_loop f asm remaining out ins st) = (out', ins', st') ->
    one_line (out ++ remaining) = true -> one_line out' = true.
Proof.
  induction f; intros remaining out ins st out' ins' st' H Hinv; cbn [scan_loop] in H.
  { inversion H; subst. eapply one_line_app_l; exact Hinv. }
  destruct (String.eqb remaining "") eqn:Erem.
  { inversion H; subst. eapply one_line_app_l; exact Hinv. }
  destruct (sc_in_comment st) eqn:Ecom.
  - (* inside a block comment *)
    destruct (split_once "*/" remaining) as [[b after]|] eqn:E.
    2:{ inversion H; subst. eapply one_line_app_l; exact Hinv. }
    apply split_once_spec in E. subst remaining.
    assert (Hafter : one_line (out ++ after) = true).
    { apply (one_line_drop_mid out (b ++ "*/") after). rewrite app_assoc_s. exact Hinv. }
    assert (Hnone : one_line (out ++ "") = true).
    { rewrite app_empty_r. eapply one_line_app_l; exact Hinv. }
    destruct (String.eqb after ""); [eapply IHf; eauto|].
    destruct (String.eqb after (String (ascii_of_nat 10) "")); eapply IHf; eauto.
  - (* ordinary text *)
    destruct (before_prefix "//" remaining) as [x Hx].
    remember (before "//" remaining) as pre.
    assert (Hpre : one_line (out ++ pre) = true).
    { rewrite Hx, <- app_assoc_s in Hinv. eapply one_line_app_l; exact Hinv. }
    clear Heqpre Erem.
    (* an unterminated literal: the text before the quote is a prefix of [pre] *)
    assert (Hunt : forall s2 y lft z, pre = s2 ++ y -> split_once """" s2 = Some (lft, z) ->
                                      one_line (out ++ lft) = true).
    { intros s2 y lft z Hs2 E3. apply split_once_spec in E3. subst s2. subst pre.
      rewrite !app_assoc_s, <- app_assoc_s in Hpre. eapply one_line_app_l; exact Hpre. }
    destruct (split_once "/*" pre) as [[s2 t]|] eqn:E2.
    + (* a comment opens *)
      apply split_once_spec in E2.
      (* the scanner goes on in the whole remaining line after the "/*" *)
      assert (Hplain : one_line ((out ++ s2) ++ string_drop (String.length s2 + 2) remaining) = true).
      { subst pre.
        assert (Hr : remaining = s2 ++ "/*" ++ t ++ x) by (rewrite Hx, !app_assoc_s; reflexivity).
        rewrite Hr, drop_open_app.
        apply (one_line_drop_mid (out ++ s2) "/*" (t ++ x)).
        rewrite app_assoc_s, <- Hr. exact Hinv. }
      destruct (negb (is_include_line s2) && negb asm).
      * destruct (split_once """" s2) as [[lft z]|] eqn:E3.
        -- destruct (find_close _ _ _) as [[body rest]|] eqn:Efc in H.
           2:{ pose proof (Hunt _ _ _ _ E2 E3) as Hu. inversion H; subst. exact Hu. }
           eapply IHf; [exact H|].
           apply split_once_spec in E3. subst s2. subst pre.
           eapply (literal_step remaining lft _ out body rest); [|exact Efc|exact Hinv|apply nlfree_marker].
           rewrite Hx. rewrite !app_assoc_s. reflexivity.
        -- eapply IHf; eauto.
      * eapply IHf; eauto.
    + (* no comment *)
      destruct (negb (is_include_line pre) && negb asm).
      * destruct (split_once """" pre) as [[lft z]|] eqn:E3.
        -- destruct (find_close _ _ _) as [[body rest]|] eqn:Efc in H.
           2:{ pose proof (Hunt pre "" _ _ (eq_sym (app_empty_r pre)) E3) as Hu.
               inversion H; subst. exact Hu. }
           eapply IHf; [exact H|].
           apply split_once_spec in E3. subst pre.
           eapply (literal_step remaining lft _ out body rest); [|exact Efc|exact Hinv|apply nlfree_marker].
           rewrite Hx. rewrite !app_assoc_s. reflexivity.
        -- inversion H; subst. exact Hpre.
      * inversion H; subst. exact Hpre.
Qed.

Lemma scan_loop_one_line (f : nat) (asm : bool) :
  forall remaining out ins st out' ins' st',
    scan_loop f asm remaining out ins st = ScanOk out' ins' st' ->
    one_line (out ++ remaining) = true -> one_line out' = true.
Proof.
  intros remaining out ins st out' ins' st' H. eapply scan_loop_one_line_parts. rewrite H. reflexivity.
Qed.

Lemma scan_line_one_line_parts (asm : bool) (line : string) (st : scan_state) out ins st' :
  scan_parts (scan_line asm line st) = (out, ins, st') -> one_line line = true -> one_line out = true.
Proof.
  unfold scan_line. intros H Hl. eapply scan_loop_one_line_parts; [exact H|]. exact Hl.
Qed.

Lemma scan_line_one_line (asm : bool) (line : string) (st : scan_state) out ins st' :
  scan_line asm line st = ScanOk out ins st' -> one_line line = true -> one_line out = true.
Proof.
  intros H. eapply scan_line_one_line_parts. rewrite H. reflexivity.
Qed.

Open Scope list_scope.
Open Scope string_scope.

(** * Part C: macro replacement cannot create, duplicate or move a newline *)

Definition macro_ok (m : macro) : Prop :=
  match snd m with MObj v => nlfree v = true | MFun _ t => nlfree t = true end.
Definition macros_ok (ms : list macro) : Prop := Forall macro_ok ms.

Lemma balanced_split (f d : nat) (s b r : string) : balanced f d s = Some (b, r) -> s = b ++ r.
Proof.
  revert d s b r. induction f; intros d s b r H; cbn [balanced] in H; [discriminate|].
  destruct s as [|a s]; [discriminate|].
  destruct (Ascii.eqb a ")").
  { inversion H; subst. reflexivity. }
  destruct (Ascii.eqb a "(").
  - destruct d; [discriminate|].
    destruct (balanced f d s) as [[g r']|] eqn:E1; [|discriminate].
    destruct (balanced f (S d) r') as [[b' r'']|] eqn:E2; [|discriminate].
    inversion H; subst. apply IHf in E1. apply IHf in E2. subst. simpl. rewrite app_assoc_s. reflexivity.
  - destruct (balanced f d s) as [[b' r']|] eqn:E1; [|discriminate].
    inversion H; subst. apply IHf in E1. subst. reflexivity.
Qed.

Lemma capture_arg_split (f : nat) (s b r : string) : capture_arg f s = (b, r) -> s = b ++ r.
Proof.
  revert s b r. induction f; intros s b r H; cbn [capture_arg] in H.
  { inversion H; subst. reflexivity. }
  destruct s as [|a s]. { inversion H; subst. reflexivity. }
  destruct (Ascii.eqb a "(").
  - destruct (balanced f 3 s) as [[g r']|] eqn:E1.
    + destruct (capture_arg f r') as [b' r''] eqn:E2. inversion H; subst.
      apply balanced_split in E1. apply IHf in E2. subst. simpl. rewrite app_assoc_s. reflexivity.
    + inversion H; subst. reflexivity.
  - destruct (special a). { inversion H; subst. reflexivity. }
    destruct (capture_arg f s) as [b' r'] eqn:E2. inversion H; subst.
    apply IHf in E2. subst. reflexivity.
Qed.

Lemma skip_blanks_suffix (s : string) : exists w, s = w ++ skip_blanks s.
Proof.
  induction s as [|a s [w Hw]]; [exists ""; reflexivity|].
  cbn [skip_blanks]. destruct (is_blank_or_tab a).
  - exists (String a w). cbn [append]. rewrite <- Hw. reflexivity.
  - exists "". reflexivity.
Qed.

(** the arguments are parts of the text, each followed by something; the rest is a suffix *)
Lemma capture_args_split (fuel n : nat) : forall (s : string) (l : list string) (r : string),
  capture_args fuel n s = Some (l, r) ->
  (exists m, s = m ++ r) /\
  (forall a, In a l -> exists x y, s = x ++ a ++ y /\ y <> "").
Proof.
  induction n as [|n IH]; intros s l r H.
  - cbn [capture_args] in H. destruct (skip_blanks_suffix s) as [w Hw].
    destruct (skip_blanks s) as [|c s']; [discriminate|].
    destruct (Ascii.eqb c ")"); [|discriminate]. inversion H; subst l r.
    split; [exists (w ++ String c ""); rewrite app_assoc_s; exact Hw|]. intros a [].
  - destruct n as [|n'].
    + cbn [capture_args] in H. destruct (capture_arg fuel s) as [a1 r0] eqn:E.
      apply capture_arg_split in E. destruct r0 as [|c r']; [discriminate|].
      destruct (Ascii.eqb c ")"); [|discriminate]. inversion H; subst.
      split.
      * exists (a1 ++ String c ""). rewrite app_assoc_s. reflexivity.
      * intros a [<-|[]]. exists "", (String c r). split; [reflexivity|discriminate].
    + remember (S n') as k. cbn [capture_args] in H. rewrite Heqk in H. rewrite <- Heqk in H.
      destruct (capture_arg fuel s) as [a1 r0] eqn:E.
      apply capture_arg_split in E. destruct r0 as [|c r1]; [discriminate|].
      destruct (Ascii.eqb c ","); [|discriminate].
      destruct (capture_args fuel k r1) as [[l' r'']|] eqn:E2; [|discriminate].
      inversion H; subst l r. apply IH in E2. destruct E2 as [[m Hm] Hargs].
      split.
      * exists (a1 ++ String c m). rewrite E, Hm. rewrite app_assoc_s. reflexivity.
      * intros a [<-|Hin].
        -- exists "", (String c r1). split; [exact E|discriminate].
        -- destruct (Hargs a Hin) as [x [y [Hxy Hy]]].
           exists (a1 ++ String c x), y. split; [|exact Hy].
           rewrite E, Hxy. rewrite app_assoc_s. reflexivity.
Qed.

Lemma take_word_split (s w t : string) : take_word s = (w, t) -> s = w ++ t.
Proof.
  revert w t. induction s; intros w t H; cbn [take_word] in H.
  - inversion H; subst. reflexivity.
  - destruct (is_word a).
    + destruct (take_word s) as [w' t'] eqn:E. inversion H; subst.
      rewrite (IHs w' t eq_refl). reflexivity.
    + inversion H; subst. reflexivity.
Qed.

Lemma nlfree_lookup_arg (name : string) (ps args : list string) :
  Forall (fun a => nlfree a = true) args -> nlfree (lookup_arg name ps args) = true.
Proof.
  revert args. induction ps; intros args H; cbn [lookup_arg]; [reflexivity|].
  destruct args as [|b args]; [reflexivity|]. inversion H; subst.
  destruct (String.eqb a name); auto.
Qed.

Lemma nlfree_expand_template (f : nat) (ps args : list string) :
  Forall (fun a => nlfree a = true) args ->
  forall t, nlfree t = true -> nlfree (expand_template f t ps args) = true.
Proof.
  intros Hargs. induction f; intros t Ht; cbn [expand_template]; [exact Ht|].
  destruct t as [|a r]; [reflexivity|].
  cbn [nlfree] in Ht. apply andb_true_iff in Ht. destruct Ht as [Ha Hr].
  destruct (Ascii.eqb a "$").
  - destruct r as [|b r']; [cbn [nlfree]; rewrite Ha; reflexivity|].
    destruct (Ascii.eqb b "$").
    + cbn [nlfree] in *. apply andb_true_iff in Hr. destruct Hr as [_ Hr]. rewrite IHf by exact Hr. reflexivity.
    + destruct (take_word (String b r')) as [w rest] eqn:E.
      destruct (String.eqb w "").
      * cbn [nlfree]. rewrite Ha, IHf by exact Hr. reflexivity.
      * apply take_word_split in E. rewrite E in Hr.
        rewrite nlfree_app, nlfree_lookup_arg by exact Hargs.
        rewrite IHf; [reflexivity|]. eapply nlfree_app_r; exact Hr.
  - cbn [nlfree]. rewrite Ha, IHf by exact Hr. reflexivity.
Qed.

Section Replace.
  (** [P] is "no newline" or "newline only at the end" *)
  Variable P : string -> bool.
  Hypothesis P_ins : forall v t, nlfree v = true -> P t = true -> P (v ++ t) = true.
  Hypothesis P_copy : forall a r t, P (String a r) = true -> P t = true -> (r = "" -> t = "") ->
                                    P (String a t) = true.
  Hypothesis P_suffix : forall a b, P (a ++ b) = true -> P b = true.
  Hypothesis P_mid : forall x a y, P (x ++ a ++ y) = true -> y <> "" -> nlfree a = true.

  Lemma replace_word_aux_P (name value : string) (Hv : nlfree value = true) :
    forall f prev s t c, replace_word_aux f name value prev s = (t, c) ->
                         P s = true -> P t = true /\ (s = "" -> t = "").
  Proof.
    induction f; intros prev s t c H Hs; cbn [replace_word_aux] in H.
    { inversion H; subst. auto. }
    destruct s as [|a r]. { inversion H; subst. auto. }
    match type of H with (if ?b then _ else _) = _ => destruct b end.
    - destruct (replace_word_aux f name value _ _) as [t' c'] eqn:E in H.
      inversion H; subst. split; [|discriminate].
      apply P_ins; [exact Hv|]. eapply IHf; [exact E|].
      destruct (drop_suffix (String.length name) (String a r)) as [x Hx].
      rewrite Hx in Hs. eapply P_suffix; exact Hs.
    - destruct (replace_word_aux f name value (Some a) r) as [t' c'] eqn:E.
      inversion H; subst. split; [|discriminate].
      assert (Hr : P r = true) by (apply (P_suffix (String a "") r); exact Hs).
      destruct (IHf _ _ _ _ E Hr) as [Ht Hemp].
      apply (P_copy a r t'); assumption.
  Qed.

  Lemma replace_call_aux_P (name : string) (ps : list string) (tmpl : string) (Ht : nlfree tmpl = true) :
    forall f prev s t c, replace_call_aux f name ps tmpl prev s = (t, c) ->
                         P s = true -> P t = true /\ (s = "" -> t = "").
  Proof.
    induction f; intros prev s t c H Hs; cbn [replace_call_aux] in H.
    { inversion H; subst. auto. }
    destruct s as [|a r]. { inversion H; subst. auto. }
    match type of H with (match ?b with _ => _ end) = _ => destruct b as [[args rest]|] eqn:Etry end.
    - destruct (replace_call_aux f name ps tmpl _ rest) as [t' c'] eqn:E in H.
      remember (expand_template (S (String.length tmpl)) tmpl ps args) as ex eqn:Hex.
      injection H as H1 H2. subst t c. split; [|discriminate].
      match type of Etry with (if ?b then _ else _) = _ => destruct b; [|discriminate] end.
      destruct (drop_suffix (String.length name) (String a r)) as [z0 Hz0].
      destruct (skip_blanks_suffix (string_drop (String.length name) (String a r))) as [w Hw].
      destruct (skip_blanks (string_drop (String.length name) (String a r))) as [|c0 r0]; [discriminate|].
      destruct (Ascii.eqb c0 "("); [|discriminate].
      apply capture_args_split in Etry. destruct Etry as [[m Hm] Hargs].
      assert (Hz : String a r = ((z0 ++ w) ++ String c0 "") ++ r0).
      { rewrite Hz0 at 1. rewrite Hw at 1. rewrite !app_assoc_s. reflexivity. }
      remember ((z0 ++ w) ++ String c0 "") as z eqn:Ez. clear Ez Hz0 Hw.
      apply P_ins.
      + rewrite Hex. apply nlfree_expand_template; [|exact Ht].
        apply Forall_forall. intros arg Hin. destruct (Hargs arg Hin) as [x [y [Hxy Hy]]].
        rewrite Hxy in Hz. rewrite Hz in Hs. rewrite <- app_assoc_s in Hs.
        eapply P_mid; [exact Hs|exact Hy].
      + eapply IHf; [exact E|]. rewrite Hm in Hz. rewrite Hz in Hs.
        rewrite <- app_assoc_s in Hs. eapply P_suffix; exact Hs.
    - destruct (replace_call_aux f name ps tmpl (Some a) r) as [t' c'] eqn:E.
      inversion H; subst. split; [|discriminate].
      assert (Hr : P r = true) by (apply (P_suffix (String a "") r); exact Hs).
      destruct (IHf _ _ _ _ E Hr) as [Ht' Hemp].
      apply (P_copy a r t'); assumption.
  Qed.

  Lemma apply_macro_P (m : macro) (s : string) :
    macro_ok m -> P s = true -> P (fst (apply_macro m s)) = true.
  Proof.
    unfold macro_ok, apply_macro. intros Hm Hs. destruct (snd m) as [v|ps t].
    - unfold replace_word. destruct (replace_word_aux _ _ _ _ _) as [t c] eqn:E.
      eapply replace_word_aux_P in E; eauto. apply E.
    - unfold replace_call. destruct (replace_call_aux _ _ _ _ _ _) as [t' c] eqn:E.
      eapply replace_call_aux_P in E; eauto. apply E.
  Qed.

  Lemma apply_all_P (ms : list macro) (orig : string) :
    macros_ok ms -> forall res c, P res = true -> P (fst (apply_all ms orig res c)) = true.
  Proof.
    induction ms as [|m r IH]; intros Hms res c Hres; cbn [apply_all]; [exact Hres|].
    inversion Hms; subst.
    destruct (macro_matches m orig); [|apply IH; assumption].
    destruct (apply_macro m res) as [res' c'] eqn:E.
    apply IH; [assumption|]. change res' with (fst (res', c')). rewrite <- E.
    apply apply_macro_P; assumption.
  Qed.

  Lemma replace_rounds_P (ms : list macro) :
    macros_ok ms -> forall n orig res, P res = true -> P (replace_rounds n ms orig res) = true.
  Proof.
    intros Hms. induction n as [|n IHn]; intros orig res Hres; cbn [replace_rounds]; [exact Hres|].
    destruct (apply_all ms orig res false) as [res' c] eqn:E.
    assert (Hres' : P res' = true).
    { change res' with (fst (res', c)). rewrite <- E. apply apply_all_P; assumption. }
    destruct c; [apply IHn; exact Hres' | exact Hres'].
  Qed.

  Lemma replace_all_P (ms : list macro) (s : string) :
    macros_ok ms -> P s = true -> P (replace_all ms s) = true.
  Proof. intros. unfold replace_all. apply replace_rounds_P; assumption. Qed.

  (** the capped driver the line processor really calls *)
  Lemma replace_rounds_c_P (ms : list macro) :
    macros_ok ms -> forall n orig res, P res = true -> P (replace_rounds_c n ms orig res) = true.
  Proof.
    intros Hms. induction n as [|n IHn]; intros orig res Hres; cbn [replace_rounds_c]; [exact Hres|].
    destruct (apply_all ms orig res false) as [res' c] eqn:E.
    assert (Hres' : P res' = true).
    { change res' with (fst (res', c)). rewrite <- E. apply apply_all_P; assumption. }
    destruct c; [|exact Hres'].
    destruct (within_cap res'); [apply IHn; exact Hres' | exact Hres'].
  Qed.

  Lemma replace_all_c_P (ms : list macro) (s : string) :
    macros_ok ms -> P s = true -> P (replace_all_c ms s) = true.
  Proof. intros. unfold replace_all_c. apply replace_rounds_c_P; assumption. Qed.
End Replace.

Lemma replace_all_nlfree (ms : list macro) (s : string) :
  macros_ok ms -> nlfree s = true -> nlfree (replace_all ms s) = true.
Proof.
  apply replace_all_P.
  - intros v t Hv Ht. rewrite nlfree_app, Hv, Ht. reflexivity.
  - intros a r t Har Ht _. cbn [nlfree] in *. apply andb_true_iff in Har. destruct Har as [-> _]. exact Ht.
  - intros a b. apply nlfree_app_r.
  - intros x a y H _. apply nlfree_app_r in H. eapply nlfree_app_l; exact H.
Qed.

Lemma replace_all_one_line (ms : list macro) (s : string) :
  macros_ok ms -> one_line s = true -> one_line (replace_all ms s) = true.
Proof.
  apply replace_all_P.
  - intros v t Hv Ht. rewrite one_line_nlfree_app; assumption.
  - intros a r t Har Ht Hemp. cbn [one_line] in *. destruct (is_nl a).
    + destruct r; [|discriminate]. rewrite Hemp; reflexivity.
    + exact Ht.
  - intros a b. apply one_line_app_r.
  - intros x a y H Hy. apply one_line_app_r in H. eapply one_line_app_nonempty; eauto.
Qed.

Lemma replace_all_c_nlfree (ms : list macro) (s : string) :
  macros_ok ms -> nlfree s = true -> nlfree (replace_all_c ms s) = true.
Proof.
  apply replace_all_c_P.
  - intros v t Hv Ht. rewrite nlfree_app, Hv, Ht. reflexivity.
  - intros a r t Har Ht _. cbn [nlfree] in *. apply andb_true_iff in Har. destruct Har as [-> _]. exact Ht.
  - intros a b. apply nlfree_app_r.
  - intros x a y H _. apply nlfree_app_r in H. eapply nlfree_app_l; exact H.
Qed.

Lemma replace_all_c_one_line (ms : list macro) (s : string) :
  macros_ok ms -> one_line s = true -> one_line (replace_all_c ms s) = true.
Proof.
  apply replace_all_c_P.
  - intros v t Hv Ht. rewrite one_line_nlfree_app; assumption.
  - intros a r t Har Ht Hemp. cbn [one_line] in *. destruct (is_nl a).
    + destruct r; [|discriminate]. rewrite Hemp; reflexivity.
    + exact Ht.
  - intros a b. apply one_line_app_r.
  - intros x a y H Hy. apply one_line_app_r in H. eapply one_line_app_nonempty; eauto.
Qed.

Lemma replace_word_nlfree (name value s : string) :
  nlfree value = true -> nlfree s = true -> nlfree (fst (replace_word name value s)) = true.
Proof.
  intros Hv Hs. unfold replace_word.
  destruct (replace_word_aux _ _ _ _ _) as [t c] eqn:E.
  eapply (replace_word_aux_P nlfree) in E; eauto.
  - apply E.
  - intros v t0 Hv0 Ht. rewrite nlfree_app, Hv0, Ht. reflexivity.
  - intros a r t0 Har Ht _. cbn [nlfree] in *. apply andb_true_iff in Har. destruct Har as [-> _]. exact Ht.
  - intros a b. apply nlfree_app_r.
Qed.

(** ** [#define]: the stored value or template has no newline *)
Lemma nlfree_take_word (s w t : string) :
  take_word s = (w, t) -> nlfree s = true -> nlfree w = true /\ nlfree t = true.
Proof.
  intros E H. apply take_word_split in E. subst. rewrite nlfree_app in H.
  apply andb_true_iff in H. exact H.
Qed.

Lemma nlfree_find_ident (s w t : string) :
  find_ident s = Some (w, t) -> nlfree s = true -> nlfree t = true.
Proof.
  revert w t. induction s; intros w t H Hs; cbn [find_ident] in H; [discriminate|].
  destruct (is_alpha a || Ascii.eqb a "_").
  - destruct (take_word (String a s)) as [w' t'] eqn:E. inversion H; subst.
    eapply nlfree_take_word in E; eauto. apply E.
  - cbn [nlfree] in Hs. apply andb_true_iff in Hs. eapply IHs; [exact H|apply Hs].
Qed.

Lemma nlfree_parse_params (f : nat) : forall (s : string) (acc ps : list string) (rest : string),
  parse_params f s acc = Some (ps, rest) -> nlfree s = true ->
  Forall (fun p => nlfree p = true) acc ->
  Forall (fun p => nlfree p = true) ps /\ nlfree rest = true.
Proof.
  induction f; intros s acc ps rest H Hs Hacc; cbn [parse_params] in H; [discriminate|].
  destruct s as [|a r]; [discriminate|].
  destruct (Ascii.eqb a ")").
  { inversion H; subst. split; [apply Forall_rev; exact Hacc|].
    cbn [nlfree] in Hs. apply andb_true_iff in Hs. apply Hs. }
  destruct (is_alpha a || Ascii.eqb a "_"); [|discriminate].
  destruct (take_word (String a r)) as [w rest0] eqn:E.
  eapply nlfree_take_word in E; [|exact Hs]. destruct E as [Hw Hrest0].
  pose proof (nlfree_trim_start _ Hrest0) as Htr.
  destruct (trim_start rest0) as [|c r'] eqn:Et; [discriminate|].
  assert (Hr' : nlfree r' = true).
  { cbn [nlfree] in Htr. apply andb_true_iff in Htr. apply Htr. }
  destruct (Ascii.eqb c ",").
  - eapply IHf; [exact H|apply nlfree_trim_start; exact Hr'|constructor; assumption].
  - destruct (Ascii.eqb c ")"); [|discriminate].
    destruct (String.eqb rest0 (String c r')); [|discriminate]. inversion H; subst.
    split; [|exact Hr']. change (rev acc ++ [w])%list with (rev (w :: acc)). apply Forall_rev. constructor; assumption.
Qed.

Lemma nlfree_parse_define (e name : string) (params : option (list string)) (body : string) :
  parse_define e = Some (name, params, body) -> nlfree e = true ->
  nlfree body = true /\ (forall ps, params = Some ps -> Forall (fun p => nlfree p = true) ps).
Proof.
  unfold parse_define. intros H He.
  destruct (find_ident e) as [[nm rest]|] eqn:E; [|discriminate].
  eapply nlfree_find_ident in E; [|exact He].
  assert (Hdefault : Some (nm, @None (list string), trim_start rest) = Some (name, params, body) ->
                     nlfree body = true /\ (forall ps, params = Some ps -> Forall (fun p => nlfree p = true) ps)).
  { intros H0. inversion H0; subst. split; [apply nlfree_trim_start; exact E|discriminate]. }
  destruct rest as [|c r]; [auto|].
  destruct (Ascii.eqb c "(") eqn:Ec.
  - apply Ascii.eqb_eq in Ec. subst c.
    destruct (parse_params (S (String.length r)) r []) as [[ps rest']|] eqn:Ep; [|auto].
    inversion H; subst. eapply nlfree_parse_params in Ep.
    + destruct Ep as [Hps Hrest']. split; [apply nlfree_trim_start; exact Hrest'|].
      intros ps0 H0. inversion H0; subst. exact Hps.
    + cbn [nlfree] in E. apply andb_true_iff in E. apply E.
    + constructor.
  - assert (H' : Some (nm, @None (list string), trim_start (String c r)) = Some (name, params, body)).
    { destruct c as [[] [] [] [] [] [] [] []]; try exact H; discriminate. }
    auto.
Qed.

Lemma nlfree_split_blank (s b t : string) :
  split_blank s = Some (b, t) -> nlfree s = true -> nlfree b = true /\ nlfree t = true.
Proof.
  revert b t. induction s as [|a s IH]; intros b t E H; cbn [split_blank] in E; [discriminate|].
  cbn [nlfree] in H. destruct (is_nl a) eqn:Ea; [discriminate|].
  destruct (is_blank_or_tab a).
  - inversion E; subst. split; [reflexivity|exact H].
  - destruct (split_blank s) as [[b' t']|]; [|discriminate]. inversion E; subst.
    destruct (IH _ _ eq_refl H) as [H1 H2]. split; [cbn [nlfree]; rewrite Ea; exact H1|exact H2].
Qed.

Lemma nlfree_directive_parts (s e : string) :
  snd (directive_parts s) = Some e -> nlfree s = true -> nlfree e = true.
Proof.
  unfold directive_parts. intros H Hs.
  pose proof (nlfree_before "//" s Hs) as Hb.
  destruct (split_blank (before "//" s)) as [[w r]|] eqn:E; [|discriminate].
  eapply nlfree_split_blank in E; [|exact Hb]. destruct E as [_ Hr].
  cbn [snd] in H. destruct (String.eqb (trim r) ""); [discriminate|].
  inversion H; subst. apply nlfree_trim. exact Hr.
Qed.

Lemma take_alpha_split (s w rest : string) : take_alpha s = (w, rest) -> s = w ++ rest.
Proof.
  revert w rest. induction s as [|a s IH]; intros w rest H; cbn [take_alpha] in H.
  - inversion H; subst. reflexivity.
  - destruct (is_alpha a).
    + destruct (take_alpha s) as [w' t']. inversion H; subst. cbn [append]. rewrite (IH _ _ eq_refl) at 1. reflexivity.
    + inversion H; subst. reflexivity.
Qed.

Lemma nlfree_directive_name_arg (s e : string) :
  snd (directive_name_arg s) = Some e -> nlfree s = true -> nlfree e = true.
Proof.
  unfold directive_name_arg. intros H Hs.
  pose proof (nlfree_before "//" s Hs) as Hb.
  destruct (before "//" s) as [|h r]; [discriminate|]. cbv beta iota zeta in H.
  destruct (take_alpha r) as [w rest] eqn:E. apply take_alpha_split in E.
  cbn [snd] in H. destruct (String.eqb (trim rest) ""); [discriminate|].
  inversion H; subst e. apply nlfree_trim.
  cbn [nlfree] in Hb. apply andb_true_iff in Hb. destruct Hb as [_ Hb].
  rewrite E in Hb. eapply nlfree_app_r; exact Hb.
Qed.

(** the blanks after a '#' go: the line stays a line *)
Lemma one_line_hash_blanks (out : string) : one_line out = true -> one_line (hash_blanks out) = true.
Proof.
  intros H. unfold hash_blanks. pose proof (one_line_trim_start _ H) as Ht.
  destruct (trim_start out) as [|h rest]; [exact H|].
  destruct (Ascii.eqb h "#") eqn:Eh; [|exact H]. cbv zeta.
  destruct (Nat.eqb (String.length (trim_start rest)) (String.length rest)); [exact H|].
  apply Ascii.eqb_eq in Eh. subst h.
  change (one_line rest = true) in Ht. change (one_line (trim_start rest) = true).
  apply one_line_trim_start. exact Ht.
Qed.

Lemma nlfree_remove_hashhash (f : nat) (s : string) :
  nlfree s = true -> nlfree (remove_hashhash f s) = true.
Proof.
  revert s. induction f; intros s H; cbn [remove_hashhash]; [exact H|].
  destruct s as [|a r]; [reflexivity|].
  cbn [nlfree] in H. apply andb_true_iff in H. destruct H as [Ha Hr].
  assert (Hcopy : nlfree (String a (remove_hashhash f r)) = true).
  { cbn [nlfree]. rewrite Ha, IHf by exact Hr. reflexivity. }
  destruct (Ascii.eqb a "#") eqn:Ea.
  - apply Ascii.eqb_eq in Ea. subst a.
    destruct r as [|b r']; [exact Hcopy|].
    destruct (Ascii.eqb b "#") eqn:Eb.
    + apply Ascii.eqb_eq in Eb. subst b. apply IHf.
      cbn [nlfree] in Hr. apply andb_true_iff in Hr. apply Hr.
    + destruct b as [[] [] [] [] [] [] [] []]; try exact Hcopy; discriminate.
  - destruct a as [[] [] [] [] [] [] [] []]; try exact Hcopy; discriminate.
Qed.

Lemma nlfree_templatize (ps : list string) (body : string) :
  Forall (fun p => nlfree p = true) ps -> nlfree body = true -> nlfree (templatize ps body) = true.
Proof.
  intros Hps Hb. unfold templatize. apply nlfree_remove_hashhash.
  revert body Hb. induction Hps; intros body Hb; cbn [fold_left]; [exact Hb|].
  apply IHHps. apply replace_word_nlfree; [|exact Hb]. cbn [append nlfree]. exact H.
Qed.

Lemma macros_ok_undefine (ms : list macro) (n : string) : macros_ok ms -> macros_ok (undefine ms n).
Proof.
  unfold undefine. induction ms as [|[k v] r IH]; intros H; [exact H|].
  inversion H; subst. destruct (String.eqb k n); [assumption|]. constructor; [assumption|apply IH; assumption].
Qed.

Lemma macros_ok_init (defs : list (string * string)) :
  macros_single_line defs -> macros_ok (c_macros (init_ctx defs)).
Proof.
  unfold macros_single_line, init_ctx. cbn [c_macros]. induction 1; cbn [map]; constructor; auto.
Qed.

Open Scope list_scope.
Open Scope string_scope.

(** * Part D: what one logical line can do to the output and the table *)

(** the text emitted for an ordinary line *)
Definition emit_text (ms : list macro) (out buf : string) (inc : option (string * N)) : string :=
  let new_line := replace_all_c ms out in
  let included := match inc with Some _ => true | None => false end in
  if negb (ends_with nl new_line) && (ends_with nl buf || included) then new_line ++ nl else new_line.

(** the state handed to an included file, and the state after it *)
Definition inc_pre (ps : pstate) (h : loc) (iname : string) : pstate :=
  if is_asm_file iname
  then emit (emit ps h ("=== ASSEMBLER BEGIN ===" ++ nl)) h ("; file: " ++ iname ++ nl)
  else ps.

Definition inc_post (ps p1 p2 : pstate) (h : loc) (iname : string) : pstate :=
  let p3 := mkP (mkCtx (c_macros (p_ctx p2))
                       (mkScan (sc_in_comment (c_scan (p_ctx p1)))
                               (sc_next_lit (c_scan (p_ctx p2)))
                               (sc_lits (c_scan (p_ctx p2)))))
                (p_out p2) (p_map p2) (p_state ps) (p_stack ps) in
  if is_asm_file iname then emit p3 h ("==== ASSEMBLER END ====" ++ nl) else p3.

(** nothing is written; the macro table may change *)
Definition quiet_step (ms : list macro) (out : string) (p p' : pstate) : Prop :=
  p_out p' = p_out p /\ p_map p' = p_map p /\
  (c_macros (p_ctx p') = ms \/
   (exists e, c_macros (p_ctx p') = undefine ms e) \/
   (exists e name params body,
       snd (directive_parts (trim out)) = Some e /\
       parse_define e = Some (name, params, body) /\
       c_macros (p_ctx p') =
       (ms ++ [match params with
               | None => (name, MObj (replace_all_c ms body))
               | Some ps => (name, MFun ps (templatize ps (replace_all_c ms body)))
               end])%list)).

Definition include_step (rec : string -> option (string * N) -> bool -> list string -> pstate -> presult)
           (fs : files) (ms : list macro) (out : string) (ps : pstate) (h : loc) (p' : pstate) : Prop :=
  exists e c iname tl ilines p2,
    snd (directive_name_arg (trim (replace_all_c ms out))) = Some e /\
    split_once c (string_drop 1 e) = Some (iname, tl) /\
    find_file fs iname = Some ilines /\
    rec iname (Some (fst (fst h), snd (fst h))) (is_asm_file iname) ilines (inc_pre ps h iname) = POk p2 /\
    p' = inc_post ps (inc_pre ps h iname) p2 h iname.

Ltac quiet_same H :=
  inversion H; subst; left; split; [reflexivity|split; [reflexivity|left; reflexivity]].

Lemma line_step_cases rec fs fname inc asm p line buf p' :
  line_step rec fs fname inc asm p line buf = POk p' ->
  exists out0 ins sc,
    scan_parts (scan_line asm buf (c_scan (p_ctx p))) = (out0, ins, sc) /\
    let out := hash_blanks out0 in
    (quiet_step (c_macros (p_ctx p)) out p p' \/
     p' = emit (set_scan p sc) (fname, line, inc) (emit_text (c_macros (p_ctx p)) out buf inc) \/
     include_step rec fs (c_macros (p_ctx p)) out (set_scan p sc) (fname, line, inc) p').
Proof.
  intros H. unfold line_step in H.
  assert (Hbody : exists out ins sc,
             scan_parts (scan_line asm buf (c_scan (p_ctx p))) = (out, ins, sc) /\
             line_body rec fs fname inc p line buf out ins sc = POk p').
  { destruct (scan_line asm buf (c_scan (p_ctx p))) as [out ins sc|out ins sc] eqn:Escan.
    - exists out, ins, sc. split; [reflexivity|exact H].
    - destruct (cstate_eqb (p_state p) Active); [discriminate|].
      exists out, ins, sc. split; [reflexivity|exact H]. }
  clear H. destruct Hbody as [out0 [ins [sc [Escan H]]]].
  exists out0, ins, sc. split; [exact Escan|].
  unfold line_body in H. cbv zeta in H. unfold err in H. cbv zeta.
  remember (hash_blanks out0) as out eqn:Eout. clear Eout Escan.
  destruct ins; cbn [negb] in H.
  2:{ quiet_same H. }
  change (c_macros (p_ctx (set_scan p sc))) with (c_macros (p_ctx p)) in H.
  change (p_state (set_scan p sc)) with (p_state p) in H.
  destruct (starts_with "#ifdef" (trim out)).
  { destruct (snd (directive_parts (trim out))); [|discriminate]. quiet_same H. }
  destruct (starts_with "#ifndef" (trim out)).
  { destruct (snd (directive_parts (trim out))); [|discriminate]. quiet_same H. }
  destruct (starts_with "#undef" (trim out)).
  { destruct (cstate_eqb (p_state p) Active); [|quiet_same H].
    destruct (snd (directive_parts (trim out))) as [e|]; [|discriminate].
    destruct (get_macro (c_macros (p_ctx p)) e); [|quiet_same H].
    inversion H; subst. left. split; [reflexivity|split; [reflexivity|]].
    right; left. exists e. reflexivity. }
  destruct (starts_with "#define" (trim out)).
  { destruct (cstate_eqb (p_state p) Active); [|quiet_same H].
    destruct (snd (directive_parts (trim out))) as [e|] eqn:Edp; [|discriminate].
    destruct (parse_define e) as [[[name params] body]|] eqn:Epd; [|discriminate].
    destruct (get_macro (c_macros (p_ctx p)) name); [discriminate|].
    match type of H with
      match ?d with Some _ => _ | None => _ end = _ => destruct d; [discriminate|]
    end.
    inversion H; subst. left. split; [reflexivity|split; [reflexivity|]].
    right; right. exists e, name, params, body. repeat split; try assumption. }
  destruct (starts_with "#" (trim (replace_all_c (c_macros (p_ctx p)) out))).
  2:{ destruct (cstate_eqb (p_state p) Active); [|quiet_same H].
      inversion H; subst. right; left. reflexivity. }
  destruct (directive_name_arg (trim (replace_all_c (c_macros (p_ctx p)) out))) as [name arg] eqn:Edp.
  destruct (String.eqb name "#include").
  { destruct (cstate_eqb (p_state p) Active); [|quiet_same H].
    destruct arg as [e|]; [|discriminate].
    match type of H with
      match ?cl with _ => _ end = _ => destruct cl as [c|] eqn:Ecl; [|discriminate]
    end.
    destruct (split_once c (string_drop 1 e)) as [[iname tl]|] eqn:Eso; [|discriminate].
    destruct (find_file fs iname) as [ilines|] eqn:Eff; [|discriminate].
    match type of H with
      match ?r with _ => _ end = _ => destruct r as [p2|] eqn:Erec; [|discriminate]
    end.
    inversion H; subst. right; right.
    exists e, c, iname, tl, ilines, p2.
    split; [rewrite Edp; reflexivity|]. split; [assumption|]. split; [assumption|].
    split; [exact Erec|reflexivity]. }
  destruct (String.eqb name "#if").
  { destruct (cstate_eqb (p_state p) Active); [|quiet_same H]. destruct arg; [|discriminate].
    destruct (evaluate s); [|discriminate]. quiet_same H. }
  destruct (String.eqb name "#elif").
  { destruct (cstate_eqb (p_state p) Inactive); [|quiet_same H]. destruct arg; [|discriminate].
    destruct (evaluate s); [|discriminate]. quiet_same H. }
  destruct (String.eqb name "#else").
  { destruct arg; [discriminate|]. quiet_same H. }
  destruct (String.eqb name "#endif").
  { destruct arg; [discriminate|]. destruct (p_stack (set_scan p sc)); [discriminate|]. quiet_same H. }
  destruct (String.eqb name "#error").
  { destruct (cstate_eqb (p_state p) Active); [|quiet_same H]. destruct arg; discriminate. }
  destruct (cstate_eqb (p_state p) Active); [discriminate|quiet_same H].
Qed.

Open Scope list_scope.
Open Scope string_scope.

(** * Part E (L1): one table entry per output line *)

(** strong invariant: the text is complete and has as many lines as the table has entries *)
Definition Sinv (p : pstate) : Prop :=
  macros_ok (c_macros (p_ctx p)) /\ complete (p_out p) = true /\
  List.length (p_map p) = count_nl (p_out p).


Definition Winv (p : pstate) : Prop := macros_ok (c_macros (p_ctx p)) /\ entries_cover_lines p.

Lemma Sinv_Winv p : Sinv p -> Winv p.
Proof. intros [H1 [H2 H3]]. split; [exact H1|]. unfold entries_cover_lines. rewrite H2, H3. lia. Qed.

Lemma Sinv_match p : Sinv p -> entries_match_lines p.
Proof. intros [H1 [H2 H3]]. unfold entries_match_lines. rewrite H2, H3. lia. Qed.

Lemma Sinv_emit_full p l text :
  Sinv p -> one_line text = true -> ends_nl text = true -> Sinv (emit p l text).
Proof.
  intros [H1 [H2 H3]] Ho He. unfold Sinv, emit. cbn [p_ctx p_out p_map].
  split; [exact H1|]. split; [apply complete_app; exact He|].
  rewrite count_nl_app, (one_line_count _ Ho), He. cbn [List.length]. lia.
Qed.

Lemma Winv_emit_partial p l text :
  Sinv p -> one_line text = true -> ends_nl text = false -> Winv (emit p l text).
Proof.
  intros [H1 [H2 H3]] Ho He. unfold Winv, entries_cover_lines, emit. cbn [p_ctx p_out p_map].
  split; [exact H1|].
  rewrite count_nl_app, (one_line_count _ Ho), He. cbn [List.length].
  destruct (complete (p_out p ++ text)); lia.
Qed.

(** ** the emitted text is one line, terminated when the logical line is *)
Lemma one_line_not_ends (s : string) : one_line s = true -> ends_nl s = false -> nlfree s = true.
Proof.
  intros H E. destruct (one_line_cases s H) as [F|[s' [-> F]]]; [exact F|].
  rewrite ends_nl_app_nl in E. discriminate.
Qed.

Lemma emit_text_line (ms : list macro) (out buf : string) (inc : option (string * N)) :
  macros_ok ms -> one_line out = true ->
  one_line (emit_text ms out buf inc) = true /\
  (ends_nl buf = true \/ inc <> None -> ends_nl (emit_text ms out buf inc) = true).
Proof.
  intros Hms Ho. unfold emit_text. cbv zeta.
  pose proof (replace_all_c_one_line ms out Hms Ho) as Hn.
  rewrite !ends_with_nl.
  destruct (ends_nl (replace_all_c ms out)) eqn:E; cbn [negb andb].
  - split; [exact Hn|auto].
  - destruct (ends_nl buf || match inc with Some _ => true | None => false end) eqn:Eb.
    + split; [|intros _; apply ends_nl_app_nl].
      rewrite one_line_nlfree_app; [reflexivity|]. apply one_line_not_ends; assumption.
    + split; [exact Hn|]. apply orb_false_iff in Eb. destruct Eb as [Eb1 Eb2].
      intros [Hb|Hi]; [rewrite Hb in Eb1; discriminate|]. destruct inc; [discriminate|congruence].
Qed.

(** ** quiet steps keep the macro table newline-free *)
Lemma Forall_app_single {A} (P : A -> Prop) l x : Forall P l -> P x -> Forall P (l ++ [x]).
Proof. intros H1 H2. apply Forall_app. split; [exact H1|constructor; [exact H2|constructor]]. Qed.

Lemma quiet_macros_ok ms out p p' :
  macros_ok ms -> one_line out = true -> quiet_step ms out p p' -> macros_ok (c_macros (p_ctx p')).
Proof.
  intros Hms Ho [_ [_ [H|[[e H]|[e [name [params [body [Hdp [Hpd H]]]]]]]]]]; rewrite H.
  - exact Hms.
  - apply macros_ok_undefine. exact Hms.
  - apply Forall_app_single; [exact Hms|].
    pose proof (nlfree_directive_parts _ _ Hdp (one_line_trim _ Ho)) as He.
    destruct (nlfree_parse_define _ _ _ _ Hpd He) as [Hb Hps].
    pose proof (replace_all_c_nlfree ms body Hms Hb) as Hv.
    destruct params as [ps|]; unfold macro_ok; cbn [snd].
    + apply nlfree_templatize; [apply Hps; reflexivity|exact Hv].
    + exact Hv.
Qed.

(** ** included files *)
Definition rec_ok (rec : string -> option (string * N) -> bool -> list string -> pstate -> presult)
           (fs : files) : Prop :=
  forall iname inc a ilines p p2,
    find_file fs iname = Some ilines -> inc <> None -> Sinv p ->
    rec iname inc a ilines p = POk p2 -> Sinv p2.

Lemma marker_line (s : string) : nlfree s = true -> one_line (s ++ nl) = true /\ ends_nl (s ++ nl) = true.
Proof. intros H. split; [rewrite one_line_nlfree_app by exact H; reflexivity|apply ends_nl_app_nl]. Qed.

Lemma Sinv_inc_pre ps h iname : Sinv ps -> nlfree iname = true -> Sinv (inc_pre ps h iname).
Proof.
  intros H Hn. unfold inc_pre. destruct (is_asm_file iname); [|exact H].
  apply Sinv_emit_full; [apply Sinv_emit_full; [exact H| |]| |].
  - apply (marker_line "=== ASSEMBLER BEGIN ==="). reflexivity.
  - apply (marker_line "=== ASSEMBLER BEGIN ==="). reflexivity.
  - change ("; file: " ++ iname ++ nl) with (("; file: " ++ iname) ++ nl) || rewrite <- app_assoc_s.
    apply marker_line. rewrite nlfree_app, Hn. reflexivity.
  - rewrite <- app_assoc_s. apply marker_line. rewrite nlfree_app, Hn. reflexivity.
Qed.

Lemma Sinv_inc_post ps p1 p2 h iname : Sinv p2 -> Sinv (inc_post ps p1 p2 h iname).
Proof.
  intros H. unfold inc_post. cbv zeta.
  match goal with |- Sinv (if _ then emit ?p3 _ _ else _) => assert (H3 : Sinv p3) by exact H end.
  destruct (is_asm_file iname); [|exact H3].
  apply Sinv_emit_full; [exact H3| |]; apply (marker_line "==== ASSEMBLER END ===="); reflexivity.
Qed.

Lemma include_iname_nlfree ms out e c iname tl :
  macros_ok ms -> one_line out = true ->
  snd (directive_name_arg (trim (replace_all_c ms out))) = Some e ->
  split_once c (string_drop 1 e) = Some (iname, tl) -> nlfree iname = true.
Proof.
  intros Hms Ho Hdp Hso.
  pose proof (one_line_trim _ (replace_all_c_one_line ms out Hms Ho)) as Ht.
  pose proof (nlfree_directive_name_arg _ _ Hdp Ht) as He.
  eapply nlfree_split_once in Hso; [apply Hso|]. apply nlfree_drop. exact He.
Qed.

(** ** one logical line *)
Lemma Sinv_set_scan p sc : Sinv p -> Sinv (set_scan p sc).
Proof. intros H. exact H. Qed.

Lemma line_step_L1 rec fs fname inc asm p line buf p' :
  rec_ok rec fs -> Sinv p -> one_line buf = true ->
  line_step rec fs fname inc asm p line buf = POk p' ->
  Winv p' /\ (ends_nl buf = true \/ inc <> None -> Sinv p').
Proof.
  intros Hrec HS Hbuf H.
  apply line_step_cases in H. destruct H as [out0 [ins [sc [Hscan H]]]].
  pose proof (one_line_hash_blanks _ (scan_line_one_line_parts _ _ _ _ _ _ Hscan Hbuf)) as Hout.
  cbv zeta in H. remember (hash_blanks out0) as out eqn:Eout. clear Eout Hscan.
  pose proof HS as [Hms [Hc Hl]].
  destruct H as [Hq|[He|Hi]].
  - assert (HS' : Sinv p').
    { split; [eapply quiet_macros_ok; eauto|]. destruct Hq as [Hq1 [Hq2 _]]. rewrite Hq1, Hq2. auto. }
    split; [apply Sinv_Winv; exact HS'|auto].
  - subst p'. destruct (emit_text_line _ out buf inc Hms Hout) as [Hol Hen].
    destruct (ends_nl (emit_text (c_macros (p_ctx p)) out buf inc)) eqn:E.
    + assert (HS' : Sinv (emit (set_scan p sc) (fname, line, inc) (emit_text (c_macros (p_ctx p)) out buf inc))).
      { apply Sinv_emit_full; [apply Sinv_set_scan; exact HS|exact Hol|exact E]. }
      split; [apply Sinv_Winv; exact HS'|auto].
    + split.
      * apply Winv_emit_partial; [apply Sinv_set_scan; exact HS|exact Hol|exact E].
      * intros Hb. specialize (Hen Hb). congruence.
  - destruct Hi as [e [c [iname [tl [ilines [p2 [Hdp [Hso [Hff [Hr ->]]]]]]]]]].
    assert (Hn : nlfree iname = true) by (eapply include_iname_nlfree; eauto).
    assert (HS' : Sinv (inc_post (set_scan p sc) (inc_pre (set_scan p sc) (fname, line, inc) iname) p2
                                 (fname, line, inc) iname)).
    { apply Sinv_inc_post. refine (Hrec _ _ _ _ _ _ Hff _ _ Hr); [discriminate|].
      apply Sinv_inc_pre; [apply Sinv_set_scan; exact HS|exact Hn]. }
    split; [apply Sinv_Winv; exact HS'|auto].
Qed.

(** ** splicing *)
Lemma ends_with_split (suf s : string) :
  ends_with suf s = true -> s = string_take (String.length s - String.length suf) s ++ suf.
Proof.
  unfold ends_with. intros H. apply starts_with_drop in H.
  set (x := rev_string (string_drop (String.length (rev_string suf)) (rev_string s))).
  assert (Hs : s = x ++ suf).
  { rewrite <- (rev_string_involutive s). rewrite H. rewrite rev_string_app, rev_string_involutive.
    reflexivity. }
  rewrite Hs at 2. rewrite Hs at 2. rewrite length_app_s.
  replace (String.length x + String.length suf - String.length suf) with (String.length x) by lia.
  rewrite take_app_length. exact Hs.
Qed.

Lemma stripped_nlfree (suf buf : string) :
  suf <> "" -> ends_with suf buf = true -> one_line buf = true ->
  nlfree (string_take (String.length buf - String.length suf) buf) = true.
Proof.
  intros Hsuf He Ho. apply ends_with_split in He. rewrite He in Ho.
  eapply one_line_app_nonempty; [exact Ho|exact Hsuf].
Qed.

Lemma lines_terminated_tail l r : lines_terminated (l :: r) -> lines_terminated r.
Proof. intros [_ H]. exact H. Qed.

Lemma splice_props (f : nat) : forall buf rest extra b e r,
  splice f buf rest extra = (b, e, r) ->
  one_line buf = true -> lines_single rest ->
  one_line b = true /\ lines_single r /\
  (e + N.of_nat (List.length r) = extra + N.of_nat (List.length rest))%N.
Proof.
  induction f; intros buf rest extra b e r H Hb Hs; cbn [splice] in H.
  { inversion H; subst. auto. }
  cbv zeta in H.
  destruct (ends_with ("\" ++ nl) buf || ends_with ("\" ++ cr ++ nl) buf) eqn:Econt.
  2:{ inversion H; subst. auto. }
  assert (Hstr : nlfree (string_take (String.length buf -
              (if ends_with ("\" ++ cr ++ nl) buf then 3 else 2)) buf) = true).
  { destruct (ends_with ("\" ++ cr ++ nl) buf) eqn:Ecr.
    - apply (stripped_nlfree ("\" ++ cr ++ nl) buf); [discriminate|exact Ecr|exact Hb].
    - cbn [orb] in Econt. rewrite orb_false_r in Econt.
      apply (stripped_nlfree ("\" ++ nl) buf); [discriminate|exact Econt|exact Hb]. }
  remember (string_take (String.length buf - (if ends_with ("\" ++ cr ++ nl) buf then 3 else 2)) buf)
    as stripped.
  destruct rest as [|l r0].
  - inversion H; subst b e r. split; [apply nlfree_one_line; exact Hstr|].
    split; [constructor|reflexivity].
  - inversion Hs as [|l' r' Hl1 Hr1]; subst.
    apply IHf in H.
    + destruct H as [G1 [G2 G4]]. split; [exact G1|]. split; [exact G2|].
      cbn [List.length]. lia.
    + rewrite one_line_nlfree_app by exact Hstr. assumption.
    + assumption.
Qed.

Lemma splice_term (f : nat) : forall buf rest extra b e r,
  splice f buf rest extra = (b, e, r) ->
  lines_terminated (buf :: rest) -> lines_terminated (b :: r).
Proof.
  induction f; intros buf rest extra b e r H Ht; cbn [splice] in H.
  { inversion H; subst. auto. }
  cbv zeta in H.
  destruct (ends_with ("\" ++ nl) buf || ends_with ("\" ++ cr ++ nl) buf).
  2:{ inversion H; subst. auto. }
  destruct rest as [|l r0].
  - inversion H; subst b e r. split; exact I.
  - apply IHf in H; [exact H|].
    destruct Ht as [_ [Hl Hr0]]. split; [|exact Hr0].
    destruct r0; [exact I|]. rewrite ends_nl_app; [exact Hl|]. apply ends_nl_nonempty. exact Hl.
Qed.

(** ** the lines of one file *)
Lemma go_L1 rec fs fname inc asm (Hrec : rec_ok rec fs) :
  forall fuel ls line p p',
    lines_single ls -> inc <> None \/ lines_terminated ls -> Sinv p ->
    go rec fs fname inc asm fuel ls line p = POk p' ->
    Winv p' /\ (inc <> None \/ closed_aux fuel ls -> Sinv p').
Proof.
  induction fuel; intros ls line p p' Hs Ht HS H; cbn [go] in H.
  { inversion H; subst. split; [apply Sinv_Winv; exact HS|auto]. }
  destruct ls as [|l0 rest0].
  { inversion H; subst. split; [apply Sinv_Winv; exact HS|auto]. }
  cbn [closed_aux].
  destruct (splice (S (List.length rest0)) l0 rest0 0%N) as [[buf extra] rest] eqn:Espl.
  inversion Hs; subst.
  assert (Htr : inc <> None \/ lines_terminated (buf :: rest)).
  { destruct Ht as [Hi|Ht]; [left; exact Hi|right]. eapply splice_term; [exact Espl|exact Ht]. }
  apply splice_props in Espl; try assumption.
  destruct Espl as [Hb [Hsr _]].
  destruct (line_step rec fs fname inc asm p (line + 1 + extra)%N buf) as [p1|] eqn:Estep; [|discriminate].
  apply line_step_L1 in Estep; try assumption. destruct Estep as [HW HSn].
  destruct rest as [|x r].
  - assert (p' = p1) by (destruct fuel; cbn [go] in H; congruence). subst p'.
    split; [exact HW|]. intros [Hi|Hc]; apply HSn; [right; exact Hi|left; exact Hc].
  - assert (HS1 : Sinv p1).
    { apply HSn. destruct Htr as [Hi|[Hen _]]; [right; exact Hi|left; exact Hen]. }
    eapply IHfuel; [exact Hsr| |exact HS1|exact H].
    destruct Htr as [Hi|[_ Htr]]; [left; exact Hi|right; exact Htr].
Qed.

(** ** whole files *)
Definition files_ok (fs : files) : Prop := Forall (fun f => lines_single (snd f)) fs.

Lemma find_file_In (fs : files) (n : string) (v : list string) :
  find_file fs n = Some v -> exists k, In (k, v) fs.
Proof.
  induction fs as [|[k w] r IH]; cbn [find_file]; intros H; [discriminate|].
  destruct (String.eqb k n).
  - inversion H; subst. exists k. left. reflexivity.
  - destruct (IH H) as [k' Hk]. exists k'. right. exact Hk.
Qed.

Lemma Sinv_file_start p : Sinv p -> Sinv (file_start p).
Proof. intros H. exact H. Qed.

Lemma process_L1 (fs : files) (Hfs : files_ok fs) :
  forall d fname inc asm lines p0 p,
    lines_single lines -> inc <> None \/ lines_terminated lines -> Sinv p0 ->
    process d fs fname inc asm lines p0 = POk p ->
    Winv p /\ (inc <> None \/ file_closed lines -> Sinv p).
Proof.
  induction d; intros fname inc asm lines p0 p Hs Ht HS H; cbn [process] in H; [discriminate|].
  eapply go_L1; [|exact Hs|exact Ht|apply Sinv_file_start; exact HS|exact H].
  intros iname inc' a ilines q q2 Hff Hinc Hq Hr.
  destruct (find_file_In _ _ _ Hff) as [k Hin].
  unfold files_ok in Hfs. rewrite Forall_forall in Hfs.
  eapply IHd; [apply (Hfs _ Hin)|left; exact Hinc|exact Hq|exact Hr|left; exact Hinc].
Qed.

Lemma Sinv_init defs : macros_single_line defs -> Sinv (mkP (init_ctx defs) "" [] Active []).
Proof. intros H. split; [apply macros_ok_init; exact H|]. split; reflexivity. Qed.

Open Scope string_scope.
Open Scope list_scope.

(** * Part F (L2, L3): where the entries come from *)

Definition rec_origin (rec : string -> option (string * N) -> bool -> list string -> pstate -> presult)
           (fs : files) : Prop :=
  forall iname inc a ilines p p2,
    rec iname inc a ilines p = POk p2 ->
    exists new, p_map p2 = new ++ p_map p /\ Forall (origin fs iname inc ilines) new.

Lemma splice_len (f : nat) : forall buf rest extra b e r,
  splice f buf rest extra = (b, e, r) ->
  (e + N.of_nat (List.length r) = extra + N.of_nat (List.length rest))%N.
Proof.
  induction f; intros buf rest extra b e r H; cbn [splice] in H.
  { inversion H; subst. reflexivity. }
  cbv zeta in H.
  destruct (ends_with ("\" ++ nl) buf || ends_with ("\" ++ cr ++ nl) buf).
  2:{ inversion H; subst. reflexivity. }
  destruct rest as [|l r0].
  - inversion H; subst. reflexivity.
  - apply IHf in H. cbn [List.length]. lia.
Qed.

Lemma inc_pre_map ps h iname :
  exists pre, p_map (inc_pre ps h iname) = pre ++ p_map ps /\ Forall (fun e => e = h) pre.
Proof.
  unfold inc_pre. destruct (is_asm_file iname).
  - exists [h; h]. split; [reflexivity|repeat constructor].
  - exists []. split; [reflexivity|constructor].
Qed.

Lemma inc_post_map ps p1 p2 h iname :
  exists post, p_map (inc_post ps p1 p2 h iname) = post ++ p_map p2 /\ Forall (fun e => e = h) post.
Proof.
  unfold inc_post. cbv zeta. destruct (is_asm_file iname).
  - exists [h]. split; [reflexivity|repeat constructor].
  - exists []. split; [reflexivity|constructor].
Qed.

Lemma Forall_eq_impl {A} (P : A -> Prop) (h : A) (l : list A) :
  P h -> Forall (fun e => e = h) l -> Forall P l.
Proof. intros Hh H. eapply Forall_impl; [|exact H]. intros a ->. exact Hh. Qed.

Lemma line_step_origin rec fs fname inc asm p line buf p' lines :
  rec_origin rec fs ->
  1 <= N.to_nat line <= List.length lines ->
  line_step rec fs fname inc asm p line buf = POk p' ->
  exists new, p_map p' = new ++ p_map p /\ Forall (origin fs fname inc lines) new.
Proof.
  intros Hrec Hline H.
  apply line_step_cases in H. destruct H as [out0 [ins [sc [Hscan H]]]].
  cbv zeta in H. remember (hash_blanks out0) as out eqn:Eout. clear Eout Hscan.
  assert (Hown : origin fs fname inc lines (fname, line, inc)) by (constructor; exact Hline).
  destruct H as [Hq|[He|Hi]].
  - destruct Hq as [_ [Hq _]]. exists []. split; [exact Hq|constructor].
  - subst p'. exists [(fname, line, inc)]. split; [reflexivity|]. constructor; [exact Hown|constructor].
  - destruct Hi as [e [c [iname [tl [ilines [p2 [Hdp [Hso [Hff [Hr ->]]]]]]]]]].
    destruct (inc_pre_map (set_scan p sc) (fname, line, inc) iname) as [pre [Hpre Fpre]].
    destruct (inc_post_map (set_scan p sc) (inc_pre (set_scan p sc) (fname, line, inc) iname) p2
                           (fname, line, inc) iname) as [post [Hpost Fpost]].
    apply Hrec in Hr. destruct Hr as [mid [Hmid Fmid]].
    exists (post ++ mid ++ pre). split.
    + rewrite Hpost, Hmid, Hpre. rewrite <- !app_assoc. reflexivity.
    + apply Forall_app. split; [eapply Forall_eq_impl; eauto|].
      apply Forall_app. split; [|eapply Forall_eq_impl; eauto].
      eapply Forall_impl; [|exact Fmid]. intros e0 He0.
      eapply origin_include; [exact Hff|exact Hline|exact He0].
Qed.

Lemma go_origin rec fs fname inc asm lines (Hrec : rec_origin rec fs) :
  forall fuel ls line p p',
    N.to_nat line + List.length ls <= List.length lines ->
    go rec fs fname inc asm fuel ls line p = POk p' ->
    exists new, p_map p' = new ++ p_map p /\ Forall (origin fs fname inc lines) new.
Proof.
  induction fuel; intros ls line p p' Hlen H; cbn [go] in H.
  { inversion H; subst. exists []. split; [reflexivity|constructor]. }
  destruct ls as [|l0 rest0].
  { inversion H; subst. exists []. split; [reflexivity|constructor]. }
  destruct (splice (S (List.length rest0)) l0 rest0 0%N) as [[buf extra] rest] eqn:Espl.
  apply splice_len in Espl. cbn [List.length] in Hlen.
  destruct (line_step rec fs fname inc asm p (line + 1 + extra)%N buf) as [p1|] eqn:Estep; [|discriminate].
  assert (Hl : 1 <= N.to_nat (line + 1 + extra) <= List.length lines) by lia.
  destruct (line_step_origin _ _ _ _ _ _ _ _ _ lines Hrec Hl Estep) as [new1 [Hm1 F1]].
  apply IHfuel in H; [|lia].
  destruct H as [new2 [Hm2 F2]]. exists (new2 ++ new1). split.
  - rewrite Hm2, Hm1, app_assoc. reflexivity.
  - apply Forall_app. split; assumption.
Qed.

Lemma process_origin (fs : files) :
  forall d fname inc asm lines p0 p,
    process d fs fname inc asm lines p0 = POk p ->
    exists new, p_map p = new ++ p_map p0 /\ Forall (origin fs fname inc lines) new.
Proof.
  induction d; intros fname inc asm lines p0 p H; cbn [process] in H; [discriminate|].
  change (p_map p0) with (p_map (file_start p0)).
  eapply go_origin; [| |exact H]; [|cbn; lia].
  intros iname inc' a ilines q q2 Hr. eapply IHd; exact Hr.
Qed.

(** entries of included files never carry [None] *)
Lemma origin_inc_some fs fname inc lines e :
  origin fs fname inc lines e -> inc <> None -> loc_inc e <> None.
Proof.
  induction 1; intros Hi; [exact Hi|]. apply IHorigin. discriminate.
Qed.

Lemma origin_none fs fname lines f n :
  origin fs fname None lines (f, n, None) -> f = fname /\ 1 <= N.to_nat n <= List.length lines.
Proof.
  intros H. inversion H; subst.
  - auto.
  - exfalso. eapply origin_inc_some; [eassumption|discriminate|reflexivity].
Qed.

(** ** without includes the numbers increase strictly *)
Definition desc (m : list loc) : Prop := StronglySorted (fun a b => (loc_line b < loc_line a)%N) m.
Definition below (n : N) (m : list loc) : Prop := Forall (fun e => (loc_line e <= n)%N) m.

Lemma below_mono n n' m : (n <= n')%N -> below n m -> below n' m.
Proof. intros Hn H. eapply Forall_impl; [|exact H]. cbv beta. intros; lia. Qed.

Lemma line_step_desc rec fname inc asm p line line' buf p' :
  (line < line')%N -> desc (p_map p) -> below line (p_map p) ->
  line_step rec [] fname inc asm p line' buf = POk p' ->
  desc (p_map p') /\ below line' (p_map p').
Proof.
  intros Hlt Hd Hb H.
  apply line_step_cases in H. destruct H as [out0 [ins [sc [Hscan H]]]].
  cbv zeta in H. remember (hash_blanks out0) as out eqn:Eout. clear Eout Hscan.
  destruct H as [Hq|[He|Hi]].
  - destruct Hq as [_ [Hq _]]. rewrite Hq. split; [exact Hd|]. eapply below_mono; [|exact Hb]. lia.
  - subst p'. cbn [emit p_map set_scan]. split.
    + constructor; [exact Hd|]. eapply Forall_impl; [|exact Hb]. unfold loc_line. cbn. intros; lia.
    + constructor; [unfold loc_line; cbn; lia|]. eapply below_mono; [|exact Hb]. lia.
  - destruct Hi as [e [c [iname [tl [ilines [p2 [_ [_ [Hff _]]]]]]]]]. discriminate Hff.
Qed.

Lemma go_desc rec fname inc asm :
  forall fuel ls line p p',
    desc (p_map p) -> below line (p_map p) ->
    go rec [] fname inc asm fuel ls line p = POk p' -> desc (p_map p').
Proof.
  induction fuel; intros ls line p p' Hd Hb H; cbn [go] in H.
  { inversion H; subst. exact Hd. }
  destruct ls as [|l0 rest0]. { inversion H; subst. exact Hd. }
  destruct (splice (S (List.length rest0)) l0 rest0 0%N) as [[buf extra] rest] eqn:Espl.
  destruct (line_step rec [] fname inc asm p (line + 1 + extra)%N buf) as [p1|] eqn:Estep; [|discriminate].
  assert (Hlt : (line < line + 1 + extra)%N) by lia.
  destruct (line_step_desc _ _ _ _ _ _ _ _ _ Hlt Hd Hb Estep) as [Hd1 Hb1]. eapply IHfuel; [exact Hd1|exact Hb1|exact H].
Qed.

Lemma StronglySorted_app {A} (R : A -> A -> Prop) (l1 l2 : list A) :
  StronglySorted R l1 -> StronglySorted R l2 ->
  (forall a b, In a l1 -> In b l2 -> R a b) -> StronglySorted R (l1 ++ l2).
Proof.
  induction l1 as [|x l1 IH]; intros H1 H2 H; [exact H2|].
  inversion H1; subst. cbn [app]. constructor.
  - apply IH; [assumption|assumption|]. intros a b Ha Hb. apply H; [right; exact Ha|exact Hb].
  - apply Forall_app. split; [assumption|]. apply Forall_forall. intros b Hb. apply H; [left; reflexivity|exact Hb].
Qed.

Lemma StronglySorted_rev {A} (R : A -> A -> Prop) (l : list A) :
  StronglySorted (fun a b => R b a) l -> StronglySorted R (rev l).
Proof.
  induction 1 as [|x l Hs IH Hx]; [constructor|].
  cbn [rev]. apply StronglySorted_app; [exact IH|repeat constructor|].
  intros a b Ha [<-|[]]. rewrite Forall_forall in Hx. apply Hx. apply in_rev. exact Ha.
Qed.

(** ** a spliced logical line is numbered by its LAST physical line *)
Open Scope string_scope.
Lemma not_crlf_of_lf (a : string) : ends_with ("\" ++ cr ++ nl) (a ++ "\" ++ nl) = false.
Proof. unfold ends_with. rewrite (rev_string_app a). reflexivity. Qed.

Lemma is_lf_cont (a : string) : ends_with ("\" ++ nl) (a ++ "\" ++ nl) = true.
Proof. unfold ends_with. rewrite (rev_string_app a). reflexivity. Qed.

Lemma splice_two (f : nat) (a b : string) (rest : list string) :
  no_continuation (a ++ b) ->
  splice (S (S f)) (a ++ "\" ++ nl) (b :: rest) 0%N = (a ++ b, 1%N, rest).
Proof.
  intros [H1 H2]. cbn [splice]. cbv zeta.
  rewrite is_lf_cont, not_crlf_of_lf. cbn [orb].
  replace (string_take (String.length (a ++ "\" ++ nl) - 2) (a ++ "\" ++ nl)) with a.
  2:{ rewrite length_app_s. cbn [String.length append nl].
      replace (String.length a + 2 - 2) with (String.length a) by lia.
      rewrite take_app_length. reflexivity. }
  rewrite H1, H2. cbn [orb]. reflexivity.
Qed.

Open Scope list_scope.
Open Scope string_scope.

(** * Part G: the theorems of C06 *)

(** ** L1 *)

(** The statement with only the two announced hypotheses is false: witnesses (c) and (d) below.

    Three inputs on which the first version of the preprocessor produced a table out of step with
    the text (an included file whose last logical line had no newline was glued to the next line
    of the including file, or left an entry without text).  Lines of included files are now always
    terminated, and entries and lines match. *)
Example include_without_final_newline_now_ok :
  let fs := [("a.h", ["int x;"])] in
  let lines := ["#include ""a.h""" ++ nl; "int y;" ++ nl] in
  exists p, run_cpp fs "m.c" [] lines = POk p /\
            p_out p = "int x;" ++ nl ++ "int y;" ++ nl /\
            rev (p_map p) = [("a.h", 1%N, Some ("m.c", 1%N)); ("m.c", 2%N, None)] /\
            entries_match_lines p.
Proof.
  cbv zeta. eexists. split; [vm_compute; reflexivity|]. split; [reflexivity|]. split; [reflexivity|].
  unfold entries_match_lines. vm_compute. reflexivity.
Qed.

Example include_ending_in_splice_now_ok :
  let fs := [("a.h", ["int x;\" ++ nl])] in
  let lines := ["#include ""a.h""" ++ nl; "int y;" ++ nl] in
  exists p, run_cpp fs "m.c" [] lines = POk p /\
            p_out p = "int x;" ++ nl ++ "int y;" ++ nl /\
            rev (p_map p) = [("a.h", 1%N, Some ("m.c", 1%N)); ("m.c", 2%N, None)] /\
            entries_match_lines p.
Proof.
  cbv zeta. eexists. split; [vm_compute; reflexivity|]. split; [reflexivity|]. split; [reflexivity|].
  unfold entries_match_lines. vm_compute. reflexivity.
Qed.

(** the unterminated last line of the included file expands to nothing: it is now an empty line
    of text with its own entry *)
Example include_empty_last_line_now_ok :
  let fs := [("a.h", ["int x;" ++ nl; "#define E" ++ nl; "E"])] in
  let lines := ["#include ""a.h""" ++ nl; "int y;" ++ nl] in
  exists p, run_cpp fs "m.c" [] lines = POk p /\
            p_out p = "int x;" ++ nl ++ nl ++ "int y;" ++ nl /\
            rev (p_map p) = [("a.h", 1%N, Some ("m.c", 1%N)); ("a.h", 3%N, Some ("m.c", 1%N));
                             ("m.c", 2%N, None)] /\
            entries_match_lines p.
Proof.
  cbv zeta. eexists. split; [vm_compute; reflexivity|]. split; [reflexivity|]. split; [reflexivity|].
  unfold entries_match_lines. vm_compute. reflexivity.
Qed.

(** (c) the last line of the MAIN file, without newline, expands to nothing: an entry with no
    text (a harmless trailing entry: no offset of the text can select it) *)
Example one_entry_per_line_false_empty_last_line :
  let lines := ["#define E" ++ nl; "E"] in
  macros_single_line [] /\ inputs_single_line lines [] /\ physical_lines_terminated lines [] /\
  exists p, run_cpp [] "m.c" [] lines = POk p /\
            p_out p = "" /\ rev (p_map p) = [("m.c", 2%N, None)] /\
            ~ entries_match_lines p.
Proof.
  cbv zeta. split; [constructor|]. split; [split; repeat constructor|].
  split; [split; repeat constructor|].
  eexists. split; [vm_compute; reflexivity|]. split; [reflexivity|]. split; [reflexivity|].
  unfold entries_match_lines. vm_compute. discriminate.
Qed.

(** (d) a physical line in the middle of the main file without newline ([read_line] never
    produces one, but [inputs_single_line] as worded allows it) *)
Example one_entry_per_line_false_unterminated_middle_line :
  let lines := ["int a;"; "int b;" ++ nl] in
  macros_single_line [] /\ inputs_single_line lines [] /\
  exists p, run_cpp [] "m.c" [] lines = POk p /\
            p_out p = "int a;int b;" ++ nl /\ List.length (p_map p) = 2 /\
            ~ entries_match_lines p.
Proof.
  cbv zeta. split; [constructor|]. split; [split; repeat constructor|].
  eexists. split; [vm_compute; reflexivity|]. split; [reflexivity|]. split; [reflexivity|].
  unfold entries_match_lines. vm_compute. discriminate.
Qed.

(** The true statement.  Added, clearly named, hypotheses:
    - [physical_lines_terminated]: every physical line but the last of each file ends with a
      newline (a [read_line] fact; only the main file's half is used);
    - [file_closed lines]: the last logical line of the main file ends with a newline.
    Included files need no such hypothesis: their lines are terminated by construction.
    Conclusion: [entries_match_lines], and more precisely the text is complete and the table has
    exactly as many entries as the text has newlines. *)
Lemma run_L1 fs fname defs lines p :
  macros_single_line defs -> inputs_single_line lines fs -> lines_terminated lines ->
  run_cpp fs fname defs lines = POk p ->
  Winv p /\ (file_closed lines -> Sinv p).
Proof.
  intros Hdefs [Hs1 Hs2] Ht Hrun. unfold run_cpp in Hrun.
  eapply process_L1 in Hrun; [|exact Hs2|exact Hs1|right; exact Ht|apply Sinv_init; exact Hdefs].
  destruct Hrun as [HW HS]. split; [exact HW|]. intros Hc. apply HS. right. exact Hc.
Qed.

Theorem one_entry_per_line : forall fs fname defs lines p
  (Hdefs : macros_single_line defs)
  (Hsingle : inputs_single_line lines fs)
  (Hterm : physical_lines_terminated lines fs)
  (Hmain : file_closed lines)
  (Hrun : run_cpp fs fname defs lines = POk p),
  entries_match_lines p /\
  complete (p_out p) = true /\ List.length (p_map p) = count_nl (p_out p).
Proof.
  intros. destruct Hterm as [Ht1 _].
  destruct (run_L1 _ _ _ _ _ Hdefs Hsingle Ht1 Hrun) as [_ HS]. specialize (HS Hmain).
  split; [apply Sinv_match; exact HS|]. destruct HS as [_ HS]. exact HS.
Qed.
Print Assumptions one_entry_per_line.

(** When the main file's last logical line has no newline, the table still has an entry for every
    line of text, and at most one more (the entry of an empty unterminated last line). *)
Theorem one_entry_per_line_open_main : forall fs fname defs lines p
  (Hdefs : macros_single_line defs)
  (Hsingle : inputs_single_line lines fs)
  (Hterm : physical_lines_terminated lines fs)
  (Hrun : run_cpp fs fname defs lines = POk p),
  entries_cover_lines p.
Proof.
  intros. destruct Hterm as [Ht1 _].
  destruct (run_L1 _ _ _ _ _ Hdefs Hsingle Ht1 Hrun) as [[_ HW] _]. exact HW.
Qed.
Print Assumptions one_entry_per_line_open_main.

(** the same with the termination hypothesis on the main file only *)
Theorem one_entry_per_line_main_only : forall fs fname defs lines p
  (Hdefs : macros_single_line defs)
  (Hsingle : inputs_single_line lines fs)
  (Hterm : lines_terminated lines)
  (Hrun : run_cpp fs fname defs lines = POk p),
  entries_cover_lines p /\
  (file_closed lines ->
   entries_match_lines p /\ complete (p_out p) = true /\ List.length (p_map p) = count_nl (p_out p)).
Proof.
  intros. destruct (run_L1 _ _ _ _ _ Hdefs Hsingle Hterm Hrun) as [[_ HW] HS].
  split; [exact HW|]. intros Hc. specialize (HS Hc).
  split; [apply Sinv_match; exact HS|]. destruct HS as [_ HS]. exact HS.
Qed.
Print Assumptions one_entry_per_line_main_only.

(** a simple sufficient condition for [file_closed]: every line is terminated, none is continued *)
Lemma splice_no_continuation (f : nat) (buf : string) (rest : list string) (extra : N) :
  no_continuation buf -> splice f buf rest extra = (buf, extra, rest).
Proof. intros [H1 H2]. destruct f; cbn [splice]; [reflexivity|]. cbv zeta. rewrite H1, H2. reflexivity. Qed.

Lemma file_closed_simple (ls : list string) :
  Forall (fun l => ends_nl l = true /\ no_continuation l) ls -> file_closed ls.
Proof.
  unfold file_closed. generalize (S (List.length ls)) as fuel. intros fuel. revert ls.
  induction fuel; intros ls H; cbn [closed_aux]; [exact I|].
  destruct ls as [|l0 rest0]; [exact I|]. inversion H as [|x y [He Hn] Hr]; subst.
  rewrite splice_no_continuation by exact Hn.
  destruct rest0; [exact He|]. apply IHfuel. exact Hr.
Qed.

(** ** L2 / L3 *)
Theorem include_entries_origin : forall d fs fname inc asm lines p0 p
  (Hrun : process d fs fname inc asm lines p0 = POk p),
  exists new, p_map p = (new ++ p_map p0)%list /\ Forall (origin fs fname inc lines) new.
Proof. intros. eapply process_origin; exact Hrun. Qed.
Print Assumptions include_entries_origin.

Theorem include_entries : forall d fs fname inc asm lines p0 p
  (Hrun : process d fs fname inc asm lines p0 = POk p),
  exists new, p_map p = (new ++ p_map p0)%list /\
    (forall e, In e new ->
       (fst (fst e) = fname /\ snd e = inc /\ 1 <= N.to_nat (snd (fst e)) <= List.length lines) \/
       (exists g glines k g' k',
           find_file fs g = Some glines /\ 1 <= N.to_nat k <= List.length lines /\
           origin fs g (Some (fname, k)) glines e /\ snd e = Some (g', k'))).
Proof.
  intros. destruct (process_origin _ _ _ _ _ _ _ _ Hrun) as [new [Hm HF]].
  exists new. split; [exact Hm|]. intros e He. rewrite Forall_forall in HF. specialize (HF e He).
  inversion HF; subst.
  - left. auto.
  - right. match goal with Ho : origin fs ?g (Some ?x) ?gl e |- _ =>
      pose proof (origin_inc_some _ _ _ _ _ Ho) as Hs end.
    destruct (loc_inc e) as [[g' k']|] eqn:Ei.
    + exists g, glines, k, g', k'. repeat split; try assumption; try lia.
    + exfalso. apply Hs; [discriminate|reflexivity].
Qed.
Print Assumptions include_entries.

Lemma run_origin fs fname defs lines p :
  run_cpp fs fname defs lines = POk p -> Forall (origin fs fname None lines) (p_map p).
Proof.
  unfold run_cpp. intros H. apply process_origin in H. destruct H as [new [Hm HF]].
  cbn [p_map] in Hm. rewrite app_nil_r in Hm. rewrite Hm. exact HF.
Qed.

Theorem entries_are_physical_lines : forall fs fname defs lines p
  (Hrun : run_cpp fs fname defs lines = POk p),
  forall f n i, In (f, n, i) (p_map p) -> f = fname -> i = None ->
                1 <= N.to_nat n <= List.length lines.
Proof.
  intros fs fname defs lines p Hrun f n i Hin _ ->.
  pose proof (run_origin _ _ _ _ _ Hrun) as HF. rewrite Forall_forall in HF.
  apply HF in Hin. apply origin_none in Hin. apply Hin.
Qed.
Print Assumptions entries_are_physical_lines.

(** stronger: an entry without includer belongs to the main file *)
Theorem entries_without_includer_are_main : forall fs fname defs lines p
  (Hrun : run_cpp fs fname defs lines = POk p),
  forall f n, In (f, n, None) (p_map p) -> f = fname /\ 1 <= N.to_nat n <= List.length lines.
Proof.
  intros fs fname defs lines p Hrun f n Hin.
  pose proof (run_origin _ _ _ _ _ Hrun) as HF. rewrite Forall_forall in HF.
  apply HF in Hin. apply origin_none in Hin. exact Hin.
Qed.
Print Assumptions entries_without_includer_are_main.

(** every entry of the table has an origin: the main file, or a file included (transitively)
    from a physical line of it *)
Theorem entries_have_origin : forall fs fname defs lines p
  (Hrun : run_cpp fs fname defs lines = POk p),
  Forall (origin fs fname None lines) (rev (p_map p)).
Proof. intros. apply Forall_rev. eapply run_origin; exact Hrun. Qed.
Print Assumptions entries_have_origin.

Theorem entries_increasing : forall fname defs lines p
  (Hrun : run_cpp [] fname defs lines = POk p),
  StronglySorted N.lt (map loc_line (rev (p_map p))).
Proof.
  intros. unfold run_cpp in Hrun. cbn [process] in Hrun.
  apply go_desc in Hrun; [|constructor|constructor].
  rewrite map_rev. apply StronglySorted_rev.
  unfold desc in Hrun. induction Hrun; cbn [map]; constructor; [assumption|].
  rewrite Forall_map. assumption.
Qed.
Print Assumptions entries_increasing.

(** the spliced logical line made of the physical lines [line+1] and [line+2] is processed with
    the number [line+2], and whatever it pushes for the file itself carries that number *)
Theorem entry_of_spliced_line : forall rec fs fname inc asm fu a b rest line p
  (Hjoined : no_continuation (a ++ b)),
  go rec fs fname inc asm (S fu) ((a ++ "\" ++ nl) :: b :: rest) line p =
  match line_step rec fs fname inc asm p (line + 2)%N (a ++ b) with
  | POk p' => go rec fs fname inc asm fu rest (line + 2)%N p'
  | PErr e => PErr e
  end.
Proof.
  intros. cbn [go List.length]. rewrite splice_two by exact Hjoined.
  replace (line + 1 + 1)%N with (line + 2)%N by lia. reflexivity.
Qed.
Print Assumptions entry_of_spliced_line.

Theorem entry_of_spliced_line_emitted : forall rec fs fname inc asm p line buf p' sc out
  (Hscan : scan_line asm buf (c_scan (p_ctx p)) = ScanOk out true sc)
  (Hstep : line_step rec fs fname inc asm p line buf = POk p')
  (Hemits : p_map p' <> p_map p)
  (Hnoinc : forall e, snd (directive_name_arg (trim (replace_all_c (c_macros (p_ctx p)) (hash_blanks out)))) = Some e -> False),
  p_map p' = (fname, line, inc) :: p_map p.
Proof.
  intros. apply line_step_cases in Hstep. destruct Hstep as [out' [ins' [sc' [Hscan' H]]]].
  rewrite Hscan in Hscan'. cbn [scan_parts] in Hscan'. inversion Hscan'; subst out' ins' sc'. cbv zeta in H.
  destruct H as [Hq|[He|Hi]].
  - destruct Hq as [_ [Hq _]]. contradiction.
  - subst p'. reflexivity.
  - destruct Hi as [e [c [iname [tl [ilines [p2 [Hdp _]]]]]]]. exfalso. eapply Hnoinc; exact Hdp.
Qed.
Print Assumptions entry_of_spliced_line_emitted.

Example entry_of_spliced_line_run :
  exists p, run_cpp [] "m.c" [("V", "1")]
                    ["/* c" ++ nl; " c */ int q;" ++ nl; "int a = V + \" ++ nl; "  2;" ++ nl; "int z;" ++ nl] = POk p /\
            p_out p = " int q;" ++ nl ++ "int a = 1 +   2;" ++ nl ++ "int z;" ++ nl /\
            rev (p_map p) = [("m.c", 2%N, None); ("m.c", 4%N, None); ("m.c", 5%N, None)].
Proof. eexists. split; [vm_compute; reflexivity|]. split; reflexivity. Qed.

(** ** L4: the offset -> line translation *)
Lemma concat_cons (x : string) (xs : list string) : String.concat "" (x :: xs) = x ++ String.concat "" xs.
Proof. destruct xs; cbn [String.concat]; [rewrite app_empty_r|]; reflexivity. Qed.

Lemma concat_app (l1 l2 : list string) :
  String.concat "" (l1 ++ l2) = String.concat "" l1 ++ String.concat "" l2.
Proof.
  induction l1 as [|x l1 IH]; [reflexivity|].
  cbn [app]. rewrite !concat_cons, IH, app_assoc_s. reflexivity.
Qed.

Lemma count_nl_concat_full (ls : list string) :
  Forall full_line ls -> count_nl (String.concat "" ls) = List.length ls.
Proof.
  induction 1 as [|x l [Ho He] Hl IH]; [reflexivity|].
  rewrite concat_cons, count_nl_app, IH, (one_line_count _ Ho), He. reflexivity.
Qed.

Lemma take_app_plus (a b : string) (n : nat) :
  string_take (String.length a + n) (a ++ b) = a ++ string_take n b.
Proof. induction a; cbn; congruence. Qed.

Lemma take_app_le (a b : string) (n : nat) :
  n <= String.length a -> string_take n (a ++ b) = string_take n a.
Proof.
  revert n. induction a; intros n H; cbn in *.
  - assert (n = 0) by lia. subst. reflexivity.
  - destruct n; [reflexivity|]. cbn. rewrite IHa by lia. reflexivity.
Qed.

Lemma full_line_body (l : string) :
  full_line l -> exists body, l = body ++ nl /\ nlfree body = true.
Proof.
  intros [Ho He]. destruct (one_line_cases l Ho) as [F|[s' [-> F]]].
  - apply nlfree_count in F. rewrite (one_line_count _ Ho), He in F. discriminate.
  - exists s'. auto.
Qed.

Lemma nth_error_firstn_split {A} (ls : list A) (k : nat) (l : A) :
  nth_error ls k = Some l -> exists l2, ls = (firstn k ls ++ l :: l2)%list /\ List.length (firstn k ls) = k.
Proof.
  intros H. destruct (nth_error_split _ _ H) as [l1 [l2 [-> Hk]]].
  subst k. rewrite <- (Nat.add_0_r (List.length l1)). rewrite firstn_app_2. cbn [firstn].
  rewrite app_nil_r. exists l2. split; [reflexivity|lia].
Qed.

(** offsets inside the text of the k-th line (its newline excluded) translate to k ... *)
Theorem offset_to_line_in_line : forall (ls : list string) k l off
  (Hk : nth_error ls k = Some l)
  (Hfull : Forall full_line ls)
  (Hoff : 1 <= off <= String.length l - 1),
  offset_to_line (String.concat "" ls) (String.length (String.concat "" (firstn k ls)) + off) = k.
Proof.
  intros. destruct (nth_error_firstn_split _ _ _ Hk) as [l2 [Hls Hlen]].
  set (pre := firstn k ls) in *.
  assert (Hpre : Forall full_line pre).
  { rewrite Hls in Hfull. apply Forall_app in Hfull. apply Hfull. }
  assert (Hl : full_line l).
  { rewrite Hls in Hfull. apply Forall_app in Hfull. destruct Hfull as [_ Hf]. inversion Hf; assumption. }
  destruct (full_line_body _ Hl) as [body [-> Hbody]].
  unfold offset_to_line. rewrite Hls at 1. rewrite concat_app, concat_cons.
  rewrite take_app_plus, count_nl_app, (count_nl_concat_full _ Hpre), Hlen.
  rewrite length_app_s in Hoff. cbn [String.length nl] in Hoff.
  rewrite app_assoc_s, take_app_le by lia.
  rewrite (nlfree_count _ (nlfree_take _ _ Hbody)). lia.
Qed.
Print Assumptions offset_to_line_in_line.

(** ... and the offset of the k-th line's newline itself translates to k+1 *)
Theorem offset_at_newline_is_next_line : forall (ls : list string) k l
  (Hk : nth_error ls k = Some l)
  (Hfull : Forall full_line ls),
  offset_to_line (String.concat "" ls)
                 (String.length (String.concat "" (firstn k ls)) + String.length l) = S k.
Proof.
  intros. destruct (nth_error_firstn_split _ _ _ Hk) as [l2 [Hls Hlen]].
  set (pre := firstn k ls) in *.
  assert (Hpre : Forall full_line pre).
  { rewrite Hls in Hfull. apply Forall_app in Hfull. apply Hfull. }
  assert (Hl : full_line l).
  { rewrite Hls in Hfull. apply Forall_app in Hfull. destruct Hfull as [_ Hf]. inversion Hf; assumption. }
  unfold offset_to_line. rewrite Hls at 1. rewrite concat_app, concat_cons.
  rewrite take_app_plus, count_nl_app, (count_nl_concat_full _ Hpre), Hlen.
  rewrite take_app_length. destruct Hl as [Ho He]. rewrite (one_line_count _ Ho), He. lia.
Qed.
Print Assumptions offset_at_newline_is_next_line.

(** ** L5: the two boundary defects *)
Example offset_zero_reports_last_line :
  let text := "int a;" ++ nl ++ "int b;" ++ nl ++ "int c;" ++ nl in
  offset_to_line text 0 = 0 /\ offset_to_line_rust text 0 = 3.
Proof. vm_compute. split; reflexivity. Qed.

Example offset_at_newline_next_line :
  let text := "int a;" ++ nl ++ "int b;" ++ nl ++ "int c;" ++ nl in
  (* characters 1..6 are "int a;", character 7 is the first newline *)
  offset_to_line text 6 = 0 /\ offset_to_line text 7 = 1 /\ offset_to_line_rust text 7 = 1.
Proof. vm_compute. repeat split; reflexivity. Qed.

Open Scope string_scope.
Open Scope list_scope.

(** * Part H: putting L1, L2 and L4 together; the spliced line inside a whole run *)

(** a complete text is the concatenation of its full lines *)
Lemma text_lines (s : string) :
  exists ls tl, s = (String.concat "" ls ++ tl)%string /\ Forall full_line ls /\ nlfree tl = true /\
                List.length ls = count_nl s.
Proof.
  induction s as [|a r IH].
  - exists [], ""%string. repeat split; constructor.
  - destruct IH as [ls [tl [Hr [Hf [Ht Hl]]]]].
    destruct (is_nl a) eqn:Ea.
    + exists (String a "" :: ls), tl. rewrite concat_cons. cbn [append count_nl]. rewrite Ea.
      split; [congruence|]. split; [|split; [exact Ht|cbn [List.length]; lia]].
      constructor; [|exact Hf]. split; cbn; rewrite Ea; reflexivity.
    + destruct ls as [|l ls].
      * exists [], (String a tl). cbn [String.concat append count_nl nlfree] in *. rewrite Ea.
        split; [congruence|]. split; [constructor|]. split; [exact Ht|exact Hl].
      * exists (String a l :: ls), tl. rewrite concat_cons in *. cbn [append count_nl]. rewrite Ea.
        split; [congruence|]. split; [|split; [exact Ht|exact Hl]].
        inversion Hf as [|x y [Ho He] Hf']; subst. constructor; [|exact Hf'].
        split; [cbn [one_line]; rewrite Ea; exact Ho|].
        cbn [ends_nl]. destruct l; [discriminate He|exact He].
Qed.

Lemma nlfree_not_ends (s : string) : nlfree s = true -> ends_nl s = false.
Proof.
  induction s as [|a r IH]; [reflexivity|]. cbn [nlfree]. intros H.
  apply andb_true_iff in H. destruct H as [Ha Hr]. destruct r; [cbn; destruct (is_nl a); [discriminate|reflexivity]|].
  cbn [ends_nl]. apply IH. exact Hr.
Qed.

Lemma complete_lines (s : string) :
  complete s = true ->
  exists ls, s = String.concat "" ls /\ Forall full_line ls /\ List.length ls = count_nl s.
Proof.
  intros Hc. destruct (text_lines s) as [ls [tl [Hs [Hf [Ht Hl]]]]].
  destruct tl as [|c tl].
  - exists ls. rewrite app_empty_r in Hs. auto.
  - exfalso. unfold complete in Hc. destruct s; [destruct (String.concat "" ls); discriminate|].
    rewrite Hs in Hc. rewrite ends_nl_app in Hc by discriminate.
    rewrite (nlfree_not_ends _ Ht) in Hc. discriminate.
Qed.

(** C06, assembled: under the hypotheses of [one_entry_per_line] the output text is a sequence of
    full lines, the table has exactly one entry per line, every offset inside the text of line
    [k] is translated to [k] and so selects the [k]-th entry, and that entry is a place of the
    original text: the main file or a file reached by includes, with a physical line number of
    that file and the including file and line. *)
Theorem lookup_finds_an_origin : forall fs fname defs lines p
  (Hdefs : macros_single_line defs)
  (Hsingle : inputs_single_line lines fs)
  (Hterm : physical_lines_terminated lines fs)
  (Hmain : file_closed lines)
  (Hrun : run_cpp fs fname defs lines = POk p),
  exists ls,
    p_out p = String.concat "" ls /\ Forall full_line ls /\
    List.length ls = List.length (p_map p) /\
    forall k l off,
      nth_error ls k = Some l -> 1 <= off <= String.length l - 1 ->
      offset_to_line (p_out p) (String.length (String.concat "" (firstn k ls)) + off) = k /\
      exists e, nth_error (rev (p_map p)) k = Some e /\ origin fs fname None lines e.
Proof.
  intros. destruct (one_entry_per_line _ _ _ _ _ Hdefs Hsingle Hterm Hmain Hrun) as [_ [Hc Hlen]].
  destruct (complete_lines _ Hc) as [ls [Hs [Hf Hl]]].
  exists ls. split; [exact Hs|]. split; [exact Hf|]. split; [lia|].
  intros k l off Hk Hoff. split.
  - rewrite Hs. apply (offset_to_line_in_line ls k l off Hk Hf Hoff).
  - assert (Hlt : k < List.length (rev (p_map p))).
    { rewrite rev_length, Hlen, <- Hl. apply nth_error_Some. congruence. }
    destruct (nth_error (rev (p_map p)) k) as [e|] eqn:E.
    + exists e. split; [reflexivity|].
      pose proof (entries_have_origin _ _ _ _ _ Hrun) as Ho. rewrite Forall_forall in Ho.
      apply Ho. eapply nth_error_In; exact E.
    + apply nth_error_None in E. lia.
Qed.
Print Assumptions lookup_finds_an_origin.

(** ** what one logical line pushes *)
Lemma line_step_entries rec fs fname inc asm p line buf p' :
  rec_origin rec fs ->
  line_step rec fs fname inc asm p line buf = POk p' ->
  exists new, p_map p' = new ++ p_map p /\
    Forall (fun e => e = (fname, line, inc) \/
                     exists g gl, origin fs g (Some (fname, line)) gl e) new.
Proof.
  intros Hrec H.
  apply line_step_cases in H. destruct H as [out0 [ins [sc [Hscan H]]]].
  cbv zeta in H. remember (hash_blanks out0) as out eqn:Eout. clear Eout Hscan.
  destruct H as [Hq|[He|Hi]].
  - destruct Hq as [_ [Hq _]]. exists []. split; [exact Hq|constructor].
  - subst p'. exists [(fname, line, inc)]. split; [reflexivity|]. constructor; [left; reflexivity|constructor].
  - destruct Hi as [e [c [iname [tl [ilines [p2 [Hdp [Hso [Hff [Hr ->]]]]]]]]]].
    destruct (inc_pre_map (set_scan p sc) (fname, line, inc) iname) as [pre [Hpre Fpre]].
    destruct (inc_post_map (set_scan p sc) (inc_pre (set_scan p sc) (fname, line, inc) iname) p2
                           (fname, line, inc) iname) as [post [Hpost Fpost]].
    apply Hrec in Hr. destruct Hr as [mid [Hmid Fmid]].
    exists (post ++ mid ++ pre). split.
    + rewrite Hpost, Hmid, Hpre. rewrite <- !app_assoc. reflexivity.
    + apply Forall_app. split; [eapply Forall_impl; [|exact Fpost]; intros; left; assumption|].
      apply Forall_app. split; [|eapply Forall_impl; [|exact Fpre]; intros; left; assumption].
      eapply Forall_impl; [|exact Fmid]. intros e0 He0. right. exists iname, ilines. exact He0.
Qed.

(** ** a run whose first lines are not continued: the prefix is processed line by line *)
Definition bind_p (r : presult) (k : pstate -> presult) : presult :=
  match r with POk p => k p | PErr e => PErr e end.

Lemma go_app_plain rec fs fname inc asm (l1 r : list string) :
  Forall no_continuation l1 ->
  forall f line p,
    go rec fs fname inc asm (List.length l1 + f) (l1 ++ r) line p =
    bind_p (go rec fs fname inc asm (List.length l1) l1 line p)
           (fun p1 => go rec fs fname inc asm f r (line + N.of_nat (List.length l1))%N p1).
Proof.
  induction 1 as [|x l1 Hx Hl IH]; intros f line p.
  - cbn [List.length app go bind_p Nat.add]. rewrite N.add_0_r. reflexivity.
  - cbn [List.length app Nat.add go].
    rewrite !splice_no_continuation by exact Hx.
    destruct (line_step rec fs fname inc asm p (line + 1 + 0)%N x) as [p'|e]; [|reflexivity].
    rewrite IH. replace (line + 1 + 0 + N.of_nat (List.length l1))%N
      with (line + N.of_nat (S (List.length l1)))%N by lia.
    reflexivity.
Qed.

Lemma process_unfold d fs fname inc asm lines p0 :
  process (S d) fs fname inc asm lines p0 =
  go (process d fs) fs fname inc asm (S (List.length lines)) lines 0%N (file_start p0).
Proof. reflexivity. Qed.

(** The spliced logical line made of the physical lines [length l1 + 1] and [length l1 + 2] of
    the main file, after a prefix [l1] of lines that are not themselves continued (they may be
    anything else: comments, directives, conditionals, macro definitions and uses, includes):
    the run factors through the processing of [a ++ b] with the number [length l1 + 2], and every
    entry it pushes for the main file carries exactly that number. *)
Theorem entry_of_spliced_line_in_run : forall fs fname defs l1 a b l2 p
  (Hprefix : Forall no_continuation l1)
  (Hjoined : no_continuation (a ++ b)%string)
  (Hrun : run_cpp fs fname defs (l1 ++ (a ++ "\" ++ nl)%string :: b :: l2) = POk p),
  let rec := process 7 fs in
  let n := (N.of_nat (List.length l1) + 2)%N in
  exists p1 p2 new,
    go rec fs fname None false (List.length l1) l1 0%N
       (file_start (mkP (init_ctx defs) ""%string [] Active [])) = POk p1 /\
    line_step rec fs fname None false p1 n (a ++ b)%string = POk p2 /\
    go rec fs fname None false (S (S (List.length l2))) l2 n p2 = POk p /\
    p_map p2 = new ++ p_map p1 /\
    (forall e, In e new -> e = (fname, n, None) \/ loc_inc e <> None).
Proof.
  intros. unfold run_cpp in Hrun. rewrite (process_unfold 7) in Hrun. fold rec in Hrun.
  rewrite app_length in Hrun. cbn [List.length] in Hrun.
  replace (S (List.length l1 + S (S (List.length l2))))
    with (List.length l1 + S (S (S (List.length l2)))) in Hrun by lia.
  rewrite go_app_plain in Hrun by exact Hprefix.
  destruct (go rec fs fname None false (List.length l1) l1 0%N _) as [p1|] eqn:E1;
    cbn [bind_p] in Hrun; [|discriminate]. rewrite entry_of_spliced_line in Hrun by exact Hjoined.
  rewrite N.add_0_l in Hrun. fold n in Hrun.
  destruct (line_step rec fs fname None false p1 n (a ++ b)%string) as [p2|] eqn:E2; [|discriminate].
  assert (Hrec : rec_origin rec fs).
  { intros iname inc' a0 ilines q q2 Hr. eapply process_origin; exact Hr. }
  destruct (line_step_entries _ _ _ _ _ _ _ _ _ Hrec E2) as [new [Hm HF]].
  exists p1, p2, new. split; [first [exact E1|reflexivity]|]. split; [first [exact E2|reflexivity]|].
  split; [exact Hrun|].
  split; [exact Hm|]. intros e He. rewrite Forall_forall in HF.
  destruct (HF e He) as [->|[g [gl Ho]]]; [left; reflexivity|right].
  eapply origin_inc_some; [exact Ho|discriminate].
Qed.
Print Assumptions entry_of_spliced_line_in_run.
