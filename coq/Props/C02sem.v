(** C02 — the semantic half: the optimiser's register knowledge and each of its rewrite rules are
    sound with respect to the executable 6502 semantics (M6502/Sem.v).  Statements only; proofs in
    Proofs/OptSemFacts.v.  The extra hypotheses are the side conditions the proofs forced; each has a
    [..._refuted] example in Proofs/OptSemFacts.v showing it cannot be dropped.  What is NOT
    proved: the global simulation (that the N/Z flags a removed instruction would have set are dead). *)
From Coq Require Import String Ascii List Bool NArith ZArith.
From CC Require Import Base.Str Asm.Lines M6502.Isa Asm.Operand M6502.Sem
     Model.Optimize Model.OptSem Proofs.OptSemFacts.
Import ListNotations.

Theorem C02_transfer_sound : forall cfg k i ahead s s',
  ports cfg = [] -> bytes_ok s -> i_mn i <> PLP ->
  (i_mn i = PHA \/ i_mn i = PHP -> know_off_stack cfg k s) ->
  ind_legal i -> xfer_no_zp_y cfg k i ->
  know_sound cfg k s -> steps_to cfg i s s' ->
  know_sound cfg (fst (transfer k i ahead)) s'.
Proof. exact transfer_sound. Qed.

Theorem C02_redundant_load_sound : forall cfg k i s s',
  ports cfg = [] -> know_sound cfg k s -> steps_to cfg i s s' ->
  (i_mn i = LDA /\ k_acc k = Some (i_op i)) \/ (i_mn i = LDX /\ k_x k = Some (i_op i)) \/
  (i_mn i = LDY /\ k_y k = Some (i_op i)) ->
  eq_mod_nz s' s /\ (i_mn i = LDA -> k_flags k = FA -> eq_state s' s).
Proof. exact redundant_load_sound. Qed.

Theorem C02_rule_cmp_known : forall cfg k i1 i2 s op c s1,
  know_sound cfg k s -> bytes_ok s -> imm_text_injective cfg k i1 ->
  cmp_rule (k_acc k) CMP i1 i2 = true \/ cmp_rule (k_x k) CPX i1 i2 = true \/
  cmp_rule (k_y k) CPY i1 i2 = true ->
  parse_operand (i_mn i1) (i_op i1) = Some op -> exec cfg (i_mn i1) op s = XOk s1 c FNext ->
  branch_taken (i_mn i2) s1 = false /\ eq_mod_anzc s1 s.
Proof. exact rule_cmp_known. Qed.

Theorem C02_rule_ld_st : forall cfg i1 i2 s s1 s2,
  ports cfg = [] -> bytes_ok s ->
  (i_mn i1 = LDA /\ i_mn i2 = STA) \/ (i_mn i1 = LDX /\ i_mn i2 = STX) \/
  (i_mn i1 = LDY /\ i_mn i2 = STY) ->
  ind_legal i1 ->
  i_op i1 = i_op i2 -> steps_to cfg i1 s s1 -> steps_to cfg i2 s1 s2 -> eq_state s2 s1.
Proof. exact rule_ld_st. Qed.

Theorem C02_rule_sta_lda : forall cfg i1 i2 s s1 s2,
  ports cfg = [] -> i_mn i1 = STA -> i_mn i2 = LDA -> i_op i1 = i_op i2 ->
  ptr_not_hit cfg i1 s ->
  steps_to cfg i1 s s1 -> steps_to cfg i2 s1 s2 -> eq_mod_nz s2 s1.
Proof. exact rule_sta_lda. Qed.

Theorem C02_rule_pla_pha : forall cfg i1 i2 s s1 s2,
  bytes_ok s -> i_mn i1 = PLA -> i_mn i2 = PHA ->
  steps_to cfg i1 s s1 -> steps_to cfg i2 s1 s2 -> eq_mod_anzc s2 s.
Proof. exact rule_pla_pha. Qed.

Definition C02_rule_transfer_pair := rule_transfer_pair.
Definition C02_rule_ora_zero := rule_ora_zero.
Definition C02_rule_swap_lda_carry := rule_swap_lda_carry.
Definition C02_rule_load_load := rule_load_load.
