(** C03 — conditional branches always reach; long-branch repair preserves control flow, and (end
    of the file) the behaviour of the whole code.
    Only statements here; proofs are in Proofs/CbFacts.v and Proofs/CbSimFacts.v.  Model: Model/CheckBranches.v
    (tied to src/assemble.rs check_branches by the unit correspondence of tools/props/c03.py). *)
From Coq Require Import String Ascii List Bool NArith ZArith.
From CC Require Import Base.Str Asm.Lines M6502.Isa Asm.Operand M6502.Sem
     Model.CheckBranches Model.CbSpec Proofs.CbFacts.
From CC Require Import Model.Optimize Model.OptSem Model.OptSim Model.OptSimCF Model.CbSim
     Model.OptSimCall Proofs.OptSimFacts Proofs.OptSimCFFacts Proofs.CbSimFacts.
From CC Require Proofs.OptSimCallFacts.
From CC Require Proofs.GenLoopsFacts.
Import ListNotations.

(** every conditional branch of the result whose label is defined exactly once is within the
    6502 displacement range, when sizes are the lines' [nb_bytes] (= real sizes by C04) *)
Theorem C03_in_range : forall (c c' : code) (n : N) (p : nat) (i : instr) (k : nat),
  check_branches c = CbOk c' n ->
  nth_error c' p = Some (Ins i) ->
  is_cond_branch (i_mn i) = true ->
  label_positions c' (i_op i) = [k] ->
  (-128 <= displacement c' p (i_bytes i) k <= 127)%Z.
Proof. exact cb_in_range. Qed.

(** the code emitted for a far branch (or a BCC/BMI + BEQ pair) leaves the fragment exactly where
    the original did, for every machine state (hence every N/Z/C combination) *)
Theorem C03_repair_flow_preserved :
  forall (s : mstate) (nfix : N) (b : instr) (tail mid tail' : list line),
  is_cond_branch (i_mn b) = true ->
  is_fix_label (i_op b) = false ->
  repair nfix b tail = (mid, tail') ->
  frag_flow 8 s (Ins b :: firstn (length tail - length tail') tail) = frag_flow 8 s mid
  /\ frag_flow 8 s mid <> ExitStuck.
Proof. exact repair_flow_preserved. Qed.

(** the label search never reaches its [unreachable!()] when every target is defined *)
Theorem C03_no_panic : forall c : code,
  (forall t, In t (branch_targets c) -> In t (all_labels c)) ->
  check_branches c <> CbPanic.
Proof. exact cb_no_panic. Qed.

(** labels stay unique, none disappears, every new branch target is defined *)
Theorem C03_labels : forall (c c' : code) (n : N),
  check_branches c = CbOk c' n ->
  (forall l, In l (all_labels c) -> is_fix_label l = false) ->
  NoDup (all_labels c) ->
  NoDup (all_labels c')
  /\ (forall l, In l (all_labels c) -> In l (all_labels c'))
  /\ (forall t, In t (branch_targets c') -> In t (branch_targets c) \/ In t (all_labels c')).
Proof. exact cb_labels. Qed.

(** the iteration terminates with a result on every well-formed input: cascading repairs included *)
Theorem C03_total : forall c : code,
  (forall l, In l (all_labels c) -> is_fix_label l = false) ->
  (forall t, In t (branch_targets c) -> In t (all_labels c)) ->
  exists c' n, check_branches c = CbOk c' n.
Proof. exact cb_total. Qed.

(** non-vacuity: a function with one far forward branch satisfies the hypotheses and is repaired *)
Definition far_example : code :=
  Ins (mkI BNE ".far" 2 (Some 3%N) 2 false)
  :: repeat (Ins (mkI STA "big" 4 None 3 false)) 50 ++ [Lbl ".far"].
Example C03_example_repaired :
  exists c', check_branches far_example = CbOk c' 1%N /\ length c' = 54.
Proof. vm_compute. eexists. split; reflexivity. Qed.

(** * The repair preserves the behaviour of the whole code *)

(** windows of different lengths: [D] without a label, the labels of [M] fresh, [M] leaving like
    [D] from the top of the window *)
Theorem C03_window_gen : forall (A D M T : code),
  all_labels D = [] ->
  (forall l, In l (all_labels M) -> ~ In l (all_labels (A ++ D ++ T))) ->
  forall cfg, D <> [] -> enters_alike cfg A D M T ->
  forall s s', halts cfg (A ++ D ++ T) s s' -> halts cfg (A ++ M ++ T) s s'.
Proof. exact window_gen. Qed.

(** whenever the original halts, the repaired code halts in the same state *)
Theorem C03_check_branches_sound : forall cfg c c' n s s',
  no_fix_labels c -> check_branches c = CbOk c' n ->
  halts cfg c s s' -> halts cfg c' s s'.
Proof. exact check_branches_sound. Qed.

(** the same on [Sem.run] *)
Theorem C03_check_branches_run : forall cfg c c' n s s',
  no_fix_labels c -> cf_ok cfg c = true -> check_branches c = CbOk c' n ->
  GenLoopsFacts.halts_to cfg c s s' -> GenLoopsFacts.halts_to cfg c' s s'.
Proof. exact check_branches_run. Qed.

(** what is emitted for a function body at -O1: optimise, then repair the far branches *)
Theorem C03_pipeline_sound : forall cfg c c2 n s s',
  ports cfg = [] -> bytes_ok s -> cf_ok cfg c = true -> NoDup (lbls c) -> rb_free c = true ->
  no_fix_labels c -> check_branches (fst (optimize c)) = CbOk c2 n ->
  halts cfg c s s' ->
  exists s'', halts cfg c2 s s'' /\ eq_state s'' s'.
Proof. exact pipeline_sound. Qed.

Theorem C03_pipeline_run : forall cfg c c2 n s s',
  ports cfg = [] -> bytes_ok s -> cf_ok cfg c = true -> NoDup (lbls c) -> rb_free c = true ->
  no_fix_labels c -> check_branches (fst (optimize c)) = CbOk c2 n ->
  GenLoopsFacts.halts_to cfg c s s' ->
  exists s'', GenLoopsFacts.halts_to cfg c2 s s'' /\ eq_state s'' s'.
Proof. exact pipeline_run. Qed.

(** non-vacuity: a branch over 65 "INC w" (130 bytes) is repaired; both versions run to the same
    state (the increments are executed, at shifted positions) *)
Theorem C03_check_branches_sound_example :
  no_fix_labels cb_code /\
  exists c' s', check_branches cb_code = CbOk c' 1%N /\
                halts sim_cfg cb_code sim_state s' /\ halts sim_cfg c' sim_state s' /\
                rA s' = 9%Z /\ rX s' = 2%Z /\ mget (mem s') 128 = 74%Z.
Proof. exact check_branches_sound_example. Qed.

Definition C03_cb_code_repaired := cb_code_repaired.
Definition C03_cb_pair_example := cb_pair_example.
Definition C03_pipeline_sound_example := pipeline_sound_example.

(** * Whole programs, with calls and returns *)

(** one body with calls, any oracle: the repaired body ends the same way in the same state *)
Theorem C03_check_branches_call_sound : forall Or cfg c c' n s r s',
  no_fix_labels c -> check_branches c = CbOk c' n ->
  ghalts Or cfg c s r s' -> ghalts Or cfg c' s r s'.
Proof. exact OptSimCallFacts.check_branches_call_sound. Qed.

(** every function repaired *)
Theorem C03_check_branches_program_sound : forall cfg P main s s',
  bytes_ok s -> all_bodies (OptSimCallFacts.cb_ok cfg) P ->
  phalts cfg P main s s' ->
  exists s'', phalts cfg (cb_prog P) main s s'' /\ eq_state s'' s'.
Proof. exact OptSimCallFacts.check_branches_program_sound. Qed.

Theorem C03_check_branches_program_run : forall cfg P main s s',
  bytes_ok s -> all_bodies (OptSimCallFacts.cb_ok cfg) P ->
  run_halts cfg P main s s' ->
  exists s'', run_halts cfg (cb_prog P) main s s'' /\ eq_state s'' s'.
Proof. exact OptSimCallFacts.check_branches_program_run. Qed.

(** what the compiler emits at -O1 for a whole program: every function optimised, then repaired *)
Theorem C03_pipeline_program_sound : forall cfg P main s s',
  ports cfg = [] -> bytes_ok s -> all_bodies (OptSimCallFacts.pipe_ok cfg) P ->
  phalts cfg P main s s' ->
  exists s'', phalts cfg (cb_prog (opt_prog P)) main s s'' /\ eq_state s'' s'.
Proof. exact OptSimCallFacts.pipeline_program_sound. Qed.

Theorem C03_pipeline_program_run : forall cfg P main s s',
  ports cfg = [] -> bytes_ok s -> all_bodies (OptSimCallFacts.pipe_ok cfg) P ->
  run_halts cfg P main s s' ->
  exists s'', run_halts cfg (cb_prog (opt_prog P)) main s s'' /\ eq_state s'' s'.
Proof. exact OptSimCallFacts.pipeline_program_run. Qed.
