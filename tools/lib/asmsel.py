"""Exhaustive correspondence between GeneratorState::asm (through the verification hook's
asm_probe) and Model/AsmSel.v (extracted, run by sem.native) over the whole finite domain:
every mnemonic x every operand kind x every kind of variable x byte selection x scheme."""
from .common import *
from .coexec import run_sem
import os
import shutil

MNEMS = ['LDA', 'LDX', 'LDY', 'STA', 'STX', 'STY', 'TAX', 'TAY', 'TXA', 'TYA', 'ADC', 'SBC', 'EOR', 'AND', 'ORA', 'LSR', 'ASL',
         'ROL', 'ROR', 'CLC', 'SEC', 'CMP', 'CPX', 'CPY', 'BCC', 'BCS', 'BEQ', 'BMI', 'BNE', 'BPL', 'INC', 'INX', 'INY', 'DEC',
         'DEX', 'DEY', 'JMP', 'JSR', 'RTS', 'RTI', 'PHA', 'PLA', 'PHP', 'PLP', 'NOP']

DOMAIN_SRC = r'''
char zc; signed char zsc; short zs; unsigned short zus; char *zp; signed char *zsp;
char za[4]; short zsa[4]; char *zpa[4];
superchip char sc; superchip short ss; superchip char sa[4]; superchip short ssa[4]; superchip char *sp;
ramchip char rc; ramchip short rs; ramchip char ra[4]; ramchip char *rp; ramchip short rsa[4];
bank1 char bc; bank1 short bs; bank1 char ba[4];
const char ct[4] = {1, 2, 3, 4}; const short cst[2] = {1, 2}; const signed char csc[2] = {1, 2};
char *const HW = 0x10; char *const HWB = 0x280; char *const HWE = 0xfe; char *const HWF = 0xff; char *const HWG = 0x100; char *const HWH = 0x101; char *const HW0 = 0;
char *const HWQ = HWF; char *const HWR = HWE + 1; char *const HWS = HWB + 4; char *const HWT = HWQ; char *const HWU = za;
const char k8 = 7;
void main() { zc = 1; }
'''



class _ShardProc:
    """one driver process on one shard file, stdout/stderr redirected to files next to it"""

    def __init__(self, drv, fn):
        self.fn = fn
        self.p = subprocess.Popen(['bash', '-c', 'ulimit -s unlimited; exec "$0" "$1" > "$1.out" 2> "$1.err"', drv, fn])

    def communicate(self, timeout=None):
        self.p.wait(timeout=timeout)
        self.returncode = self.p.returncode
        return (open(self.fn + '.out', 'rb').read(), open(self.fn + '.err', 'rb').read())

def memclass(m):
    if m.startswith('MemoryOnChip'):
        return 'MemoryOnChip'
    if m in ('Zeropage', 'Superchip'):
        return m
    return 'Other'


def const_value(v, byname, depth=0):
    """CompilerState::constant_address: a literal value, or the low / high byte of another constant's known
    value plus an offset; None when the compiler does not know it"""
    d = v.get('def')
    if not v['const'] or d is None or d[0] != 'value' or depth > 16:
        return None
    if isinstance(d[1], int):
        return d[1]
    kind, name, off = d[1]
    b = byname.get(name)
    a = const_value(b, byname, depth + 1) if b is not None else None
    if a is None:
        return None
    a = wrap32(a + off)
    return (a & 0xff) if kind == 'lo' else ((a >> 8) & 0xff)


def wrap32(x):
    x &= 0xffffffff
    return x - (1 << 32) if x >= (1 << 31) else x


def const_addr(v, vars_=None):
    """the address of a constant-address object (a const pointer defined by an integer, or from another constant
    whose value is known), '-' otherwise: v_addr of Model/AsmSel.v"""
    if v['type'] != 'CharPtr':
        return '-'
    a = const_value(v, {x['name']: x for x in (vars_ or [v])})
    return '-' if a is None else str(a)


def var_wf_problems(vars_):
    """var_wf of Model/AsmSel.v on the variables the real compiler produced: a constant address is
    classified Zeropage exactly when it lies in page zero"""
    bad = []
    for v in vars_:
        a = const_addr(v, vars_)
        if a != '-':
            a = int(a)
            if a < 0 or (v['memory'] == 'Zeropage') != (a < 256):
                bad.append({'variable': v['name'], 'address': a, 'memory': v['memory'],
                            'why': 'a constant address %s page zero is classified %s' % ('in' if a < 256 else 'outside', v['memory'])})
    return bad


def build_probes(vars_, schemes=('4K', '3E', '3EP'), prot_values=(0, 1)):
    """-> list of probe tuples (mn, kind, name, var-record|None, eight, n, high, scheme, prot)"""
    probes = []
    vs = [v for v in vars_ if v['memory'] != 'Dummy']
    for sch in schemes:
        for mn in MNEMS:
            for high in (0, 1):
                prot = 1 if (len(probes) % 7 == 0) else 0
                probes.append((mn, 'nothing', '-', None, 0, 0, high, sch, prot))
                for n in (0, 5, 255, 256, 0x1234, -1):
                    probes.append((mn, 'imm', '-', None, 0, n, high, sch, 0))
                for eb in (0, 1):
                    probes.append((mn, 'tmp', '-', None, eb, 0, high, sch, 0))
                    probes.append((mn, 'a', '-', None, eb, 0, high, sch, 0))
                probes.append((mn, 'label', '.l1', None, 0, 0, high, sch, 0))
                for v in vs:
                    for eb in (0, 1):
                        for off in (0, 1, 3, -1):
                            probes.append((mn, 'abs', v['name'], v, eb, off, high, sch, 0))
                    probes.append((mn, 'absx', v['name'], v, 0, 0, high, sch, 0))
                    probes.append((mn, 'absy', v['name'], v, 0, 0, high, sch, 0))
    return probes


def run_domain(schemes=('4K', '3E', '3EP')):
    """-> (n, mismatches, table) comparing asm() and AsmSel on the whole domain"""
    defs = {'4K': [], '3E': ['-D', '__3E__=1'], '3EP': ['-D', '__3E_PLUS__=1']}
    # variables as the compiler sees them
    r0 = run_ccv(compile_job('dom', DOMAIN_SRC, args=['-O0'], want=['vars']))[0]
    if r0['status'] != 'ok':
        raise HarnessError('asm() domain program rejected: %s' % r0)
    vars_ = r0['vars']
    mism = []
    total = 0
    table = {}
    for sch in schemes:
        probes = build_probes(vars_, schemes=(sch,))
        plines = []
        for (mn, kind, name, v, eb, n, high, s, prot) in probes:
            plines.append([mn, kind, hx(name), str(eb), str(n), str(high), s, str(prot)])
        impl = run_ccv(compile_job('dom' + sch, DOMAIN_SRC, args=['-O0'] + defs[sch], want=['probe'], probes=plines),
                       timeout_ms=120000)[0]
        if impl['status'] != 'ok' or 'probes' not in impl:
            raise HarnessError('probe job failed: %s' % json.dumps(impl)[:500])
        if impl['probes'] and impl['probes'][0].get('status') == 'nohook':
            raise HarnessError('the harness was built without the verification hook')
        # model side
        mtext = []
        for k, (mn, kind, name, v, eb, n, high, s, prot) in enumerate(probes):
            if v is None:
                rec = ['Char', '0', '0', 'Zeropage', '1', '-']
            else:
                rec = [v['type'], '1' if v['const'] else '0', '1' if v['signed'] else '0', memclass(v['memory']), str(v['size']), const_addr(v, vars_)]
            mtext.append('probe %d %s %s %s %s %s %d %d %d %s %d' % (k, mn, kind, hx(name), ' '.join(rec[:1]), ' '.join(rec[1:]), eb, n, high, s, prot))
        model = run_sel('\n'.join(mtext) + '\n')
        for k, (p, ri) in enumerate(zip(probes, impl['probes'])):
            total += 1
            rm = model.get(k)
            a = canon_probe_impl(ri)
            cell = (p[0], p[1], (p[3] or {}).get('type'), memclass((p[3] or {}).get('memory', 'Zeropage')), a[0])
            table[cell] = table.get(cell, 0) + 1
            if a != rm:
                mism.append({'probe': [p[0], p[1], p[2], p[3], p[4], p[5], p[6], p[7], p[8]], 'impl': a, 'model': rm})
    return total, mism, table, vars_


def canon_probe_impl(r):
    st = r.get('status')
    if st == 'err':
        return ('err', r['err'].get('msg'))
    if st == 'panic':
        return ('panic',)
    if st == 'ok':
        lines = r.get('lines', [])
        if not lines:
            return ('noemit', 1 if r.get('signed') else 0)
        l = lines[0]
        return ('ok', 1 if r.get('signed') else 0, l[1], l[2], l[3], l[4], l[5], l[6])
    return (st,)


def run_sel(text):
    drv = ocaml_driver('sem')
    d = os.path.join('/dev/shm', 'sel.%d' % os.getpid())
    os.makedirs(d, exist_ok=True)
    try:
        fn = os.path.join(d, 'sel.txt')
        open(fn, 'w').write(text)
        rc, out = sh(['bash', '-c', 'ulimit -s unlimited; exec "$0" "$1"', drv, fn], check=False, timeout=3600)
        if rc != 0:
            raise HarnessError('sem.native (asmsel) failed: ' + out[-1000:])
        res = {}
        for l in out.splitlines():
            if not l.startswith('@sel '):
                continue
            f = l.split(' ')
            k = int(f[1])
            if f[2] == 'ok':
                op = bytes.fromhex(f[9]).decode() if f[9] != '-' else ''
                res[k] = ('ok', int(f[3]), f[4], int(f[5]), int(f[6]), int(f[7]), None if f[8] == '-' else int(f[8]), op)
            elif f[2] == 'noemit':
                res[k] = ('noemit', int(f[3]))
            elif f[2] == 'err':
                res[k] = ('err', bytes.fromhex(f[3]).decode() if f[3] != '-' else '')
            else:
                res[k] = (f[2],)
        return res
    finally:
        shutil.rmtree(d, ignore_errors=True)


# ---------------------------------------------------------------- wf / size report on compiled code

def wf_records(compiled_funcs):
    """compiled_funcs: {id: (layout, {fname: lines})} -> text for sem.native"""
    o = []
    for pid, (lay, funcs) in compiled_funcs.items():
        o.append('@wf %s' % pid)
        for n, a in lay['sym'].items():
            o.append('sym %s %d' % (hx(n), a))
        for name, lines in funcs.items():
            o.append('func ' + hx(name))
            o.append(enc_lines(lines))
            o.append('endfunc')
        o.append('@end')
    return '\n'.join(o) + '\n'


def run_wf(text):
    drv = ocaml_driver('sem')
    d = os.path.join('/dev/shm', 'wf.%d' % os.getpid())
    os.makedirs(d, exist_ok=True)
    try:
        recs = ['@wf ' + r for r in text.split('@wf ')[1:]]
        ns = max(1, min(NCPU, len(recs)))
        files = []
        for i in range(ns):
            fn = os.path.join(d, 'w%d.txt' % i)
            open(fn, 'w').write(''.join(recs[i::ns]))
            files.append(fn)
        # results go to files: a shard never waits on a full pipe while an earlier one is being read
        procs = [_ShardProc(drv, fn) for fn in files]
        res = {}
        for p in procs:
            o, e = p.communicate(timeout=7200)
            if p.returncode != 0:
                raise HarnessError('sem.native (wf) failed: ' + e.decode()[-1000:])
            for l in o.decode().splitlines():
                if not l.startswith('@wf '):
                    continue
                f = l.split(' ')
                pid, fn_, size = f[1], bytes.fromhex(f[2]).decode(), int(f[3])
                d_ = {'size': size}
                for kv in f[4:]:
                    k, _, v = kv.partition('=')
                    d_[k] = [x for x in v.split(',') if x]
                for k in ('dup', 'undef'):
                    d_[k] = [bytes.fromhex(x).decode() for x in d_.get(k, [])]
                res.setdefault(pid, {})[fn_] = d_
        return res
    finally:
        shutil.rmtree(d, ignore_errors=True)
