(** Specification-side definitions for check_branches (C03): real byte addresses, the real
    relative displacement of a branch, and the control flow of a fragment made of conditional
    branches, jumps and labels, given by the 6502 semantics' [branch_taken]. *)
From Coq Require Import String Ascii List Bool NArith ZArith.
From CC Require Import Base.Str Asm.Lines M6502.Isa Asm.Operand M6502.Sem Model.CheckBranches.
Import ListNotations.
Open Scope Z_scope.

Fixpoint sum_bytes (c : code) : Z :=
  match c with
  | [] => 0
  | l :: r => Z.of_N (line_bytes l) + sum_bytes r
  end.

(** address (offset from the start of the function) of line number [k] *)
Definition addr_of (c : code) (k : nat) : Z := sum_bytes (firstn k c).

Definition defines (l : string) (x : line) : bool :=
  match x with Lbl s => String.eqb s l | _ => false end.

Fixpoint label_positions_from (c : code) (l : string) (k : nat) : list nat :=
  match c with
  | [] => []
  | x :: r => if defines l x then k :: label_positions_from r l (S k) else label_positions_from r l (S k)
  end.
Definition label_positions (c : code) (l : string) : list nat := label_positions_from c l 0.

(** The displacement byte a 6502 assembler computes for the branch at line [p] (of encoded size
    [sz]) whose target label is at line [k]: target address minus address of the next
    instruction. *)
Definition displacement (c : code) (p : nat) (sz : N) (k : nat) : Z :=
  addr_of c k - (addr_of c p + Z.of_N sz).

(** control flow through a fragment of conditional branches, JMPs and labels *)
Inductive exit := ExitLabel (l : string) | ExitFall | ExitStuck.

Fixpoint drop_to_label (l : string) (c : list line) : option (list line) :=
  match c with
  | [] => None
  | x :: r => if defines l x then Some r else drop_to_label l r
  end.

Fixpoint frag_flow (fuel : nat) (s : mstate) (frag : list line) : exit :=
  match fuel with
  | O => ExitStuck
  | S f =>
      match frag with
      | [] => ExitFall
      | Ins i :: r =>
          if is_cond_branch (i_mn i) then
            if branch_taken (i_mn i) s then
              match drop_to_label (i_op i) r with
              | Some r' => frag_flow f s r'
              | None => ExitLabel (i_op i)
              end
            else frag_flow f s r
          else if mnem_eqb (i_mn i) JMP then
            match drop_to_label (i_op i) r with
            | Some r' => frag_flow f s r'
            | None => ExitLabel (i_op i)
            end
          else ExitStuck
      | _ :: r => frag_flow f s r
      end
  end.

(** labels the repair creates *)
Definition is_fix_label (l : string) : bool := starts_with ".fix" l.

Definition all_labels (c : code) : list string :=
  flat_map (fun x => match x with Lbl s => [s] | _ => [] end) c.

Definition branch_targets (c : code) : list string :=
  flat_map (fun x => match x with
                     | Ins i => if is_cond_branch (i_mn i) then [i_op i] else []
                     | _ => [] end) c.
