"""C07 — conditional compilation keeps exactly the active text.

proof   : Props/C07.v on Model/Cpp.v: for every well-nested tree of groups the lines that reach
          the output are exactly those of the selected branches (first true condition, else #else);
          directives in unselected regions have no effect; the #if evaluator is C's on 0/1, !, ==
corr-M  : cpp::process (verification hook) vs the extracted model: general preprocessor inputs and
          random well-nested trees, exact equality of output, line table, literals, errors
corr-S  : the reference function of the property (spec_active, C truth of the conditions) on the
          same trees against the implementation's output
"""
import re
from lib.common import *
from lib.cppcorr import *

LEVEL = 'proof'


def theorems():
    p = os.path.join(COQ, 'Props', 'C07.v')
    return re.findall(r'^Theorem (\w+)', open(p).read(), re.M) if os.path.exists(p) else []


class Tree:
    """random well-nested conditional structure with a marker on every line"""

    def __init__(self, rng, macros, maxdepth):
        self.rng = rng
        self.macros = macros          # name -> value ('0' / '1') for defined macros
        self.n = 0
        self.lines = []               # (text, active?)
        self.maxdepth = maxdepth
        self.errors = []              # active #error markers in order

    def marker(self, active):
        self.n += 1
        self.lines.append(('char m%d;\n' % self.n, active))

    def cond(self):
        """-> (text, truth)"""
        rng = self.rng
        k = rng.randrange(8)
        names = list(self.macros.keys())

        def atom():
            if names and rng.random() < 0.5:
                n = rng.choice(names)
                return n, int(self.macros[n])
            b = rng.random() < 0.5
            return ('1' if b else '0'), int(b)
        if rng.random() < 0.25:
            # integer operands, chains of == (left-associative in C), ! on any operand
            def iatom():
                if names and rng.random() < 0.5:
                    n = rng.choice(names)
                    t, v = n, int(self.macros[n])
                else:
                    v = rng.choice([0, 1, 2, 3, 10])
                    t = str(v)
                nn = rng.choice([0, 0, 0, 1, 2])
                for _ in range(nn):
                    v = int(v == 0)
                return '!' * nn + t, v
            t, v = iatom()
            for _ in range(rng.randrange(1, 4)):
                t2, v2 = iatom()
                t, v = '%s == %s' % (t, t2), int(v == v2)
            return t, v != 0
        if k < 3:
            t, v = atom()
            return t, v != 0
        if k < 5:
            t, v = atom()
            return '!' + t, v == 0
        if k < 7:
            a, va = atom()
            b, vb = atom()
            return '%s == %s' % (a, b), va == vb
        a, va = atom()
        return '!!' + a, va != 0

    def inert(self, active):
        """directives that must have no effect when not active (and markers to observe them)"""
        rng = self.rng
        if active:
            return
        k = rng.randrange(9)
        if k == 5:
            self.lines.append((rng.choice(['this isn\'t "closed\n', 'char *s = "abc;\n', 'x = \'"\';\n', '#error don\'t say "this\n']), False))
        elif k == 6:
            self.lines.append((rng.choice(['#pragma once\n', '#warning nothing\n', '#line 3\n', '#ident "x"\n']), False))
        elif k == 7:
            # a whole nested group whose directives lack their expressions
            self.lines.append(('#if\n', False))
            self.lines.append(('char never%d;\n' % self.n, False))
            if rng.random() < 0.5:
                self.lines.append(('#elif\n', False))
            self.lines.append(('#endif\n', False))
        elif k == 8:
            self.lines.append(('#define E%d\n#if E%d\n#endif\n' % (self.n, self.n), False))
        elif k == 0:
            self.lines.append(('#define m%d broken\n' % (self.n + 1), False))      # would rename the next marker
        elif k == 1 and self.macros:
            self.lines.append(('#undef %s\n' % rng.choice(list(self.macros.keys())), False))
        elif k == 2:
            self.lines.append(('#error must not fire\n', False))
        elif k == 3:
            self.lines.append(('#include "does_not_exist.h"\n', False))
        else:
            self.lines.append(('#define char short\n', False))

    def commented_directives(self, active):
        """a block comment spanning lines that look like directives: they are comment text wherever
        the comment stands (selected or unselected region)"""
        rng = self.rng
        self.n += 1
        self.lines.append(('char m%d; /* commented out\n' % self.n, active, 'char m%d; \n' % self.n))
        for _ in range(rng.randrange(1, 4)):
            self.lines.append((rng.choice(['#else\n', '#endif\n', '#if 0\n', '#elif 1\n', '#define char short\n', '#error no\n',
                                           '#ifdef A\n']), False))
        self.n += 1
        self.lines.append(('*/ char m%d;\n' % self.n, active, ' char m%d;\n' % self.n))

    def body(self, depth, active):
        rng = self.rng
        for _ in range(rng.randrange(0, 4)):
            k = rng.random()
            if k < 0.08:
                self.commented_directives(active)
            elif k < 0.45:
                self.marker(active)
            elif k < 0.6:
                self.inert(active)
            elif depth < self.maxdepth:
                self.group(depth + 1, active)
        if rng.random() < 0.5:
            self.marker(active)

    def group(self, depth, active):
        rng = self.rng
        kind = rng.randrange(3)
        names = list(self.macros.keys()) + ['UNDEFINED_X']
        if kind == 0:
            c, v = self.cond()
            self.lines.append(('#if %s\n' % c, None))
        elif kind == 1:
            n = rng.choice(names)
            v = n in self.macros
            self.lines.append(('#ifdef %s\n' % n, None))
        else:
            n = rng.choice(names)
            v = n not in self.macros
            self.lines.append(('#ifndef %s\n' % n, None))
        taken = v
        self.body(depth, active and v)
        for _ in range(rng.randrange(0, 3)):
            c, cv = self.cond()
            self.lines.append(('#elif %s\n' % c, None))
            sel = (not taken) and cv
            self.body(depth, active and sel)
            taken = taken or cv
        if rng.random() < 0.6:
            self.lines.append(('#else\n', None))
            self.body(depth, active and not taken)
        self.lines.append(('#endif\n', None))


def gen_tree_case(rng, cid, maxdepth):
    macros = {}
    defs = []
    pre = []
    for n in ['A', 'B', 'FLAG', 'ZERO']:
        if rng.random() < 0.6:
            v = '0' if n == 'ZERO' else rng.choice(['0', '1', '0', '1', '2', '3'])
            macros[n] = v
            if rng.random() < 0.5:
                defs.append((n, v))
            else:
                pre.append('#define %s %s\n' % (n, v))
    t = Tree(rng, macros, maxdepth)
    t.body(0, True)
    src = ''.join(pre) + ''.join(x[0] for x in t.lines)
    expected = ''.join((x[2] if len(x) > 2 else x[0]) for x in t.lines if x[1])
    return (cid, src, defs, [], 'main.c'), expected


KNOWN_WITNESSES = {
    'if_two': ('#if 2\nchar yes;\n#else\nchar no;\n#endif\n', [], 'char yes;\n'),
    'eq_chain_left': ('#if MODE == 2 == 1\nchar yes;\n#else\nchar no;\n#endif\n', [('MODE', '2')], 'char yes;\n'),
    'eq_chain_left2': ('#if 0 == 0 == 2\nchar yes;\n#else\nchar no;\n#endif\n', [], 'char no;\n'),
    'eq_chain_not': ('#if !3 == 0 == 1\nchar yes;\n#elif 2 == 2 == 2\nchar no;\n#else\nchar neither;\n#endif\n', [], 'char yes;\n'),
    # '#' may be followed by blanks; the directive name ends at the first character that is not a letter (batch E)
    'blank_after_hash_skipped_else': ('#if 0\nchar a;\n# else\nchar b;\n#endif\nchar tail;\n', [], 'char b;\nchar tail;\n'),
    'blank_after_hash_all': ('#  define N 1\n# ifdef N\nchar yes;\n#   else\nchar no;\n# endif\n', [], 'char yes;\n'),
    'if_bang_nested_skipped': ('#if 0\n#if!FOO\nchar x;\n#endif\n#endif\nchar tail;\n', [], 'char tail;\n'),
    'if_bang': ('#if!N\nchar a;\n#else\nchar b;\n#endif\n', [('N', '1')], 'char b;\n'),
    'eq_values': ('#if V == 3\nchar yes;\n#else\nchar no;\n#endif\n', [('V', '2')], 'char no;\n'),
    # text and directives of groups that are not selected have no effect at all (repaired 4807eff)
    'skipped_quote': ('#if 0\nthis isn\'t "closed\n#endif\nchar ok;\n', [], 'char ok;\n'),
    'skipped_error_quote': ('#ifdef NOPE\n#error don\'t say "this\n#else\nchar ok;\n#endif\n', [], 'char ok;\n'),
    'skipped_pragma': ('#if 0\n#pragma once\n#warning x\n#endif\nchar ok;\n', [], 'char ok;\n'),
    'skipped_if_empty': ('#define E\n#if 0\n#if E\nchar a;\n#elif\nchar b;\n#endif\n#endif\nchar ok;\n', [], 'char ok;\n'),
    'taken_elif_empty': ('#if 1\nchar ok;\n#elif\nchar no;\n#endif\n', [], 'char ok;\n'),
    'skipped_quote_then_else': ('#if 0\nx = "\n#else\nchar ok;\n#endif\n', [], 'char ok;\n'),
}


# more than 100 macros (the tables are kept in sets of 100), an #undef in the first set, an #undef + new #define of a
# macro of a later set, conditions on that macro, on its neighbours and on a macro of the first set
def _many(n, first, later, newval):
    src = ''.join('#define CFG%d 1\n' % i for i in range(n)) + '#undef CFG%d\n#undef CFG%d\n#define CFG%d %d\n' % (first, later, later, newval)
    exp = ''
    for m in (later, later - 1, later + 1 if later + 1 < n else 0, 7, first):
        src += '#if CFG%d\nchar y%d;\n#else\nchar n%d;\n#endif\n' % (m, m, m) if m != first else '#ifdef CFG%d\nchar y%d;\n#else\nchar n%d;\n#endif\n' % (m, m, m)
        val = newval if m == later else (None if m == first else 1)
        exp += ('char y%d;\n' % m) if val else ('char n%d;\n' % m)
    return (src, [], exp)


for _n, _f, _l, _v in ((120, 5, 110, 0), (120, 5, 100, 0), (201, 99, 200, 0), (250, 0, 199, 0), (120, 5, 110, 2), (101, 50, 100, 0), (120, 110, 5, 0)):
    KNOWN_WITNESSES['many_macros_%d_%d_%d_%d' % (_n, _f, _l, _v)] = _many(_n, _f, _l, _v)


def run(ctx):
    quick = ctx.tier == 'quick'
    rng = ctx.rng
    th = theorems()
    if th:
        ctx.proof_stage('Props.C07', th)
    n_gen = 1500 if quick else 12000
    n_tree = 3000 if quick else 20000
    cases = [gen_case(rng, 'g%d' % i) for i in range(n_gen)]
    trees = []
    expected = {}
    for i in range(n_tree):
        c, exp = gen_tree_case(rng, 't%d' % i, 6 if quick else 8)
        trees.append(c)
        expected[c[0]] = exp
    for k, (src, defs, exp) in KNOWN_WITNESSES.items():
        trees.append((k, src, defs, [], 'main.c'))
        expected[k] = exp
    n, mism, impl, model = compare(cases + trees)
    ctx.cov['evaluations'] = n
    viol = []
    nontrivial = 0
    for c, ri in zip(trees, impl[len(cases):]):
        a = canon_impl(ri)
        exp = expected[c[0]]
        if exp.count('\n') >= 1 and '#if' in c[1]:
            nontrivial += 1
        got = a[1] if a[0] == 'ok' else None
        if got != exp:
            viol.append({'id': c[0], 'why': 'the text reaching the compiler is not the text of the selected branches',
                         'source': c[1], 'defines': c[2], 'expected': exp, 'got': a[:2] if a[0] == 'ok' else a})
    ctx.cov['distinct_nontrivial'] = nontrivial
    ctx.cov['correspondence']['corr-M cpp::process'] = {'cases': n, 'mismatches': len(mism)}
    ctx.cov['correspondence']['corr-S spec_active'] = {'trees': len(trees), 'violations': len(viol)}
    ctx.sample({'tree_source': trees[0][1][:600], 'expected': expected[trees[0][0]][:200]})
    known = {f.get('witness'): f for f in ctx.findings if f.get('status') == 'open'}
    reported = 0
    for v in viol:
        f = known.get(v['id'])
        if f:
            ctx.known_finding(f['id'], f['text'])
            continue
        if reported < 3:
            ctx.violation('cond', v)
            reported += 1
    if mism and not reported:
        ctx.violation_noinput('Model/Cpp.v no longer matches cpp::process on %d of %d inputs; first: %s'
                              % (len(mism), n, json.dumps(mism[0])[:2000]), 'corr-M:cpp')
    ctx.cov['rule'] = ('random well-nested trees (depth <= 6 quick / 10 thorough): #if/#ifdef/#ifndef heads, 0-2 #elif, optional #else; '
                       'conditions over 0/1, macros from the source or -D, !, ==; markers in every region; #define/#undef/#error/#include '
                       'in unselected regions; non-trivial = trees with at least one group and one surviving marker')
    ctx.cov['trusted_base'] = ['Coq 8.16.1 kernel', 'extraction of Model/Cpp.v', 'verification hook cc6502::verif::cpp_process (calls cpp::process unchanged)',
                               'harness ccv', 'the Python reference spec_active (tools/props/c07.py)']
    ctx.assumptions = ['ASCII input', 'conditions evaluate 0/1-valued operands (other integers: known finding)']
