(** Extraction of the assembly-level models (engine "asm"). ExtrOcamlBasic + ExtrOcamlString only:
    N / Z / positive / nat stay the extracted inductives. *)
From Coq Require Import ExtrOcamlBasic ExtrOcamlString.
From CC Require Import Base.Str Asm.Lines Model.Optimize Model.CheckBranches Model.InlineRename Model.Csleep.
Extraction Language OCaml.
Extraction "../build/ocaml/asm_model.ml"
  mnem_of_name mnem_name size_bytes optimize optimize_opt check_branches append_code push_code
  string_of_N csleep_code.
