(** C13 — emitted assembly always assembles.  Statements only. *)
From Coq Require Import String Ascii List Bool NArith ZArith.
From CC Require Import Base.Str Asm.Lines M6502.Isa Asm.Operand Model.Optimize Model.OptSpec
     Model.CheckBranches Model.CbSpec Proofs.OptFacts Proofs.CbFacts.
Import ListNotations.

(** the optimiser leaves every label where it is (so uniqueness and definedness are untouched) *)
Theorem C13_optimize_keeps_labels : forall c : code, labels_of (fst (optimize c)) = labels_of c.
Proof. exact optimize_keeps_labels. Qed.

(** ... and every instruction it keeps was emitted by the generator: legality is preserved *)
Theorem C13_optimize_instrs_subset : forall (c : code) (i : instr),
  In (Ins i) (fst (optimize c)) -> In (Ins i) c.
Proof. exact optimize_instrs_subset. Qed.

(** long-branch repair: labels stay unique, none disappears, every new target is defined *)
Theorem C13_repair_labels : forall (c c' : code) (n : N),
  check_branches c = CbOk c' n ->
  (forall l, In l (all_labels c) -> is_fix_label l = false) ->
  NoDup (all_labels c) ->
  NoDup (all_labels c')
  /\ (forall l, In l (all_labels c) -> In l (all_labels c'))
  /\ (forall t, In t (branch_targets c') -> In t (branch_targets c) \/ In t (all_labels c')).
Proof. exact cb_labels. Qed.

From CC Require Import Model.AsmSel Model.InlineRename Model.WfCode Proofs.AsmLegalFacts Proofs.InlineFacts.

(** whenever asm() accepts a load / store / ALU / compare mnemonic with a data operand, the 6502
    has an addressing mode for it (the explicit "Can't use X addressing on X operation"-style
    errors do their job).  The last hypothesis (stores whose operand degenerates to an immediate,
    the "#0" high byte) dates from before the "Bad left value" guard of asm(); it is kept so that
    the statement is unchanged and is not needed any more: C13_asm_legal_strong below *)
Theorem C13_asm_sel_legal : forall sch m e high m' sg em,
  data_mnemonic m = true -> data_operand e = true ->
  expr_wf e ->
  asm_sel sch m e high = AEmit m' sg em ->
  (AsmSel.is_st m = true -> shape_of (operand_of (e_op em)) <> ShImm) ->
  resolve m' (shape_of (operand_of (e_op em))) (popnd_zp e (e_op em)) <> None.
Proof. exact asm_sel_legal. Qed.

(** read-modify-write mnemonics: legal exactly for memory, memory+X (and the accumulator for
    shifts); apart from the "Bad left value" guard on immediates asm() has no error arm for the
    others: a finding recorded as Examples in Proofs/AsmLegalFacts.v *)
Theorem C13_asm_sel_legal_rmw : forall sch m e high m' sg em,
  rmw_mnemonic m = true -> rmw_operand e = true ->
  asm_sel sch m e high = AEmit m' sg em ->
  shape_of (operand_of (e_op em)) <> ShImm ->
  resolve m' (shape_of (operand_of (e_op em))) (popnd_zp e (e_op em)) <> None.
Proof. exact asm_sel_legal_rmw. Qed.

(** since the "Bad left value" guard: a store or a read-modify-write instruction is never emitted
    with an immediate operand (the name of an array, &x, the "#0" high byte of an 8-bit object) ... *)
Theorem C13_asm_no_write_imm : forall sch m e high m' sg em,
  asm_sel sch m e high = AEmit m' sg em ->
  writes_mem m' = true ->
  shape_of (operand_of (e_op em)) <> ShImm.
Proof. exact asm_sel_no_write_imm. Qed.

(** ... so C13_asm_sel_legal holds without its store hypothesis *)
Theorem C13_asm_legal_strong : forall sch m e high m' sg em,
  data_mnemonic m = true -> data_operand e = true ->
  expr_wf e ->
  asm_sel sch m e high = AEmit m' sg em ->
  resolve m' (shape_of (operand_of (e_op em))) (popnd_zp e (e_op em)) <> None.
Proof. exact asm_sel_legal_strong. Qed.

(** read-modify-write instructions (INC DEC ASL LSR ROL ROR on a temporary, a variable or an X-indexed element):
    every accepted operand has an encoding, no immediate degeneration left ... *)
Theorem C13_asm_legal_rmw_strong : forall sch m e high m' sg em,
  rmw_mnemonic m = true -> rmw_operand e = true ->
  asm_sel sch m e high = AEmit m' sg em ->
  resolve m' (shape_of (operand_of (e_op em))) (popnd_zp e (e_op em)) <> None.
Proof. exact asm_sel_legal_rmw_strong. Qed.

(** ... while a read-modify-write instruction on a Y-indexed operand, when asm() emits one, never has an
    encoding (the generator does not ask for it: the templates of C17 go through the accumulator) *)
Theorem C13_asm_rmw_y_never_legal_strong : forall sch m v high m' sg em,
  rmw_mnemonic m = true ->
  asm_sel sch m (EAbsoluteY v) high = AEmit m' sg em ->
  resolve m' (shape_of (operand_of (e_op em))) (popnd_zp (EAbsoluteY v) (e_op em)) = None.
Proof. exact asm_sel_rmw_y_never_legal_strong. Qed.

(** inlining: the suffixing of labels is injective in (counter, label) ... *)
Theorem C13_suffix_inj : forall n1 n2 l1 l2,
  suffix_of n1 l1 = suffix_of n2 l2 -> n1 = n2 /\ l1 = l2.
Proof. exact suffix_of_inj. Qed.

(** ... so an inlined block keeps labels unique for a fresh counter ... *)
Theorem C13_push_code_nodup : forall (dst body : code) (n : N),
  NoDup (all_labels dst) -> NoDup (all_labels body) ->
  ~ In ".endof"%string (all_labels body) ->
  (forall l, In l (all_labels dst) -> forall l0, l <> suffix_of n l0) ->
  NoDup (all_labels (push_code dst body n)).
Proof. exact push_code_nodup. Qed.

(** ... repeated and nested expansions with distinct counters included ... *)
Definition C13_push_code_twice_nodup := push_code_twice_nodup.

(** ... and every branch/JMP of the inlined body (the return jump included) lands inside the block *)
Theorem C13_push_code_closed : forall (dst body : code) (n : N),
  (forall t, In t (local_targets body) -> In t (all_labels body) \/ t = ".endof"%string) ->
  forall t, In t (local_targets (map (rename_line n) body)) ->
            In t (all_labels (map (rename_line n) body ++ [Lbl (".endofinline" ++ string_of_N n)%string])).
Proof. exact push_code_closed. Qed.
