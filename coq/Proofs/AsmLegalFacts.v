(** Legality of what [asm()] selects (C04): whenever [asm()] accepts a load/store/ALU/compare
    mnemonic with a data operand, the 6502 has an addressing mode for the emitted operand; the
    read-modify-write mnemonics are not guarded and reach unencodable cells through Y-indexed
    operands.  Finite case analyses over mnemonics x operand kinds x variable attributes. *)
From Coq Require Import String Ascii List Bool NArith ZArith Lia.
From CC Require Import Base.Str Asm.Lines M6502.Isa Asm.Operand Model.AsmSel.
From CC Require Import Proofs.AsmSelFacts.
Import ListNotations.

Definition data_mnemonic (m : mnem) : bool :=
  match m with
  | LDA | LDX | LDY | STA | STX | STY | ADC | SBC | AND | ORA | EOR | CMP | CPX | CPY => true
  | _ => false
  end.

Definition data_operand (e : exprtype) : bool :=
  match e with
  | EImmediate _ | ETmp _ | EAbsolute _ _ _ | EAbsoluteX _ | EAbsoluteY _ => true
  | _ => false
  end.

Definition rmw_mnemonic (m : mnem) : bool :=
  match m with INC | DEC | ASL | LSR | ROL | ROR => true | _ => false end.

Definition shift_mnemonic (m : mnem) : bool :=
  match m with ASL | LSR | ROL | ROR => true | _ => false end.

(** operand kinds for which a read-modify-write mnemonic always gets an encodable operand
    (immediate degenerations excepted) *)
Definition rmw_operand (e : exprtype) : bool :=
  match e with ETmp _ | EAbsolute _ _ _ | EAbsoluteX _ => true | _ => false end.

(** * Loads, stores, ALU operations and compares *)

Theorem asm_sel0_legal : forall sch m e high m' sg em,
  data_mnemonic m = true -> data_operand e = true ->
  expr_wf e ->
  asm_sel0 sch m e high = AEmit m' sg em ->
  (AsmSel.is_st m = true -> shape_of (operand_of (e_op em)) <> ShImm) ->
  resolve m' (shape_of (operand_of (e_op em))) (popnd_zp e (e_op em)) <> None.
Proof.
  intros sch m e high m' sg em D O W H St.
  destruct e as [ | v | s | v eight off | v | v | s | l ].
  - discriminate O.
  - (* Immediate *) cbn in H. inv_emit H. destruct m; try discriminate D.
    all: cbn in St; cbn.
    all: first [ discriminate | (exfalso; apply St; reflexivity) ].
  - (* Tmp *) cbn in H. inv_emit H. destruct m; try discriminate D.
    all: cbn; discriminate.
  - (* Absolute: an encoding exists wherever the operand is *)
    set (zp := popnd_zp _ _); clearbody zp.
    unfold asm_sel0 in H; cbv zeta in H.
    destruct (v_type v), (is_zp v), (v_const v), eight, high; cbn -[port_offset Z.add Z.ltb] in H.
    all: try discriminate H.
    all: try (destruct (v_addr v) as [a|]; [destruct (255 <? _)%Z in H|]; cbn [negb] in H).
    all: inv_emit H.
    all: destruct m; try discriminate D.
    all: destruct zp; cbn -[port_offset] in St; cbn -[port_offset].
    all: first [ discriminate | (exfalso; apply St; reflexivity) ].
  - (* AbsoluteX: the class decides, known address or not *)
    unfold expr_wf in W; cbn [expr_var] in W.
    rewrite (resolve_absx_class0 _ _ _ _ _ _ _ W H).
    unfold asm_sel0 in H; cbv zeta in H.
    destruct (v_size v =? 1)%Z; destruct (v_type v), (is_zp v), (v_const v), high; cbn -[port_offset] in H.
    all: try discriminate H.
    all: destruct m; try discriminate D; cbn -[port_offset] in H.
    all: try discriminate H.
    all: inv_emit H.
    all: cbn -[port_offset] in St; cbn -[port_offset].
    all: first [ discriminate | (exfalso; apply St; reflexivity) ].
  - (* AbsoluteY *)
    unfold expr_wf in W; cbn [expr_var] in W.
    rewrite (resolve_absy_class0 _ _ _ _ _ _ _ W H).
    unfold asm_sel0 in H; cbv zeta in H.
    destruct (v_size v =? 1)%Z; destruct (v_type v), (is_zp v), (v_const v), high; cbn -[port_offset] in H.
    all: try discriminate H.
    all: destruct m; try discriminate D; cbn -[port_offset] in H.
    all: try discriminate H.
    all: inv_emit H.
    all: cbn -[port_offset] in St; cbn -[port_offset].
    all: first [ discriminate | (exfalso; apply St; reflexivity) ].
  - discriminate O.
  - discriminate O.
Qed.
Print Assumptions asm_sel0_legal.

(** stores and read-modify-write instructions never get an immediate operand: [asm()] answers
    "Bad left value in assignement" instead *)
Theorem asm_sel_no_write_imm : forall sch m e high m' sg em,
  asm_sel sch m e high = AEmit m' sg em ->
  writes_mem m' = true ->
  shape_of (operand_of (e_op em)) <> ShImm.
Proof.
  intros sch m e high m' sg em H Wr Sh.
  apply asm_sel_emit_inv in H as [_ G].
  apply is_imm_popnd_shape in Sh. rewrite Wr, Sh in G. discriminate G.
Qed.
Print Assumptions asm_sel_no_write_imm.

(** the same with the requested mnemonic *)
Theorem asm_sel_no_write_imm_requested : forall sch m e high m' sg em,
  asm_sel sch m e high = AEmit m' sg em ->
  writes_mem m = true ->
  shape_of (operand_of (e_op em)) <> ShImm.
Proof.
  intros sch m e high m' sg em H Wr Sh.
  apply asm_sel_emit_inv in H as [H G].
  rewrite (asm_sel_guard_requested _ _ _ _ _ _ _ H) in G.
  apply is_imm_popnd_shape in Sh. rewrite Wr, Sh in G. discriminate G.
Qed.
Print Assumptions asm_sel_no_write_imm_requested.

(** with the guard the store hypothesis of [asm_sel0_legal] is a consequence *)
Theorem asm_sel_legal_strong : forall sch m e high m' sg em,
  data_mnemonic m = true -> data_operand e = true ->
  expr_wf e ->
  asm_sel sch m e high = AEmit m' sg em ->
  resolve m' (shape_of (operand_of (e_op em))) (popnd_zp e (e_op em)) <> None.
Proof.
  intros sch m e high m' sg em D O W H.
  pose proof (asm_sel_no_write_imm_requested _ _ _ _ _ _ _ H) as NW.
  apply asm_sel_emit_inv in H as [H _].
  apply (asm_sel0_legal _ _ _ _ _ _ _ D O W H).
  intros St. apply NW. destruct m; try discriminate St; reflexivity.
Qed.
Print Assumptions asm_sel_legal_strong.

Theorem asm_sel_legal : forall sch m e high m' sg em,
  data_mnemonic m = true -> data_operand e = true ->
  expr_wf e ->
  asm_sel sch m e high = AEmit m' sg em ->
  (AsmSel.is_st m = true -> shape_of (operand_of (e_op em)) <> ShImm) ->
  resolve m' (shape_of (operand_of (e_op em))) (popnd_zp e (e_op em)) <> None.
Proof.
  intros sch m e high m' sg em D O W H _. exact (asm_sel_legal_strong _ _ _ _ _ _ _ D O W H).
Qed.
Print Assumptions asm_sel_legal.

(** regression witness of the code before the guard: the store hypothesis of [asm_sel0_legal] is
    needed, [asm()] emitted [STA #0] for the high byte of an 8-bit variable, and the 6502 has no
    immediate store *)
Example asm_sel0_store_imm_unencodable :
  let v := mkVar "v" VChar false false MZeropage 1 None in
  exists em,
    asm_sel0 SOther STA (EAbsolute v true 0) true = AEmit STA false em /\
    e_op em = PNum 0 /\
    resolve STA (shape_of (operand_of (e_op em))) (popnd_zp (EAbsolute v true 0) (e_op em)) = None.
Proof. vm_compute. eexists. repeat split. Qed.
Print Assumptions asm_sel0_store_imm_unencodable.

(** ... the same request is now refused *)
Example asm_sel_store_imm_refused :
  let v := mkVar "v" VChar false false MZeropage 1 None in
  asm_sel SOther STA (EAbsolute v true 0) true = AErr "Bad left value in assignement".
Proof. vm_compute. reflexivity. Qed.
Print Assumptions asm_sel_store_imm_refused.

(** * Read-modify-write mnemonics *)

(** the ISA side: which operand shapes a read-modify-write mnemonic can take *)
Theorem resolve_rmw_iff : forall m sh zp,
  rmw_mnemonic m = true ->
  (resolve m sh zp <> None <->
   sh = ShMem \/ sh = ShMemX \/ sh = ShLabel \/ (sh = ShNone /\ shift_mnemonic m = true)).
Proof.
  intros m sh zp M.
  destruct m; try discriminate M.
  all: destruct sh, zp; cbn.
  all: split; [intros R|intros [E|[E|[E|[E S]]]]].
  all: try discriminate.
  all: try (exfalso; apply R; reflexivity).
  all: tauto.
Qed.
Print Assumptions resolve_rmw_iff.

(** [asm()] never changes a read-modify-write mnemonic *)
Theorem asm_sel0_rmw_same_mnemonic : forall sch m e high m' sg em,
  rmw_mnemonic m = true ->
  asm_sel0 sch m e high = AEmit m' sg em -> m' = m.
Proof.
  intros sch m e high m' sg em M H.
  destruct e as [ | v | s | v eight off | v | v | s | l ].
  - cbn in H. inv_emit H. reflexivity.
  - cbn in H. inv_emit H. reflexivity.
  - cbn in H. inv_emit H. reflexivity.
  - unfold asm_sel0 in H; cbv zeta in H.
    destruct (v_type v), (is_zp v), (v_const v), eight, high; cbn -[port_offset Z.add Z.ltb] in H.
    all: try discriminate H.
    all: try (destruct (v_addr v) as [a|]; [destruct (255 <? _)%Z in H|]; cbn [negb] in H).
    all: inv_emit H.
    all: reflexivity.
  - unfold asm_sel0 in H; cbv zeta in H.
    destruct (v_size v =? 1)%Z; destruct (v_type v), (is_zp v), (v_const v), high; cbn -[port_offset] in H.
    all: try discriminate H.
    all: destruct m; try discriminate M; cbn -[port_offset] in H.
    all: inv_emit H.
    all: reflexivity.
  - unfold asm_sel0 in H; cbv zeta in H.
    destruct (v_size v =? 1)%Z; destruct (v_type v), (is_zp v), (v_const v), high; cbn -[port_offset] in H.
    all: try discriminate H.
    all: destruct m; try discriminate M; cbn -[port_offset] in H.
    all: try discriminate H.
    all: inv_emit H.
    all: reflexivity.
  - destruct m; try discriminate M; cbn in H.
    all: discriminate H.
  - cbn in H. destruct m; try discriminate M; cbn in H.
    all: inv_emit H.
    all: reflexivity.
Qed.
Print Assumptions asm_sel0_rmw_same_mnemonic.

Theorem asm_sel_rmw_same_mnemonic : forall sch m e high m' sg em,
  rmw_mnemonic m = true ->
  asm_sel sch m e high = AEmit m' sg em -> m' = m.
Proof.
  intros sch m e high m' sg em M H. apply asm_sel_emit_inv in H as [H _].
  exact (asm_sel0_rmw_same_mnemonic _ _ _ _ _ _ _ M H).
Qed.
Print Assumptions asm_sel_rmw_same_mnemonic.

(** the whole picture: for a read-modify-write mnemonic, what [asm()] emits is encodable exactly
    when the emitted operand is a plain or X-indexed memory operand, a label, or nothing for a
    shift.  Everything else that is emitted (immediates before the "Bad left value" guard, [,Y],
    [(p),Y], INC/DEC with no operand) is accepted by [asm()] and has no 6502 encoding: there is no
    other guard for these mnemonics. *)
Theorem asm_sel0_rmw_exact : forall sch m e high m' sg em,
  rmw_mnemonic m = true ->
  asm_sel0 sch m e high = AEmit m' sg em ->
  (resolve m' (shape_of (operand_of (e_op em))) (popnd_zp e (e_op em)) <> None <->
   let sh := shape_of (operand_of (e_op em)) in
   sh = ShMem \/ sh = ShMemX \/ sh = ShLabel \/ (sh = ShNone /\ shift_mnemonic m = true)).
Proof.
  intros sch m e high m' sg em M H.
  rewrite (asm_sel0_rmw_same_mnemonic _ _ _ _ _ _ _ M H).
  apply resolve_rmw_iff. exact M.
Qed.
Print Assumptions asm_sel0_rmw_exact.

Theorem asm_sel_rmw_exact : forall sch m e high m' sg em,
  rmw_mnemonic m = true ->
  asm_sel sch m e high = AEmit m' sg em ->
  (resolve m' (shape_of (operand_of (e_op em))) (popnd_zp e (e_op em)) <> None <->
   let sh := shape_of (operand_of (e_op em)) in
   sh = ShMem \/ sh = ShMemX \/ sh = ShLabel \/ (sh = ShNone /\ shift_mnemonic m = true)).
Proof.
  intros sch m e high m' sg em M H.
  rewrite (asm_sel_rmw_same_mnemonic _ _ _ _ _ _ _ M H).
  apply resolve_rmw_iff. exact M.
Qed.
Print Assumptions asm_sel_rmw_exact.

(** with a temporary, a plain variable or an X-indexed variable, the emitted operand of a
    read-modify-write mnemonic has an encoding unless it degenerated to an immediate *)
Theorem asm_sel0_legal_rmw : forall sch m e high m' sg em,
  rmw_mnemonic m = true -> rmw_operand e = true ->
  asm_sel0 sch m e high = AEmit m' sg em ->
  shape_of (operand_of (e_op em)) <> ShImm ->
  resolve m' (shape_of (operand_of (e_op em))) (popnd_zp e (e_op em)) <> None.
Proof.
  intros sch m e high m' sg em M O H Sh.
  apply (asm_sel0_rmw_exact _ _ _ _ _ _ _ M H). cbv zeta.
  destruct e as [ | v | s | v eight off | v | v | s | l ]; try discriminate O.
  - (* Tmp *) cbn in H. inv_emit H. left; reflexivity.
  - (* Absolute *)
    unfold asm_sel0 in H; cbv zeta in H.
    destruct (v_type v), (is_zp v), (v_const v), eight, high; cbn -[port_offset Z.add Z.ltb] in H.
    all: try discriminate H.
    all: try (destruct (v_addr v) as [a|]; [destruct (255 <? _)%Z in H|]; cbn [negb] in H).
    all: inv_emit H.
    all: first [ left; reflexivity | (exfalso; apply Sh; reflexivity) ].
  - (* AbsoluteX *)
    unfold asm_sel0 in H; cbv zeta in H.
    destruct (v_size v =? 1)%Z; destruct (v_type v), (is_zp v), (v_const v), high; cbn -[port_offset] in H.
    all: try discriminate H.
    all: destruct m; try discriminate M; cbn -[port_offset] in H.
    all: try discriminate H.
    all: inv_emit H.
    all: first [ right; left; reflexivity | (exfalso; apply Sh; reflexivity) ].
Qed.
Print Assumptions asm_sel0_legal_rmw.

(** with the guard, nothing degenerates to an immediate any more *)
Theorem asm_sel_legal_rmw_strong : forall sch m e high m' sg em,
  rmw_mnemonic m = true -> rmw_operand e = true ->
  asm_sel sch m e high = AEmit m' sg em ->
  resolve m' (shape_of (operand_of (e_op em))) (popnd_zp e (e_op em)) <> None.
Proof.
  intros sch m e high m' sg em M O H.
  pose proof (asm_sel_no_write_imm_requested _ _ _ _ _ _ _ H) as NW.
  apply asm_sel_emit_inv in H as [H _].
  apply (asm_sel0_legal_rmw _ _ _ _ _ _ _ M O H).
  apply NW. destruct m; try discriminate M; reflexivity.
Qed.
Print Assumptions asm_sel_legal_rmw_strong.

Theorem asm_sel_legal_rmw : forall sch m e high m' sg em,
  rmw_mnemonic m = true -> rmw_operand e = true ->
  asm_sel sch m e high = AEmit m' sg em ->
  shape_of (operand_of (e_op em)) <> ShImm ->
  resolve m' (shape_of (operand_of (e_op em))) (popnd_zp e (e_op em)) <> None.
Proof.
  intros sch m e high m' sg em M O H _. exact (asm_sel_legal_rmw_strong _ _ _ _ _ _ _ M O H).
Qed.
Print Assumptions asm_sel_legal_rmw.

(** the accumulator form: shifts and rotates with no operand are encodable, INC/DEC are not *)
Theorem asm_sel_legal_shift_acc : forall sch m high,
  shift_mnemonic m = true ->
  exists em, asm_sel sch m ENothing high = AEmit m false em /\
             resolve m (shape_of (operand_of (e_op em))) (popnd_zp ENothing (e_op em)) = Some Acc.
Proof.
  intros sch m high M. destruct m; try discriminate M.
  all: eexists; split; reflexivity.
Qed.
Print Assumptions asm_sel_legal_shift_acc.


(** every Y-indexed cell is emitted and unencodable for a read-modify-write mnemonic *)
Theorem asm_sel0_rmw_y_never_legal : forall sch m v high m' sg em,
  rmw_mnemonic m = true ->
  asm_sel0 sch m (EAbsoluteY v) high = AEmit m' sg em ->
  shape_of (operand_of (e_op em)) <> ShImm ->
  resolve m' (shape_of (operand_of (e_op em))) (popnd_zp (EAbsoluteY v) (e_op em)) = None.
Proof.
  intros sch m v high m' sg em M H Sh.
  set (zp := popnd_zp _ _); clearbody zp.
  unfold asm_sel0 in H; cbv zeta in H.
  destruct (v_size v =? 1)%Z; destruct (v_type v), (is_zp v), (v_const v), high; cbn -[port_offset] in H.
  all: try discriminate H.
  all: destruct m; try discriminate M; cbn -[port_offset] in H.
  all: try discriminate H.
  all: inv_emit H.
  all: destruct zp; cbn -[port_offset] in Sh; cbn -[port_offset].
  all: first [ reflexivity | (exfalso; apply Sh; reflexivity) ].
Qed.
Print Assumptions asm_sel0_rmw_y_never_legal.

Theorem asm_sel_rmw_y_never_legal_strong : forall sch m v high m' sg em,
  rmw_mnemonic m = true ->
  asm_sel sch m (EAbsoluteY v) high = AEmit m' sg em ->
  resolve m' (shape_of (operand_of (e_op em))) (popnd_zp (EAbsoluteY v) (e_op em)) = None.
Proof.
  intros sch m v high m' sg em M H.
  pose proof (asm_sel_no_write_imm_requested _ _ _ _ _ _ _ H) as NW.
  apply asm_sel_emit_inv in H as [H _].
  apply (asm_sel0_rmw_y_never_legal _ _ _ _ _ _ _ M H).
  apply NW. destruct m; try discriminate M; reflexivity.
Qed.
Print Assumptions asm_sel_rmw_y_never_legal_strong.

Theorem asm_sel_rmw_y_never_legal : forall sch m v high m' sg em,
  rmw_mnemonic m = true ->
  asm_sel sch m (EAbsoluteY v) high = AEmit m' sg em ->
  shape_of (operand_of (e_op em)) <> ShImm ->
  resolve m' (shape_of (operand_of (e_op em))) (popnd_zp (EAbsoluteY v) (e_op em)) = None.
Proof.
  intros sch m v high m' sg em M H _. exact (asm_sel_rmw_y_never_legal_strong _ _ _ _ _ _ _ M H).
Qed.
Print Assumptions asm_sel_rmw_y_never_legal.

(** concrete cells: [INC arr,Y] on a zero-page char array, [ASL (p),Y] through a zero-page
    pointer.  [asm()] emits them with 3 resp. 2 bytes; the 6502 has neither. *)
Example asm_sel_rmw_y_unencodable :
  let arr := mkVar "arr" VChar false false MZeropage 8 None in
  let p := mkVar "p" VCharPtr false false MZeropage 1 None in
  (exists em,
     asm_sel SOther INC (EAbsoluteY arr) false = AEmit INC false em /\
     e_op em = PMem "arr" 0 IxY false /\
     print_popnd (e_op em) = "arr,Y"%string /\
     e_bytes em = 3%N /\
     resolve INC (shape_of (operand_of (e_op em))) (popnd_zp (EAbsoluteY arr) (e_op em)) = None) /\
  (exists em,
     asm_sel SOther ASL (EAbsoluteY p) false = AEmit ASL false em /\
     e_op em = PInd "p" 0 /\
     print_popnd (e_op em) = "(p),Y"%string /\
     e_bytes em = 2%N /\
     resolve ASL (shape_of (operand_of (e_op em))) (popnd_zp (EAbsoluteY p) (e_op em)) = None).
Proof. vm_compute. split; eexists; repeat split. Qed.
Print Assumptions asm_sel_rmw_y_unencodable.

(** INC/DEC with no operand are emitted as one-byte instructions and have no encoding *)
Example asm_sel_inc_implied_unencodable :
  exists em,
    asm_sel SOther INC ENothing false = AEmit INC false em /\
    e_bytes em = 1%N /\
    resolve INC (shape_of (operand_of (e_op em))) (popnd_zp ENothing (e_op em)) = None.
Proof. vm_compute. eexists. repeat split. Qed.
Print Assumptions asm_sel_inc_implied_unencodable.
