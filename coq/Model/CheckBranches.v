(** Model of [AssemblyCode::check_branches] (src/assemble.rs): the lock-step label search above and
    below a conditional branch, the [> 127] test, and the rewriting of a far branch into an
    inverted branch around a [JMP], iterated until no far branch is left. *)
From Coq Require Import String Ascii List Bool NArith Arith.
From CC Require Import Base.Str Asm.Lines.
Import ListNotations.
Open Scope string_scope.
Open Scope list_scope.

Inductive dist_result :=
| DFound (above : bool) (bytes : N)
| DPanic.               (* the [unreachable!()] of the search: label defined nowhere *)

(** [up] starts at the branch itself and goes towards the start of the function, [down] starts
    at the line after the branch.  One line of each per round, above tested first. *)
Fixpoint dist (fuel : nat) (target : string) (up down : list line) (ba bb : N) : dist_result :=
  match fuel with
  | O => DPanic
  | S fuel' =>
      let '(hit_up, ba', us) :=
        match up with
        | [] => (false, ba, [])
        | Lbl l :: us => (String.eqb l target, ba, us)
        | Inl _ s :: us => (false, (ba + s)%N, us)
        | Ins k :: us => (false, (ba + i_bytes k)%N, us)
        | _ :: us => (false, ba, us)
        end in
      if hit_up then DFound true ba'
      else
        let '(hit_down, bb', ds, down_none) :=
          match down with
          | [] => (false, bb, [], true)
          | Lbl l :: ds => (String.eqb l target, bb, ds, false)
          | Inl _ s :: ds => (false, (bb + s)%N, ds, false)
          | Ins k :: ds => (false, (bb + i_bytes k)%N, ds, false)
          | _ :: ds => (false, bb, ds, false)
          end in
        if hit_down then DFound false bb'
        else
          let up_done := match us with [] => true | _ => false end in
          if up_done && down_none then DPanic
          else dist fuel' target us ds ba' bb'
  end.

Inductive scan_result :=
| SNone                   (* no far branch: stop *)
| SFar (pre_rev : list line) (b : instr) (tail : list line)   (* first far branch *)
| SPanic.

(** scan in order for the first conditional branch whose distance is > 127 *)
Fixpoint scan (n : nat) (pre_rev : list line) (l : list line) : scan_result :=
  match l with
  | [] => SNone
  | Ins i :: r =>
      if is_cond_branch (i_mn i) then
        match dist n (i_op i) (Ins i :: pre_rev) r 0%N 0%N with
        | DPanic => SPanic
        | DFound _ d => if N.ltb 127 d then SFar pre_rev i r else scan n (Ins i :: pre_rev) r
        end
      else scan n (Ins i :: pre_rev) r
  | x :: r => scan n (x :: pre_rev) r
  end.

Definition mk_branch (m : mnem) (l : string) : line :=
  Ins (mkI m l 2%N (Some 3%N) 2%N false).
(** the BEQ of a repaired "lower or equal" pair is protected: the branch after it needs the flags of
    the same compare, which must survive a later optimisation of an inlined copy *)
Definition mk_branch_prot (m : mnem) (l : string) : line :=
  Ins (mkI m l 2%N (Some 3%N) 2%N true).
Definition mk_jmp (l : string) : line :=
  Ins (mkI JMP l 3%N None 3%N false).

(** what replaces the far branch [b] (and possibly the [BEQ] after it) *)
Definition repair (nfix : N) (b : instr) (tail : list line) : list line * list line :=
  let target := i_op b in
  let signed := mnem_eqb (i_mn b) BPL || mnem_eqb (i_mn b) BMI in
  let fixl := (".fix" ++ string_of_N nfix)%string in
  let fixup := (".fixup" ++ string_of_N nfix)%string in
  let lte_pair :=
    match tail with
    | Ins i2 :: _ => mnem_eqb (i_mn i2) BEQ && String.eqb (i_op i2) target
    | _ => false
    end in
  let ge := if signed then BPL else BCS in
  let lt := if signed then BMI else BCC in
  let '(head, tail') :=
    match i_mn b with
    | BNE => ([mk_branch BEQ fixl], tail)                 (* Neq -> Eq *)
    | BEQ => ([mk_branch BNE fixl], tail)                 (* Eq -> Neq *)
    | BMI | BCC =>
        if lte_pair
        then ([mk_branch_prot BEQ fixup; mk_branch ge fixl; Lbl fixup], List.tl tail)   (* Lte -> Gt *)
        else ([mk_branch ge fixl], tail)                  (* Lt -> Gte *)
    | _ => ([mk_branch lt fixl], tail)                    (* BPL/BCS: Gte -> Lt *)
    end in
  (head ++ [mk_jmp target; Lbl fixl], tail').

Inductive cb_result :=
| CbOk (c : code) (nfix : N)
| CbPanic
| CbOutOfFuel.

Fixpoint cb_loop (fuel : nat) (c : code) (nfix : N) : cb_result :=
  match fuel with
  | O => CbOutOfFuel
  | S f =>
      match scan (length c + 2) [] c with
      | SNone => CbOk c nfix
      | SPanic => CbPanic
      | SFar pre_rev b tail =>
          let n' := (nfix + 1)%N in
          let '(mid, tail') := repair n' b tail in
          cb_loop f (rev pre_rev ++ mid ++ tail') n'
      end
  end.

Definition check_branches (c : code) : cb_result := cb_loop (length c + 1) c 0%N.
