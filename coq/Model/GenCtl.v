(** The remaining structured statements of the code generator at -O0, as COMPOSITIONAL templates
    over arbitrary body code: [do S while (a OP b);], [for (init; a OP b; upd) S] (the body may
    [break] / [continue]: jumps to [.forendN] / [.forupdateN]) and [switch] over a memory operand
    or the X register, 8-bit unsigned.

    [pcond_code_at c lbl here] is the condition with the branch taken when it HOLDS: load, CMP and
    GenTables' [branch_seq (cond_op c) false lbl here] of the operator itself, NOT negated (the
    listing: [<] BCC head; [!=] BNE head; [<=] BCC head, BEQ head); [cond_code_at] of
    Model/GenIf.v is the one with the branch taken when it FAILS (negated operator).
      do-while :  head: body; pcond -> head; end:
      for      :  init; cond -> end; for: body; update: upd; pcond -> for; end:
    [if (c) break;] inside a loop is a single [pcond] to the end label ([break_if]).

    switch: every case [i] has the two labels [.switchnextstatementK] (its statements: the target
    of the test and of the fall-through of the previous case) and [.switchnextcaseK'] (the next
    test); the numbers come from ONE counter shared with [.switchendN]: N, then N+1 / N+2 for the
    first case, N+3 / N+4 for the second, ...; the default, always last here, gets the next
    [.switchnextstatement] number and no test.  A case with one value is tested by
    [load; CMP #v; BNE nextcase], a case with several values by [load; CMP #v; BEQ statement] per
    value, then [JMP nextcase]; on X the load and CMP are one CPX.  After the statements of a
    case, [break] is [JMP .switchendN], and for every case but the last element of the switch the
    generator ALWAYS emits the fall-through [JMP] to the next statement label, dead after a
    [break]: mirrored as the listing shows it.

    [.._at] are the sequences as functions of the labels (what Proofs/GenCtlFacts.v is about);
    [dowhile_tpl], [for_tpl], [switch_tpl] use the compiler's names.  The [.ifhere] label of the
    [>] / [<=] forms gets the statement's own number here; no listing instance uses it.
    The [Example]s pin the templates to the listing, line for line. *)
From Coq Require Import String Ascii List Bool NArith ZArith.
From CC Require Import Base.Str Asm.Lines Model.GenTables Model.GenTemplates Model.GenLoops
  Model.GenIf.
Import ListNotations.
Open Scope string_scope.
Open Scope list_scope.

(** load, compare, and jump to [lbl] when the condition HOLDS *)
Definition pcond_code_at (c : cond8) (lbl here : string) : code :=
  [ins LDA (cond_lhs c); ins CMP (cond_rhs c)] ++ branch_seq (cond_op c) false lbl here.

(** the condition with the negated operator: same operands *)
Definition cond_neg (c : cond8) : cond8 :=
  match c with
  | CVar o x y => CVar (negate_op o) x y
  | CConst o x k => CConst (negate_op o) x k
  end.

(** * do-while *)
Definition dowhile_tpl_at (c : cond8) (body : code) (lhead lend here : string) : code :=
  [Lbl lhead] ++ body ++ pcond_code_at c lhead here ++ [Lbl lend].

Definition dowhile_tpl (c : cond8) (body : code) (n : N) : code :=
  dowhile_tpl_at c body (lname ".dowhile" n) (lname ".dowhileend" n) (lname ".ifhere" n).

(** * for *)
Definition for_tpl_at (init : code) (c : cond8) (upd body : code) (lfor lupd lend here : string)
  : code :=
  init ++ cond_code_at c lend here ++ [Lbl lfor] ++ body ++ [Lbl lupd] ++ upd
  ++ pcond_code_at c lfor here ++ [Lbl lend].

Definition for_tpl (init : code) (c : cond8) (upd body : code) (n : N) : code :=
  for_tpl_at init c upd body (lname ".for" n) (lname ".forupdate" n) (lname ".forend" n)
    (lname ".ifhere" n).

(** [if (c) break;] in the body of the for loop numbered [n] *)
Definition break_if_at (c : cond8) (lend here : string) : code := pcond_code_at c lend here.
Definition break_if (c : cond8) (n : N) : code :=
  break_if_at c (lname ".forend" n) (lname ".ifhere" n).

(** * switch *)
Inductive sw_operand := SwMem (x : string) | SwX.

(** a case: its values ([case v1: case v2: ...]), its statements without the final [break], and
    whether it falls through into the next case ([true]) or ends with [break] ([false]); the type
    of the statements is a parameter (code here, assembled lines in the proofs) *)
Record sw_case (A : Type) := mkCase { sc_vals : list Z; sc_body : A; sc_falls : bool }.
Arguments mkCase {A} _ _ _.
Arguments sc_vals {A} _.
Arguments sc_body {A} _.
Arguments sc_falls {A} _.

Record sw_labels := mkSwL { sw_stmt : nat -> string; sw_next : nat -> string; sw_end : string }.

Definition sw_test1 (e : sw_operand) (v : Z) : code :=
  match e with
  | SwMem x => [ins LDA x; ins CMP (imm v)]
  | SwX => [ins CPX (imm v)]
  end.

Definition sw_test (e : sw_operand) (vals : list Z) (lstmt lnext : string) : code :=
  match vals with
  | [v] => sw_test1 e v ++ [ins BNE lnext]
  | _ => flat_map (fun v => sw_test1 e v ++ [ins BEQ lstmt]) vals ++ [ins JMP lnext]
  end.

(** case number [i]; [has_next]: something (a case or the default) follows *)
Definition sw_case_code (e : sw_operand) (L : sw_labels) (i : nat) (cse : sw_case code)
    (has_next : bool) : code :=
  sw_test e (sc_vals cse) (sw_stmt L i) (sw_next L i)
  ++ [Lbl (sw_stmt L i)] ++ sc_body cse
  ++ (if sc_falls cse then [] else [ins JMP (sw_end L)])
  ++ (if has_next then [ins JMP (sw_stmt L (S i))] else [])
  ++ [Lbl (sw_next L i)].

Fixpoint sw_cases_code (e : sw_operand) (L : sw_labels) (i : nat) (cs : list (sw_case code))
    (has_default : bool) : code :=
  match cs with
  | [] => []
  | cse :: r =>
      sw_case_code e L i cse (match r with [] => has_default | _ => true end)
      ++ sw_cases_code e L (S i) r has_default
  end.

Definition sw_default_code (L : sw_labels) (k : nat) (d : option code) : code :=
  match d with
  | Some D => [Lbl (sw_stmt L k)] ++ D
  | None => []
  end.

Definition is_some {A : Type} (o : option A) : bool := match o with Some _ => true | None => false end.

Definition switch_tpl_at (e : sw_operand) (cs : list (sw_case code)) (d : option code)
    (L : sw_labels) : code :=
  sw_cases_code e L 0 cs (is_some d) ++ sw_default_code L (length cs) d ++ [Lbl (sw_end L)].

(** the compiler's labels for the switch numbered [n] *)
Definition switch_labels (n : N) : sw_labels :=
  mkSwL (fun i => lname ".switchnextstatement" (n + 1 + 2 * N.of_nat i))
        (fun i => lname ".switchnextcase" (n + 2 + 2 * N.of_nat i))
        (lname ".switchend" n).

Definition switch_tpl (e : sw_operand) (cs : list (sw_case code)) (d : option code) (n : N)
  : code :=
  switch_tpl_at e cs d (switch_labels n).

(** * The 10 listings *)
Local Open Scope Z_scope.
(** do { c = 1; } while (a < b); *)
Example clisting_01 : map show (dowhile_tpl (CVar RLt "a" "b") (assign8 "c" 1) 1) =
  [".dowhile1:"; "LDA #1"; "STA c"; "LDA a"; "CMP b"; "BCC .dowhile1"; ".dowhileend1:"].
Proof. vm_compute. reflexivity. Qed.

(** do { a++; } while (a != b); *)
Example clisting_02 : map show (dowhile_tpl (CVar RNeq "a" "b") (template (SInc8 "a")) 1) =
  [".dowhile1:"; "INC a"; "LDA a"; "CMP b"; "BNE .dowhile1"; ".dowhileend1:"].
Proof. vm_compute. reflexivity. Qed.

(** do { a++; } while (a <= b); *)
Example clisting_03 : map show (dowhile_tpl (CVar RLte "a" "b") (template (SInc8 "a")) 1) =
  [".dowhile1:"; "INC a"; "LDA a"; "CMP b"; "BCC .dowhile1"; "BEQ .dowhile1"; ".dowhileend1:"].
Proof. vm_compute. reflexivity. Qed.

(** for (i = 0; i != b; i++) c = 1; *)
Example clisting_04 : map show (for_tpl (assign8 "i" 0) (CVar RNeq "i" "b") (template (SInc8 "i")) (assign8 "c" 1) 1) =
  ["LDA #0"; "STA i"; "LDA i"; "CMP b"; "BEQ .forend1"; ".for1:"; "LDA #1"; "STA c";
   ".forupdate1:"; "INC i"; "LDA i"; "CMP b"; "BNE .for1"; ".forend1:"].
Proof. vm_compute. reflexivity. Qed.

(** for (i = a; i < b; i++) c = 1; *)
Example clisting_05 : map show (for_tpl (template (SCopy8 "i" "a")) (CVar RLt "i" "b") (template (SInc8 "i")) (assign8 "c" 1) 1) =
  ["LDA a"; "STA i"; "LDA i"; "CMP b"; "BCS .forend1"; ".for1:"; "LDA #1"; "STA c"; ".forupdate1:";
   "INC i"; "LDA i"; "CMP b"; "BCC .for1"; ".forend1:"].
Proof. vm_compute. reflexivity. Qed.

(** for (i = 0; i != 4; i++) { if (a == b) break; c = 1; } *)
Example clisting_06 : map show (for_tpl (assign8 "i" 0) (CConst RNeq "i" 4) (template (SInc8 "i")) (break_if (CVar REq "a" "b") 1 ++ assign8 "c" 1) 1) =
  ["LDA #0"; "STA i"; "LDA i"; "CMP #4"; "BEQ .forend1"; ".for1:"; "LDA a"; "CMP b";
   "BEQ .forend1"; "LDA #1"; "STA c"; ".forupdate1:"; "INC i"; "LDA i"; "CMP #4"; "BNE .for1";
   ".forend1:"].
Proof. vm_compute. reflexivity. Qed.

(** switch (a) { case 1: c = 1; break; case 2: c = 2; break; default: c = 3; } *)
Example clisting_07 : map show (switch_tpl (SwMem "a") [mkCase [1] (assign8 "c" 1) false; mkCase [2] (assign8 "c" 2) false] (Some (assign8 "c" 3)) 1) =
  ["LDA a"; "CMP #1"; "BNE .switchnextcase3"; ".switchnextstatement2:"; "LDA #1"; "STA c";
   "JMP .switchend1"; "JMP .switchnextstatement4"; ".switchnextcase3:"; "LDA a"; "CMP #2";
   "BNE .switchnextcase5"; ".switchnextstatement4:"; "LDA #2"; "STA c"; "JMP .switchend1";
   "JMP .switchnextstatement6"; ".switchnextcase5:"; ".switchnextstatement6:"; "LDA #3"; "STA c";
   ".switchend1:"].
Proof. vm_compute. reflexivity. Qed.

(** switch (a) { case 1: c = 1; case 2: c = 2; break; } *)
Example clisting_08 : map show (switch_tpl (SwMem "a") [mkCase [1] (assign8 "c" 1) true; mkCase [2] (assign8 "c" 2) false] None 1) =
  ["LDA a"; "CMP #1"; "BNE .switchnextcase3"; ".switchnextstatement2:"; "LDA #1"; "STA c";
   "JMP .switchnextstatement4"; ".switchnextcase3:"; "LDA a"; "CMP #2"; "BNE .switchnextcase5";
   ".switchnextstatement4:"; "LDA #2"; "STA c"; "JMP .switchend1"; ".switchnextcase5:";
   ".switchend1:"].
Proof. vm_compute. reflexivity. Qed.

(** switch (a) { case 1: case 3: c = 1; break; default: c = 2; } *)
Example clisting_09 : map show (switch_tpl (SwMem "a") [mkCase [1; 3] (assign8 "c" 1) false] (Some (assign8 "c" 2)) 1) =
  ["LDA a"; "CMP #1"; "BEQ .switchnextstatement2"; "LDA a"; "CMP #3"; "BEQ .switchnextstatement2";
   "JMP .switchnextcase3"; ".switchnextstatement2:"; "LDA #1"; "STA c"; "JMP .switchend1";
   "JMP .switchnextstatement4"; ".switchnextcase3:"; ".switchnextstatement4:"; "LDA #2"; "STA c";
   ".switchend1:"].
Proof. vm_compute. reflexivity. Qed.

(** switch (X) { case 0: c = 1; break; case 5: c = 2; break; } *)
Example clisting_10 : map show (switch_tpl SwX [mkCase [0] (assign8 "c" 1) false; mkCase [5] (assign8 "c" 2) false] None 1) =
  ["CPX #0"; "BNE .switchnextcase3"; ".switchnextstatement2:"; "LDA #1"; "STA c";
   "JMP .switchend1"; "JMP .switchnextstatement4"; ".switchnextcase3:"; "CPX #5";
   "BNE .switchnextcase5"; ".switchnextstatement4:"; "LDA #2"; "STA c"; "JMP .switchend1";
   ".switchnextcase5:"; ".switchend1:"].
Proof. vm_compute. reflexivity. Qed.
