(** Specification-side definitions for the GLOBAL simulation theorems on whole PROGRAMS, with
    calls and returns (C02, C03): an executor of one function body in which [JSR f] is a step
    whose effect is given by an ORACLE and [RTS] ends the body; the program semantics that ties the
    knot (the oracle of a body at call depth [d] is the execution of the callees at depth [d + 1]);
    the side condition; the invariant of the optimiser's walk.  Proofs in
    Proofs/OptSimCallFacts.v. *)
From Coq Require Import String Ascii List Bool NArith ZArith Arith.
From CC Require Import Base.Str Asm.Lines M6502.Isa Asm.Operand M6502.Sem
     Model.Optimize Model.OptSpec Model.OptSem Model.OptSim Model.OptSimCF Model.CheckBranches.
Import ListNotations.
Open Scope Z_scope.

(** * One function body; calls are answered by an oracle *)

(** [Or f s = Some s']: the call of [f] in state [s] (the state of the caller at the JSR) comes
    back in state [s']; [None]: it does not come back *)
Definition oracle := string -> mstate -> option mstate.

(** as [OptSimCF.crun], plus: [JSR f] asks the oracle and goes to the next line; [RTS] goes to
    the virtual position [S (length c)] ("returned"), distinct from [length c] ("fell off the
    end") *)
Fixpoint grun (Or : oracle) (cfg : config) (c : code) (n : nat) (pc : nat) (s : mstate)
  : option (nat * mstate) :=
  match n with
  | O => Some (pc, s)
  | S n' =>
      match nth_error c pc with
      | Some (Lbl _) | Some (Cmt _) | Some Dummy => grun Or cfg c n' (S pc) s
      | Some (Ins i) =>
          match parse_operand (i_mn i) (i_op i) with
          | Some op =>
              match exec cfg (i_mn i) op s with
              | XOk s' _ FNext => grun Or cfg c n' (S pc) s'
              | XOk s' _ (FGoto l) =>
                  match find_lbl l c with
                  | Some k => grun Or cfg c n' k s'
                  | None => None
                  end
              | XOk s' _ (FCall f) =>
                  match Or f s' with
                  | Some s2 => grun Or cfg c n' (S pc) s2
                  | None => None
                  end
              | XOk s' _ FRet => grun Or cfg c n' (S (length c)) s'
              | _ => None
              end
          | None => None
          end
      | _ => None
      end
  end.

(** where a body ends: [true] = by an RTS, [false] = by falling off its end *)
Definition endpos (c : code) (r : bool) : nat := if r then S (length c) else length c.

Definition ghalts (Or : oracle) (cfg : config) (c : code) (s : mstate) (r : bool) (s' : mstate) : Prop :=
  exists n, grun Or cfg c n 0%nat s = Some (endpos c r, s').

(** * The side condition on a function body *)

Definition cfc_mnem (m : mnem) : bool := cf_mnem m || mnem_eqb m JSR || mnem_eqb m RTS.

Definition cfc_ins_ok (cfg : config) (i : instr) : bool :=
  cfc_mnem (i_mn i) && (if takes_label (i_mn i) then true else ins_ok cfg i) && load_wf cfg i.

Definition cfc_line_ok (cfg : config) (l : line) : bool :=
  match l with
  | Ins i => cfc_ins_ok cfg i
  | Lbl _ | Cmt _ | Dummy => true
  | Inl _ _ => false
  end.

(** labels, the straight-line instructions, conditional branches, JMP, JSR, RTS; operands as in
    [OptSim.straight_ok]; loads executable; no stack operation, no RTI, no inline assembly *)
Definition cfc_ok (cfg : config) (c : code) : bool := forallb (cfc_line_ok cfg) c.

(** * Blocks: stretches of code without a label and without a call *)

Inductive gbres :=
| GFall (s : mstate)
| GJump (l : string) (s : mstate)
| GRet (s : mstate).                 (* left by an RTS *)

Fixpoint gbexec (cfg : config) (w : code) (s : mstate) : option gbres :=
  match w with
  | [] => Some (GFall s)
  | Ins i :: r =>
      match parse_operand (i_mn i) (i_op i) with
      | Some op =>
          match exec cfg (i_mn i) op s with
          | XOk s' _ FNext => gbexec cfg r s'
          | XOk s' _ (FGoto l) => Some (GJump l s')
          | XOk s' _ FRet => Some (GRet s')
          | _ => None
          end
      | None => None
      end
  | Cmt _ :: r | Dummy :: r => gbexec cfg r s
  | _ => None
  end.

Definition gbfall (cfg : config) (w : code) (s : mstate) : option mstate :=
  match gbexec cfg w s with Some (GFall s') => Some s' | _ => None end.

(** the lines of a reversed prefix that follow its last label or JSR, in program order: after a
    call as after a label nothing is known *)
Fixpoint cblk (pre : list line) : list line :=
  match pre with
  | [] => []
  | Lbl _ :: _ => []
  | Ins i :: r => if mnem_eqb (i_mn i) JSR then [] else cblk r ++ [Ins i]
  | x :: r => cblk r ++ [x]
  end.

(** * The invariant of the optimiser's walk, for a body with calls *)

Definition cfc_equiv (Or : oracle) (cfg : config) (c c' : code) : Prop :=
  forall s r s', bytes_ok s -> ghalts Or cfg c s r s' ->
                 exists s'', ghalts Or cfg c' s r s'' /\ eq_state s'' s'.

Definition KInvC (cfg : config) (lev : bool) (pre : list line) (f : instr) (k : know) : Prop :=
  forall t s2, bytes_ok t -> gbfall cfg (cblk pre ++ [Ins f]) t = Some s2 ->
               know_sound cfg (if lev then kregs k else k) s2.

Definition InvCall (Or : oracle) (cfg : config) (c0 : code) (z : zst) : Prop :=
  cfc_ok cfg (z_code z) = true /\
  forallb skip_line (z_mid z) = true /\
  NoDup (lbls (z_code z)) /\
  know_ops_ok cfg (z_k z) /\
  (i_mn (z_f z) = JMP \/ i_mn (z_f z) = JSR -> z_k z = k_none) /\
  cfc_equiv Or cfg c0 (z_code z) /\
  KInvC cfg (pswap z) (z_pre z) (z_f z) (z_k z).

(** * Programs *)

Definition cprog := list (string * code).

Fixpoint find_code (f : string) (P : cprog) : option code :=
  match P with
  | [] => None
  | (n, c) :: r => if String.eqb n f then Some c else find_code f r
  end.

(** what [Sem.run] does at a JSR (the two marker bytes: the call depth and its complement) and
    at the matching RTS *)
Definition push2 (s : mstate) (d : nat) : mstate :=
  let dz := Z.of_nat d in push (push s (byte dz)) (byte (255 - dz)).

Definition check2 (s : mstate) (d : nat) : option mstate :=
  let dz := Z.of_nat d in
  let '(s1, lo) := pull s in
  let '(s2, hi) := pull s1 in
  if (lo =? byte (255 - dz)) && (hi =? byte dz) then Some s2 else None.

(** the state in which a body started in [s] returns, within [fuel] lines *)
Fixpoint gfind (Or : oracle) (cfg : config) (c : code) (s : mstate) (fuel : nat) : option mstate :=
  match grun Or cfg c fuel 0%nat s with
  | Some (pc, s2) =>
      if Nat.eqb pc (S (length c)) then Some s2
      else match fuel with O => None | S f => gfind Or cfg c s f end
  | None => match fuel with O => None | S f => gfind Or cfg c s f end
  end.

(** the effect of [JSR f] executed when the call stack has [d - 1] frames ([d] after the push);
    [K] bounds the nesting of calls and the length of each body's run *)
Fixpoint call (cfg : config) (P : cprog) (K : nat) (d : nat) (f : string) (s : mstate) : option mstate :=
  match K with
  | O => None
  | S K' =>
      match find_code f P with
      | Some c =>
          match gfind (call cfg P K' (S d)) cfg c (push2 s d) K' with
          | Some s2 => check2 s2 d
          | None => None
          end
      | None => None
      end
  end.

(** the program halts: [main], entered with an empty call stack, ends (RTS or falls off its end) *)
Definition phalts (cfg : config) (P : cprog) (main : string) (s s' : mstate) : Prop :=
  exists c K r, find_code main P = Some c /\ ghalts (call cfg P K 1%nat) cfg c s r s'.

(** per function, as the compiler does *)
Definition map_prog (F : code -> code) (P : cprog) : cprog := map (fun fc => (fst fc, F (snd fc))) P.

Definition opt_prog (P : cprog) : cprog := map_prog (fun c => fst (optimize c)) P.

Definition cb_fun (c : code) : code := match check_branches c with CbOk c' _ => c' | _ => c end.
Definition cb_prog (P : cprog) : cprog := map_prog cb_fun P.

(** every function body satisfies [Q] *)
Definition all_bodies (Q : code -> Prop) (P : cprog) : Prop := forall f c, In (f, c) P -> Q c.

(** the sline translation of a program, for [Sem.run] *)
Fixpoint sprog_of (P : cprog) : option sprogram :=
  match P with
  | [] => Some []
  | (f, c) :: r =>
      match slines_of c, sprog_of r with
      | Some sl, Some sr => Some ((f, sl) :: sr)
      | _, _ => None
      end
  end.

(** [Sem.run_function] on the translated program, whatever the inline/external semantics, halts
    normally in [s'] for every sufficient fuel *)
Definition run_halts (cfg : config) (P : cprog) (main : string) (s s' : mstate) : Prop :=
  exists sp, sprog_of P = Some sp /\
    forall inl_sem ext_call, exists N : nat, forall fuel, (N < fuel)%nat ->
      exists tr cy, run_function cfg sp inl_sem ext_call fuel main s = Halt s' tr cy.
