(** String helpers shared by the models: the Rust [str] methods the code uses. *)
From Coq Require Import String Ascii List Bool Arith NArith ZArith Lia.
Import ListNotations.
Open Scope string_scope.

Fixpoint starts_with (p s : string) : bool :=
  match p with
  | EmptyString => true
  | String a p' => match s with
                   | EmptyString => false
                   | String b s' => Ascii.eqb a b && starts_with p' s'
                   end
  end.

Fixpoint rev_string_aux (s acc : string) : string :=
  match s with
  | EmptyString => acc
  | String a s' => rev_string_aux s' (String a acc)
  end.
Definition rev_string (s : string) : string := rev_string_aux s EmptyString.

Definition ends_with (suffix s : string) : bool :=
  starts_with (rev_string suffix) (rev_string s).

(** decimal printing of N, as Rust's [{}] on unsigned integers *)
Fixpoint dec_digits (fuel : nat) (n : N) (acc : string) : string :=
  match fuel with
  | O => acc
  | S f =>
      let d := N.modulo n 10 in
      let q := N.div n 10 in
      let acc' := String (ascii_of_N (48 + d)) acc in
      if N.eqb q 0 then acc' else dec_digits f q acc'
  end.
(** fuel: a number has no more decimal digits than binary digits *)
Definition string_of_N (n : N) : string := dec_digits (S (N.size_nat n)) n EmptyString.
Definition string_of_Z (z : Z) : string :=
  match z with
  | Z0 => "0"
  | Zpos p => string_of_N (Npos p)
  | Zneg p => "-" ++ string_of_N (Npos p)
  end.

Definition is_digit (a : ascii) : bool :=
  let n := N_of_ascii a in N.leb 48 n && N.leb n 57.
Definition is_alpha (a : ascii) : bool :=
  let n := N_of_ascii a in
  (N.leb 65 n && N.leb n 90) || (N.leb 97 n && N.leb n 122).
Definition is_ident_char (a : ascii) : bool :=
  is_digit a || is_alpha a || Ascii.eqb a "_"%char.

(** parse an unsigned decimal; [None] on empty or non-digit *)
Fixpoint parse_dec_aux (s : string) (acc : N) : option N :=
  match s with
  | EmptyString => Some acc
  | String a s' =>
      if is_digit a then parse_dec_aux s' (acc * 10 + (N_of_ascii a - 48)) else None
  end.
Definition parse_dec (s : string) : option N :=
  match s with
  | EmptyString => None
  | _ => parse_dec_aux s 0
  end.

(** split at the first occurrence of a character *)
Fixpoint split_at_char (c : ascii) (s : string) : option (string * string) :=
  match s with
  | EmptyString => None
  | String a s' =>
      if Ascii.eqb a c then Some (EmptyString, s')
      else match split_at_char c s' with
           | Some (l, r) => Some (String a l, r)
           | None => None
           end
  end.

Fixpoint string_drop (n : nat) (s : string) : string :=
  match n, s with
  | O, _ => s
  | S n', String _ s' => string_drop n' s'
  | S _, EmptyString => EmptyString
  end.

Fixpoint string_take (n : nat) (s : string) : string :=
  match n, s with
  | O, _ => EmptyString
  | S n', String a s' => String a (string_take n' s')
  | S _, EmptyString => EmptyString
  end.

Definition strip_suffix (suffix s : string) : option string :=
  if ends_with suffix s then Some (string_take (String.length s - String.length suffix) s) else None.

Definition strip_prefix (p s : string) : option string :=
  if starts_with p s then Some (string_drop (String.length p) s) else None.
