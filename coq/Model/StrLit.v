(** Model of [compile_quoted_string_ex] / [compile_quoted_string] and of the quoted-character
    case of [parse_int] (src/compile.rs): escape decoding and NUL termination. *)
From Coq Require Import String Ascii List Bool NArith.
From CC Require Import Base.Str.
Import ListNotations.
Open Scope string_scope.

Definition chr (n : nat) : ascii := ascii_of_nat n.

(** the code an escape character denotes in the compiler (after the repair of \f) *)
Definition escape_code (c : ascii) : ascii :=
  if Ascii.eqb c "0" then chr 0
  else if Ascii.eqb c "n" then chr 10
  else if Ascii.eqb c "r" then chr 13
  else if Ascii.eqb c "a" then chr 7
  else if Ascii.eqb c "b" then chr 8
  else if Ascii.eqb c "t" then chr 9
  else if Ascii.eqb c "f" then chr 12
  else if Ascii.eqb c "v" then chr 11
  else c.

Fixpoint decode (s : string) : string :=
  match s with
  | EmptyString => EmptyString
  | String a r =>
      if Ascii.eqb a "\" then
        match r with
        | String e r' => String (escape_code e) (decode r')
        | EmptyString => EmptyString            (* a lone trailing backslash is dropped *)
        end
      else String a (decode r)
  end.

(** adjacent literals concatenate; exactly one NUL at the end *)
Definition compile_quoted_string (pieces : list string) : string :=
  String.concat "" (map decode pieces) ++ String (chr 0) "".

(** a character constant: the first decoded character *)
Definition quoted_character (s : string) : option ascii :=
  match decode s with String a _ => Some a | EmptyString => None end.

(** ** specification: C's simple escape sequences *)
Definition c_escape (c : ascii) : option nat :=
  if Ascii.eqb c "n" then Some 10 else if Ascii.eqb c "r" then Some 13
  else if Ascii.eqb c "t" then Some 9 else if Ascii.eqb c "a" then Some 7
  else if Ascii.eqb c "b" then Some 8 else if Ascii.eqb c "f" then Some 12
  else if Ascii.eqb c "v" then Some 11 else if Ascii.eqb c "0" then Some 0
  else if Ascii.eqb c "\" then Some 92 else if Ascii.eqb c """" then Some 34
  else if Ascii.eqb c "'" then Some 39 else if Ascii.eqb c "?" then Some 63
  else None.

(** a well-formed C string-literal body (only the simple escapes above), decoded by C's rules *)
Fixpoint c_decode (s : string) : option string :=
  match s with
  | EmptyString => Some EmptyString
  | String a r =>
      if Ascii.eqb a "\" then
        match r with
        | String e r' =>
            match c_escape e, c_decode r' with
            | Some n, Some t => Some (String (chr n) t)
            | _, _ => None
            end
        | EmptyString => None
        end
      else if Ascii.eqb a """" then None
      else match c_decode r with Some t => Some (String a t) | None => None end
  end.
