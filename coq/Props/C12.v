(** C12 — call graph and in-use set are complete.  Statements only (proofs: Proofs/CallGraphFacts.v). *)
From Coq Require Import String List Bool Arith.
From CC Require Import Model.CallGraph Proofs.CallGraphFacts.
Import ListNotations.

(** the published in-use set is exactly the set of functions reachable from the roots (main and
    the interrupt handlers) through the published call tree — every finite tree: cycles,
    self-calls, names missing from the tree, duplicated entries *)
Theorem C12_in_use_is_reachability : forall (t : tree) (roots : list string) (f : string),
  In f (in_use t roots) <-> reach t roots f.
Proof. exact in_use_is_reachability. Qed.

Theorem C12_in_use_nodup : forall t roots, NoDup (in_use t roots).
Proof. exact in_use_nodup. Qed.

(** non-vacuity / sanity: a cycle and an unreachable function *)
Example C12_example :
  in_use [("main", ["f"]); ("f", ["g"]); ("g", ["f"]); ("h", ["g"])]%string ["main"]%string
  = ["g"; "f"; "main"]%string.
Proof. vm_compute. reflexivity. Qed.
