(** C01 — emitted 6502 code computes what the C source says.
    What is proved here concerns the comparison lowering of the generator
    (src/generate/generate_conditions.rs), modelled by Model/GenTables.v and compared with the real
    generator cell by cell (corr-M, tools/props/c01.py): the branch sequences emitted after CMP
    (or after a load, for a comparison with 0) reach their label exactly when the C relation holds.
    The statements that are FALSE of the faithful model are stated as refutations: they are the
    known findings F-C01-signed8-compare and F-C01-cmp-order-zero.  The generator as a whole is not
    modelled: the rest of C01 is decided by co-execution (see DESIGN.md), hence "partial". *)
From Coq Require Import String List Bool NArith ZArith Lia.
From CC Require Import Base.Str Asm.Lines M6502.Isa Asm.Operand M6502.Sem Model.CheckBranches
  Model.CbSpec Model.GenTables Proofs.GenTablesFacts.
Import ListNotations.
Open Scope Z_scope.

(** the flags CMP leaves, for all bytes *)
Theorem C01_cmp_flags : forall s a b, 0 <= a < 256 -> 0 <= b < 256 ->
  fC (cmp s a b) = (b <=? a) /\ fZ (cmp s a b) = (a =? b) /\ fN (cmp s a b) = bit7 (byte (a - b)).
Proof. exact cmp_flags_spec. Qed.

(** unsigned comparisons: the sequence emitted for [o] jumps to [label] iff [a o b], all bytes *)
Theorem C01_unsigned_compare_correct : forall o s a b label here,
  0 <= a < 256 -> 0 <= b < 256 -> label <> here ->
  frag_flow 8 (cmp s a b) (branch_seq o false label here)
  = if rel_holds o a b then ExitLabel label else ExitFall.
Proof. exact branch_seq_unsigned_correct. Qed.

(** signed comparisons are right when the 8-bit subtraction does not overflow ... *)
Theorem C01_signed_compare_correct_partial : forall o s a b label here,
  0 <= a < 256 -> 0 <= b < 256 -> label <> here ->
  -128 <= sgn a - sgn b <= 127 ->
  frag_flow 8 (cmp s a b) (branch_seq o true label here)
  = if rel_holds o (sgn a) (sgn b) then ExitLabel label else ExitFall.
Proof. exact branch_seq_signed_correct. Qed.

(** ... and wrong otherwise: the full statement is refuted (known finding F-C01-signed8-compare;
    the witness -128 < 1 is replayed on the real compiler by the check) *)
Theorem C01_signed_compare_refuted :
  ~ (forall o s a b label here, 0 <= a < 256 -> 0 <= b < 256 -> label <> here ->
       frag_flow 8 (cmp s a b) (branch_seq o true label here)
       = if rel_holds o (sgn a) (sgn b) then ExitLabel label else ExitFall).
Proof. exact branch_seq_signed_needs_no_overflow. Qed.

(** comparison with 0 from the flags of a load (no CMP): signed operands, all six operators *)
Theorem C01_zero_compare_signed_correct : forall o s v label here, 0 <= v < 256 -> label <> here ->
  frag_flow 8 (set_nz s v) (branch_seq_alt o true label here)
  = if rel_holds o (sgn v) 0 then ExitLabel label else ExitFall.
Proof. exact branch_seq_alt_signed_correct. Qed.

(** unsigned operands: == != <= are right for all bytes; < > >= are exactly the wrong cells
    (known finding F-C01-cmp-order-zero) *)
Theorem C01_zero_compare_unsigned_cells : forall o,
  (forall s v label here, 0 <= v < 256 -> label <> here ->
     frag_flow 8 (set_nz s v) (branch_seq_alt o false label here)
     = if rel_holds o v 0 then ExitLabel label else ExitFall)
  <-> alt_unsigned_ok o = true.
Proof. exact branch_seq_alt_unsigned_cells. Qed.

(** the negation table (if / while / for test the negated condition) and the operand-swap table
    (constant or register on the left) are right for all integers *)
Theorem C01_negate_table : forall o a b, rel_holds (negate_op o) a b = negb (rel_holds o a b).
Proof. exact negate_op_correct. Qed.

Theorem C01_swap_table : forall o a b, rel_holds (switch_op o) b a = rel_holds o a b.
Proof. exact switch_op_correct. Qed.


(** * Lowering templates (Model/GenTemplates.v): the exact instruction sequences the generator emits
    for 39 statement forms (compared with the real generator's output on every run by
    tools/lib/gentpl.py), each proved on the 6502 semantics ([Sem.run]) to compute the C value for
    ALL machine states: the destination gets the value, no other cell changes, X Y S are kept.
    Proofs in Proofs/GenTemplatesFacts.v. *)
From CC Require Import Model.Optimize Model.OptSem Model.GenTemplates Proofs.GenTemplatesFacts.

Theorem C01_tpl_copy8 : forall cfg dst x pd px st,
  ports cfg = [] -> var_name dst -> var_name x ->
  layout cfg dst = Some pd -> layout cfg x = Some px ->
  0 <= pd < 65536 -> 0 <= px < 65536 ->
  exists st', runs_to cfg (template (SCopy8 dst x)) st st' /\
    mget (mem st') pd = mget (mem st) px /\
    only_changes [pd] st st' /\ keeps_xys st st'.
Proof. exact copy8_correct. Qed.

Theorem C01_tpl_add8 : forall cfg dst x y pd px py st,
  ports cfg = [] -> var_name dst -> var_name x -> var_name y ->
  layout cfg dst = Some pd -> layout cfg x = Some px -> layout cfg y = Some py ->
  0 <= pd < 65536 -> 0 <= px < 65536 -> 0 <= py < 65536 ->
  exists st', runs_to cfg (template (SAdd8 dst x y)) st st' /\
    mget (mem st') pd = (mget (mem st) px + mget (mem st) py) mod 256 /\
    only_changes [pd] st st' /\ keeps_xys st st'.
Proof. exact add8_correct. Qed.

Theorem C01_tpl_sub8 : forall cfg dst x y pd px py st,
  ports cfg = [] -> var_name dst -> var_name x -> var_name y ->
  layout cfg dst = Some pd -> layout cfg x = Some px -> layout cfg y = Some py ->
  0 <= pd < 65536 -> 0 <= px < 65536 -> 0 <= py < 65536 ->
  exists st', runs_to cfg (template (SSub8 dst x y)) st st' /\
    mget (mem st') pd = (mget (mem st) px - mget (mem st) py) mod 256 /\
    only_changes [pd] st st' /\ keeps_xys st st'.
Proof. exact sub8_correct. Qed.

Theorem C01_tpl_and8 : forall cfg dst x y pd px py st,
  ports cfg = [] -> var_name dst -> var_name x -> var_name y ->
  layout cfg dst = Some pd -> layout cfg x = Some px -> layout cfg y = Some py ->
  0 <= pd < 65536 -> 0 <= px < 65536 -> 0 <= py < 65536 ->
  exists st', runs_to cfg (template (SAnd8 dst x y)) st st' /\
    mget (mem st') pd = Z.land (mget (mem st) px) (mget (mem st) py) /\
    only_changes [pd] st st' /\ keeps_xys st st'.
Proof. exact and8_correct. Qed.

Theorem C01_tpl_or8 : forall cfg dst x y pd px py st,
  ports cfg = [] -> var_name dst -> var_name x -> var_name y ->
  layout cfg dst = Some pd -> layout cfg x = Some px -> layout cfg y = Some py ->
  0 <= pd < 65536 -> 0 <= px < 65536 -> 0 <= py < 65536 ->
  exists st', runs_to cfg (template (SOr8 dst x y)) st st' /\
    mget (mem st') pd = Z.lor (mget (mem st) px) (mget (mem st) py) /\
    only_changes [pd] st st' /\ keeps_xys st st'.
Proof. exact or8_correct. Qed.

Theorem C01_tpl_xor8 : forall cfg dst x y pd px py st,
  ports cfg = [] -> var_name dst -> var_name x -> var_name y ->
  layout cfg dst = Some pd -> layout cfg x = Some px -> layout cfg y = Some py ->
  0 <= pd < 65536 -> 0 <= px < 65536 -> 0 <= py < 65536 ->
  exists st', runs_to cfg (template (SXor8 dst x y)) st st' /\
    mget (mem st') pd = Z.lxor (mget (mem st) px) (mget (mem st) py) /\
    only_changes [pd] st st' /\ keeps_xys st st'.
Proof. exact xor8_correct. Qed.

Theorem C01_tpl_addconst8 : forall cfg dst x k pd px st,
  ports cfg = [] -> var_name dst -> var_name x ->
  layout cfg dst = Some pd -> layout cfg x = Some px ->
  0 <= pd < 65536 -> 0 <= px < 65536 -> 0 <= k < 256 ->
  exists st', runs_to cfg (template (SAddConst8 dst x k)) st st' /\
    mget (mem st') pd = (mget (mem st) px + k) mod 256 /\
    only_changes [pd] st st' /\ keeps_xys st st'.
Proof. exact addconst8_correct. Qed.

Theorem C01_tpl_inc8 : forall cfg v pv st,
  ports cfg = [] -> var_name v -> layout cfg v = Some pv -> 0 <= pv < 65536 ->
  exists st', runs_to cfg (template (SInc8 v)) st st' /\
    mget (mem st') pv = (mget (mem st) pv + 1) mod 256 /\
    only_changes [pv] st st' /\ keeps_xys st st'.
Proof. exact inc8_correct. Qed.

Theorem C01_tpl_dec8 : forall cfg v pv st,
  ports cfg = [] -> var_name v -> layout cfg v = Some pv -> 0 <= pv < 65536 ->
  exists st', runs_to cfg (template (SDec8 v)) st st' /\
    mget (mem st') pv = (mget (mem st) pv - 1) mod 256 /\
    only_changes [pv] st st' /\ keeps_xys st st'.
Proof. exact dec8_correct. Qed.

Theorem C01_tpl_addassign8 : forall cfg v x pv px st,
  ports cfg = [] -> var_name v -> var_name x ->
  layout cfg v = Some pv -> layout cfg x = Some px ->
  0 <= pv < 65536 -> 0 <= px < 65536 ->
  exists st', runs_to cfg (template (SAddAssign8 v x)) st st' /\
    mget (mem st') pv = (mget (mem st) pv + mget (mem st) px) mod 256 /\
    only_changes [pv] st st' /\ keeps_xys st st'.
Proof. exact addassign8_correct. Qed.

Theorem C01_tpl_subassign8 : forall cfg v x pv px st,
  ports cfg = [] -> var_name v -> var_name x ->
  layout cfg v = Some pv -> layout cfg x = Some px ->
  0 <= pv < 65536 -> 0 <= px < 65536 ->
  exists st', runs_to cfg (template (SSubAssign8 v x)) st st' /\
    mget (mem st') pv = (mget (mem st) pv - mget (mem st) px) mod 256 /\
    only_changes [pv] st st' /\ keeps_xys st st'.
Proof. exact subassign8_correct. Qed.

Theorem C01_tpl_neg8 : forall cfg dst x pd px st,
  ports cfg = [] -> var_name dst -> var_name x ->
  layout cfg dst = Some pd -> layout cfg x = Some px ->
  0 <= pd < 65536 -> 0 <= px < 65536 ->
  exists st', runs_to cfg (template (SNeg8 dst x)) st st' /\
    mget (mem st') pd = (256 - mget (mem st) px) mod 256 /\
    only_changes [pd] st st' /\ keeps_xys st st'.
Proof. exact neg8_correct. Qed.

Theorem C01_tpl_not8 : forall cfg dst x pd px st,
  ports cfg = [] -> var_name dst -> var_name x ->
  layout cfg dst = Some pd -> layout cfg x = Some px ->
  0 <= pd < 65536 -> 0 <= px < 65536 -> bytes_ok st ->
  exists st', runs_to cfg (template (SNot8 dst x)) st st' /\
    mget (mem st') pd = 255 - mget (mem st) px /\
    only_changes [pd] st st' /\ keeps_xys st st'.
Proof. exact not8_correct. Qed.

Theorem C01_tpl_shl8 : forall cfg dst x n pd px st,
  ports cfg = [] -> var_name dst -> var_name x ->
  layout cfg dst = Some pd -> layout cfg x = Some px ->
  0 <= pd < 65536 -> 0 <= px < 65536 -> bytes_ok st ->
  exists st', runs_to cfg (template (SShl8 dst x n)) st st' /\
    mget (mem st') pd = (mget (mem st) px * 2 ^ Z.of_nat n) mod 256 /\
    only_changes [pd] st st' /\ keeps_xys st st'.
Proof. exact shl8_correct. Qed.

Theorem C01_tpl_shr8 : forall cfg dst x n pd px st,
  ports cfg = [] -> var_name dst -> var_name x ->
  layout cfg dst = Some pd -> layout cfg x = Some px ->
  0 <= pd < 65536 -> 0 <= px < 65536 -> bytes_ok st ->
  exists st', runs_to cfg (template (SShr8 dst x n)) st st' /\
    mget (mem st') pd = mget (mem st) px / 2 ^ Z.of_nat n /\
    only_changes [pd] st st' /\ keeps_xys st st'.
Proof. exact shr8_correct. Qed.

Theorem C01_tpl_sar8_1 : forall cfg dst x pd px st,
  ports cfg = [] -> var_name dst -> var_name x ->
  layout cfg dst = Some pd -> layout cfg x = Some px ->
  0 <= pd < 65536 -> 0 <= px < 65536 -> bytes_ok st ->
  exists st', runs_to cfg (template (SSar8_1 dst x)) st st' /\
    mget (mem st') pd = mget (mem st) px / 2 + (if 128 <=? mget (mem st) px then 128 else 0) /\
    only_changes [pd] st st' /\ keeps_xys st st'.
Proof. exact sar8_1_correct. Qed.

Theorem C01_tpl_loadx : forall cfg v pv st,
  ports cfg = [] -> var_name v -> layout cfg v = Some pv -> 0 <= pv < 65536 ->
  exists st', runs_to cfg (template (SLoadX v)) st st' /\
    rX st' = mget (mem st) pv /\
    only_changes [] st st' /\ rY st' = rY st /\ rS st' = rS st.
Proof. exact loadx_correct. Qed.

Theorem C01_tpl_loady : forall cfg v pv st,
  ports cfg = [] -> var_name v -> layout cfg v = Some pv -> 0 <= pv < 65536 ->
  exists st', runs_to cfg (template (SLoadY v)) st st' /\
    rY st' = mget (mem st) pv /\
    only_changes [] st st' /\ rX st' = rX st /\ rS st' = rS st.
Proof. exact loady_correct. Qed.

Theorem C01_tpl_storex : forall cfg v pv st,
  ports cfg = [] -> var_name v -> layout cfg v = Some pv -> 0 <= pv < 65536 ->
  exists st', runs_to cfg (template (SStoreX v)) st st' /\
    mget (mem st') pv = rX st /\
    only_changes [pv] st st' /\ keeps_xys st st'.
Proof. exact storex_correct. Qed.

Theorem C01_tpl_storey : forall cfg v pv st,
  ports cfg = [] -> var_name v -> layout cfg v = Some pv -> 0 <= pv < 65536 ->
  exists st', runs_to cfg (template (SStoreY v)) st st' /\
    mget (mem st') pv = rY st /\
    only_changes [pv] st st' /\ keeps_xys st st'.
Proof. exact storey_correct. Qed.

Theorem C01_tpl_copy16 : forall cfg dst x pd px st,
  ports cfg = [] -> var_name dst -> var_name x ->
  layout cfg dst = Some pd -> layout cfg x = Some px ->
  0 <= pd -> pd + 1 < 65536 -> 0 <= px -> px + 1 < 65536 ->
  pd <> px + 1 ->
  exists st', runs_to cfg (template (SCopy16 dst x)) st st' /\
    mget (mem st') pd = mget (mem st) px /\ mget (mem st') (pd + 1) = mget (mem st) (px + 1) /\
    word (mem st') pd = word (mem st) px /\
    only_changes [pd; pd + 1] st st' /\ keeps_xys st st'.
Proof. exact copy16_correct. Qed.

Theorem C01_tpl_add16 : forall cfg dst x y pd px py st,
  ports cfg = [] -> var_name dst -> var_name x -> var_name y ->
  layout cfg dst = Some pd -> layout cfg x = Some px -> layout cfg y = Some py ->
  0 <= pd -> pd + 1 < 65536 -> 0 <= px -> px + 1 < 65536 -> 0 <= py -> py + 1 < 65536 ->
  pd <> px + 1 -> pd <> py + 1 -> bytes_ok st ->
  exists st', runs_to cfg (template (SAdd16 dst x y)) st st' /\
    word (mem st') pd = (word (mem st) px + word (mem st) py) mod 65536 /\
    only_changes [pd; pd + 1] st st' /\ keeps_xys st st'.
Proof. exact add16_correct. Qed.

Theorem C01_tpl_sub16 : forall cfg dst x y pd px py st,
  ports cfg = [] -> var_name dst -> var_name x -> var_name y ->
  layout cfg dst = Some pd -> layout cfg x = Some px -> layout cfg y = Some py ->
  0 <= pd -> pd + 1 < 65536 -> 0 <= px -> px + 1 < 65536 -> 0 <= py -> py + 1 < 65536 ->
  pd <> px + 1 -> pd <> py + 1 -> bytes_ok st ->
  exists st', runs_to cfg (template (SSub16 dst x y)) st st' /\
    word (mem st') pd = (word (mem st) px - word (mem st) py) mod 65536 /\
    only_changes [pd; pd + 1] st st' /\ keeps_xys st st'.
Proof. exact sub16_correct. Qed.

Theorem C01_tpl_and16 : forall cfg dst x y pd px py st,
  ports cfg = [] -> var_name dst -> var_name x -> var_name y ->
  layout cfg dst = Some pd -> layout cfg x = Some px -> layout cfg y = Some py ->
  0 <= pd -> pd + 1 < 65536 -> 0 <= px -> px + 1 < 65536 -> 0 <= py -> py + 1 < 65536 ->
  pd <> px + 1 -> pd <> py + 1 -> bytes_ok st ->
  exists st', runs_to cfg (template (SAnd16 dst x y)) st st' /\
    mget (mem st') pd = Z.land (mget (mem st) px) (mget (mem st) py) /\
    mget (mem st') (pd + 1) = Z.land (mget (mem st) (px + 1)) (mget (mem st) (py + 1)) /\
    word (mem st') pd = Z.land (word (mem st) px) (word (mem st) py) /\
    only_changes [pd; pd + 1] st st' /\ keeps_xys st st'.
Proof. exact and16_correct. Qed.

Theorem C01_tpl_or16 : forall cfg dst x y pd px py st,
  ports cfg = [] -> var_name dst -> var_name x -> var_name y ->
  layout cfg dst = Some pd -> layout cfg x = Some px -> layout cfg y = Some py ->
  0 <= pd -> pd + 1 < 65536 -> 0 <= px -> px + 1 < 65536 -> 0 <= py -> py + 1 < 65536 ->
  pd <> px + 1 -> pd <> py + 1 -> bytes_ok st ->
  exists st', runs_to cfg (template (SOr16 dst x y)) st st' /\
    mget (mem st') pd = Z.lor (mget (mem st) px) (mget (mem st) py) /\
    mget (mem st') (pd + 1) = Z.lor (mget (mem st) (px + 1)) (mget (mem st) (py + 1)) /\
    word (mem st') pd = Z.lor (word (mem st) px) (word (mem st) py) /\
    only_changes [pd; pd + 1] st st' /\ keeps_xys st st'.
Proof. exact or16_correct. Qed.

Theorem C01_tpl_inc16 : forall cfg v lbl pv st,
  ports cfg = [] -> var_name v -> lbl <> ""%string -> layout cfg v = Some pv ->
  0 <= pv -> pv + 1 < 65536 -> bytes_ok st ->
  exists st', runs_to cfg (template (SInc16 v lbl)) st st' /\
    word (mem st') pv = (word (mem st) pv + 1) mod 65536 /\
    only_changes [pv; pv + 1] st st' /\ keeps_xys st st'.
Proof. exact inc16_correct. Qed.

Theorem C01_tpl_dec16 : forall cfg v lbl pv st,
  ports cfg = [] -> var_name v -> lbl <> ""%string -> layout cfg v = Some pv ->
  0 <= pv -> pv + 1 < 65536 -> bytes_ok st ->
  exists st', runs_to cfg (template (SDec16 v lbl)) st st' /\
    word (mem st') pv = (word (mem st) pv - 1) mod 65536 /\
    only_changes [pv; pv + 1] st st' /\ keeps_xys st st'.
Proof. exact dec16_correct. Qed.

Theorem C01_tpl_addconst16 : forall cfg v k pv st,
  ports cfg = [] -> var_name v -> layout cfg v = Some pv ->
  0 <= pv -> pv + 1 < 65536 -> 0 <= k < 65536 -> bytes_ok st ->
  exists st', runs_to cfg (template (SAddConst16 v k)) st st' /\
    word (mem st') pv = (word (mem st) pv + k) mod 65536 /\
    only_changes [pv; pv + 1] st st' /\ keeps_xys st st'.
Proof. exact addconst16_correct. Qed.

Theorem C01_tpl_subconst16 : forall cfg v k pv st,
  ports cfg = [] -> var_name v -> layout cfg v = Some pv ->
  0 <= pv -> pv + 1 < 65536 -> 0 <= k < 65536 -> bytes_ok st ->
  exists st', runs_to cfg (template (SSubConst16 v k)) st st' /\
    word (mem st') pv = (word (mem st) pv - k) mod 65536 /\
    only_changes [pv; pv + 1] st st' /\ keeps_xys st st'.
Proof. exact subconst16_correct. Qed.

Theorem C01_tpl_zext : forall cfg dst x pd px st,
  ports cfg = [] -> var_name dst -> var_name x ->
  layout cfg dst = Some pd -> layout cfg x = Some px ->
  0 <= pd -> pd + 1 < 65536 -> 0 <= px < 65536 ->
  exists st', runs_to cfg (template (SZext dst x)) st st' /\
    mget (mem st') pd = mget (mem st) px /\ mget (mem st') (pd + 1) = 0 /\
    word (mem st') pd = mget (mem st) px /\
    only_changes [pd; pd + 1] st st' /\ keeps_xys st st'.
Proof. exact zext_correct. Qed.

Theorem C01_tpl_sext : forall cfg dst x lbl pd px st,
  ports cfg = [] -> var_name dst -> var_name x -> lbl <> ""%string ->
  layout cfg dst = Some pd -> layout cfg x = Some px ->
  0 <= pd -> pd + 1 < 65536 -> 0 <= px < 65536 -> bytes_ok st ->
  exists st', runs_to cfg (template (SSext dst x lbl)) st st' /\
    mget (mem st') pd = mget (mem st) px /\
    mget (mem st') (pd + 1) = (if 128 <=? mget (mem st) px then 255 else 0) /\
    word (mem st') pd
    = (if 128 <=? mget (mem st) px then mget (mem st) px - 256 else mget (mem st) px) mod 65536 /\
    only_changes [pd; pd + 1] st st' /\ keeps_xys st st'.
Proof. exact sext_correct. Qed.

Theorem C01_tpl_shl16_1 : forall cfg v pv st,
  ports cfg = [] -> var_name v -> layout cfg v = Some pv ->
  0 <= pv -> pv + 1 < 65536 -> bytes_ok st ->
  exists st', runs_to cfg (template (SShl16_1 v)) st st' /\
    word (mem st') pv = (2 * word (mem st) pv) mod 65536 /\
    only_changes [pv; pv + 1] st st' /\ keeps_xys st st'.
Proof. exact shl16_1_correct. Qed.

Theorem C01_tpl_shr16_1 : forall cfg v pv st,
  ports cfg = [] -> var_name v -> layout cfg v = Some pv ->
  0 <= pv -> pv + 1 < 65536 -> bytes_ok st ->
  exists st', runs_to cfg (template (SShr16_1 v)) st st' /\
    word (mem st') pv = word (mem st) pv / 2 /\
    only_changes [pv; pv + 1] st st' /\ keeps_xys st st'.
Proof. exact shr16_1_correct. Qed.

Theorem C01_tpl_sar16_1 : forall cfg v pv st,
  ports cfg = [] -> var_name v -> layout cfg v = Some pv ->
  0 <= pv -> pv + 1 < 65536 -> bytes_ok st ->
  exists st', runs_to cfg (template (SSar16_1 v)) st st' /\
    word (mem st') pv
    = word (mem st) pv / 2 + (if 128 <=? mget (mem st) (pv + 1) then 32768 else 0) /\
    only_changes [pv; pv + 1] st st' /\ keeps_xys st st'.
Proof. exact sar16_1_correct. Qed.

Theorem C01_tpl_add16_8 : forall cfg dst x y pd px py st,
  ports cfg = [] -> var_name dst -> var_name x -> var_name y ->
  layout cfg dst = Some pd -> layout cfg x = Some px -> layout cfg y = Some py ->
  0 <= pd -> pd + 1 < 65536 -> 0 <= px -> px + 1 < 65536 -> 0 <= py < 65536 ->
  pd <> px + 1 -> bytes_ok st ->
  exists st', runs_to cfg (template (SAdd16_8 dst x y)) st st' /\
    word (mem st') pd = (word (mem st) px + mget (mem st) py) mod 65536 /\
    only_changes [pd; pd + 1] st st' /\ keeps_xys st st'.
Proof. exact add16_8_correct. Qed.

Theorem C01_tpl_const16 : forall cfg v k pv st,
  ports cfg = [] -> var_name v -> layout cfg v = Some pv ->
  0 <= pv -> pv + 1 < 65536 -> 0 <= k < 65536 ->
  exists st', runs_to cfg (template (SConst16 v k)) st st' /\
    word (mem st') pv = k /\
    only_changes [pv; pv + 1] st st' /\ keeps_xys st st'.
Proof. exact const16_correct. Qed.

Theorem C01_tpl_hibyte : forall cfg dst x pd px st,
  ports cfg = [] -> var_name dst -> var_name x ->
  layout cfg dst = Some pd -> layout cfg x = Some px ->
  0 <= pd < 65536 -> 0 <= px -> px + 1 < 65536 -> bytes_ok st ->
  exists st', runs_to cfg (template (SHiByte dst x)) st st' /\
    mget (mem st') pd = mget (mem st) (px + 1) /\
    mget (mem st') pd = word (mem st) px / 256 /\
    only_changes [pd] st st' /\ keeps_xys st st'.
Proof. exact hibyte_correct. Qed.

Theorem C01_tpl_lobyte : forall cfg dst x pd px st,
  ports cfg = [] -> var_name dst -> var_name x ->
  layout cfg dst = Some pd -> layout cfg x = Some px ->
  0 <= pd < 65536 -> 0 <= px -> px + 1 < 65536 -> bytes_ok st ->
  exists st', runs_to cfg (template (SLoByte dst x)) st st' /\
    mget (mem st') pd = mget (mem st) px /\
    mget (mem st') pd = word (mem st) px mod 256 /\
    only_changes [pd] st st' /\ keeps_xys st st'.
Proof. exact lobyte_correct. Qed.

Theorem C01_tpl_shl16_8 : forall cfg dst x pd px st,
  ports cfg = [] -> var_name dst -> var_name x ->
  layout cfg dst = Some pd -> layout cfg x = Some px ->
  0 <= pd -> pd + 1 < 65536 -> 0 <= px < 65536 ->
  pd <> px -> bytes_ok st ->
  exists st', runs_to cfg (template (SShl16_8 dst x)) st st' /\
    mget (mem st') pd = 0 /\ mget (mem st') (pd + 1) = mget (mem st) px /\
    word (mem st') pd = (256 * word (mem st) px) mod 65536 /\
    only_changes [pd; pd + 1] st st' /\ keeps_xys st st'.
Proof. exact shl16_8_correct. Qed.

(** known finding F-C01-shl8-self-assign on the model: with source = destination the template stores 0 *)
Theorem C01_tpl_shl16_8_alias_refuted :
  exists st st', bytes_ok st /\ runs_to cfg_listing (template (SShl16_8 "s" "s")) st st' /\
    word (mem st) 134 = 1 /\ (256 * word (mem st) 134) mod 65536 = 256 /\ word (mem st') 134 = 0.
Proof. exact shl16_8_alias_refuted. Qed.


(** * 16-bit comparisons (Model/GenCmp16.v: the sequences the generator emits for 20 conditional forms,
    compared with the real generator on every run).  Unsigned forms: proved correct on [Sem.run] for
    ALL states (the [>] / [<=] sequences are those of fix 4099f0d; the sequences before that fix are
    kept as [code16_old] with their exact failure set: known finding F-C01-cmp16-unsigned-borrow,
    fixed).  Signed forms: correct exactly when the 16-bit subtraction does not overflow; wrong on
    every overflowing pair (known finding F-C01-cmp16). *)
From CC Require Import Model.GenCmp16 Proofs.GenCmp16Facts.

Theorem C01_cmp16_if16_cc_correct : forall o cfg x y dst lend lstart px py pd pcc st,
  keeps_lo o = true ->
  ports cfg = [] -> var_name x -> var_name y -> var_name dst ->
  lend <> ""%string -> (o <> REq -> lstart <> ""%string /\ lstart <> lend) ->
  layout cfg x = Some px -> layout cfg y = Some py -> layout cfg dst = Some pd ->
  layout cfg cctmp = Some pcc ->
  0 <= px -> px + 1 < 65536 -> 0 <= py -> py + 1 < 65536 -> 0 <= pd < 65536 -> 0 <= pcc < 65536 ->
  pcc <> px + 1 -> pcc <> py + 1 -> pd <> pcc ->
  bytes_ok st ->
  exists st', runs_to cfg (code16 (CIf16 o x y dst lend lstart)) st st' /\
    mget (mem st') pd
    = (if rel16 o (word (mem st) px) (word (mem st) py) then 1 else mget (mem st) pd) /\
    only_changes [pd; pcc] st st' /\ keeps_xys st st'.
Proof. exact if16_cc_correct. Qed.

Theorem C01_cmp16_if16_nocc_correct : forall o cfg x y dst lend lstart px py pd st,
  keeps_lo o = false ->
  ports cfg = [] -> var_name x -> var_name y -> var_name dst ->
  lend <> ""%string ->
  layout cfg x = Some px -> layout cfg y = Some py -> layout cfg dst = Some pd ->
  0 <= px -> px + 1 < 65536 -> 0 <= py -> py + 1 < 65536 -> 0 <= pd < 65536 ->
  bytes_ok st ->
  exists st', runs_to cfg (code16 (CIf16 o x y dst lend lstart)) st st' /\
    mget (mem st') pd
    = (if rel16 o (word (mem st) px) (word (mem st) py) then 1 else mget (mem st) pd) /\
    only_changes [pd] st st' /\ keeps_xys st st'.
Proof. exact if16_nocc_correct. Qed.

Theorem C01_cmp16_if16k_cc_correct : forall o cfg x k dst lend lstart px pd pcc st,
  keeps_lo o = true ->
  ports cfg = [] -> var_name x -> var_name dst ->
  lend <> ""%string -> (o <> REq -> lstart <> ""%string /\ lstart <> lend) ->
  layout cfg x = Some px -> layout cfg dst = Some pd -> layout cfg cctmp = Some pcc ->
  0 <= px -> px + 1 < 65536 -> 0 <= pd < 65536 -> 0 <= pcc < 65536 -> 0 <= k < 65536 ->
  pcc <> px + 1 -> pd <> pcc ->
  bytes_ok st ->
  exists st', runs_to cfg (code16 (CIf16K o x k dst lend lstart)) st st' /\
    mget (mem st') pd = (if rel16 o (word (mem st) px) k then 1 else mget (mem st) pd) /\
    only_changes [pd; pcc] st st' /\ keeps_xys st st'.
Proof. exact if16k_cc_correct. Qed.

Theorem C01_cmp16_if16k_nocc_correct : forall o cfg x k dst lend lstart px pd st,
  keeps_lo o = false ->
  ports cfg = [] -> var_name x -> var_name dst ->
  lend <> ""%string ->
  layout cfg x = Some px -> layout cfg dst = Some pd ->
  0 <= px -> px + 1 < 65536 -> 0 <= pd < 65536 -> 0 <= k < 65536 ->
  bytes_ok st ->
  exists st', runs_to cfg (code16 (CIf16K o x k dst lend lstart)) st st' /\
    mget (mem st') pd = (if rel16 o (word (mem st) px) k then 1 else mget (mem st) pd) /\
    only_changes [pd] st st' /\ keeps_xys st st'.
Proof. exact if16k_nocc_correct. Qed.

Theorem C01_cmp16_ifnz16_correct : forall cfg x dst lend lstart px pd pcc st,
  ports cfg = [] -> var_name x -> var_name dst ->
  lend <> ""%string -> lstart <> ""%string -> lstart <> lend ->
  layout cfg x = Some px -> layout cfg dst = Some pd -> layout cfg cctmp = Some pcc ->
  0 <= px -> px + 1 < 65536 -> 0 <= pd < 65536 -> 0 <= pcc < 65536 ->
  pcc <> px + 1 -> pd <> pcc ->
  bytes_ok st ->
  exists st', runs_to cfg (code16 (CIfNz16 x dst lend lstart)) st st' /\
    mget (mem st') pd = (if negb (word (mem st) px =? 0) then 1 else mget (mem st) pd) /\
    only_changes [pd; pcc] st st' /\ keeps_xys st st'.
Proof. exact ifnz16_correct. Qed.

Theorem C01_cmp16_ifz16_correct : forall cfg x dst lend px pd pcc st,
  ports cfg = [] -> var_name x -> var_name dst ->
  lend <> ""%string ->
  layout cfg x = Some px -> layout cfg dst = Some pd -> layout cfg cctmp = Some pcc ->
  0 <= px -> px + 1 < 65536 -> 0 <= pd < 65536 -> 0 <= pcc < 65536 ->
  pcc <> px + 1 -> pd <> pcc ->
  bytes_ok st ->
  exists st', runs_to cfg (code16 (CIfZ16 x dst lend)) st st' /\
    mget (mem st') pd = (if word (mem st) px =? 0 then 1 else mget (mem st) pd) /\
    only_changes [pd; pcc] st st' /\ keeps_xys st st'.
Proof. exact ifz16_correct. Qed.

Theorem C01_cmp16_iflt16_8_correct : forall cfg x y dst lend px py pd st,
  ports cfg = [] -> var_name x -> var_name y -> var_name dst ->
  lend <> ""%string ->
  layout cfg x = Some px -> layout cfg y = Some py -> layout cfg dst = Some pd ->
  0 <= px -> px + 1 < 65536 -> 0 <= py < 65536 -> 0 <= pd < 65536 ->
  bytes_ok st ->
  exists st', runs_to cfg (code16 (CIfLt16_8 x y dst lend)) st st' /\
    mget (mem st') pd
    = (if word (mem st) px <? mget (mem st) py then 1 else mget (mem st) pd) /\
    only_changes [pd] st st' /\ keeps_xys st st'.
Proof. exact iflt16_8_correct. Qed.

Theorem C01_cmp16_dolt16_iter : forall cfg x y v lloop lend px py pv st,
  ports cfg = [] -> var_name x -> var_name y -> var_name v ->
  lloop <> ""%string ->
  layout cfg x = Some px -> layout cfg y = Some py -> layout cfg v = Some pv ->
  0 <= px -> px + 1 < 65536 -> 0 <= py -> py + 1 < 65536 -> 0 <= pv < 65536 ->
  pv <> px -> pv <> px + 1 -> pv <> py -> pv <> py + 1 ->
  bytes_ok st ->
  exists st', iter_to cfg (code16 (CDoLt16 x y v lloop lend)) lloop st
                (word (mem st) px <? word (mem st) py) st' /\
    mget (mem st') pv = (mget (mem st) pv + 1) mod 256 /\
    only_changes [pv] st st' /\ keeps_xys st st'.
Proof. exact dolt16_iter. Qed.

Theorem C01_cmp16_dogt16_iter : forall cfg x y v lloop lstart lend px py pv pcc st,
  ports cfg = [] -> var_name x -> var_name y -> var_name v ->
  lloop <> ""%string -> lstart <> ""%string -> lstart <> lloop ->
  layout cfg x = Some px -> layout cfg y = Some py -> layout cfg v = Some pv ->
  layout cfg cctmp = Some pcc ->
  0 <= px -> px + 1 < 65536 -> 0 <= py -> py + 1 < 65536 -> 0 <= pv < 65536 -> 0 <= pcc < 65536 ->
  pv <> px -> pv <> px + 1 -> pv <> py -> pv <> py + 1 ->
  pcc <> px + 1 -> pcc <> py + 1 -> pv <> pcc ->
  bytes_ok st ->
  exists st', iter_to cfg (code16 (CDoGt16 x y v lloop lstart lend)) lloop st
                (word (mem st) py <? word (mem st) px) st' /\
    mget (mem st') pv = (mget (mem st) pv + 1) mod 256 /\
    only_changes [pv; pcc] st st' /\ keeps_xys st st'.
Proof. exact dogt16_iter. Qed.

Theorem C01_cmp16_ifslt16_correct_no_overflow : forall cfg x y dst lend px py pd st,
  ports cfg = [] -> var_name x -> var_name y -> var_name dst ->
  lend <> ""%string ->
  layout cfg x = Some px -> layout cfg y = Some py -> layout cfg dst = Some pd ->
  0 <= px -> px + 1 < 65536 -> 0 <= py -> py + 1 < 65536 -> 0 <= pd < 65536 ->
  bytes_ok st ->
  -32768 <= sval (word (mem st) px) - sval (word (mem st) py) <= 32767 ->
  exists st', runs_to cfg (code16 (CIfSLt16 x y dst lend)) st st' /\
    mget (mem st') pd
    = (if sval (word (mem st) px) <? sval (word (mem st) py) then 1 else mget (mem st) pd) /\
    only_changes [pd] st st' /\ keeps_xys st st'.
Proof. exact ifslt16_correct_no_overflow. Qed.

Theorem C01_cmp16_ifslt16_wrong_on_overflow : forall cfg x y dst lend px py pd st,
  ports cfg = [] -> var_name x -> var_name y -> var_name dst ->
  lend <> ""%string ->
  layout cfg x = Some px -> layout cfg y = Some py -> layout cfg dst = Some pd ->
  0 <= px -> px + 1 < 65536 -> 0 <= py -> py + 1 < 65536 -> 0 <= pd < 65536 ->
  bytes_ok st ->
  ~ (-32768 <= sval (word (mem st) px) - sval (word (mem st) py) <= 32767) ->
  exists st', runs_to cfg (code16 (CIfSLt16 x y dst lend)) st st' /\
    mget (mem st') pd
    = (if sval (word (mem st) px) <? sval (word (mem st) py) then mget (mem st) pd else 1).
Proof. exact ifslt16_wrong_on_overflow. Qed.

Theorem C01_cmp16_ifsge16_correct_no_overflow : forall cfg x y dst lend px py pd st,
  ports cfg = [] -> var_name x -> var_name y -> var_name dst ->
  lend <> ""%string ->
  layout cfg x = Some px -> layout cfg y = Some py -> layout cfg dst = Some pd ->
  0 <= px -> px + 1 < 65536 -> 0 <= py -> py + 1 < 65536 -> 0 <= pd < 65536 ->
  bytes_ok st ->
  -32768 <= sval (word (mem st) px) - sval (word (mem st) py) <= 32767 ->
  exists st', runs_to cfg (code16 (CIfSGe16 x y dst lend)) st st' /\
    mget (mem st') pd
    = (if sval (word (mem st) py) <=? sval (word (mem st) px) then 1 else mget (mem st) pd) /\
    only_changes [pd] st st' /\ keeps_xys st st'.
Proof. exact ifsge16_correct_no_overflow. Qed.

Theorem C01_cmp16_ifsge16_wrong_on_overflow : forall cfg x y dst lend px py pd st,
  ports cfg = [] -> var_name x -> var_name y -> var_name dst ->
  lend <> ""%string ->
  layout cfg x = Some px -> layout cfg y = Some py -> layout cfg dst = Some pd ->
  0 <= px -> px + 1 < 65536 -> 0 <= py -> py + 1 < 65536 -> 0 <= pd < 65536 ->
  bytes_ok st ->
  ~ (-32768 <= sval (word (mem st) px) - sval (word (mem st) py) <= 32767) ->
  exists st', runs_to cfg (code16 (CIfSGe16 x y dst lend)) st st' /\
    mget (mem st') pd
    = (if sval (word (mem st) py) <=? sval (word (mem st) px) then mget (mem st) pd else 1).
Proof. exact ifsge16_wrong_on_overflow. Qed.

Theorem C01_cmp16_ifslt16_refuted : exists st st',
  bytes_ok st /\
  runs_to cfg16 (code16 (CIfSLt16 "ss" "st" "a" ".ifend1")) st st' /\
  sval (word (mem st) 140) = -32768 /\ sval (word (mem st) 142) = 1 /\
  sval (word (mem st) 140) < sval (word (mem st) 142) /\
  mget (mem st) 128 = 0 /\ mget (mem st') 128 = 0.
Proof. exact ifslt16_refuted. Qed.

Theorem C01_cmp16_ifsge16_refuted : exists st st',
  bytes_ok st /\
  runs_to cfg16 (code16 (CIfSGe16 "ss" "st" "a" ".ifend1")) st st' /\
  sval (word (mem st) 140) = -32768 /\ sval (word (mem st) 142) = 1 /\
  ~ (sval (word (mem st) 142) <= sval (word (mem st) 140)) /\
  mget (mem st) 128 = 0 /\ mget (mem st') 128 = 1.
Proof. exact ifsge16_refuted. Qed.

Theorem C01_cmp16_old_le16_char : forall cfg x y dst lend lhere lstart px py pd pcc st,
  ports cfg = [] -> var_name x -> var_name y -> var_name dst ->
  lend <> ""%string -> lhere <> ""%string -> lstart <> ""%string ->
  lhere <> lend -> lhere <> lstart -> lstart <> lend ->
  layout cfg x = Some px -> layout cfg y = Some py -> layout cfg dst = Some pd ->
  layout cfg cctmp = Some pcc ->
  0 <= px -> px + 1 < 65536 -> 0 <= py -> py + 1 < 65536 -> 0 <= pd < 65536 -> 0 <= pcc < 65536 ->
  pcc <> px + 1 -> pcc <> py + 1 -> pd <> pcc ->
  bytes_ok st ->
  exists st', runs_to cfg (code16_old (OIfLe16 x y dst lend lhere lstart)) st st' /\
    mget (mem st') pd
    = (if (word (mem st) px <=? word (mem st) py) && (word (mem st) py - word (mem st) px <? 65281)
       then 1 else mget (mem st) pd) /\
    only_changes [pd; pcc] st st' /\ keeps_xys st st'.
Proof. exact old_le16_char. Qed.

Theorem C01_cmp16_old_le16_refuted : exists st st',
  bytes_ok st /\
  runs_to cfg16 (code16_old (OIfLe16 "s" "t" "a" ".ifend1" ".ifhere2" ".ifstart2")) st st' /\
  word (mem st) 134 = 0 /\ word (mem st) 136 = 65281 /\
  word (mem st) 134 <= word (mem st) 136 /\
  mget (mem st) 128 = 0 /\ mget (mem st') 128 = 0.
Proof. exact old_le16_refuted. Qed.

Theorem C01_cmp16_old_dogt16_iter_char : forall cfg x y v lloop lhere lstart lend px py pv pcc st,
  ports cfg = [] -> var_name x -> var_name y -> var_name v ->
  lloop <> ""%string -> lhere <> ""%string -> lstart <> ""%string ->
  lhere <> lloop -> lstart <> lloop -> lhere <> lstart ->
  layout cfg x = Some px -> layout cfg y = Some py -> layout cfg v = Some pv ->
  layout cfg cctmp = Some pcc ->
  0 <= px -> px + 1 < 65536 -> 0 <= py -> py + 1 < 65536 -> 0 <= pv < 65536 -> 0 <= pcc < 65536 ->
  pv <> px -> pv <> px + 1 -> pv <> py -> pv <> py + 1 ->
  pcc <> px + 1 -> pcc <> py + 1 -> pv <> pcc ->
  bytes_ok st ->
  exists st', iter_to cfg (code16_old (ODoGt16 x y v lloop lhere lstart lend)) lloop st
                ((word (mem st) py <? word (mem st) px)
                 || (65281 <=? word (mem st) py - word (mem st) px)) st' /\
    mget (mem st') pv = (mget (mem st) pv + 1) mod 256 /\
    only_changes [pv; pcc] st st' /\ keeps_xys st st'.
Proof. exact old_dogt16_iter_char. Qed.
