(** Model of [GeneratorState::asm] (src/generate/generate_asm.rs): operand text, [nb_bytes],
    cycle annotations and errors selected for a (mnemonic, operand kind) pair, arm by arm.
    The operand is produced in structured form together with its printer, so that the size and
    legality theorems are finite case analyses and the printed text can be compared with the
    Rust (through the verification hook) on the whole domain. *)
From Coq Require Import String Ascii List Bool NArith ZArith.
From CC Require Import Base.Str Asm.Lines M6502.Isa Asm.Operand.
Import ListNotations.
Open Scope string_scope.

Inductive vtype := VChar | VShort | VCharPtr | VCharPtrPtr | VShortPtr.
Inductive vmem := MZeropage | MSuperchip | MOnChip | MOther.
Inductive scheme := S3E | S3EP | SOther.

(** [v_addr]: [Some a] when the variable is a constant-address object whose address [a] is
    known to the compiler ([unsigned char *const R = 0xff;]: [v.def = Value(Int(a))]), [None]
    when the linker places it (only the memory class is known) *)
Record var := mkVar {
  v_name : string; v_type : vtype; v_const : bool; v_signed : bool; v_mem : vmem; v_size : Z;
  v_addr : option Z
}.

Inductive exprtype :=
| ENothing
| EImmediate (v : Z)
| ETmp (s : bool)
| EAbsolute (v : var) (eight_bits : bool) (off : Z)
| EAbsoluteX (v : var)
| EAbsoluteY (v : var)
| EA (s : bool)
| ELabel (l : string).

(** what the Rust prints for an operand *)
Definition print_sym_off (sym : string) (off : Z) (always : bool) : string :=
  (* [always]: printed as soon as off <> 0; otherwise only when off > 0 *)
  if (if always then negb (off =? 0)%Z else (0 <? off)%Z)
  then sym ++ "+" ++ string_of_Z off else sym.

Inductive popnd :=           (* printable operand: structured operand + how the offset prints *)
| PNone
| PNum (n : Z)                               (* #n *)
| PLo (sym : string) (off : Z)               (* #<sym or #<(sym+off) *)
| PHi (sym : string) (off : Z)
| PMem (sym : string) (off : Z) (ix : index) (always : bool)
| PInd (sym : string) (off : Z)              (* (sym),Y or (sym+off),Y when off > 0 *)
| PLbl (l : string).

Definition print_popnd (p : popnd) : string :=
  match p with
  | PNone => ""
  | PNum n => "#" ++ string_of_Z n
  | PLo y k => if (k =? 0)%Z then "#<" ++ y else "#<(" ++ y ++ "+" ++ string_of_Z k ++ ")"
  | PHi y k => if (k =? 0)%Z then "#>" ++ y else "#>(" ++ y ++ "+" ++ string_of_Z k ++ ")"
  | PMem y k ix always =>
      print_sym_off y k always ++ match ix with IxNone => "" | IxX => ",X" | IxY => ",Y" end
  | PInd y k => if (0 <? k)%Z then "(" ++ y ++ "+" ++ string_of_Z k ++ "),Y" else "(" ++ y ++ "),Y"
  | PLbl l => l
  end.

Definition operand_of (p : popnd) : operand :=
  match p with
  | PNone => ONone
  | PNum n => OImm (INum n)
  | PLo y k => OImm (ILo y k)
  | PHi y k => OImm (IHi y k)
  | PMem y k ix always =>
      OMem y (if (if always then negb (k =? 0)%Z else (0 <? k)%Z) then k else 0%Z) ix
  | PInd y k => OInd y (if (0 <? k)%Z then k else 0%Z)
  | PLbl l => OLbl l
  end.

Record emitted := mkE {
  e_op : popnd; e_bytes : N; e_cycles : N; e_alt : option N
}.

Inductive asm_result :=
| AEmit (m : mnem) (signed : bool) (e : emitted)
| ANoEmit (signed : bool)
| AErr (msg : string).

Definition is_st (m : mnem) : bool := match m with STA | STX | STY => true | _ => false end.

(** port offset of split-port RAM: loads vs stores *)
Definition port_offset (sch : scheme) (mem : vmem) (m : mnem) : Z :=
  match mem with
  | MSuperchip => if is_st m then 0 else 128
  | MOnChip =>
      match sch with
      | S3E => if is_st m then 1024 else 0
      | S3EP => if is_st m then 512 else 0
      | SOther => 0
      end
  | _ => 0
  end%Z.

Definition base_cyc (m : mnem) : N :=
  match m with PHA | PLA => 3 | INC | DEC => 4 | RTS => 6 | _ => 2 end%N.

Definition is_zp (v : var) : bool := match v_mem v with MZeropage => true | _ => false end.

Open Scope N_scope.

(** [asm_sel0]: the selection proper, every operand kind; it is the whole of [asm()] before the
    "Bad left value" fix (kept as the pre-fix function: regression witnesses are stated on it) *)
Definition asm_sel0 (sch : scheme) (m : mnem) (e : exprtype) (high : bool) : asm_result :=
  let cycles := base_cyc m in
  match e with
  | ELabel l =>
      let nb := match m with JMP | JSR => 3 | _ => 2 end in
      let '(cy, alt) := match m with JMP => (3, None) | JSR => (6, None) | _ => (2, Some 3) end in
      AEmit m false (mkE (PLbl l) nb cy alt)
  | EImmediate v =>
      let vx := if high then Z.land (Z.shiftr v 8) 255 else Z.land v 255 in
      AEmit m false (mkE (PNum vx) 2 cycles None)
  | ETmp s => AEmit m s (mkE (PMem "cctmp" 0 IxNone false) 2 (cycles + 1) None)
  | EA s =>
      match m with
      | LDA => ANoEmit s
      | LDX => AEmit TAX false (mkE PNone 1 (base_cyc TAX) None)
      | LDY => AEmit TAY false (mkE PNone 1 (base_cyc TAY) None)
      | _ => AErr "Unexpected expression type"
      end
  | ENothing => AEmit m false (mkE PNone 1 cycles None)
  | EAbsolute v eight off0 =>
      let sg := v_signed v in
      let name := v_name v in
      let offset := (off0 + port_offset sch (v_mem v) m)%Z in
      let memop (o : Z) (always : bool) (extra_zp extra_abs : N) :=
        if is_zp v then AEmit m sg (mkE (PMem name o IxNone always) 2 (cycles + extra_zp) None)
        else AEmit m sg (mkE (PMem name o IxNone always) 3 (cycles + extra_abs) None) in
      let lohi := if high then AEmit m sg (mkE (PHi name offset) 2 cycles None)
                  else AEmit m sg (mkE (PLo name offset) 2 cycles None) in
      let zero := AEmit m sg (mkE (PNum 0) 2 cycles None) in
      match v_type v with
      | VChar =>
          if negb eight then lohi
          else if high then zero
          else memop offset false 1 2
      | VShort =>
          if eight && high then zero
          else memop (if high then offset + 1 else offset)%Z true 1 2
      | VCharPtr =>
          if negb eight && v_const v then lohi
          else if high && eight then zero
          else if eight && negb (v_const v)
          then AErr "Indirect adressing mode is only available with Y (use Y as array index)"
          else
            let o := (if high then offset + 1 else offset)%Z in
            (* the offset may push an access based on a constant page-zero address beyond page
               zero: the assembler then uses the absolute form *)
            let beyond_zeropage :=
              v_const v && match v_addr v with Some a => (255 <? a + o)%Z | None => false end in
            if is_zp v && negb beyond_zeropage
            then AEmit m sg (mkE (PMem name o IxNone true) 2 (cycles + 1) None)
            else AEmit m sg (mkE (PMem name o IxNone true) 3 (cycles + 2) None)
      | VCharPtrPtr | VShortPtr =>
          let o := (offset + if high then v_size v else 0)%Z in
          if is_zp v then AEmit m sg (mkE (PMem name o IxNone false) 2 (cycles + 2) None)
          else AEmit m sg (mkE (PMem name o IxNone false) 3 (cycles + 2) None)
      end
  | EAbsoluteY v =>
      let sg := v_signed v in
      let name := v_name v in
      let offset := port_offset sch (v_mem v) m in
      let alt (cy : N) (indirect : bool) := if negb (is_zp v) || indirect then Some (cy + 1) else None in
      let indexed (o : Z) :=
        let cy := cycles + 2 in
        let nb := if is_zp v then match m with STX | LDX => 2 | _ => 3 end else 3 in
        match m with
        | STY | LDY | CPY => AErr "Can't use Y addressing on Y operation"
        | CPX => AErr "Can't use Y addressing on compare with X operation"
        | STX => if negb (is_zp v)
                 then AErr "Can't use Y addressing on a non zeropage variable with X storage"
                 else AEmit m sg (mkE (PMem name o IxY false) nb cy (alt cy false))
        | STA => AEmit m sg (mkE (PMem name o IxY false) nb (cy + 1) (alt (cy + 1) false))
        | _ => AEmit m sg (mkE (PMem name o IxY false) nb cy (alt cy false))
        end in
      match v_type v with
      | VCharPtrPtr | VShortPtr => indexed (offset + if high then v_size v else 0)%Z
      | _ =>
          if high then AEmit m sg (mkE (PNum 0) 2 cycles (alt cycles false))
          else match v_type v, v_const v with
               | VCharPtr, false =>
                   if (v_size v =? 1)%Z then
                     if negb (is_zp v) then AErr "Y indirect addressing works only on zeropage variables"
                     else
                       let cy := if mnem_eqb m STA then 6 else 5 in
                       match m with
                       | STX | STY | LDX | LDY | CPX | CPY =>
                           AErr "Can't use Y indirect addressing on X or Y operation"
                       | _ => AEmit m sg (mkE (PInd name offset) 2 cy (alt cy true))
                       end
                   else AErr "X-Indirect adressing mode not available with Y register"
               | _, _ => indexed offset
               end
      end
  | EAbsoluteX v =>
      let sg := v_signed v in
      let name := v_name v in
      let offset := port_offset sch (v_mem v) m in
      let isptr := match v_type v with VCharPtrPtr | VShortPtr => true | _ => false end in
      if match v_type v with VCharPtr => negb (v_const v) && (v_size v =? 1)%Z | _ => false end
      then AErr "Y-Indirect adressing mode not available with X register"
      else
        let off := if isptr then (offset + if high then v_size v else 0)%Z else offset in
        let alt (cy : N) := if negb (is_zp v) then Some (cy + 1) else None in
        if high && negb isptr then AEmit m sg (mkE (PNum 0) 2 cycles (alt cycles))
        else
          let cy := cycles + 2 in
          let '(nb, cy') := if is_zp v then (2, cy) else (3, if mnem_eqb m STA then cy + 1 else cy) in
          match m with
          | STX | LDX | CPX => AErr "Can't use X addressing on X operation"
          | CPY => AErr "Can't use X addressing on compare with Y operation"
          | STY => if negb (is_zp v)
                   then AErr "Can't use X addressing on a non zeropage variable with Y storage"
                   else AEmit m sg (mkE (PMem name off IxX false) nb cy' (alt cy'))
          | _ => AEmit m sg (mkE (PMem name off IxX false) nb cy' (alt cy'))
          end
  end.

(** stores and read-modify-write instructions: the mnemonics that write to their operand *)
Definition writes_mem (m : mnem) : bool :=
  match m with STA | STX | STY | INC | DEC | ASL | LSR | ROL | ROR => true | _ => false end.

(** the printed operand starts with '#' ([print_popnd]) *)
Definition is_imm_popnd (p : popnd) : bool :=
  match p with PNum _ | PLo _ _ | PHi _ _ => true | _ => false end.

(** [asm()]: after the operand text has been computed, and before the instruction is appended, an
    immediate operand ('#...': the name of an array, &x, the "#0" high byte of an 8-bit object) is
    refused for the mnemonics that write to their operand.  The emitted mnemonic differs from the
    requested one only in the [EA] arm (TAX / TAY, no operand), so testing either is the same
    ([asm_sel_guard_requested] in Proofs/AsmSelFacts.v). *)
Definition asm_sel (sch : scheme) (m : mnem) (e : exprtype) (high : bool) : asm_result :=
  match asm_sel0 sch m e high with
  | AEmit m' sg em =>
      if writes_mem m' && is_imm_popnd (e_op em)
      then AErr "Bad left value in assignement"
      else AEmit m' sg em
  | r => r
  end.

(** the AsmInstruction appended to the function *)
Definition instr_of (prot : bool) (m : mnem) (e : emitted) : instr :=
  mkI m (print_popnd (e_op e)) (e_cycles e) (e_alt e) (e_bytes e) prot.

(** * The truth side: where the emitted operand's address is *)

(** what the assembler adds to the symbol's address *)
Definition operand_off (o : operand) : Z :=
  match o with OMem _ k _ | OInd _ k => k | _ => 0%Z end.

(** is the address of the emitted operand [p] in page zero?  When the variable's address is
    known ([v_addr v = Some a]) the operand [sym+k] designates address [a+k] and the assembler
    decides on that number; otherwise only the memory class is known and the linker puts exactly
    the Zeropage variables (and cctmp) below $100.  Immediate and label operands have no address:
    the answer is immaterial for them ([resolve] ignores it). *)
Definition popnd_zp (e : exprtype) (p : popnd) : bool :=
  match e with
  | ETmp _ => true
  | EAbsolute v _ _ | EAbsoluteX v | EAbsoluteY v =>
      match v_addr v with
      | Some a => (a + operand_off (operand_of p) <? 256)%Z
      | None => is_zp v
      end
  | _ => false
  end.

(** memory class and known address agree: the compiler gives a known address only to constant
    pointers ([unsigned char *const R = <int>]) and classifies them Zeropage exactly when the
    value is <= 0xff *)
Definition var_wf (v : var) : Prop :=
  match v_addr v with
  | Some a => (0 <= a)%Z /\ is_zp v = (a <? 256)%Z /\ v_const v = true /\ v_type v = VCharPtr
  | None => True
  end.

Definition expr_var (e : exprtype) : option var :=
  match e with
  | EAbsolute v _ _ | EAbsoluteX v | EAbsoluteY v => Some v
  | _ => None
  end.

Definition expr_wf (e : exprtype) : Prop :=
  match expr_var e with Some v => var_wf v | None => True end.

(** the generator only requests offsets >= 0 (array subscripts, byte selections) *)
Definition expr_off_nonneg (e : exprtype) : Prop :=
  match e with EAbsolute _ _ off => (0 <= off)%Z | _ => True end.

(** the rule before the page-boundary fix: the known address is not consulted, the size is
    decided from the memory class alone.  It is [asm_sel0] (the selection without the later
    "Bad left value" guard, which that version did not have either) on the variable with its
    address forgotten ([beyond_zeropage] is then [false]). *)
Definition forget_addr (v : var) : var :=
  mkVar (v_name v) (v_type v) (v_const v) (v_signed v) (v_mem v) (v_size v) None.

Definition forget_addr_e (e : exprtype) : exprtype :=
  match e with
  | EAbsolute v b o => EAbsolute (forget_addr v) b o
  | EAbsoluteX v => EAbsoluteX (forget_addr v)
  | EAbsoluteY v => EAbsoluteY (forget_addr v)
  | _ => e
  end.

Definition asm_sel_old (sch : scheme) (m : mnem) (e : exprtype) (high : bool) : asm_result :=
  asm_sel0 sch m (forget_addr_e e) high.
