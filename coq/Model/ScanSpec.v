(** Specification-side vocabulary for the scanner facts (C09, C11): occurrences of a pattern,
    marker-free text, well-formed literal bodies. *)
From Coq Require Import String Ascii List Bool Arith NArith.
From CC Require Import Base.Str Model.Cpp Model.StrLit.
Import ListNotations.
Open Scope string_scope.

(** [no_start pat a rest]: in the text [a ++ rest] the pattern [pat] does not start at any of the
    positions [0 .. length a - 1] (it may straddle the border between [a] and [rest]: this is
    what the test looks at) *)
Fixpoint no_start (pat a rest : string) : bool :=
  match a with
  | EmptyString => true
  | String c a' => negb (starts_with pat (String c a' ++ rest)) && no_start pat a' rest
  end.

(** code text free of scanner markers: no double quote, no "//", no "/*", not an #include line
    (the scanner's test [is_include_line]: '#' after the leading white space, then "include" after
    the white space that follows the '#') *)
Definition no_markers (pre : string) : Prop :=
  contains """" pre = false /\ contains "//" pre = false /\ contains "/*" pre = false
  /\ is_include_line pre = false.

(** a literal body in which a backslash always takes the next character with it, no quote stands
    unescaped and no backslash is left alone at the end: the bodies of C.  Weaker than
    [c_decode s <> None]: the escape character is not constrained (octal, hex ... escapes are
    allowed). *)
Fixpoint pair_wf (s : string) : bool :=
  match s with
  | EmptyString => true
  | String a r =>
      if Ascii.eqb a "\" then
        match r with String _ r' => pair_wf r' | EmptyString => false end
      else if Ascii.eqb a """" then false
      else pair_wf r
  end.

(** the bodies whose closing quote [find_close] finds: since the scanner counts the backslashes
    in front of a quote (parity rule, C's rule), all the pair-wise well-formed ones *)
Definition scannableb (body : string) : bool := pair_wf body.

Definition scannable (body : string) : Prop := pair_wf body = true.

(** ** the parity rule *)

(** [escaped_parity odd s]: parity of the run of backslashes that ends [odd-run ++ s], where
    [odd] is the parity of the run that precedes [s] (true = odd).  [escaped_parity false s] is
    true exactly when [s] ends in an odd number of backslashes: a quote that follows is escaped *)
Fixpoint escaped_parity (odd : bool) (s : string) : bool :=
  match s with
  | EmptyString => odd
  | String a r => escaped_parity (if Ascii.eqb a "\" then negb odd else false) r
  end.

(** [body] ends just before the first quote preceded by an even number of backslashes: an even
    number of backslashes ends it, and every quote inside it has an odd number in front *)
Definition closes_body (body : string) : Prop :=
  escaped_parity false body = false /\
  forall l r, body = l ++ """" ++ r -> escaped_parity false l = true.

(** the same as a function, left to right: cut at the first quote preceded by an even number
    of backslashes ([odd]: parity of the run of backslashes just read) *)
Fixpoint first_close (odd : bool) (s : string) : option (string * string) :=
  match s with
  | EmptyString => None
  | String a r =>
      if Ascii.eqb a """" && negb odd then Some (EmptyString, r)
      else match first_close (if Ascii.eqb a "\" then negb odd else false) r with
           | Some (b, t) => Some (String a b, t)
           | None => None
           end
  end.

(** what the scanner hands to the line processor, whichever way the scan of the line ended: the
    uncommented text, the flag [insert_it], the new scanner state.  (When the scan ended at an
    unterminated string literal the line processor uses them only if the conditional state is
    not Active; it raises the error otherwise.) *)
Definition scan_parts (r : scan_res) : string * bool * scan_state :=
  match r with
  | ScanOk out ins st => (out, ins, st)
  | ScanUnterminated out ins st => (out, ins, st)
  end.
