(** Facts about the model of the long-branch repair pass [check_branches]. *)
From Coq Require Import String Ascii List Bool NArith ZArith Lia Permutation.
From CC Require Import Base.Str Asm.Lines M6502.Isa Asm.Operand M6502.Sem Model.CheckBranches Model.CbSpec.
Import ListNotations.
Open Scope string_scope.
Open Scope list_scope.
Open Scope nat_scope.

(** * Names of the labels created by the repair *)

Definition fixl (n : N) : string := (".fix" ++ string_of_N n)%string.
Definition fixup (n : N) : string := (".fixup" ++ string_of_N n)%string.

Lemma fix_pref : forall x, is_fix_label (".fix" ++ x)%string = true.
Proof. reflexivity. Qed.

Lemma fixup_pref : forall x, is_fix_label (".fixup" ++ x)%string = true.
Proof. reflexivity. Qed.

Lemma eqb_fix_nonfix : forall a t,
  is_fix_label a = true -> is_fix_label t = false -> String.eqb a t = false.
Proof.
  intros a t Ha Ht. destruct (String.eqb a t) eqn:E; [|reflexivity].
  apply String.eqb_eq in E. subst a. congruence.
Qed.

Lemma fixup_ne_fix_same : forall x, (".fixup" ++ x)%string <> (".fix" ++ x)%string.
Proof.
  intros x H. apply (f_equal String.length) in H. cbn in H. lia.
Qed.

(** * Shape of a repair *)

Definition inv_mn (m : mnem) : mnem :=
  match m with
  | BNE => BEQ | BEQ => BNE | BMI => BPL | BCC => BCS | BPL => BMI | BCS => BCC
  | _ => m
  end.

Definition lte_pair_of (b : instr) (tail : list line) : bool :=
  match tail with
  | Ins i2 :: _ => mnem_eqb (i_mn i2) BEQ && String.eqb (i_op i2) (i_op b)
  | _ => false
  end.

Definition mid3 (n : N) (b : instr) : list line :=
  [mk_branch (inv_mn (i_mn b)) (fixl n); mk_jmp (i_op b); Lbl (fixl n)].
Definition mid5 (n : N) (b : instr) : list line :=
  [mk_branch_prot BEQ (fixup n); mk_branch (inv_mn (i_mn b)) (fixl n); Lbl (fixup n);
   mk_jmp (i_op b); Lbl (fixl n)].

Lemma repair_eq : forall nfix b tail,
  is_cond_branch (i_mn b) = true ->
  repair nfix b tail =
    if (mnem_eqb (i_mn b) BMI || mnem_eqb (i_mn b) BCC) && lte_pair_of b tail
    then (mid5 nfix b, tl tail)
    else (mid3 nfix b, tail).
Proof.
  intros nfix b tail Hc. unfold repair, lte_pair_of, mid3, mid5, fixl, fixup.
  destruct (i_mn b); try discriminate Hc; cbn [mnem_eqb orb andb inv_mn];
    try reflexivity;
    (destruct tail as [|x tail0]; [reflexivity|]);
    (destruct x as [l|i2|tx sz|cm|]; try reflexivity);
    destruct (mnem_eqb (i_mn i2) BEQ && String.eqb (i_op i2) (i_op b)); reflexivity.
Qed.

Lemma lte_pair_of_true : forall b tail,
  lte_pair_of b tail = true ->
  exists i2 tail0, tail = Ins i2 :: tail0 /\ i_mn i2 = BEQ /\ i_op i2 = i_op b.
Proof.
  intros b tail H. unfold lte_pair_of in H.
  destruct tail as [|x tail0]; [discriminate H|].
  destruct x as [l|i2|tx sz|cm|]; try discriminate H.
  apply andb_true_iff in H. destruct H as [Hm Ho].
  apply mnem_eqb_eq in Hm. apply String.eqb_eq in Ho.
  exists i2, tail0. auto.
Qed.

(** * (1) one repair preserves the control flow of the fragment *)

Lemma ff_S : forall f s frag,
  frag_flow (S f) s frag =
      match frag with
      | [] => ExitFall
      | Ins i :: r =>
          if is_cond_branch (i_mn i) then
            if branch_taken (i_mn i) s then
              match drop_to_label (i_op i) r with
              | Some r' => frag_flow f s r'
              | None => ExitLabel (i_op i)
              end
            else frag_flow f s r
          else if mnem_eqb (i_mn i) JMP then
            match drop_to_label (i_op i) r with
            | Some r' => frag_flow f s r'
            | None => ExitLabel (i_op i)
            end
          else ExitStuck
      | _ :: r => frag_flow f s r
      end.
Proof. reflexivity. Qed.

Ltac ff_step :=
  rewrite !ff_S;
  cbn [is_cond_branch branch_taken i_mn i_op mk_branch mk_branch_prot mk_jmp mnem_eqb fC fZ fN negb
       drop_to_label defines inv_mn].

Lemma flow3 : forall s m op cy alt nb pr fl,
  is_cond_branch m = true ->
  String.eqb fl op = false ->
  frag_flow 8 s [Ins (mkI m op cy alt nb pr)]
  = frag_flow 8 s [mk_branch (inv_mn m) fl; mk_jmp op; Lbl fl]
  /\ frag_flow 8 s [mk_branch (inv_mn m) fl; mk_jmp op; Lbl fl] <> ExitStuck.
Proof.
  intros s m op cy alt nb pr fl Hc Hfl.
  assert (Hflfl : String.eqb fl fl = true) by apply String.eqb_refl.
  destruct s as [ra rx ry rs n v z c mm].
  destruct m; try discriminate Hc; destruct n, z, c;
    repeat (ff_step; rewrite ?Hfl, ?Hflfl);
    split; (reflexivity || discriminate).
Qed.

Lemma flow5 : forall s m op cy alt nb pr cy2 alt2 nb2 pr2 fl fu,
  m = BMI \/ m = BCC ->
  String.eqb fl op = false ->
  String.eqb fu op = false ->
  String.eqb fu fl = false ->
  frag_flow 8 s [Ins (mkI m op cy alt nb pr); Ins (mkI BEQ op cy2 alt2 nb2 pr2)]
  = frag_flow 8 s [mk_branch BEQ fu; mk_branch (inv_mn m) fl; Lbl fu; mk_jmp op; Lbl fl]
  /\ frag_flow 8 s [mk_branch BEQ fu; mk_branch (inv_mn m) fl; Lbl fu; mk_jmp op; Lbl fl]
     <> ExitStuck.
Proof.
  intros s m op cy alt nb pr cy2 alt2 nb2 pr2 fl fu Hm Hfl Hfu Hfufl.
  assert (Hflfl : String.eqb fl fl = true) by apply String.eqb_refl.
  assert (Hfufu : String.eqb fu fu = true) by apply String.eqb_refl.
  destruct s as [ra rx ry rs n v z c mm].
  destruct Hm as [Hm|Hm]; subst m; destruct n, z, c;
    repeat (ff_step; rewrite ?Hfl, ?Hflfl, ?Hfu, ?Hfufu, ?Hfufl);
    split; (reflexivity || discriminate).
Qed.

Theorem repair_flow_preserved : forall (s : mstate) (nfix : N) (b : instr) (tail mid tail' : list line),
  is_cond_branch (i_mn b) = true ->
  is_fix_label (i_op b) = false ->
  repair nfix b tail = (mid, tail') ->
  frag_flow 8 s (Ins b :: firstn (length tail - length tail') tail) = frag_flow 8 s mid
  /\ frag_flow 8 s mid <> ExitStuck.
Proof.
  intros s nfix b tail mid tail' Hc Hf Hr.
  rewrite (repair_eq nfix b tail Hc) in Hr.
  assert (Hfl : String.eqb (fixl nfix) (i_op b) = false)
    by (apply eqb_fix_nonfix; [reflexivity|assumption]).
  assert (Hfu : String.eqb (fixup nfix) (i_op b) = false)
    by (apply eqb_fix_nonfix; [reflexivity|assumption]).
  assert (Hfufl : String.eqb (fixup nfix) (fixl nfix) = false)
    by (apply String.eqb_neq; apply fixup_ne_fix_same).
  destruct ((mnem_eqb (i_mn b) BMI || mnem_eqb (i_mn b) BCC) && lte_pair_of b tail) eqn:E.
  - apply andb_true_iff in E. destruct E as [Em El].
    apply lte_pair_of_true in El. destruct El as [i2 [tail0 [Et [Hm2 Ho2]]]].
    subst tail. cbn [tl] in Hr. inversion Hr; subst mid tail'; clear Hr.
    replace (Datatypes.length (Ins i2 :: tail0) - Datatypes.length tail0) with 1
      by (cbn [Datatypes.length]; lia).
    cbn [firstn].
    destruct b as [m op cy alt nb pr]. destruct i2 as [m2 op2 cy2 alt2 nb2 pr2].
    cbn [i_mn i_op] in *. subst m2 op2.
    unfold mid5. cbn [i_mn i_op].
    apply flow5; try assumption.
    apply orb_true_iff in Em. destruct Em as [Em|Em]; apply mnem_eqb_eq in Em; auto.
  - inversion Hr; subst mid tail'; clear Hr.
    rewrite Nat.sub_diag. cbn [firstn].
    destruct b as [m op cy alt nb pr]. cbn [i_mn i_op] in *.
    unfold mid3. cbn [i_mn i_op].
    apply flow3; assumption.
Qed.
Print Assumptions repair_flow_preserved.

(** * The lock-step search [dist] *)

Fixpoint nbytes (l : list line) : N :=
  match l with
  | [] => 0%N
  | x :: r => (line_bytes x + nbytes r)%N
  end.

Lemma nbytes_app : forall a b, nbytes (a ++ b) = (nbytes a + nbytes b)%N.
Proof.
  induction a as [|x a IH]; intros b; cbn [nbytes app]; [reflexivity|].
  rewrite IH. lia.
Qed.

Lemma nbytes_rev : forall a, nbytes (rev a) = nbytes a.
Proof.
  induction a as [|x a IH]; [reflexivity|].
  cbn [rev nbytes]. rewrite nbytes_app, IH. cbn [nbytes]. lia.
Qed.

Lemma sum_bytes_nbytes : forall l, sum_bytes l = Z.of_N (nbytes l).
Proof.
  induction l as [|x l IH]; [reflexivity|].
  cbn [sum_bytes nbytes]. rewrite IH. lia.
Qed.

Lemma sum_bytes_app : forall a b, sum_bytes (a ++ b) = (sum_bytes a + sum_bytes b)%Z.
Proof.
  intros a b. rewrite !sum_bytes_nbytes, nbytes_app. lia.
Qed.

Definition nodef (t : string) (x : line) : Prop := defines t x = false.

Definition hd_def (t : string) (l : list line) : bool :=
  match l with x :: _ => defines t x | [] => false end.
Definition hd_bytes (l : list line) : N :=
  match l with x :: _ => line_bytes x | [] => 0%N end.
Definition is_nil (l : list line) : bool :=
  match l with [] => true | _ => false end.

Lemma dist_S : forall f t up down ba bb,
  dist (S f) t up down ba bb =
    if hd_def t up then DFound true ba
    else if hd_def t down then DFound false bb
    else if is_nil (tl up) && is_nil down then DPanic
    else dist f t (tl up) (tl down) (ba + hd_bytes up)%N (bb + hd_bytes down)%N.
Proof.
  intros f t up down ba bb.
  destruct up as [|x us]; destruct down as [|y ds];
    try destruct x; try destruct y;
    cbn [dist hd_def hd_bytes is_nil tl defines line_bytes andb];
    rewrite ?N.add_0_r; reflexivity.
Qed.

Lemma hd_def_nodef : forall t l, Forall (nodef t) l -> hd_def t l = false.
Proof.
  intros t l H. destruct l as [|x r]; [reflexivity|].
  inversion H; subst. assumption.
Qed.

Lemma Forall_tl : forall (P : line -> Prop) l, Forall P l -> Forall P (tl l).
Proof.
  intros P l H. destruct l; [exact H|]. inversion H; assumption.
Qed.

Lemma dist_up : forall t u1 fuel u2 down ba bb,
  Forall (nodef t) u1 ->
  Forall (nodef t) down ->
  length u1 < fuel ->
  dist fuel t (u1 ++ Lbl t :: u2) down ba bb = DFound true (ba + nbytes u1)%N.
Proof.
  intros t u1. induction u1 as [|x u1 IH]; intros fuel u2 down ba bb Hu Hd Hf.
  - destruct fuel as [|f]; [cbn in Hf; lia|].
    rewrite dist_S. cbn [app hd_def defines nbytes].
    rewrite String.eqb_refl. rewrite N.add_0_r. reflexivity.
  - destruct fuel as [|f]; [cbn in Hf; lia|].
    rewrite dist_S. inversion Hu as [|x' u1' Hx Hu1]; subst.
    cbn [app hd_def tl hd_bytes]. unfold nodef in Hx. rewrite Hx.
    rewrite (hd_def_nodef t down Hd).
    assert (Hnn : is_nil (u1 ++ Lbl t :: u2) = false) by (destruct u1; reflexivity).
    rewrite Hnn. cbn [andb].
    rewrite IH; [|assumption|apply Forall_tl; assumption|cbn in Hf; lia].
    cbn [nbytes]. f_equal. lia.
Qed.

Lemma dist_down : forall t d1 fuel up d2 ba bb,
  Forall (nodef t) up ->
  Forall (nodef t) d1 ->
  length d1 < fuel ->
  dist fuel t up (d1 ++ Lbl t :: d2) ba bb = DFound false (bb + nbytes d1)%N.
Proof.
  intros t d1. induction d1 as [|y d1 IH]; intros fuel up d2 ba bb Hu Hd Hf.
  - destruct fuel as [|f]; [cbn in Hf; lia|].
    rewrite dist_S. rewrite (hd_def_nodef t up Hu).
    cbn [app hd_def defines nbytes].
    rewrite String.eqb_refl. rewrite N.add_0_r. reflexivity.
  - destruct fuel as [|f]; [cbn in Hf; lia|].
    rewrite dist_S. rewrite (hd_def_nodef t up Hu).
    inversion Hd as [|y' d1' Hy Hd1]; subst.
    cbn [app hd_def tl hd_bytes is_nil]. unfold nodef in Hy. rewrite Hy.
    rewrite andb_false_r.
    rewrite IH; [|apply Forall_tl; assumption|assumption|cbn in Hf; lia].
    cbn [nbytes]. f_equal. lia.
Qed.

Lemma dist_no_panic : forall t fuel up down ba bb,
  length up <= fuel -> length down <= fuel ->
  (exists x, (In x up \/ In x down) /\ defines t x = true) ->
  dist fuel t up down ba bb <> DPanic.
Proof.
  intros t fuel. induction fuel as [|f IH]; intros up down ba bb Hu Hd [x [Hin Hx]].
  - destruct up; [|cbn in Hu; lia]. destruct down; [|cbn in Hd; lia].
    destruct Hin as [[]|[]].
  - rewrite dist_S.
    destruct (hd_def t up) eqn:E1; [discriminate|].
    destruct (hd_def t down) eqn:E2; [discriminate|].
    assert (Hin' : In x (tl up) \/ In x (tl down)).
    { destruct Hin as [Hin|Hin].
      - left. destruct up as [|x0 us]; [destruct Hin|].
        destruct Hin as [->|Hin]; [cbn in E1; congruence|exact Hin].
      - right. destruct down as [|y0 ds]; [destruct Hin|].
        destruct Hin as [->|Hin]; [cbn in E2; congruence|exact Hin]. }
    assert (Hn : is_nil (tl up) && is_nil down = false).
    { destruct Hin' as [Hin'|Hin'].
      - destruct (tl up); [destruct Hin'|reflexivity].
      - destruct down as [|y0 ds]; [destruct Hin'|]. apply andb_false_r. }
    rewrite Hn. apply IH.
    + destruct up; cbn in *; lia.
    + destruct down; cbn in *; lia.
    + exists x. split; assumption.
Qed.

(** * [scan] *)

Lemma scan_cons_none : forall n pre x r,
  scan n pre (x :: r) = SNone -> scan n (x :: pre) r = SNone.
Proof.
  intros n pre x r H. destruct x as [l|i|tx sz|cm|]; cbn [scan] in H; try exact H.
  destruct (is_cond_branch (i_mn i)); [|exact H].
  destruct (dist n (i_op i) (Ins i :: pre) r 0%N 0%N) as [a d|]; [|discriminate H].
  destruct (N.ltb 127 d); [discriminate H|exact H].
Qed.

Lemma scan_none_all : forall n l pre,
  scan n pre l = SNone ->
  forall l1 i l2, l = l1 ++ Ins i :: l2 ->
  is_cond_branch (i_mn i) = true ->
  exists a d, dist n (i_op i) (Ins i :: rev l1 ++ pre) l2 0%N 0%N = DFound a d /\ (d <= 127)%N.
Proof.
  intros n l. induction l as [|x r IH]; intros pre Hs l1 i l2 Hl Hc.
  - destruct l1; discriminate Hl.
  - destruct l1 as [|y l1].
    + cbn [app] in Hl. inversion Hl; subst x r. cbn [scan] in Hs. rewrite Hc in Hs.
      cbn [rev app].
      destruct (dist n (i_op i) (Ins i :: pre) l2 0%N 0%N) as [a d|]; [|discriminate Hs].
      exists a, d. split; [reflexivity|].
      destruct (N.ltb 127 d) eqn:E; [discriminate Hs|]. apply N.ltb_ge in E. exact E.
    + cbn [app] in Hl. inversion Hl; subst y r.
      apply scan_cons_none in Hs.
      destruct (IH (x :: pre) Hs l1 i l2 eq_refl Hc) as [a [d [Hd Hle]]].
      exists a, d. split; [|exact Hle].
      cbn [rev]. rewrite <- app_assoc. cbn [app]. exact Hd.
Qed.

Lemma scan_far_spec : forall n l pre p b t,
  scan n pre l = SFar p b t ->
  rev p ++ Ins b :: t = rev pre ++ l /\ is_cond_branch (i_mn b) = true.
Proof.
  intros n l. induction l as [|x r IH]; intros pre p b t Hs.
  - discriminate Hs.
  - assert (Hrec : scan n (x :: pre) r = SFar p b t ->
                   rev p ++ Ins b :: t = rev pre ++ x :: r /\ is_cond_branch (i_mn b) = true).
    { intros H. apply IH in H. destruct H as [H1 H2]. split; [|exact H2].
      rewrite H1. cbn [rev]. rewrite <- app_assoc. reflexivity. }
    destruct x as [l0|i|tx sz|cm|]; cbn [scan] in Hs; try (apply Hrec; exact Hs).
    destruct (is_cond_branch (i_mn i)) eqn:Ec; [|apply Hrec; exact Hs].
    destruct (dist n (i_op i) (Ins i :: pre) r 0%N 0%N) as [a d|]; [|discriminate Hs].
    destruct (N.ltb 127 d); [|apply Hrec; exact Hs].
    inversion Hs; subst p b t. split; [reflexivity|exact Ec].
Qed.

Lemma cb_loop_ok_scan : forall fuel c nfix c' n,
  cb_loop fuel c nfix = CbOk c' n -> scan (length c' + 2) [] c' = SNone.
Proof.
  induction fuel as [|f IH]; intros c nfix c' n H.
  - discriminate H.
  - cbn [cb_loop] in H.
    destruct (scan (length c + 2) [] c) as [|pre b tail|] eqn:Es.
    + inversion H; subst c' n. exact Es.
    + destruct (repair (nfix + 1) b tail) as [mid tail']. apply IH in H. exact H.
    + discriminate H.
Qed.

(** * Label positions *)

Lemma label_positions_from_nil : forall c l k,
  label_positions_from c l k = [] -> Forall (nodef l) c.
Proof.
  induction c as [|x r IH]; intros l k H; [constructor|].
  cbn [label_positions_from] in H. destruct (defines l x) eqn:E; [discriminate H|].
  constructor; [exact E|]. eapply IH. exact H.
Qed.

Lemma label_positions_from_single : forall c l base k,
  label_positions_from c l base = [k] ->
  exists a b, c = a ++ Lbl l :: b /\ k = base + length a
              /\ Forall (nodef l) a /\ Forall (nodef l) b.
Proof.
  induction c as [|x r IH]; intros l base k H; [discriminate H|].
  cbn [label_positions_from] in H. destruct (defines l x) eqn:E.
  - inversion H as [[Hk Hr]]. apply label_positions_from_nil in Hr.
    destruct x as [s| | | |]; try discriminate E. cbn [defines] in E.
    apply String.eqb_eq in E. subst s.
    exists [], r. cbn [app length]. repeat split; [lia|constructor|exact Hr].
  - apply IH in H. destruct H as [a [b [Hc [Hk [Ha Hb]]]]].
    exists (x :: a), b. subst r. cbn [app length]. repeat split;
      [lia|constructor; [exact E|exact Ha]|exact Hb].
Qed.

Lemma firstn_app_length : forall (A : Type) (x y : list A), firstn (length x) (x ++ y) = x.
Proof.
  intros A x y. induction x as [|a x IH]; [reflexivity|].
  cbn [length app firstn]. rewrite IH. reflexivity.
Qed.

Lemma addr_of_app_length : forall x y, addr_of (x ++ y) (length x) = sum_bytes x.
Proof. intros x y. unfold addr_of. rewrite firstn_app_length. reflexivity. Qed.

Lemma Forall_app_l : forall (P : line -> Prop) a b, Forall P (a ++ b) -> Forall P a.
Proof. intros P a b H. apply Forall_app in H. tauto. Qed.
Lemma Forall_app_r : forall (P : line -> Prop) a b, Forall P (a ++ b) -> Forall P b.
Proof. intros P a b H. apply Forall_app in H. tauto. Qed.

(** * (2) after a successful run every conditional branch is in range *)

Theorem cb_in_range : forall (c c' : code) (n : N) (p : nat) (i : instr) (k : nat),
  check_branches c = CbOk c' n ->
  nth_error c' p = Some (Ins i) ->
  is_cond_branch (i_mn i) = true ->
  label_positions c' (i_op i) = [k] ->
  (-128 <= displacement c' p (i_bytes i) k <= 127)%Z.
Proof.
  intros c c' n p i k Hcb Hnth Hc Hlp.
  unfold check_branches in Hcb. apply cb_loop_ok_scan in Hcb.
  apply nth_error_split in Hnth. destruct Hnth as [l1 [l2 [Hc1 Hp]]].
  destruct (scan_none_all _ _ _ Hcb l1 i l2 Hc1 Hc) as [ab [d [Hd Hle]]].
  unfold label_positions in Hlp. apply label_positions_from_single in Hlp.
  destruct Hlp as [a [b [Hc2 [Hk [Ha Hb]]]]]. cbn [plus] in Hk.
  assert (Hp' : addr_of c' p = sum_bytes l1)
    by (rewrite Hc1, <- Hp; apply addr_of_app_length).
  assert (Hk' : addr_of c' k = sum_bytes a)
    by (rewrite Hc2, Hk; apply addr_of_app_length).
  unfold displacement. rewrite Hp', Hk'.
  assert (Hlen : length c' = length l1 + S (length l2))
    by (rewrite Hc1, app_length; reflexivity).
  assert (Hlen2 : length c' = length a + S (length b))
    by (rewrite Hc2, app_length; reflexivity).
  rewrite Hc1 in Hc2.
  apply app_eq_app in Hc2. destruct Hc2 as [l [[H1 H2]|[H1 H2]]].
  - (* the label is above the branch *)
    destruct l as [|y l]; [discriminate H2|].
    cbn [app] in H2. inversion H2 as [[Hy Hb']]. subst y.
    rewrite Hb' in Hb.
    assert (Hup : Ins i :: rev l1 ++ [] = (Ins i :: rev l) ++ Lbl (i_op i) :: rev a).
    { rewrite app_nil_r, H1, rev_app_distr. cbn [rev]. rewrite <- app_assoc. reflexivity. }
    rewrite Hup in Hd.
    rewrite dist_up in Hd.
    + inversion Hd; subst ab d. cbn [nbytes line_bytes] in Hle. rewrite nbytes_rev in Hle.
      rewrite H1. rewrite !sum_bytes_app. cbn [sum_bytes line_bytes].
      rewrite (sum_bytes_nbytes l). lia.
    + constructor; [reflexivity|]. apply Forall_rev. eapply Forall_app_l. exact Hb.
    + apply Forall_app_r in Hb. inversion Hb; assumption.
    + cbn [length]. rewrite rev_length. rewrite Hlen2, Hb', app_length. lia.
  - (* the label is below the branch *)
    destruct l as [|y l]; [discriminate H2|].
    cbn [app] in H2. inversion H2 as [[Hy Hl2]]. subst y.
    rewrite H1 in Ha.
    rewrite Hl2 in Hd.
    rewrite dist_down in Hd.
    + inversion Hd; subst ab d. cbn [nbytes line_bytes] in Hle.
      rewrite H1. rewrite !sum_bytes_app. cbn [sum_bytes line_bytes].
      rewrite (sum_bytes_nbytes l). lia.
    + constructor; [reflexivity|]. rewrite app_nil_r. apply Forall_rev.
      eapply Forall_app_l. exact Ha.
    + apply Forall_app_r in Ha. inversion Ha as [|? ? ? Hl]. exact Hl.
    + rewrite Hlen, Hl2, app_length. lia.
Qed.
Print Assumptions cb_in_range.

(** * Labels and branch targets of a piece of code *)

Lemma all_labels_app : forall a b, all_labels (a ++ b) = all_labels a ++ all_labels b.
Proof. intros a b. unfold all_labels. apply flat_map_app. Qed.

Lemma branch_targets_app : forall a b,
  branch_targets (a ++ b) = branch_targets a ++ branch_targets b.
Proof. intros a b. unfold branch_targets. apply flat_map_app. Qed.

Lemma all_labels_cons_ins : forall i r, all_labels (Ins i :: r) = all_labels r.
Proof. reflexivity. Qed.

Lemma in_all_labels_defines : forall t l,
  In t (all_labels l) -> exists x, In x l /\ defines t x = true.
Proof.
  intros t l H. unfold all_labels in H. apply in_flat_map in H.
  destruct H as [x [Hx Ht]]. exists x. split; [exact Hx|].
  destruct x as [s|i|tx sz|cm|]; cbn [In] in Ht; try contradiction.
  destruct Ht as [Ht|Ht]; [|contradiction]. subst s. cbn [defines]. apply String.eqb_refl.
Qed.

Lemma inv_mn_cond : forall m, is_cond_branch m = true -> is_cond_branch (inv_mn m) = true.
Proof. intros m H. destruct m; try discriminate H; reflexivity. Qed.

Lemma all_labels_mid3 : forall n b, all_labels (mid3 n b) = [fixl n].
Proof. reflexivity. Qed.
Lemma all_labels_mid5 : forall n b, all_labels (mid5 n b) = [fixup n; fixl n].
Proof. reflexivity. Qed.
Lemma branch_targets_mid3 : forall n b,
  is_cond_branch (i_mn b) = true -> branch_targets (mid3 n b) = [fixl n].
Proof.
  intros n b H. unfold mid3, branch_targets, mk_branch, mk_jmp.
  cbn [flat_map i_mn i_op is_cond_branch app]. rewrite (inv_mn_cond _ H). reflexivity.
Qed.
Lemma branch_targets_mid5 : forall n b,
  is_cond_branch (i_mn b) = true -> branch_targets (mid5 n b) = [fixup n; fixl n].
Proof.
  intros n b H. unfold mid5, branch_targets, mk_branch, mk_jmp.
  cbn [flat_map i_mn i_op is_cond_branch app]. rewrite (inv_mn_cond _ H). reflexivity.
Qed.

(** * One iteration of the loop *)

Lemma cb_step : forall c pre b tail n mid tail',
  scan (length c + 2) [] c = SFar pre b tail ->
  repair n b tail = (mid, tail') ->
  c = rev pre ++ Ins b :: tail /\ is_cond_branch (i_mn b) = true /\
  ((mid = mid3 n b /\ tail' = tail) \/
   (exists i2, tail = Ins i2 :: tail' /\ i_mn i2 = BEQ /\ i_op i2 = i_op b /\ mid = mid5 n b)).
Proof.
  intros c pre b tail n mid tail' Hs Hr.
  apply scan_far_spec in Hs. destruct Hs as [Hc Hb]. cbn [rev app] in Hc.
  split; [symmetry; exact Hc|]. split; [exact Hb|].
  rewrite (repair_eq n b tail Hb) in Hr.
  destruct ((mnem_eqb (i_mn b) BMI || mnem_eqb (i_mn b) BCC) && lte_pair_of b tail) eqn:E.
  - right. apply andb_true_iff in E. destruct E as [_ El].
    apply lte_pair_of_true in El. destruct El as [i2 [tail0 [Et [Hm Ho]]]].
    subst tail. cbn [tl] in Hr. inversion Hr; subst mid tail'.
    exists i2. auto.
  - left. inversion Hr; subst mid tail'. auto.
Qed.

(** * (3) no panic when every branch target is defined *)

Definition closed (c : code) : Prop :=
  forall t, In t (branch_targets c) -> In t (all_labels c).

Lemma scan_no_panic : forall n l pre,
  length pre + length l <= n ->
  (forall t, In t (branch_targets l) -> In t (all_labels (rev pre ++ l))) ->
  scan n pre l <> SPanic.
Proof.
  intros n l. induction l as [|x r IH]; intros pre Hlen Hcl.
  - discriminate.
  - assert (Hrec : scan n (x :: pre) r <> SPanic).
    { apply IH.
      - cbn [length] in *. lia.
      - intros t Ht. cbn [rev]. rewrite <- app_assoc. cbn [app]. apply Hcl.
        change (x :: r) with ([x] ++ r). rewrite branch_targets_app.
        apply in_or_app. right. exact Ht. }
    destruct x as [l0|i|tx sz|cm|]; cbn [scan]; try exact Hrec.
    destruct (is_cond_branch (i_mn i)) eqn:Ec; [|exact Hrec].
    assert (Hnp : dist n (i_op i) (Ins i :: pre) r 0%N 0%N <> DPanic).
    { apply dist_no_panic.
      - cbn [length] in *. lia.
      - cbn [length] in *. lia.
      - assert (Hin : In (i_op i) (all_labels (rev pre ++ Ins i :: r))).
        { apply Hcl. unfold branch_targets. cbn [flat_map]. rewrite Ec. left. reflexivity. }
        apply in_all_labels_defines in Hin. destruct Hin as [x [Hx Hd]].
        exists x. split; [|exact Hd].
        apply in_app_or in Hx. destruct Hx as [Hx|Hx].
        + left. right. apply in_rev. exact Hx.
        + destruct Hx as [Hx|Hx]; [subst x; discriminate Hd|]. right. exact Hx. }
    destruct (dist n (i_op i) (Ins i :: pre) r 0%N 0%N) as [a d|]; [|congruence].
    destruct (N.ltb 127 d); [discriminate|exact Hrec].
Qed.

Lemma closed_step3 : forall A b T n,
  is_cond_branch (i_mn b) = true ->
  closed (A ++ Ins b :: T) -> closed (A ++ mid3 n b ++ T).
Proof.
  intros A b T n Hb Hcl t Ht.
  rewrite !all_labels_app, all_labels_mid3.
  rewrite !branch_targets_app, (branch_targets_mid3 n b Hb) in Ht.
  assert (Hold : In t (branch_targets (A ++ Ins b :: T)) -> In t (all_labels A ++ [fixl n] ++ all_labels T)).
  { intros H. apply Hcl in H. rewrite all_labels_app, all_labels_cons_ins in H.
    apply in_app_or in H. apply in_or_app. destruct H as [H|H]; [left; exact H|].
    right. apply in_or_app. right. exact H. }
  apply in_app_or in Ht. destruct Ht as [Ht|Ht].
  - apply Hold. rewrite branch_targets_app. apply in_or_app. left. exact Ht.
  - apply in_app_or in Ht. destruct Ht as [Ht|Ht].
    + apply in_or_app. right. apply in_or_app. left. exact Ht.
    + apply Hold. rewrite branch_targets_app. apply in_or_app. right.
      change (Ins b :: T) with ([Ins b] ++ T). rewrite branch_targets_app.
      apply in_or_app. right. exact Ht.
Qed.

Lemma closed_step5 : forall A b i2 T n,
  is_cond_branch (i_mn b) = true ->
  closed (A ++ Ins b :: Ins i2 :: T) -> closed (A ++ mid5 n b ++ T).
Proof.
  intros A b i2 T n Hb Hcl t Ht.
  rewrite !all_labels_app, all_labels_mid5.
  rewrite !branch_targets_app, (branch_targets_mid5 n b Hb) in Ht.
  assert (Hold : In t (branch_targets (A ++ Ins b :: Ins i2 :: T)) ->
                 In t (all_labels A ++ [fixup n; fixl n] ++ all_labels T)).
  { intros H. apply Hcl in H. rewrite all_labels_app, !all_labels_cons_ins in H.
    apply in_app_or in H. apply in_or_app. destruct H as [H|H]; [left; exact H|].
    right. apply in_or_app. right. exact H. }
  apply in_app_or in Ht. destruct Ht as [Ht|Ht].
  - apply Hold. rewrite branch_targets_app. apply in_or_app. left. exact Ht.
  - apply in_app_or in Ht. destruct Ht as [Ht|Ht].
    + apply in_or_app. right. apply in_or_app. left. exact Ht.
    + apply Hold. rewrite branch_targets_app. apply in_or_app. right.
      change (Ins b :: Ins i2 :: T) with ([Ins b; Ins i2] ++ T). rewrite branch_targets_app.
      apply in_or_app. right. exact Ht.
Qed.

Lemma closed_step : forall c pre b tail n mid tail',
  scan (length c + 2) [] c = SFar pre b tail ->
  repair n b tail = (mid, tail') ->
  closed c -> closed (rev pre ++ mid ++ tail').
Proof.
  intros c pre b tail n mid tail' Hs Hr Hcl.
  destruct (cb_step _ _ _ _ _ _ _ Hs Hr) as [Hc [Hb [[Hm Ht]|[i2 [Ht [Hm2 [Ho2 Hm]]]]]]].
  - subst mid tail' c. apply closed_step3; assumption.
  - subst mid tail c. eapply closed_step5; eassumption.
Qed.

Lemma cb_loop_no_panic : forall fuel c nfix, closed c -> cb_loop fuel c nfix <> CbPanic.
Proof.
  induction fuel as [|f IH]; intros c nfix Hcl.
  - discriminate.
  - cbn [cb_loop].
    destruct (scan (length c + 2) [] c) as [|pre b tail|] eqn:Es.
    + discriminate.
    + destruct (repair (nfix + 1) b tail) as [mid tail'] eqn:Er.
      apply IH. eapply closed_step; eassumption.
    + exfalso. revert Es. apply scan_no_panic.
      * cbn [length]. lia.
      * intros t Ht. cbn [rev app]. apply Hcl. exact Ht.
Qed.

Theorem cb_no_panic : forall c : code,
  (forall t, In t (branch_targets c) -> In t (all_labels c)) ->
  check_branches c <> CbPanic.
Proof.
  intros c H. unfold check_branches. apply cb_loop_no_panic. exact H.
Qed.
Print Assumptions cb_no_panic.

(** * Decimal printing is injective *)

Fixpoint pow10 (k : nat) : N :=
  match k with O => 1%N | S k' => (10 * pow10 k')%N end.

Lemma dec_digits_S : forall f n acc,
  dec_digits (S f) n acc =
    if N.eqb (n / 10) 0
    then String (ascii_of_N (48 + n mod 10)) acc
    else dec_digits f (n / 10)%N (String (ascii_of_N (48 + n mod 10)) acc).
Proof. reflexivity. Qed.

Lemma digit_char : forall d, (d < 10)%N ->
  is_digit (ascii_of_N (48 + d)) = true /\ N_of_ascii (ascii_of_N (48 + d)) = (48 + d)%N.
Proof.
  intros d Hd. unfold is_digit. rewrite N_ascii_embedding by lia.
  split; [|reflexivity]. apply andb_true_iff. split; apply N.leb_le; lia.
Qed.

Lemma parse_dec_digit : forall d acc a, (d < 10)%N ->
  parse_dec_aux (String (ascii_of_N (48 + d)) acc) a = parse_dec_aux acc (a * 10 + d)%N.
Proof.
  intros d acc a Hd. destruct (digit_char d Hd) as [H1 H2].
  cbn [parse_dec_aux]. rewrite H1, H2. f_equal. lia.
Qed.

Lemma parse_dec_digits : forall f n acc, (n < pow10 f)%N ->
  parse_dec_aux (dec_digits f n acc) 0%N = parse_dec_aux acc n.
Proof.
  induction f as [|f IH]; intros n acc Hn.
  - cbn [pow10] in Hn. cbn [dec_digits]. f_equal. lia.
  - rewrite dec_digits_S.
    assert (Hd : (n mod 10 < 10)%N) by (apply N.mod_lt; lia).
    assert (Hdm : n = (10 * (n / 10) + n mod 10)%N) by (apply N.div_mod; lia).
    destruct (N.eqb (n / 10) 0) eqn:E.
    + apply N.eqb_eq in E. rewrite parse_dec_digit by exact Hd. f_equal. lia.
    + rewrite IH.
      * rewrite parse_dec_digit by exact Hd. f_equal. lia.
      * apply N.div_lt_upper_bound; [lia|]. cbn [pow10] in Hn. exact Hn.
Qed.

Lemma pos_lt_pow10 : forall p, (Npos p < pow10 (Pos.size_nat p))%N.
Proof.
  induction p as [p IH|p IH|]; cbn [Pos.size_nat pow10].
  - change (N.pos p~1) with (2 * N.pos p + 1)%N. lia.
  - change (N.pos p~0) with (2 * N.pos p)%N. lia.
  - lia.
Qed.

Lemma N_lt_pow10 : forall n, (n < pow10 (S (N.size_nat n)))%N.
Proof.
  intros [|p]; cbn [N.size_nat pow10]; [lia|].
  pose proof (pos_lt_pow10 p). lia.
Qed.

Lemma parse_string_of_N : forall n, parse_dec_aux (string_of_N n) 0%N = Some n.
Proof.
  intros n. unfold string_of_N. rewrite parse_dec_digits by apply N_lt_pow10. reflexivity.
Qed.

Lemma string_of_N_inj : forall a b, string_of_N a = string_of_N b -> a = b.
Proof.
  intros a b H. pose proof (parse_string_of_N a) as Ha. rewrite H, parse_string_of_N in Ha.
  congruence.
Qed.

Definition starts_digit (s : string) : bool :=
  match s with String ch _ => is_digit ch | EmptyString => false end.

Lemma dec_digits_starts : forall f n acc,
  starts_digit acc = true -> starts_digit (dec_digits f n acc) = true.
Proof.
  induction f as [|f IH]; intros n acc H; [exact H|].
  rewrite dec_digits_S.
  assert (Hd : (n mod 10 < 10)%N) by (apply N.mod_lt; lia).
  destruct (N.eqb (n / 10) 0); [|apply IH]; cbn [starts_digit]; apply digit_char; exact Hd.
Qed.

Lemma string_of_N_starts : forall n, starts_digit (string_of_N n) = true.
Proof.
  intros n. unfold string_of_N. rewrite dec_digits_S.
  assert (Hd : (n mod 10 < 10)%N) by (apply N.mod_lt; lia).
  destruct (N.eqb (n / 10) 0); [|apply dec_digits_starts]; cbn [starts_digit];
    apply digit_char; exact Hd.
Qed.

Lemma fixl_inj : forall a b, fixl a = fixl b -> a = b.
Proof.
  intros a b H. unfold fixl in H. cbn [String.append] in H. inversion H as [H'].
  apply string_of_N_inj. exact H'.
Qed.

Lemma fixup_inj : forall a b, fixup a = fixup b -> a = b.
Proof.
  intros a b H. unfold fixup in H. cbn [String.append] in H. inversion H as [H'].
  apply string_of_N_inj. exact H'.
Qed.

Lemma fixl_ne_fixup : forall a b, fixl a <> fixup b.
Proof.
  intros a b H. unfold fixl, fixup in H. cbn [String.append] in H. inversion H as [H'].
  pose proof (string_of_N_starts a) as Hs. rewrite H' in Hs. discriminate Hs.
Qed.

Lemma is_fix_fixl : forall n, is_fix_label (fixl n) = true.
Proof. reflexivity. Qed.
Lemma is_fix_fixup : forall n, is_fix_label (fixup n) = true.
Proof. reflexivity. Qed.

(** * Uniform description of one iteration: [D] is deleted, [M] is inserted *)

Definition inert (x : line) : bool :=
  match x with
  | Ins k => negb (is_cond_branch (i_mn k)) || is_fix_label (i_op k)
  | _ => true
  end.

Definition new_labels (n : N) (X : list string) : Prop :=
  X = [fixl n] \/ X = [fixup n; fixl n].

Lemma cb_step_gen : forall c pre b tail n mid tail',
  scan (length c + 2) [] c = SFar pre b tail ->
  repair n b tail = (mid, tail') ->
  exists D X,
    c = rev pre ++ D ++ tail' /\
    all_labels D = [] /\
    (forall t, In t (branch_targets D) -> t = i_op b) /\
    (exists D', D = Ins b :: D') /\
    all_labels mid = X /\ branch_targets mid = X /\ new_labels n X /\
    (mid = mid3 n b \/ mid = mid5 n b).
Proof.
  intros c pre b tail n mid tail' Hs Hr.
  destruct (cb_step _ _ _ _ _ _ _ Hs Hr) as [Hc [Hb [[Hm Ht]|[i2 [Ht [Hm2 [Ho2 Hm]]]]]]].
  - subst mid tail'. exists [Ins b], [fixl n]. cbn [app].
    repeat split; try assumption; try reflexivity.
    + intros t Ht. unfold branch_targets in Ht. cbn [flat_map] in Ht. rewrite Hb in Ht.
      destruct Ht as [Ht|[]]. symmetry. exact Ht.
    + exists []. reflexivity.
    + apply branch_targets_mid3. exact Hb.
    + left. reflexivity.
    + left. reflexivity.
  - subst mid tail. exists [Ins b; Ins i2], [fixup n; fixl n]. cbn [app].
    repeat split; try assumption; try reflexivity.
    + intros t Ht. unfold branch_targets in Ht. cbn [flat_map] in Ht.
      rewrite Hb, Hm2 in Ht. cbn [is_cond_branch app] in Ht.
      destruct Ht as [Ht|[Ht|[]]]; congruence.
    + exists [Ins i2]. reflexivity.
    + apply branch_targets_mid5. exact Hb.
    + right. reflexivity.
    + right. reflexivity.
Qed.

(** * Invariants on the labels *)

Definition lab_bound (c : code) (nfix : N) : Prop :=
  forall l, In l (all_labels c) ->
    is_fix_label l = false \/ exists m, (m <= nfix)%N /\ (l = fixl m \/ l = fixup m).

Lemma new_labels_in : forall n X l,
  new_labels n X -> In l X -> l = fixl n \/ l = fixup n.
Proof.
  intros n X l [-> | ->] H; cbn [In] in H.
  - destruct H as [<-|[]]. left. reflexivity.
  - destruct H as [<-|[<-|[]]]; [right|left]; reflexivity.
Qed.

Lemma lab_bound_fresh : forall c nfix X l,
  lab_bound c nfix -> new_labels (nfix + 1) X -> In l X -> ~ In l (all_labels c).
Proof.
  intros c nfix X l Hb HX Hl Hin.
  assert (Hl' : l = fixl (nfix + 1) \/ l = fixup (nfix + 1)).
  { eapply new_labels_in; eassumption. }
  destruct (Hb l Hin) as [Hnf|[m [Hm Hlm]]].
  - destruct Hl' as [-> | ->]; discriminate Hnf.
  - destruct Hl' as [-> | ->]; destruct Hlm as [Hlm|Hlm].
    + apply fixl_inj in Hlm. lia.
    + apply fixl_ne_fixup in Hlm. exact Hlm.
    + symmetry in Hlm. apply fixl_ne_fixup in Hlm. exact Hlm.
    + apply fixup_inj in Hlm. lia.
Qed.

Lemma new_labels_nodup : forall n X, new_labels n X -> NoDup X.
Proof.
  intros n X [-> | ->].
  - constructor; [intros []|constructor].
  - constructor.
    + intros [H|[]]. apply fixl_ne_fixup in H. exact H.
    + constructor; [intros []|constructor].
Qed.

Lemma new_labels_fix : forall n X l, new_labels n X -> In l X -> is_fix_label l = true.
Proof.
  intros n X l [-> | ->] H; cbn [In] in H.
  - destruct H as [<-|[]]. reflexivity.
  - destruct H as [<-|[<-|[]]]; reflexivity.
Qed.

Lemma nodup_insert : forall (X L1 L2 : list string),
  NoDup (L1 ++ L2) -> NoDup X -> (forall x, In x X -> ~ In x (L1 ++ L2)) ->
  NoDup (L1 ++ X ++ L2).
Proof.
  induction X as [|x X IH]; intros L1 L2 HL HX Hf.
  - exact HL.
  - inversion HX as [|x' X' Hx HX']; subst.
    cbn [app]. apply (Permutation_NoDup (Permutation_middle L1 (X ++ L2) x)).
    constructor.
    + intros Hin. apply in_app_or in Hin. destruct Hin as [Hin|Hin].
      * apply (Hf x (or_introl eq_refl)). apply in_or_app. left. exact Hin.
      * apply in_app_or in Hin. destruct Hin as [Hin|Hin]; [exact (Hx Hin)|].
        apply (Hf x (or_introl eq_refl)). apply in_or_app. right. exact Hin.
    + apply IH; [exact HL|exact HX'|]. intros y Hy. apply Hf. right. exact Hy.
Qed.

Lemma lab_bound_step : forall A D M T X n,
  all_labels D = [] -> all_labels M = X -> new_labels (n + 1) X ->
  lab_bound (A ++ D ++ T) n -> lab_bound (A ++ M ++ T) (n + 1).
Proof.
  intros A D M T X n HD HM HX Hb l Hl.
  rewrite !all_labels_app, HM in Hl.
  assert (Hold : In l (all_labels (A ++ D ++ T)) ->
    is_fix_label l = false \/ exists m, (m <= n + 1)%N /\ (l = fixl m \/ l = fixup m)).
  { intros H. destruct (Hb l H) as [H1|[m [Hm H1]]]; [left; exact H1|].
    right. exists m. split; [lia|exact H1]. }
  apply in_app_or in Hl. destruct Hl as [Hl|Hl].
  - apply Hold. rewrite !all_labels_app. apply in_or_app. left. exact Hl.
  - apply in_app_or in Hl. destruct Hl as [Hl|Hl].
    + right. exists (n + 1)%N. split; [lia|].
      eapply new_labels_in; eassumption.
    + apply Hold. rewrite !all_labels_app. apply in_or_app. right.
      apply in_or_app. right. exact Hl.
Qed.

Lemma labels_incl_step : forall A D M T l,
  In l (all_labels (A ++ D ++ T)) -> all_labels D = [] -> In l (all_labels (A ++ M ++ T)).
Proof.
  intros A D M T l H HD. rewrite !all_labels_app, HD in H. cbn [app] in H.
  rewrite !all_labels_app. apply in_app_or in H. apply in_or_app.
  destruct H as [H|H]; [left; exact H|]. right. apply in_or_app. right. exact H.
Qed.

Lemma nodup_step : forall A D M T X n,
  all_labels D = [] -> all_labels M = X -> new_labels (n + 1) X ->
  lab_bound (A ++ D ++ T) n ->
  NoDup (all_labels (A ++ D ++ T)) -> NoDup (all_labels (A ++ M ++ T)).
Proof.
  intros A D M T X n HD HM HX Hb Hnd.
  assert (Hfresh : forall x, In x X -> ~ In x (all_labels A ++ all_labels T)).
  { intros x Hx Hin. apply (lab_bound_fresh _ _ _ _ Hb HX Hx).
    rewrite !all_labels_app, HD. exact Hin. }
  rewrite !all_labels_app, HD in Hnd. cbn [app] in Hnd.
  rewrite !all_labels_app, HM.
  apply nodup_insert; [exact Hnd|eapply new_labels_nodup; exact HX|exact Hfresh].
Qed.

(** * (4) labels after a successful run *)

Definition inv4 (c0 c : code) (n : N) : Prop :=
  NoDup (all_labels c) /\ lab_bound c n /\
  (forall l, In l (all_labels c0) -> In l (all_labels c)) /\
  (forall t, In t (branch_targets c) -> In t (branch_targets c0) \/ In t (all_labels c)).

Lemma inv4_step : forall c0 c n pre b tail mid tail',
  scan (length c + 2) [] c = SFar pre b tail ->
  repair (n + 1) b tail = (mid, tail') ->
  inv4 c0 c n -> inv4 c0 (rev pre ++ mid ++ tail') (n + 1).
Proof.
  intros c0 c n pre b tail mid tail' Hs Hr [Hnd [Hb [Hin Hbt]]].
  destruct (cb_step_gen _ _ _ _ _ _ _ Hs Hr) as [D [X [Hc [HD [_ [_ [HM [HBM [HX _]]]]]]]]].
  subst c. repeat split.
  - eapply nodup_step; eassumption.
  - eapply lab_bound_step; eassumption.
  - intros l Hl. eapply labels_incl_step; [apply Hin; exact Hl|exact HD].
  - intros t Ht. rewrite !branch_targets_app, HBM in Ht.
    assert (Hold : In t (branch_targets (rev pre ++ D ++ tail')) ->
                   In t (branch_targets c0) \/ In t (all_labels (rev pre ++ mid ++ tail'))).
    { intros H. destruct (Hbt t H) as [H1|H1]; [left; exact H1|right].
      eapply labels_incl_step; [exact H1|exact HD]. }
    apply in_app_or in Ht. destruct Ht as [Ht|Ht].
    + apply Hold. rewrite !branch_targets_app. apply in_or_app. left. exact Ht.
    + apply in_app_or in Ht. destruct Ht as [Ht|Ht].
      * right. rewrite !all_labels_app, HM. apply in_or_app. right. apply in_or_app.
        left. exact Ht.
      * apply Hold. rewrite !branch_targets_app. apply in_or_app. right.
        apply in_or_app. right. exact Ht.
Qed.

Lemma cb_loop_inv4 : forall c0 fuel c n c' n',
  cb_loop fuel c n = CbOk c' n' -> inv4 c0 c n -> inv4 c0 c' n'.
Proof.
  intros c0. induction fuel as [|f IH]; intros c n c' n' H Hinv.
  - discriminate H.
  - cbn [cb_loop] in H.
    destruct (scan (length c + 2) [] c) as [|pre b tail|] eqn:Es.
    + inversion H; subst c' n'. exact Hinv.
    + destruct (repair (n + 1) b tail) as [mid tail'] eqn:Er.
      eapply IH; [exact H|]. eapply inv4_step; eassumption.
    + discriminate H.
Qed.

Theorem cb_labels : forall (c c' : code) (n : N),
  check_branches c = CbOk c' n ->
  (forall l, In l (all_labels c) -> is_fix_label l = false) ->
  NoDup (all_labels c) ->
  NoDup (all_labels c')
  /\ (forall l, In l (all_labels c) -> In l (all_labels c'))
  /\ (forall t, In t (branch_targets c') -> In t (branch_targets c) \/ In t (all_labels c')).
Proof.
  intros c c' n Hcb Hnf Hnd. unfold check_branches in Hcb.
  assert (Hinv : inv4 c c 0%N).
  { repeat split.
    - exact Hnd.
    - intros l Hl. left. apply Hnf. exact Hl.
    - intros l Hl. exact Hl.
    - intros t Ht. left. exact Ht. }
  destruct (cb_loop_inv4 _ _ _ _ _ _ Hcb Hinv) as [H1 [_ [H3 H4]]].
  repeat split; assumption.
Qed.
Print Assumptions cb_labels.

(** * (5) termination within the fuel *)

(** the branches the repair inserts stay next to their label *)
Definition near (i : instr) (r : list line) : Prop :=
  exists d1 l3, r = d1 ++ Lbl (i_op i) :: l3 /\
    Forall (fun x => defines (i_op i) x = false /\ inert x = true) d1 /\
    (nbytes d1 <= 127)%N.

Fixpoint pat_ok (l : list line) : Prop :=
  match l with
  | [] => True
  | x :: r =>
      (forall i, x = Ins i -> is_cond_branch (i_mn i) = true ->
                 is_fix_label (i_op i) = true -> near i r)
      /\ pat_ok r
  end.

Lemma pat_ok_suffix : forall a b, pat_ok (a ++ b) -> pat_ok b.
Proof.
  induction a as [|x a IH]; intros b H; [exact H|].
  cbn [app pat_ok] in H. apply IH. tauto.
Qed.

Lemma split_inert : forall (t : string) d1 A b T0 l3,
  A ++ Ins b :: T0 = d1 ++ Lbl t :: l3 ->
  Forall (fun x => defines t x = false /\ inert x = true) d1 ->
  inert (Ins b) = false ->
  exists A', A = d1 ++ Lbl t :: A'.
Proof.
  intros t d1. induction d1 as [|y d1 IH]; intros A b T0 l3 Heq Hall Hb.
  - destruct A as [|x A]; [discriminate Heq|].
    cbn [app] in Heq. inversion Heq; subst x. exists A. reflexivity.
  - inversion Hall as [|y' d1' [_ Hy] Hall']; subst.
    destruct A as [|x A].
    + cbn [app] in Heq. inversion Heq; subst y. congruence.
    + cbn [app] in Heq. inversion Heq as [[Hx Heq']]. subst y.
      destruct (IH A b T0 l3 Heq' Hall' Hb) as [A' HA]. exists A'. subst A. reflexivity.
Qed.

Lemma near_cut : forall i A b T0 R,
  near i (A ++ Ins b :: T0) -> inert (Ins b) = false -> near i (A ++ R).
Proof.
  intros i A b T0 R [d1 [l3 [Heq [Hall Hle]]]] Hb.
  destruct (split_inert _ _ _ _ _ _ Heq Hall Hb) as [A' HA].
  exists d1, (A' ++ R). split; [|split; assumption].
  subst A. rewrite <- app_assoc. reflexivity.
Qed.

Lemma pat_ok_replace : forall A b T0 R,
  pat_ok (A ++ Ins b :: T0) -> inert (Ins b) = false -> pat_ok R -> pat_ok (A ++ R).
Proof.
  induction A as [|x A IH]; intros b T0 R H Hb HR; [exact HR|].
  cbn [app pat_ok] in *. destruct H as [H1 H2]. split.
  - intros i Hi Hc Hf. eapply near_cut; [apply H1; assumption|exact Hb].
  - eapply IH; eassumption.
Qed.

Lemma inert_mk_branch_fixl : forall m n, inert (mk_branch m (fixl n)) = true.
Proof. intros m n. unfold mk_branch, inert. cbn [i_mn i_op]. rewrite is_fix_fixl. apply orb_true_r. Qed.
Lemma inert_mk_branch_fixup : forall m n, inert (mk_branch m (fixup n)) = true.
Proof. intros m n. unfold mk_branch, inert. cbn [i_mn i_op]. rewrite is_fix_fixup. apply orb_true_r. Qed.
Lemma inert_mk_branch_prot_fixup : forall m n, inert (mk_branch_prot m (fixup n)) = true.
Proof. intros m n. unfold mk_branch_prot, inert. cbn [i_mn i_op]. rewrite is_fix_fixup. apply orb_true_r. Qed.
Lemma inert_mk_jmp : forall t, inert (mk_jmp t) = true.
Proof. reflexivity. Qed.

Lemma pat_ok_mid3 : forall n b T, pat_ok T -> pat_ok (mid3 n b ++ T).
Proof.
  intros n b T HT. unfold mid3. cbn [app pat_ok]. repeat split.
  - intros i Hi Hc Hf. unfold mk_branch in Hi. inversion Hi; subst i. cbn [i_op].
    exists [mk_jmp (i_op b)], T. cbn [app]. repeat split.
    + constructor; [|constructor]. split; reflexivity.
    + cbn. lia.
  - intros i Hi Hc Hf. unfold mk_jmp in Hi. inversion Hi; subst i. discriminate Hc.
  - intros i Hi. discriminate Hi.
  - exact HT.
Qed.

Lemma pat_ok_mid5 : forall n b T, pat_ok T -> pat_ok (mid5 n b ++ T).
Proof.
  intros n b T HT. unfold mid5. cbn [app pat_ok]. repeat split.
  - intros i Hi Hc Hf. unfold mk_branch in Hi. inversion Hi; subst i. cbn [i_op].
    exists [mk_branch (inv_mn (i_mn b)) (fixl n)], (mk_jmp (i_op b) :: Lbl (fixl n) :: T).
    cbn [app]. repeat split.
    + constructor; [|constructor]. split; [reflexivity|apply inert_mk_branch_fixl].
    + cbn. lia.
  - intros i Hi Hc Hf. unfold mk_branch in Hi. inversion Hi; subst i. cbn [i_op].
    exists [Lbl (fixup n); mk_jmp (i_op b)], T. cbn [app]. repeat split.
    + constructor; [|constructor; [|constructor]].
      * split; [|reflexivity]. cbn [defines]. apply String.eqb_neq. apply fixup_ne_fix_same.
      * split; reflexivity.
    + cbn. lia.
  - intros i Hi. discriminate Hi.
  - intros i Hi Hc Hf. unfold mk_jmp in Hi. inversion Hi; subst i. discriminate Hc.
  - intros i Hi. discriminate Hi.
  - exact HT.
Qed.

(** fix labels are defined at most once *)
Definition fix_unique (c : code) : Prop := NoDup (filter is_fix_label (all_labels c)).

Lemma nodup_app_disj : forall (a b : list string) t,
  NoDup (a ++ b) -> In t a -> In t b -> False.
Proof.
  induction a as [|x a IH]; intros b t Hnd Ha Hb; [destruct Ha|].
  cbn [app] in Hnd. inversion Hnd as [|x' l' Hx Hnd']; subst.
  destruct Ha as [Ha|Ha].
  - subst x. apply Hx. apply in_or_app. right. exact Hb.
  - eapply IH; eassumption.
Qed.

Lemma defines_in_labels : forall t x l,
  In x l -> defines t x = true -> In t (all_labels l).
Proof.
  intros t x l Hx Hd. unfold all_labels. apply in_flat_map. exists x. split; [exact Hx|].
  destruct x as [s|i|tx sz|cm|]; try discriminate Hd.
  cbn [defines] in Hd. apply String.eqb_eq in Hd. subst s. left. reflexivity.
Qed.

Lemma scan_far_inert : forall n l pre p b t,
  scan n pre l = SFar p b t ->
  length l < n ->
  pat_ok l ->
  fix_unique (rev pre ++ l) ->
  inert (Ins b) = false.
Proof.
  intros n l. induction l as [|x r IH]; intros pre p b t Hs Hlen Hpat Hu.
  - discriminate Hs.
  - assert (Hrec : scan n (x :: pre) r = SFar p b t -> inert (Ins b) = false).
    { intros H. eapply IH.
      - exact H.
      - cbn [length] in Hlen. lia.
      - cbn [pat_ok] in Hpat. tauto.
      - cbn [rev]. rewrite <- app_assoc. exact Hu. }
    destruct x as [l0|i|tx sz|cm|]; cbn [scan] in Hs; try (apply Hrec; exact Hs).
    destruct (is_cond_branch (i_mn i)) eqn:Ec; [|apply Hrec; exact Hs].
    destruct (dist n (i_op i) (Ins i :: pre) r 0%N 0%N) as [a d|] eqn:Ed; [|discriminate Hs].
    destruct (N.ltb 127 d) eqn:El; [|apply Hrec; exact Hs].
    inversion Hs; subst p b t. clear Hs Hrec.
    cbn [inert]. rewrite Ec. cbn [negb orb].
    destruct (is_fix_label (i_op i)) eqn:Ef; [exfalso|reflexivity].
    cbn [pat_ok] in Hpat. destruct Hpat as [Hnear _].
    destruct (Hnear i eq_refl Ec Ef) as [d1 [l3 [Hr [Hall Hle]]]].
    assert (Hpre : Forall (nodef (i_op i)) (Ins i :: pre)).
    { constructor; [reflexivity|]. apply Forall_forall. intros x Hx.
      unfold nodef. destruct (defines (i_op i) x) eqn:Ex; [exfalso|reflexivity].
      unfold fix_unique in Hu. rewrite all_labels_app, filter_app in Hu.
      apply (nodup_app_disj _ _ (i_op i) Hu).
      - apply filter_In. split; [|exact Ef].
        eapply defines_in_labels; [|exact Ex]. apply -> in_rev. exact Hx.
      - apply filter_In. split; [|exact Ef].
        rewrite all_labels_cons_ins. rewrite Hr, all_labels_app.
        apply in_or_app. right. left. reflexivity. }
    assert (Hd1 : Forall (nodef (i_op i)) d1).
    { eapply Forall_impl; [|exact Hall]. intros x [Hx _]. exact Hx. }
    rewrite Hr in Ed. rewrite dist_down in Ed.
    + inversion Ed; subst a d. apply N.ltb_lt in El. lia.
    + exact Hpre.
    + exact Hd1.
    + cbn [length] in Hlen. rewrite Hr, app_length in Hlen. lia.
Qed.

Lemma fix_unique_step : forall A D M T X n,
  all_labels D = [] -> all_labels M = X -> new_labels (n + 1) X ->
  lab_bound (A ++ D ++ T) n ->
  fix_unique (A ++ D ++ T) -> fix_unique (A ++ M ++ T).
Proof.
  intros A D M T X n HD HM HX Hb Hu. unfold fix_unique in *.
  assert (HfX : filter is_fix_label X = X).
  { assert (H : forall l, In l X -> is_fix_label l = true)
      by (intros l Hl; eapply new_labels_fix; eassumption).
    clear - H. induction X as [|x X IH]; [reflexivity|].
    cbn [filter]. rewrite (H x (or_introl eq_refl)). f_equal. apply IH.
    intros l Hl. apply H. right. exact Hl. }
  rewrite !all_labels_app, HD in Hu. cbn [app] in Hu. rewrite filter_app in Hu.
  rewrite !all_labels_app, HM, !filter_app, HfX.
  apply nodup_insert; [exact Hu|eapply new_labels_nodup; exact HX|].
  intros x Hx Hin. apply (lab_bound_fresh _ _ _ _ Hb HX Hx).
  rewrite !all_labels_app, HD. cbn [app].
  apply in_app_or in Hin. apply in_or_app.
  destruct Hin as [Hin|Hin]; apply filter_In in Hin; tauto.
Qed.

(** the measure: branches that are not repair-made *)
Definition norig (l : list line) : nat := length (filter (fun x => negb (inert x)) l).

Lemma norig_app : forall a b, norig (a ++ b) = norig a + norig b.
Proof. intros a b. unfold norig. rewrite filter_app, app_length. reflexivity. Qed.

Lemma norig_le : forall l, norig l <= length l.
Proof.
  induction l as [|x l IH]; [apply le_n|].
  unfold norig in *. cbn [filter length]. destruct (negb (inert x)); cbn [length]; lia.
Qed.

Lemma norig_mid3 : forall n b, norig (mid3 n b) = 0.
Proof.
  intros n b. unfold norig, mid3. cbn [filter].
  rewrite inert_mk_branch_fixl, inert_mk_jmp. reflexivity.
Qed.

Lemma norig_mid5 : forall n b, norig (mid5 n b) = 0.
Proof.
  intros n b. unfold norig, mid5. cbn [filter].
  rewrite inert_mk_branch_fixl, inert_mk_branch_prot_fixup, inert_mk_jmp. reflexivity.
Qed.

Definition inv5 (c : code) (n : N) : Prop :=
  closed c /\ lab_bound c n /\ fix_unique c /\ pat_ok c.

Lemma inv5_step : forall c n pre b tail mid tail',
  scan (length c + 2) [] c = SFar pre b tail ->
  repair (n + 1) b tail = (mid, tail') ->
  inv5 c n ->
  inv5 (rev pre ++ mid ++ tail') (n + 1) /\ norig (rev pre ++ mid ++ tail') < norig c.
Proof.
  intros c n pre b tail mid tail' Hs Hr [Hcl [Hb [Hu Hpat]]].
  assert (Hinert : inert (Ins b) = false).
  { eapply scan_far_inert; [exact Hs|lia|exact Hpat|exact Hu]. }
  assert (Hcl' : closed (rev pre ++ mid ++ tail')) by (eapply closed_step; eassumption).
  destruct (cb_step_gen _ _ _ _ _ _ _ Hs Hr)
    as [D [X [Hc [HD [_ [[D' HD'] [HM [HBM [HX Hmid]]]]]]]]].
  subst c D. split; [repeat split|].
  - exact Hcl'.
  - eapply lab_bound_step; eassumption.
  - eapply fix_unique_step; eassumption.
  - cbn [app] in Hpat.
    eapply pat_ok_replace; [exact Hpat|exact Hinert|].
    apply pat_ok_suffix in Hpat. cbn [pat_ok] in Hpat. destruct Hpat as [_ Hpat].
    apply pat_ok_suffix in Hpat.
    destruct Hmid as [-> | ->]; [apply pat_ok_mid3|apply pat_ok_mid5]; exact Hpat.
  - rewrite !norig_app.
    assert (Hm0 : norig mid = 0)
      by (destruct Hmid as [-> | ->]; [apply norig_mid3|apply norig_mid5]).
    assert (Hd1 : 1 <= norig (Ins b :: D')).
    { unfold norig. cbn [filter]. rewrite Hinert. cbn [negb length]. lia. }
    lia.
Qed.

Lemma cb_loop_total : forall fuel c n,
  inv5 c n -> norig c < fuel -> exists c' n', cb_loop fuel c n = CbOk c' n'.
Proof.
  induction fuel as [|f IH]; intros c n Hinv Hlt; [lia|].
  cbn [cb_loop].
  destruct (scan (length c + 2) [] c) as [|pre b tail|] eqn:Es.
  - exists c, n. reflexivity.
  - destruct (repair (n + 1) b tail) as [mid tail'] eqn:Er.
    destruct (inv5_step _ _ _ _ _ _ _ Es Er Hinv) as [Hinv' Hdec].
    apply IH; [exact Hinv'|lia].
  - exfalso. revert Es. apply scan_no_panic.
    + cbn [length]. lia.
    + intros t Ht. cbn [rev app]. destruct Hinv as [Hcl _]. apply Hcl. exact Ht.
Qed.

Lemma pat_ok_init : forall l,
  (forall i, In (Ins i) l -> is_cond_branch (i_mn i) = true ->
             is_fix_label (i_op i) = true -> False) ->
  pat_ok l.
Proof.
  induction l as [|x l IH]; intros H; [exact I|].
  cbn [pat_ok]. split.
  - intros i Hi Hc Hf. exfalso. apply (H i); [left; exact Hi|exact Hc|exact Hf].
  - apply IH. intros i Hi. apply H. right. exact Hi.
Qed.

Lemma filter_none : forall (f : string -> bool) l,
  (forall x, In x l -> f x = false) -> filter f l = [].
Proof.
  intros f l. induction l as [|x l IH]; intros H; [reflexivity|].
  cbn [filter]. rewrite (H x (or_introl eq_refl)). apply IH.
  intros y Hy. apply H. right. exact Hy.
Qed.

Theorem cb_total : forall c : code,
  (forall l, In l (all_labels c) -> is_fix_label l = false) ->
  (forall t, In t (branch_targets c) -> In t (all_labels c)) ->
  exists c' n, check_branches c = CbOk c' n.
Proof.
  intros c Hnf Hcl. unfold check_branches. apply cb_loop_total.
  - repeat split.
    + exact Hcl.
    + intros l Hl. left. apply Hnf. exact Hl.
    + unfold fix_unique. rewrite (filter_none _ _ Hnf). constructor.
    + apply pat_ok_init. intros i Hi Hc Hf.
      assert (Hin : In (i_op i) (branch_targets c)).
      { unfold branch_targets. apply in_flat_map. exists (Ins i). split; [exact Hi|].
        rewrite Hc. left. reflexivity. }
      apply Hcl in Hin. apply Hnf in Hin. congruence.
  - pose proof (norig_le c). lia.
Qed.
Print Assumptions cb_total.
