(** C09 — string and character literals are stored byte-exact.  Statements only (general theorems:
    Proofs/ScanFacts.v when present). *)
From Coq Require Import String Ascii List Bool NArith.
From CC Require Import Base.Str Model.Cpp Model.StrLit.
Import ListNotations.
Open Scope string_scope.

(** every escape the property lists decodes to its ASCII code: the whole (finite) escape table *)
Theorem C09_escape_table : forall c n, c_escape c = Some n -> escape_code c = chr n.
Proof.
  intros c n H. unfold c_escape in H. unfold escape_code.
  repeat match type of H with
         | (if Ascii.eqb c ?k then _ else _) = _ => destruct (Ascii.eqb_spec c k) as [-> | ?]; [injection H as <-; reflexivity|]
         end.
  discriminate H.
Qed.

(** exactly one NUL after the concatenated decoded pieces *)
Theorem C09_literal_bytes : forall pieces,
  compile_quoted_string pieces = String.concat "" (map decode pieces) ++ String (chr 0) "".
Proof. reflexivity. Qed.

(** a literal full of comment markers, a directive and a macro name is recorded verbatim *)
Theorem C09_example_opaque :
  match run_cpp [] "m.c" [("FOO", "1")] ["s = ""//x/*y*/#define FOO @1@ \""q\\""; // c" ++ nl] with
  | POk p => p_out p = "s = @0@; " ++ nl /\ sc_lits (c_scan (p_ctx p)) = ["//x/*y*/#define FOO @1@ \""q\\"]
  | PErr _ => False
  end.
Proof. vm_compute. split; reflexivity. Qed.
