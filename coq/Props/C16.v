(** C16 — compilation is total: the modelled components never crash or loop.  Statements only.
    (The parser, AST construction and the generator are not modelled: explored by the fuzzer.) *)
From Coq Require Import String Ascii List Bool NArith ZArith.
From CC Require Import Base.Str Asm.Lines Model.Optimize Model.CheckBranches Model.CbSpec
     Proofs.OptFacts Proofs.CbFacts.
Import ListNotations.

(** the optimiser's walk always terminates (no out-of-fuel outcome for any line list) *)
Theorem C16_optimize_total : forall c : code, optimize_opt c <> None.
Proof. exact optimize_total. Qed.

(** branch checking terminates with a result on every function whose labels are not fix labels
    and whose branch targets are defined (what the generator produces) *)
Theorem C16_check_branches_total : forall c : code,
  (forall l, In l (all_labels c) -> is_fix_label l = false) ->
  (forall t, In t (branch_targets c) -> In t (all_labels c)) ->
  exists c' n, check_branches c = CbOk c' n.
Proof. exact cb_total. Qed.

(** ... and its [unreachable!()] is only reachable through an undefined branch target *)
Theorem C16_check_branches_no_panic : forall c : code,
  (forall t, In t (branch_targets c) -> In t (all_labels c)) ->
  check_branches c <> CbPanic.
Proof. exact cb_no_panic. Qed.
