(** Facts about the model of label suffixing of inlined bodies ([append_code] / [push_code]):
    labels and local targets are renamed consistently, the renaming is injective (in the label and
    in the counter), an inlined block is closed, and inlining with a fresh counter keeps labels
    unique. *)
From Coq Require Import String Ascii List Bool NArith ZArith Lia.
From CC Require Import Base.Str Asm.Lines M6502.Isa Asm.Operand Model.InlineRename Model.CbSpec Model.WfCode.
From CC Require Import Model.Optimize Model.OptSpec.
From CC Require Import Proofs.CbFacts.
Import ListNotations.
Open Scope string_scope.
Open Scope list_scope.
Open Scope nat_scope.

Definition local_targets (c : code) : list string :=
  flat_map (fun x => match x with
                     | Ins i => match local_target i with Some t => [t] | None => [] end
                     | _ => [] end) c.

Definition suffix_of (n : N) (l : string) : string := (l ++ inline_suffix n)%string.

(** * Strings: cancellation and trailing digits *)

Lemma str_app_assoc : forall a b c : string, ((a ++ b) ++ c = a ++ (b ++ c))%string.
Proof.
  induction a as [|x a IH]; intros b c; cbn [String.append]; [reflexivity|].
  rewrite IH. reflexivity.
Qed.

Lemma str_length_app : forall a b : string,
  String.length (a ++ b)%string = String.length a + String.length b.
Proof.
  induction a as [|x a IH]; intros b; cbn [String.append String.length]; [reflexivity|].
  rewrite IH. reflexivity.
Qed.

Lemma str_app_inv_head : forall p a b : string, (p ++ a = p ++ b)%string -> a = b.
Proof.
  induction p as [|x p IH]; intros a b H; cbn [String.append] in H; [exact H|].
  injection H as H. apply IH. exact H.
Qed.

Lemma str_app_inv_tail : forall s a b : string, (a ++ s = b ++ s)%string -> a = b.
Proof.
  intros s. induction a as [|x a IH]; intros b H; destruct b as [|y b].
  - reflexivity.
  - exfalso. apply (f_equal String.length) in H.
    cbn [String.append String.length] in H. rewrite str_length_app in H. lia.
  - exfalso. apply (f_equal String.length) in H.
    cbn [String.append String.length] in H. rewrite str_length_app in H. lia.
  - cbn [String.append] in H. injection H as Hxy H. subst y. f_equal. apply IH. exact H.
Qed.

Fixpoint all_digits (s : string) : bool :=
  match s with
  | EmptyString => true
  | String a s' => is_digit a && all_digits s'
  end.

(** the string without its maximal all-digit suffix *)
Fixpoint strip_digits (s : string) : string :=
  match s with
  | EmptyString => EmptyString
  | String a s' => if all_digits s then EmptyString else String a (strip_digits s')
  end.

Lemma strip_digits_all : forall d, all_digits d = true -> strip_digits d = EmptyString.
Proof.
  intros [|a d] H; [reflexivity|]. cbn [strip_digits]. rewrite H. reflexivity.
Qed.

Lemma all_digits_app_nondigit : forall p a r,
  is_digit a = false -> all_digits (p ++ String a r)%string = false.
Proof.
  induction p as [|x p IH]; intros a r Ha; cbn [String.append all_digits].
  - rewrite Ha. reflexivity.
  - rewrite (IH a r Ha). apply andb_false_r.
Qed.

Lemma strip_digits_app : forall p a d,
  is_digit a = false -> all_digits d = true ->
  strip_digits (p ++ String a d)%string = (p ++ String a EmptyString)%string.
Proof.
  induction p as [|x p IH]; intros a d Ha Hd.
  - cbn [String.append strip_digits all_digits]. rewrite Ha. cbn [andb].
    rewrite (strip_digits_all d Hd). reflexivity.
  - change (String x p ++ String a d)%string with (String x (p ++ String a d)%string).
    cbn [strip_digits].
    change (String x (p ++ String a d)%string) with (String x p ++ String a d)%string at 1.
    rewrite (all_digits_app_nondigit (String x p) a d Ha).
    rewrite (IH a d Ha Hd). reflexivity.
Qed.

Lemma dec_digits_all : forall f n acc,
  all_digits acc = true -> all_digits (dec_digits f n acc) = true.
Proof.
  induction f as [|f IH]; intros n acc H; [exact H|].
  rewrite dec_digits_S.
  assert (Hd : (n mod 10 < 10)%N) by (apply N.mod_lt; lia).
  destruct (digit_char _ Hd) as [Hdig _].
  destruct (N.eqb (n / 10) 0); [|apply IH]; cbn [all_digits]; rewrite Hdig, H; reflexivity.
Qed.

Lemma string_of_N_all_digits : forall n, all_digits (string_of_N n) = true.
Proof. intros n. unfold string_of_N. apply dec_digits_all. reflexivity. Qed.

(** [l ++ "inline" ++ digits] splits uniquely *)
Lemma suffix_split : forall l n,
  suffix_of n l = ((l ++ "inlin") ++ String "e"%char (string_of_N n))%string.
Proof.
  intros l n. unfold suffix_of, inline_suffix. rewrite str_app_assoc. reflexivity.
Qed.

Lemma strip_digits_suffix : forall l n,
  strip_digits (suffix_of n l) = (l ++ "inline")%string.
Proof.
  intros l n. rewrite suffix_split.
  rewrite strip_digits_app; [|reflexivity|apply string_of_N_all_digits].
  rewrite str_app_assoc. reflexivity.
Qed.

(** * Injectivity of the suffixing *)

Theorem suffix_of_inj_same : forall n l1 l2, suffix_of n l1 = suffix_of n l2 -> l1 = l2.
Proof.
  intros n l1 l2 H. unfold suffix_of in H. apply str_app_inv_tail in H. exact H.
Qed.
Print Assumptions suffix_of_inj_same.

Theorem suffix_of_inj : forall n1 n2 l1 l2,
  suffix_of n1 l1 = suffix_of n2 l2 -> n1 = n2 /\ l1 = l2.
Proof.
  intros n1 n2 l1 l2 H.
  assert (Hl : l1 = l2).
  { pose proof (f_equal strip_digits H) as Hs.
    rewrite !strip_digits_suffix in Hs. apply str_app_inv_tail in Hs. exact Hs. }
  subst l2. split; [|reflexivity].
  unfold suffix_of, inline_suffix in H.
  apply str_app_inv_head in H. apply str_app_inv_head in H.
  apply string_of_N_inj. exact H.
Qed.
Print Assumptions suffix_of_inj.

Theorem suffix_counters_differ : forall n m l1 l2, n <> m -> suffix_of n l1 <> suffix_of m l2.
Proof.
  intros n m l1 l2 Hnm H. apply suffix_of_inj in H. destruct H as [H _]. exact (Hnm H).
Qed.
Print Assumptions suffix_counters_differ.

(** * Renaming of labels and of local targets *)

Theorem rename_labels : forall n c,
  all_labels (map (rename_line n) c) = map (suffix_of n) (all_labels c).
Proof.
  intros n c. unfold all_labels. induction c as [|x c IH]; [reflexivity|].
  cbn [map flat_map]. rewrite IH.
  destruct x as [l|i|tx sz|cm|]; cbn [rename_line]; try reflexivity.
  destruct (renames_operand (i_mn i)); reflexivity.
Qed.
Print Assumptions rename_labels.

Lemma local_target_renames : forall i,
  local_target i = if renames_operand (i_mn i) then Some (i_op i) else None.
Proof. intros i. unfold local_target, renames_operand. destruct (i_mn i); reflexivity. Qed.

Theorem rename_targets : forall n c,
  local_targets (map (rename_line n) c) = map (suffix_of n) (local_targets c).
Proof.
  intros n c. unfold local_targets. induction c as [|x c IH]; [reflexivity|].
  cbn [map flat_map]. rewrite IH.
  destruct x as [l|i|tx sz|cm|]; cbn [rename_line]; try reflexivity.
  rewrite (local_target_renames i).
  destruct (renames_operand (i_mn i)) eqn:E.
  - rewrite local_target_renames. cbn [i_mn i_op]. rewrite E. reflexivity.
  - rewrite local_target_renames. rewrite E. reflexivity.
Qed.
Print Assumptions rename_targets.

Lemma NoDup_map_suffix : forall n ls, NoDup ls -> NoDup (map (suffix_of n) ls).
Proof.
  intros n ls H. induction H as [|x ls Hx Hnd IH]; cbn [map]; constructor; [|exact IH].
  intros Hin. apply in_map_iff in Hin. destruct Hin as [y [Hy Hin]].
  apply suffix_of_inj_same in Hy. subst y. exact (Hx Hin).
Qed.

Theorem rename_nodup : forall n c,
  NoDup (all_labels c) -> NoDup (all_labels (map (rename_line n) c)).
Proof.
  intros n c H. rewrite rename_labels. apply NoDup_map_suffix. exact H.
Qed.
Print Assumptions rename_nodup.

(** * Protection: the renaming keeps the [protected] flag of every instruction *)

(** the renamed line of an instruction is an instruction with the same mnemonic, cycles, bytes
    and [protected] flag; only the operand text of a branch/JMP changes *)
Theorem rename_ins_shape : forall n i,
  exists i', rename_line n (Ins i) = Ins i' /\
             i_mn i' = i_mn i /\ i_prot i' = i_prot i /\
             i_cycles i' = i_cycles i /\ i_alt i' = i_alt i /\ i_bytes i' = i_bytes i /\
             i_op i' = if renames_operand (i_mn i) then suffix_of n (i_op i) else i_op i.
Proof.
  intros n i. cbn [rename_line]. destruct (renames_operand (i_mn i)) eqn:Em.
  - eexists. split; [reflexivity|]. cbn [i_mn i_prot i_cycles i_alt i_bytes i_op].
    repeat split; reflexivity.
  - exists i. repeat split; reflexivity.
Qed.
Print Assumptions rename_ins_shape.

Theorem rename_is_marked : forall n l, is_marked (rename_line n l) = is_marked l.
Proof.
  intros n l. destruct l as [y|i|tx sz|cm|]; cbn [rename_line is_marked]; try reflexivity.
  destruct (renames_operand (i_mn i)); reflexivity.
Qed.
Print Assumptions rename_is_marked.

(** inlining neither removes, duplicates nor reorders protected instructions and inline
    assembly: the marked lines of the renamed body are the renamed marked lines of the body *)
Theorem rename_marked : forall n c,
  marked (map (rename_line n) c) = map (rename_line n) (marked c).
Proof.
  intros n c. unfold marked. induction c as [|x c IH]; [reflexivity|].
  cbn [map filter]. rewrite rename_is_marked, IH.
  destruct (is_marked x); reflexivity.
Qed.
Print Assumptions rename_marked.

Theorem push_code_marked : forall dst body n,
  marked (push_code dst body n) = marked dst ++ map (rename_line n) (marked body).
Proof.
  intros dst body n. unfold push_code, append_code, marked.
  rewrite !filter_app. fold (marked (map (rename_line n) body)). rewrite rename_marked.
  cbn [filter is_marked]. rewrite app_nil_r. reflexivity.
Qed.
Print Assumptions push_code_marked.

(** * The inlined block *)

Lemma endof_suffix : forall n,
  suffix_of n ".endof" = (".endofinline" ++ string_of_N n)%string.
Proof. intros n. reflexivity. Qed.

(** closedness: every local target of the inlined body is defined inside the inlined block *)
Theorem push_code_closed : forall (dst body : code) (n : N),
  (forall t, In t (local_targets body) -> In t (all_labels body) \/ t = ".endof"%string) ->
  forall t, In t (local_targets (map (rename_line n) body)) ->
            In t (all_labels (map (rename_line n) body
                              ++ [Lbl (".endofinline" ++ string_of_N n)%string])).
Proof.
  intros dst body n Hclosed t Ht.
  rewrite rename_targets in Ht. apply in_map_iff in Ht. destruct Ht as [t0 [Ht0 Hin]].
  rewrite all_labels_app, rename_labels. apply in_or_app.
  destruct (Hclosed t0 Hin) as [Hdef|Hend].
  - left. subst t. apply in_map. exact Hdef.
  - right. subst t t0. rewrite endof_suffix. left. reflexivity.
Qed.
Print Assumptions push_code_closed.

Lemma NoDup_app_intro : forall (A : Type) (a b : list A),
  NoDup a -> NoDup b -> (forall x, In x a -> ~ In x b) -> NoDup (a ++ b).
Proof.
  intros A a b Ha Hb Hdis. induction Ha as [|x a Hx Hnd IH]; [exact Hb|].
  cbn [app]. constructor.
  - intros Hin. apply in_app_or in Hin. destruct Hin as [Hin|Hin]; [exact (Hx Hin)|].
    exact (Hdis x (or_introl eq_refl) Hin).
  - apply IH. intros y Hy. apply Hdis. right. exact Hy.
Qed.

Lemma push_code_labels : forall dst body n,
  all_labels (push_code dst body n)
  = all_labels dst ++ map (suffix_of n) (all_labels body ++ [".endof"%string]).
Proof.
  intros dst body n. unfold push_code, append_code.
  rewrite !all_labels_app, rename_labels, map_app, <- app_assoc.
  cbn [map]. rewrite endof_suffix. reflexivity.
Qed.

(** freshness: inlining with a counter no existing label was made with keeps labels unique *)
Theorem push_code_nodup : forall (dst body : code) (n : N),
  NoDup (all_labels dst) -> NoDup (all_labels body) ->
  ~ In ".endof"%string (all_labels body) ->
  (forall l, In l (all_labels dst) -> forall l0, l <> suffix_of n l0) ->
  NoDup (all_labels (push_code dst body n)).
Proof.
  intros dst body n Hdst Hbody Hend Hfresh.
  rewrite push_code_labels. apply NoDup_app_intro.
  - exact Hdst.
  - apply NoDup_map_suffix. apply NoDup_app_intro.
    + exact Hbody.
    + constructor; [intros []|constructor].
    + intros x Hx [Hx'|[]]. subst x. exact (Hend Hx).
  - intros x Hx Hin. apply in_map_iff in Hin. destruct Hin as [l0 [Hl0 _]].
    exact (Hfresh x Hx l0 (eq_sym Hl0)).
Qed.
Print Assumptions push_code_nodup.

(** * Repeated and nested inlining *)

(** every label of an inlined block carries the block's counter *)
Theorem push_code_new_labels : forall (dst body : code) (n : N) (l : string),
  In l (all_labels (push_code dst body n)) ->
  In l (all_labels dst) \/ exists l0, l = suffix_of n l0.
Proof.
  intros dst body n l H. rewrite push_code_labels in H. apply in_app_or in H.
  destruct H as [H|H]; [left; exact H|right].
  apply in_map_iff in H. destruct H as [l0 [Hl0 _]]. exists l0. symmetry. exact Hl0.
Qed.
Print Assumptions push_code_new_labels.

(** the freshness hypothesis of [push_code_nodup] for a counter [n] survives an inlining made
    with another counter [m], whatever the inlined body (in particular a body that itself
    contains suffixed labels of earlier, nested, inlinings) *)
Theorem push_code_fresh_preserved : forall (dst body : code) (m n : N),
  n <> m ->
  (forall l, In l (all_labels dst) -> forall l0, l <> suffix_of n l0) ->
  forall l, In l (all_labels (push_code dst body m)) -> forall l0, l <> suffix_of n l0.
Proof.
  intros dst body m n Hnm Hfresh l Hl l0 Heq.
  apply push_code_new_labels in Hl. destruct Hl as [Hl|[l1 Hl1]].
  - exact (Hfresh l Hl l0 Heq).
  - subst l. symmetry in Heq. exact (suffix_counters_differ n m l0 l1 Hnm Heq).
Qed.
Print Assumptions push_code_fresh_preserved.

(** two successive inlinings with distinct fresh counters keep labels unique *)
Theorem push_code_twice_nodup : forall (dst b1 b2 : code) (n1 n2 : N),
  n1 <> n2 ->
  NoDup (all_labels dst) -> NoDup (all_labels b1) -> NoDup (all_labels b2) ->
  ~ In ".endof"%string (all_labels b1) -> ~ In ".endof"%string (all_labels b2) ->
  (forall l, In l (all_labels dst) -> forall l0, l <> suffix_of n1 l0) ->
  (forall l, In l (all_labels dst) -> forall l0, l <> suffix_of n2 l0) ->
  NoDup (all_labels (push_code (push_code dst b1 n1) b2 n2)).
Proof.
  intros dst b1 b2 n1 n2 Hne Hdst Hb1 Hb2 He1 He2 Hf1 Hf2.
  apply push_code_nodup.
  - apply push_code_nodup; assumption.
  - exact Hb2.
  - exact He2.
  - apply push_code_fresh_preserved; [intros E; apply Hne; symmetry; exact E|exact Hf2].
Qed.
Print Assumptions push_code_twice_nodup.

(** a label that ends with a suffix of counter [n] applied after a suffix of counter [k]
    (nested inlining) can be read back level by level *)
Theorem suffix_nested_inj : forall n1 n2 k1 k2 l1 l2,
  suffix_of n1 (suffix_of k1 l1) = suffix_of n2 (suffix_of k2 l2) ->
  n1 = n2 /\ k1 = k2 /\ l1 = l2.
Proof.
  intros n1 n2 k1 k2 l1 l2 H. apply suffix_of_inj in H. destruct H as [Hn H].
  apply suffix_of_inj in H. destruct H as [Hk Hl]. auto.
Qed.
Print Assumptions suffix_nested_inj.
