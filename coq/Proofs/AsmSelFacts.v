(** Size and legality of what [asm()] selects (C04, C13, C17): finite case analyses over
    mnemonics x operand kinds x variable attributes. *)
From Coq Require Import String Ascii List Bool NArith ZArith Lia.
From CC Require Import Base.Str Asm.Lines M6502.Isa Asm.Operand Model.AsmSel.
Import ListNotations.

Ltac inv_emit H :=
  match type of H with
  | AEmit _ _ _ = AEmit _ _ _ => injection H as <- <- <-
  | _ => discriminate H
  end.

Tactic Notation "finish" hyp(R) :=
  (cbn in R; first [ discriminate R | injection R as <-; reflexivity ]).

(** label operands go with branches/JMP/JSR and only with them (the generator's convention;
    [JMP cctmp] and [LDA .label] are cells [asm()] does not reject but nothing requests) *)
Definition sensible (m : mnem) (e : exprtype) : bool :=
  match e with ELabel _ => takes_label m | _ => negb (takes_label m) end.

(** * The "Bad left value" guard: [asm_sel] is [asm_sel0] minus the writes to an immediate *)

Lemma asm_sel_emit_inv : forall sch m e high m' sg em,
  asm_sel sch m e high = AEmit m' sg em ->
  asm_sel0 sch m e high = AEmit m' sg em /\ writes_mem m' && is_imm_popnd (e_op em) = false.
Proof.
  intros sch m e high m' sg em H. unfold asm_sel in H.
  destruct (asm_sel0 sch m e high) as [m0 s0 e0 | s0 | msg]; try discriminate H.
  destruct (writes_mem m0 && is_imm_popnd (e_op e0)) eqn:G; [discriminate H|].
  injection H as <- <- <-. split; [reflexivity|exact G].
Qed.
Print Assumptions asm_sel_emit_inv.

Lemma asm_sel_emit_intro : forall sch m e high m' sg em,
  asm_sel0 sch m e high = AEmit m' sg em ->
  writes_mem m' && is_imm_popnd (e_op em) = false ->
  asm_sel sch m e high = AEmit m' sg em.
Proof. intros sch m e high m' sg em H G. unfold asm_sel. rewrite H, G. reflexivity. Qed.
Print Assumptions asm_sel_emit_intro.

(** everything else goes through unchanged: errors, the no-emit answer *)
Lemma asm_sel_cases : forall sch m e high,
  match asm_sel0 sch m e high with
  | AEmit m' sg em =>
      asm_sel sch m e high =
      if writes_mem m' && is_imm_popnd (e_op em) then AErr "Bad left value in assignement"
      else AEmit m' sg em
  | r => asm_sel sch m e high = r
  end.
Proof. intros sch m e high. unfold asm_sel. destruct (asm_sel0 sch m e high); reflexivity. Qed.
Print Assumptions asm_sel_cases.

Lemma is_imm_popnd_shape : forall p,
  is_imm_popnd p = true <-> shape_of (operand_of p) = ShImm.
Proof.
  intros p. destruct p as [ | n | y k | y k | y k ix al | y k | l ]; cbn; try (split; [reflexivity|reflexivity]).
  all: try (split; discriminate).
  destruct ix; split; discriminate.
Qed.
Print Assumptions is_imm_popnd_shape.

(** the emitted mnemonic is the requested one except in the [EA] arm (TAX, TAY: no operand) *)
Lemma asm_sel0_mnemonic : forall sch m e high m' sg em,
  asm_sel0 sch m e high = AEmit m' sg em -> m' = m \/ e_op em = PNone.
Proof.
  intros sch m e high m' sg em H.
  destruct e as [ | v | s | v eight off | v | v | s | l ].
  - cbn in H. inv_emit H. left; reflexivity.
  - cbn in H. inv_emit H. left; reflexivity.
  - cbn in H. inv_emit H. left; reflexivity.
  - unfold asm_sel0 in H; cbv zeta in H.
    destruct (v_type v), (is_zp v), (v_const v), eight, high; cbn -[port_offset Z.add Z.ltb] in H.
    all: try discriminate H.
    all: try (destruct (v_addr v) as [a|]; [destruct (255 <? _)%Z in H|]; cbn [negb] in H).
    all: inv_emit H.
    all: left; reflexivity.
  - unfold asm_sel0 in H; cbv zeta in H.
    destruct (v_size v =? 1)%Z; destruct (v_type v), (is_zp v), (v_const v), high; cbn -[port_offset] in H.
    all: try discriminate H.
    all: destruct m; cbn -[port_offset] in H.
    all: try discriminate H.
    all: inv_emit H.
    all: left; reflexivity.
  - unfold asm_sel0 in H; cbv zeta in H.
    destruct (v_size v =? 1)%Z; destruct (v_type v), (is_zp v), (v_const v), high; cbn -[port_offset] in H.
    all: try discriminate H.
    all: destruct m; cbn -[port_offset] in H.
    all: try discriminate H.
    all: inv_emit H.
    all: left; reflexivity.
  - destruct m; cbn in H.
    all: try discriminate H.
    all: inv_emit H.
    all: right; reflexivity.
  - cbn in H. destruct m; cbn in H.
    all: inv_emit H.
    all: left; reflexivity.
Qed.
Print Assumptions asm_sel0_mnemonic.

(** ... so the guard may as well test the requested mnemonic, as the Rust does *)
Theorem asm_sel_guard_requested : forall sch m e high m' sg em,
  asm_sel0 sch m e high = AEmit m' sg em ->
  writes_mem m' && is_imm_popnd (e_op em) = writes_mem m && is_imm_popnd (e_op em).
Proof.
  intros sch m e high m' sg em H.
  destruct (asm_sel0_mnemonic _ _ _ _ _ _ _ H) as [-> | ->]; [reflexivity|].
  cbn. rewrite !andb_false_r. reflexivity.
Qed.
Print Assumptions asm_sel_guard_requested.

(** * Where the emitted operand is, when the variable's address is known *)

Lemma port_offset_nonneg : forall sch mm m, (0 <= port_offset sch mm m)%Z.
Proof. intros sch mm m. unfold port_offset. destruct mm, sch, (AsmSel.is_st m); lia. Qed.

Lemma port_offset_zp : forall sch v m, is_zp v = true -> port_offset sch (v_mem v) m = 0%Z.
Proof. intros sch v m. unfold is_zp, port_offset. destruct (v_mem v); try discriminate. reflexivity. Qed.

(** the repaired rule of the constant-pointer arm decides exactly "address + offset < $100" *)
Lemma zp_rule : forall (zp : bool) a o,
  (0 <= a)%Z -> zp = (a <? 256)%Z -> (0 <= o)%Z ->
  zp && negb (255 <? a + o)%Z = (a + o <? 256)%Z.
Proof.
  intros zp a o A0 Zc O. subst zp.
  destruct (Z.ltb_spec a 256), (Z.ltb_spec 255 (a + o)), (Z.ltb_spec (a + o) 256); cbn; try reflexivity; lia.
Qed.

Lemma printed_off_always : forall o : Z, (if negb (o =? 0)%Z then o else 0%Z) = o.
Proof. intros o. destruct (Z.eqb_spec o 0); cbn; congruence. Qed.

(** indexed operands of a constant pointer: [sym+port,X] is in page zero exactly for the
    Zeropage class (split-port classes are never in page zero) *)
Lemma zp_indexed : forall sch v m a,
  (0 <= a)%Z -> is_zp v = (a <? 256)%Z ->
  (a + (if (0 <? port_offset sch (v_mem v) m)%Z then port_offset sch (v_mem v) m else 0) <? 256)%Z = is_zp v.
Proof.
  intros sch v m a A0 Zc.
  pose proof (port_offset_nonneg sch (v_mem v) m) as P.
  destruct (is_zp v) eqn:Zp.
  - rewrite (port_offset_zp sch v m Zp). cbn. rewrite Z.add_0_r. congruence.
  - symmetry in Zc. apply Z.ltb_ge in Zc.
    destruct (0 <? port_offset sch (v_mem v) m)%Z; apply Z.ltb_ge; lia.
Qed.

(** indexed operands: the truth side is the memory class, known address or not (used by the
    legality theorems) *)
Theorem resolve_absx_class0 : forall sch m v high m' sg em,
  var_wf v ->
  asm_sel0 sch m (EAbsoluteX v) high = AEmit m' sg em ->
  resolve m' (shape_of (operand_of (e_op em))) (popnd_zp (EAbsoluteX v) (e_op em))
  = resolve m' (shape_of (operand_of (e_op em))) (is_zp v).
Proof.
  intros sch m v high m' sg em W H.
  unfold var_wf in W. unfold popnd_zp.
  destruct (v_addr v) as [a|] eqn:A; [|reflexivity].
  destruct W as (A0 & Zc & C & T).
  pose proof (zp_indexed sch v m a A0 Zc) as ZI.
  unfold asm_sel0 in H. rewrite T, C in H. cbv zeta in H. cbn [negb andb] in H.
  destruct high; cbn [negb andb] in H.
  - inv_emit H. reflexivity.
  - destruct (is_zp v) eqn:Zp.
    all: destruct m; cbn -[port_offset] in H.
    all: try discriminate H.
    all: inv_emit H.
    all: cbn [e_op operand_of operand_off]; rewrite ZI; reflexivity.
Qed.
Print Assumptions resolve_absx_class0.

Theorem resolve_absx_class : forall sch m v high m' sg em,
  var_wf v ->
  asm_sel sch m (EAbsoluteX v) high = AEmit m' sg em ->
  resolve m' (shape_of (operand_of (e_op em))) (popnd_zp (EAbsoluteX v) (e_op em))
  = resolve m' (shape_of (operand_of (e_op em))) (is_zp v).
Proof.
  intros sch m v high m' sg em W H. apply asm_sel_emit_inv in H as [H _].
  exact (resolve_absx_class0 _ _ _ _ _ _ _ W H).
Qed.
Print Assumptions resolve_absx_class.

Theorem resolve_absy_class0 : forall sch m v high m' sg em,
  var_wf v ->
  asm_sel0 sch m (EAbsoluteY v) high = AEmit m' sg em ->
  resolve m' (shape_of (operand_of (e_op em))) (popnd_zp (EAbsoluteY v) (e_op em))
  = resolve m' (shape_of (operand_of (e_op em))) (is_zp v).
Proof.
  intros sch m v high m' sg em W H.
  unfold var_wf in W. unfold popnd_zp.
  destruct (v_addr v) as [a|] eqn:A; [|reflexivity].
  destruct W as (A0 & Zc & C & T).
  pose proof (zp_indexed sch v m a A0 Zc) as ZI.
  unfold asm_sel0 in H. rewrite T, C in H. cbv zeta in H.
  destruct high.
  - inv_emit H. reflexivity.
  - destruct (is_zp v) eqn:Zp.
    all: destruct m; cbn -[port_offset] in H.
    all: try discriminate H.
    all: inv_emit H.
    all: cbn [e_op operand_of operand_off]; rewrite ZI; reflexivity.
Qed.
Print Assumptions resolve_absy_class0.

Theorem resolve_absy_class : forall sch m v high m' sg em,
  var_wf v ->
  asm_sel sch m (EAbsoluteY v) high = AEmit m' sg em ->
  resolve m' (shape_of (operand_of (e_op em))) (popnd_zp (EAbsoluteY v) (e_op em))
  = resolve m' (shape_of (operand_of (e_op em))) (is_zp v).
Proof.
  intros sch m v high m' sg em W H. apply asm_sel_emit_inv in H as [H _].
  exact (resolve_absy_class0 _ _ _ _ _ _ _ W H).
Qed.
Print Assumptions resolve_absy_class.

Ltac case_zp R :=
  match type of R with
  | resolve _ _ ?z = _ => let b := fresh "b" in set (b := z) in R; clearbody b; destruct b
  end.

(** the reported size is the size of the encoding the assembler selects, whenever there is one.
    [popnd_zp e (e_op em)] is where the emitted operand really is: decided from the known address
    of a constant pointer and the printed offset, from the memory class otherwise *)
Theorem asm_sel0_size : forall sch m e high m' sg em md,
  sensible m e = true ->
  expr_wf e -> expr_off_nonneg e ->
  asm_sel0 sch m e high = AEmit m' sg em ->
  resolve m' (shape_of (operand_of (e_op em))) (popnd_zp e (e_op em)) = Some md ->
  mode_size md = e_bytes em.
Proof.
  intros sch m e high m' sg em md S W O H R.
  destruct e as [ | v | s | v eight off | v | v | s | l ].
  - (* Nothing *) cbn in H. inv_emit H. destruct m; try discriminate S.
    all: cbn in R.
    all: first [ discriminate R | (injection R as <-; reflexivity) ].
  - (* Immediate *) cbn in H. inv_emit H. destruct m; try discriminate S.
    all: cbn in R.
    all: first [ discriminate R | (injection R as <-; reflexivity) ].
  - (* Tmp *) cbn in H. inv_emit H. destruct m; try discriminate S.
    all: cbn in R.
    all: first [ discriminate R | (injection R as <-; reflexivity) ].
  - (* Absolute *)
    unfold expr_wf, var_wf in W; cbn [expr_var] in W. cbn [expr_off_nonneg] in O.
    unfold popnd_zp in R.
    destruct (v_addr v) as [a|] eqn:A.
    + (* constant pointer at a known address *)
      destruct W as (A0 & Zc & C & T).
      pose proof (port_offset_nonneg sch (v_mem v) m) as P.
      unfold asm_sel0 in H. rewrite T, C, A in H. cbv zeta in H.
      destruct eight, high; cbn [negb andb] in H.
      * (* #0 *) inv_emit H. case_zp R.
        all: destruct m; try discriminate S.
        all: cbn in R.
        all: first [ discriminate R | (injection R as <-; reflexivity) ].
      * (* R+off *)
        rewrite (zp_rule _ a (off + port_offset sch (v_mem v) m)%Z A0 Zc ltac:(lia)) in H.
        destruct (a + (off + port_offset sch (v_mem v) m) <? 256)%Z eqn:B.
        all: inv_emit H.
        all: cbn [e_op operand_of operand_off] in R; rewrite printed_off_always, B in R.
        all: destruct m; try discriminate S.
        all: cbn in R.
        all: first [ discriminate R | (injection R as <-; reflexivity) ].
      * (* #>R *) inv_emit H. case_zp R.
        all: destruct m; try discriminate S.
        all: cbn in R.
        all: first [ discriminate R | (injection R as <-; reflexivity) ].
      * (* #<R *) inv_emit H. case_zp R.
        all: destruct m; try discriminate S.
        all: cbn in R.
        all: first [ discriminate R | (injection R as <-; reflexivity) ].
    + (* address decided by the linker: memory class *)
      destruct v as [name ty c sgn mm sz ad]. cbn in A; subst ad.
      unfold asm_sel0 in H; cbn [v_type v_mem v_const v_signed v_name v_size v_addr is_zp] in H.
      destruct ty, mm, c, eight, high; cbn in H.
      all: try discriminate H.
      all: inv_emit H.
      all: destruct m; try discriminate S.
      all: cbn in R.
      all: first [ discriminate R | (injection R as <-; reflexivity) ].
  - (* AbsoluteX: the class decides, known address or not *)
    unfold expr_wf in W; cbn [expr_var] in W.
    rewrite (resolve_absx_class0 _ _ _ _ _ _ _ W H) in R.
    unfold asm_sel0 in H; cbv zeta in H.
    destruct (v_size v =? 1)%Z; destruct (v_type v), (is_zp v), (v_const v), high; cbn -[port_offset] in H.
    all: try discriminate H.
    all: destruct m; try discriminate S; cbn -[port_offset] in H.
    all: try discriminate H.
    all: inv_emit H.
    all: cbn -[port_offset] in R.
    all: first [ discriminate R | (injection R as <-; reflexivity) ].
  - (* AbsoluteY *)
    unfold expr_wf in W; cbn [expr_var] in W.
    rewrite (resolve_absy_class0 _ _ _ _ _ _ _ W H) in R.
    unfold asm_sel0 in H; cbv zeta in H.
    destruct (v_size v =? 1)%Z; destruct (v_type v), (is_zp v), (v_const v), high; cbn -[port_offset] in H.
    all: try discriminate H.
    all: destruct m; try discriminate S; cbn -[port_offset] in H.
    all: try discriminate H.
    all: inv_emit H.
    all: cbn -[port_offset] in R.
    all: first [ discriminate R | (injection R as <-; reflexivity) ].
  - (* A *) destruct m; try discriminate S; cbn in H.
    all: try discriminate H.
    all: inv_emit H.
    all: cbn in R.
    all: first [ discriminate R | (injection R as <-; reflexivity) ].
  - (* Label *) cbn in H. destruct m; try discriminate S; cbn in H.
    all: inv_emit H.
    all: cbn in R.
    all: first [ discriminate R | (injection R as <-; reflexivity) ].
Qed.
Print Assumptions asm_sel0_size.

(** the guard only removes emissions: the statement holds of [asm()] as it is now *)
Theorem asm_sel_size : forall sch m e high m' sg em md,
  sensible m e = true ->
  expr_wf e -> expr_off_nonneg e ->
  asm_sel sch m e high = AEmit m' sg em ->
  resolve m' (shape_of (operand_of (e_op em))) (popnd_zp e (e_op em)) = Some md ->
  mode_size md = e_bytes em.
Proof.
  intros sch m e high m' sg em md S W O H R. apply asm_sel_emit_inv in H as [H _].
  exact (asm_sel0_size _ _ _ _ _ _ _ _ S W O H R).
Qed.
Print Assumptions asm_sel_size.

(** for a constant pointer at a known address, the truth side is "address + final offset < $100":
    final offset = requested offset + port offset (+1 for the high byte) *)
Theorem popnd_zp_known_addr0 : forall sch m v eight off high m' sg em a y k ix al,
  v_addr v = Some a ->
  asm_sel0 sch m (EAbsolute v eight off) high = AEmit m' sg em ->
  e_op em = PMem y k ix al -> al = true ->
  k = (off + port_offset sch (v_mem v) m + if high then 1 else 0)%Z /\
  popnd_zp (EAbsolute v eight off) (e_op em) = (a + k <? 256)%Z.
Proof.
  intros sch m v eight off high m' sg em a y k ix al A H E AL.
  unfold popnd_zp. rewrite A, E. cbn [operand_of operand_off]. subst al. rewrite printed_off_always.
  split; [|reflexivity].
  unfold asm_sel0 in H; cbv zeta in H. rewrite A in H.
  destruct (v_type v), (is_zp v), (v_const v), eight, high; cbn -[port_offset Z.add Z.ltb] in H.
  all: try discriminate H.
  all: try (destruct (255 <? _)%Z in H; cbn [negb] in H).
  all: inv_emit H; cbn [e_op] in E; try discriminate E.
  all: injection E as _ <- _; lia.
Qed.
Print Assumptions popnd_zp_known_addr0.

Theorem popnd_zp_known_addr : forall sch m v eight off high m' sg em a y k ix al,
  v_addr v = Some a ->
  asm_sel sch m (EAbsolute v eight off) high = AEmit m' sg em ->
  e_op em = PMem y k ix al -> al = true ->
  k = (off + port_offset sch (v_mem v) m + if high then 1 else 0)%Z /\
  popnd_zp (EAbsolute v eight off) (e_op em) = (a + k <? 256)%Z.
Proof.
  intros sch m v eight off high m' sg em a y k ix al A H E AL. apply asm_sel_emit_inv in H as [H _].
  exact (popnd_zp_known_addr0 _ _ _ _ _ _ _ _ _ _ _ _ _ _ A H E AL).
Qed.
Print Assumptions popnd_zp_known_addr.

(** * The rule before the fix, and why the hypotheses are there *)

(** [R] is a constant pointer to $ff (class Zeropage, well formed); [STA R[1]] prints [R+1],
    address $100: the assembler has to use the 3-byte absolute form.  The pre-fix rule (2 bytes
    whenever the class is Zeropage) reports 2; the repaired [asm_sel] reports 3. *)
Example asm_sel_size_old_rule_refuted :
  let R := mkVar "R" VCharPtr true false MZeropage 1 (Some 255%Z) in
  let e := EAbsolute R true 1 in
  sensible STA e = true /\ expr_wf e /\ expr_off_nonneg e /\
  exists em,
    asm_sel_old SOther STA e false = AEmit STA false em /\
    print_popnd (e_op em) = "R+1"%string /\
    popnd_zp e (e_op em) = false /\
    resolve STA (shape_of (operand_of (e_op em))) (popnd_zp e (e_op em)) = Some Abs /\
    mode_size Abs = 3%N /\ e_bytes em = 2%N /\
    exists em',
      asm_sel SOther STA e false = AEmit STA false em' /\
      e_op em' = e_op em /\ e_bytes em' = 3%N /\ e_cycles em' = 4%N.
Proof.
  cbv zeta. split; [reflexivity|]. split.
  { unfold expr_wf, var_wf; cbn. repeat split; discriminate. }
  split; [unfold expr_off_nonneg; lia|].
  eexists. split; [vm_compute; reflexivity|]. cbn [e_op e_bytes].
  repeat split.
  eexists. split; [vm_compute; reflexivity|]. repeat split.
Qed.
Print Assumptions asm_sel_size_old_rule_refuted.

(** ... so the statement of [asm_sel_size] is false of the pre-fix rule *)
Theorem asm_sel_old_size_fails :
  ~ (forall sch m e high m' sg em md,
       sensible m e = true -> expr_wf e -> expr_off_nonneg e ->
       asm_sel_old sch m e high = AEmit m' sg em ->
       resolve m' (shape_of (operand_of (e_op em))) (popnd_zp e (e_op em)) = Some md ->
       mode_size md = e_bytes em).
Proof.
  intros F.
  destruct asm_sel_size_old_rule_refuted as (S & W & O & em & H & _ & _ & R & _ & B & _).
  specialize (F _ _ _ _ _ _ _ _ S W O H R). rewrite B in F. discriminate F.
Qed.
Print Assumptions asm_sel_old_size_fails.

(** where no address is known the two rules coincide (before the "Bad left value" guard, which
    the old rule did not have: [asm_sel_old] is stated on [asm_sel0]) *)
Theorem asm_sel_old_same_without_addr : forall sch m e high,
  match expr_var e with Some v => v_addr v = None | None => True end ->
  asm_sel_old sch m e high = asm_sel0 sch m e high.
Proof.
  intros sch m e high A. unfold asm_sel_old.
  destruct e as [ | | | v ? ? | v | v | | ]; try reflexivity.
  all: cbn in A; destruct v as [name ty c sgn mm sz ad]; cbn in A; subst ad; reflexivity.
Qed.
Print Assumptions asm_sel_old_same_without_addr.

(** ... and whatever [asm()] emits now, the old rule emitted as well *)
Theorem asm_sel_old_same_emit_without_addr : forall sch m e high m' sg em,
  match expr_var e with Some v => v_addr v = None | None => True end ->
  asm_sel sch m e high = AEmit m' sg em ->
  asm_sel_old sch m e high = AEmit m' sg em.
Proof.
  intros sch m e high m' sg em A H. apply asm_sel_emit_inv in H as [H _].
  rewrite (asm_sel_old_same_without_addr _ _ _ _ A). exact H.
Qed.
Print Assumptions asm_sel_old_same_emit_without_addr.

(** the offset hypothesis is needed: [R] at $100 (not in page zero), [LDA R[-1]] prints [R+-1],
    address $ff: the assembler takes the 2-byte zero-page form, [asm()] reports 3.  The generator
    never requests a negative offset. *)
Example asm_sel_size_needs_nonneg_offset :
  let R := mkVar "R" VCharPtr true false MOther 1 (Some 256%Z) in
  let e := EAbsolute R true (-1) in
  sensible LDA e = true /\ expr_wf e /\
  exists em,
    asm_sel SOther LDA e false = AEmit LDA false em /\
    print_popnd (e_op em) = "R+-1"%string /\
    resolve LDA (shape_of (operand_of (e_op em))) (popnd_zp e (e_op em)) = Some Zp /\
    mode_size Zp = 2%N /\ e_bytes em = 3%N.
Proof.
  cbv zeta. split; [reflexivity|]. split.
  { unfold expr_wf, var_wf; cbn. repeat split; discriminate. }
  eexists. split; [vm_compute; reflexivity|]. repeat split.
Qed.
Print Assumptions asm_sel_size_needs_nonneg_offset.

(** the class/address agreement is needed: a variable classified Zeropage whose address is $200
    (the compiler never produces one) would get [LDA v,X] with 2 bytes against the 3 of [AbsX] *)
Example asm_sel_size_needs_var_wf :
  let v := mkVar "v" VCharPtr true false MZeropage 4 (Some 512%Z) in
  let e := EAbsoluteX v in
  sensible LDA e = true /\ ~ expr_wf e /\
  exists em,
    asm_sel SOther LDA e false = AEmit LDA false em /\
    resolve LDA (shape_of (operand_of (e_op em))) (popnd_zp e (e_op em)) = Some AbsX /\
    mode_size AbsX = 3%N /\ e_bytes em = 2%N.
Proof.
  cbv zeta. split; [reflexivity|]. split.
  { unfold expr_wf, var_wf; cbn. intros (_ & E & _). discriminate E. }
  eexists. split; [vm_compute; reflexivity|]. repeat split.
Qed.
Print Assumptions asm_sel_size_needs_var_wf.
