(** C08: macro replacement is token-exact ([Model/Cpp.v] against [Model/MacroSpec.v]). *)
From Coq Require Import String Ascii List Bool Arith NArith Lia.
From CC Require Import Base.Str Model.Cpp Model.MacroSpec.
Import ListNotations.
Open Scope list_scope.
Open Scope string_scope.

(** * Strings *)

Lemma app_nil_r_s : forall s : string, s ++ "" = s.
Proof. induction s as [|a s IH]; cbn [append]; [reflexivity | rewrite IH; reflexivity]. Qed.

Lemma app_assoc_s : forall a b c : string, (a ++ b) ++ c = a ++ (b ++ c).
Proof. induction a as [|x a IH]; intros b c; cbn [append]; [reflexivity | rewrite IH; reflexivity]. Qed.

Lemma length_app_s : forall a b : string, String.length (a ++ b) = String.length a + String.length b.
Proof. induction a as [|x a IH]; intros b; cbn [append String.length]; [reflexivity | rewrite IH; reflexivity]. Qed.

Lemma concat_cons : forall (x : string) (l : list string),
  String.concat "" (x :: l) = x ++ String.concat "" l.
Proof.
  intros x [|y l]; cbn [String.concat].
  - rewrite app_nil_r_s. reflexivity.
  - reflexivity.
Qed.

Lemma concat_nil : String.concat "" [] = "".
Proof. reflexivity. Qed.

Lemma concat_app : forall l1 l2 : list string,
  String.concat "" (l1 ++ l2) = String.concat "" l1 ++ String.concat "" l2.
Proof.
  induction l1 as [|x l1 IH]; intros l2.
  - reflexivity.
  - change ((x :: l1) ++ l2)%list with (x :: (l1 ++ l2))%list.
    rewrite !concat_cons, IH, app_assoc_s. reflexivity.
Qed.

Lemma starts_with_app : forall p s, starts_with p (p ++ s) = true.
Proof.
  induction p as [|a p IH]; intros s; cbn [append starts_with]; [reflexivity|].
  rewrite Ascii.eqb_refl, IH. reflexivity.
Qed.

Lemma string_drop_app : forall p s, string_drop (String.length p) (p ++ s) = s.
Proof. induction p as [|a p IH]; intros s; cbn [append String.length string_drop]; auto. Qed.

(** * Word characters *)

Lemma is_word_eqb_false : forall a b, is_word a = true -> is_word b = false -> Ascii.eqb a b = false.
Proof.
  intros a b Ha Hb. destruct (Ascii.eqb_spec a b) as [E|E]; [|reflexivity].
  subst b. congruence.
Qed.

Lemma all_word_app : forall a b, all_word (a ++ b) = all_word a && all_word b.
Proof.
  induction a as [|x a IH]; intros b; cbn [append all_word]; [reflexivity|].
  rewrite IH, andb_assoc. reflexivity.
Qed.

Lemma word_split : forall s, s = word_prefix s ++ word_suffix s.
Proof.
  induction s as [|a r IH]; [reflexivity|].
  cbn [word_prefix word_suffix]. destruct (is_word a); cbn [append]; [|reflexivity].
  rewrite <- IH. reflexivity.
Qed.

Lemma word_prefix_all : forall s, all_word (word_prefix s) = true.
Proof.
  induction s as [|a r IH]; [reflexivity|].
  cbn [word_prefix]. destruct (is_word a) eqn:E; cbn [all_word]; [|reflexivity].
  rewrite E, IH. reflexivity.
Qed.

Lemma word_suffix_boundary : forall s, boundary_after (word_suffix s) = true.
Proof.
  induction s as [|a r IH]; [reflexivity|].
  cbn [word_suffix]. destruct (is_word a) eqn:E; [exact IH|].
  cbn [boundary_after]. rewrite E. reflexivity.
Qed.

Lemma word_suffix_length : forall s, String.length (word_suffix s) <= String.length s.
Proof.
  induction s as [|a r IH]; [cbn; lia|].
  cbn [word_suffix]. destruct (is_word a); cbn [String.length] in *; lia.
Qed.

Lemma word_prefix_app : forall w rest, all_word w = true -> boundary_after rest = true ->
  word_prefix (w ++ rest) = w.
Proof.
  induction w as [|a w IH]; intros rest Hw Hr.
  - cbn [append]. destruct rest as [|c r]; [reflexivity|].
    cbn [boundary_after] in Hr. cbn [word_prefix].
    destruct (is_word c); [discriminate|reflexivity].
  - cbn [all_word] in Hw. apply andb_true_iff in Hw as [Ha Hw].
    cbn [append word_prefix]. rewrite Ha, (IH rest Hw Hr). reflexivity.
Qed.

Lemma word_suffix_app : forall w rest, all_word w = true -> boundary_after rest = true ->
  word_suffix (w ++ rest) = rest.
Proof.
  induction w as [|a w IH]; intros rest Hw Hr.
  - cbn [append]. destruct rest as [|c r]; [reflexivity|].
    cbn [boundary_after] in Hr. cbn [word_suffix].
    destruct (is_word c); [discriminate|reflexivity].
  - cbn [all_word] in Hw. apply andb_true_iff in Hw as [Ha Hw].
    cbn [append word_suffix]. rewrite Ha. exact (IH rest Hw Hr).
Qed.

(** * Tokens: fuel independence, equations, induction principle *)

Lemma tokens_aux_fuel : forall f1 s f2,
  String.length s <= f1 -> String.length s <= f2 -> tokens_aux f1 s = tokens_aux f2 s.
Proof.
  induction f1 as [|f1 IH]; intros s f2 H1 H2.
  - destruct s; [|cbn in H1; lia]. destruct f2; reflexivity.
  - destruct s as [|a r]; [destruct f2; reflexivity|].
    destruct f2 as [|f2]; [cbn in H2; lia|].
    cbn [String.length] in H1, H2.
    cbn [tokens_aux]. destruct (is_word a) eqn:E.
    + f_equal. cbn [word_suffix]. rewrite E.
      pose proof (word_suffix_length r). apply IH; lia.
    + f_equal. apply IH; lia.
Qed.

Lemma tokens_nil : tokens "" = [].
Proof. reflexivity. Qed.

Lemma tokens_nonword : forall a r, is_word a = false ->
  tokens (String a r) = String a "" :: tokens r.
Proof.
  intros a r H. unfold tokens. cbn [String.length tokens_aux]. rewrite H. reflexivity.
Qed.

Lemma tokens_word : forall w rest, w <> "" -> all_word w = true -> boundary_after rest = true ->
  tokens (w ++ rest) = w :: tokens rest.
Proof.
  intros w rest Hne Hw Hr. destruct w as [|a w]; [congruence|].
  pose proof Hw as Hw'. cbn [all_word] in Hw'. apply andb_true_iff in Hw' as [Ha _].
  unfold tokens. rewrite length_app_s. cbn [String.length plus append tokens_aux].
  rewrite Ha.
  change (String a (w ++ rest)) with (String a w ++ rest).
  rewrite (word_prefix_app _ _ Hw Hr), (word_suffix_app _ _ Hw Hr).
  f_equal. apply tokens_aux_fuel; lia.
Qed.

(** every text is empty, or a non-word character followed by a text, or a maximal word
    followed by a text that does not continue it *)
Lemma tok_ind : forall P : string -> Prop,
  P "" ->
  (forall a r, is_word a = false -> P r -> P (String a r)) ->
  (forall w rest, w <> "" -> all_word w = true -> boundary_after rest = true ->
                  P rest -> P (w ++ rest)) ->
  forall s, P s.
Proof.
  intros P H0 H1 H2.
  assert (G : forall n s, String.length s <= n -> P s).
  { induction n as [|n IH]; intros s Hn.
    - destruct s; [exact H0 | cbn in Hn; lia].
    - destruct s as [|a r]; [exact H0|].
      cbn [String.length] in Hn.
      destruct (is_word a) eqn:E.
      + rewrite (word_split (String a r)).
        apply H2.
        * cbn [word_prefix]. rewrite E. discriminate.
        * apply word_prefix_all.
        * apply word_suffix_boundary.
        * apply IH. cbn [word_suffix]. rewrite E.
          pose proof (word_suffix_length r). lia.
      + apply H1; [exact E|]. apply IH. lia. }
  intros s. apply (G (String.length s)). lia.
Qed.

(** T4 *)
Theorem tokens_concat : forall s, String.concat "" (tokens s) = s.
Proof.
  intros s. induction s as [| a r Ha IH | w rest Hne Hw Hr IH] using tok_ind.
  - reflexivity.
  - rewrite (tokens_nonword _ _ Ha), concat_cons, IH. reflexivity.
  - rewrite (tokens_word _ _ Hne Hw Hr), concat_cons, IH. reflexivity.
Qed.
Print Assumptions tokens_concat.

(** * [replace_word]: unfolding lemmas *)

Definition rw_cond (name : string) (prev : option ascii) (s : string) : bool :=
  boundary_before prev && starts_with name s
  && boundary_after (string_drop (String.length name) s)
  && negb (Nat.eqb (String.length name) 0).

Definition rw_last (name : string) (prev : option ascii) : option ascii :=
  match rev_string name with String l _ => Some l | EmptyString => prev end.

Lemma rwa_hit : forall f name value prev s, s <> "" -> rw_cond name prev s = true ->
  replace_word_aux (S f) name value prev s =
  (value ++ fst (replace_word_aux f name value (rw_last name prev)
                                  (string_drop (String.length name) s)), true).
Proof.
  intros f name value prev s Hs Hc. destruct s as [|a r]; [congruence|].
  unfold rw_cond in Hc. cbn [replace_word_aux]. rewrite Hc.
  unfold rw_last.
  destruct (replace_word_aux f name value _ _) as [t c]. reflexivity.
Qed.

Lemma rwa_miss : forall f name value prev a r, rw_cond name prev (String a r) = false ->
  replace_word_aux (S f) name value prev (String a r) =
  (String a (fst (replace_word_aux f name value (Some a) r)),
   snd (replace_word_aux f name value (Some a) r)).
Proof.
  intros f name value prev a r Hc.
  unfold rw_cond in Hc. cbn [replace_word_aux]. rewrite Hc.
  destruct (replace_word_aux f name value _ _) as [t c]. reflexivity.
Qed.

(** a match of the name at the start of a maximal word is a match of the whole word *)
Lemma match_whole : forall name w rest,
  all_word name = true -> all_word w = true -> boundary_after rest = true ->
  starts_with name (w ++ rest) = true ->
  boundary_after (string_drop (String.length name) (w ++ rest)) = true ->
  name = w.
Proof.
  induction name as [|n name IH]; intros w rest Hn Hw Hr Hs Hb.
  - cbn [String.length string_drop] in Hb.
    destruct w as [|a w]; [reflexivity|].
    cbn [all_word] in Hw. apply andb_true_iff in Hw as [Ha _].
    cbn [append boundary_after] in Hb. rewrite Ha in Hb. discriminate.
  - cbn [all_word] in Hn. apply andb_true_iff in Hn as [Hn0 Hn].
    destruct w as [|a w].
    + cbn [append] in Hs. destruct rest as [|c r]; [discriminate|].
      cbn [starts_with] in Hs. apply andb_true_iff in Hs as [Hs _].
      apply Ascii.eqb_eq in Hs. subst c.
      cbn [boundary_after] in Hr. rewrite Hn0 in Hr. discriminate.
    + cbn [all_word] in Hw. apply andb_true_iff in Hw as [Ha Hw].
      cbn [append starts_with] in Hs. apply andb_true_iff in Hs as [Hs1 Hs2].
      apply Ascii.eqb_eq in Hs1. subst a.
      cbn [append String.length string_drop] in Hb.
      rewrite (IH w rest Hn Hw Hr Hs2 Hb). reflexivity.
Qed.

Fixpoint last_char (p : ascii) (w : string) : ascii :=
  match w with
  | EmptyString => p
  | String a r => last_char a r
  end.

(** inside a word (the previous character is a word character) nothing matches *)
Lemma rw_inside : forall w name value p rest f,
  is_word p = true -> all_word w = true ->
  replace_word_aux (String.length w + f) name value (Some p) (w ++ rest) =
  (w ++ fst (replace_word_aux f name value (Some (last_char p w)) rest),
   snd (replace_word_aux f name value (Some (last_char p w)) rest)).
Proof.
  induction w as [|a w IH]; intros name value p rest f Hp Hw.
  - cbn [String.length plus append last_char]. apply surjective_pairing.
  - cbn [all_word] in Hw. apply andb_true_iff in Hw as [Ha Hw].
    cbn [String.length plus append last_char].
    rewrite rwa_miss.
    + rewrite (IH name value a rest f Ha Hw). reflexivity.
    + unfold rw_cond. cbn [boundary_before]. rewrite Hp. reflexivity.
Qed.

Definition sub1 (name value : string) (t : string) : string :=
  if String.eqb t name then value else t.

Lemma subst_tokens_tsubst : forall name value s,
  subst_tokens name value s = tsubst (sub1 name value) s.
Proof. reflexivity. Qed.

Lemma tsubst_nil : forall F, tsubst F "" = "".
Proof. reflexivity. Qed.

Lemma tsubst_nonword : forall F a r, is_word a = false ->
  tsubst F (String a r) = F (String a "") ++ tsubst F r.
Proof.
  intros F a r Ha. unfold tsubst. rewrite (tokens_nonword _ _ Ha).
  cbn [map]. apply concat_cons.
Qed.

Lemma tsubst_word : forall F w rest, w <> "" -> all_word w = true -> boundary_after rest = true ->
  tsubst F (w ++ rest) = F w ++ tsubst F rest.
Proof.
  intros F w rest Hne Hw Hr. unfold tsubst. rewrite (tokens_word _ _ Hne Hw Hr).
  cbn [map]. apply concat_cons.
Qed.

Lemma wordy_head : forall n, wordy n -> exists a r, n = String a r /\ is_word a = true /\ all_word r = true.
Proof.
  intros n [Hne Hw]. destruct n as [|a r]; [congruence|].
  cbn [all_word] in Hw. apply andb_true_iff in Hw as [Ha Hr].
  exists a, r. auto.
Qed.

Lemma nonword_neq_wordy : forall a name, is_word a = false -> wordy name ->
  String.eqb (String a "") name = false /\ String.eqb name (String a "") = false.
Proof.
  intros a name Ha Hn. destruct (wordy_head _ Hn) as (n0 & n' & -> & Hn0 & _).
  assert (E : String a "" <> String n0 n') by (intros E; inversion E; subst; congruence).
  split; apply String.eqb_neq; congruence.
Qed.

(** the invariant: at a token start (either there is a boundary before, or the text does not
    start with a word character), with enough fuel, the scanner computes the token-wise
    substitution and reports whether the name is a token *)
Lemma rwa_spec : forall name value, wordy name ->
  forall s prev fuel,
    boundary_before prev = true \/ boundary_after s = true ->
    String.length s <= fuel ->
    replace_word_aux fuel name value prev s =
    (tsubst (sub1 name value) s, existsb (String.eqb name) (tokens s)).
Proof.
  intros name value Hname s.
  induction s as [| a r Ha IH | w rest Hne Hw Hr IH] using tok_ind; intros prev fuel Hb Hf.
  - destruct fuel; reflexivity.
  - destruct fuel as [|f]; [cbn in Hf; lia|]. cbn [String.length] in Hf.
    destruct (nonword_neq_wordy a name Ha Hname) as [E1 E2].
    rewrite rwa_miss.
    + rewrite (IH (Some a) f).
      * cbn [fst snd]. rewrite (tsubst_nonword _ _ _ Ha), (tokens_nonword _ _ Ha).
        cbn [existsb]. unfold sub1 at 2. rewrite E1, E2. reflexivity.
      * left. cbn [boundary_before]. rewrite Ha. reflexivity.
      * lia.
    + unfold rw_cond.
      destruct (wordy_head _ Hname) as (n0 & n' & -> & Hn0 & _).
      cbn [starts_with]. rewrite (is_word_eqb_false _ _ Hn0 Ha).
      rewrite andb_false_r. reflexivity.
  - destruct w as [|a w]; [congruence|].
    pose proof Hw as Hw'. cbn [all_word] in Hw'. apply andb_true_iff in Hw' as [Ha Hw'].
    assert (Hprev : boundary_before prev = true).
    { destruct Hb as [Hb|Hb]; [exact Hb|].
      cbn [append boundary_after] in Hb. rewrite Ha in Hb. discriminate. }
    rewrite length_app_s in Hf. cbn [String.length] in Hf.
    destruct fuel as [|f]; [lia|].
    rewrite (tsubst_word _ _ _ Hne Hw Hr), (tokens_word _ _ Hne Hw Hr).
    cbn [existsb]. unfold sub1 at 1.
    destruct (String.eqb_spec (String a w) name) as [E|E].
    + subst name.
      rewrite rwa_hit.
      * rewrite string_drop_app. rewrite IH; [| right; exact Hr | lia].
        cbn [fst]. rewrite String.eqb_refl. reflexivity.
      * cbn [append]. discriminate.
      * unfold rw_cond. rewrite Hprev, starts_with_app, string_drop_app, Hr. reflexivity.
    + assert (Hc : rw_cond name prev (String a (w ++ rest)) = false).
      { unfold rw_cond. destruct (boundary_before prev && starts_with name (String a (w ++ rest))
          && boundary_after (string_drop (String.length name) (String a (w ++ rest)))) eqn:C;
          [|reflexivity].
        apply andb_true_iff in C as [C C3]. apply andb_true_iff in C as [_ C2].
        exfalso. apply E. symmetry.
        apply (match_whole name (String a w) rest); try assumption. apply Hname. }
      cbn [append]. rewrite (rwa_miss _ _ _ _ _ _ Hc).
      replace f with (String.length w + (f - String.length w)) by lia.
      rewrite (rw_inside w name value a rest _ Ha Hw').
      rewrite IH; [| right; exact Hr | lia].
      cbn [fst snd].
      assert (E' : String.eqb name (String a w) = false) by (apply String.eqb_neq; congruence).
      rewrite E'. reflexivity.
Qed.

(** T1 *)
Theorem replace_word_token_exact : forall name value s, wordy name ->
  fst (replace_word name value s) = subst_tokens name value s.
Proof.
  intros name value s Hname. unfold replace_word.
  rewrite (rwa_spec name value Hname s None); [reflexivity | left; reflexivity | lia].
Qed.
Print Assumptions replace_word_token_exact.

(** T2 *)
Theorem replace_word_changed_iff : forall name value s, wordy name ->
  snd (replace_word name value s) = existsb (String.eqb name) (tokens s).
Proof.
  intros name value s Hname. unfold replace_word.
  rewrite (rwa_spec name value Hname s None); [reflexivity | left; reflexivity | lia].
Qed.
Print Assumptions replace_word_changed_iff.

Lemma replace_word_spec : forall name value s, wordy name ->
  replace_word name value s = (subst_tokens name value s, existsb (String.eqb name) (tokens s)).
Proof.
  intros name value s Hname. unfold replace_word.
  rewrite (rwa_spec name value Hname s None); [reflexivity | left; reflexivity | lia].
Qed.

(** T3 *)
Theorem replace_word_inside_identifier : forall name value pre post,
  wordy name -> wordy (pre ++ name ++ post) -> (pre <> "" \/ post <> "") ->
  replace_word name value (pre ++ name ++ post) = (pre ++ name ++ post, false).
Proof.
  intros name value pre post Hname Hall Hlonger.
  rewrite (replace_word_spec _ _ _ Hname).
  destruct Hall as [Hne Hw].
  assert (Ht : tokens (pre ++ name ++ post) = [pre ++ name ++ post]).
  { rewrite <- (app_nil_r_s (pre ++ name ++ post)) at 1.
    apply (tokens_word _ "" Hne Hw). reflexivity. }
  assert (Hneq : pre ++ name ++ post <> name).
  { intros E. apply (f_equal String.length) in E.
    rewrite !length_app_s in E.
    destruct Hlonger as [H|H]; [destruct pre | destruct post]; try congruence;
      cbn [String.length] in E; lia. }
  unfold subst_tokens. rewrite Ht. cbn [map existsb].
  assert (E1 : String.eqb (pre ++ name ++ post) name = false) by (apply String.eqb_neq; exact Hneq).
  assert (E2 : String.eqb name (pre ++ name ++ post) = false) by (apply String.eqb_neq; congruence).
  rewrite E1, E2. cbn [String.concat orb]. reflexivity.
Qed.
Print Assumptions replace_word_inside_identifier.

(** * [#undef] *)

Lemma undefine_cons : forall k v r n,
  undefine ((k, v) :: r) n = if String.eqb k n then r else (k, v) :: undefine r n.
Proof. reflexivity. Qed.

Lemma undefine_nil : forall n, undefine [] n = [].
Proof. reflexivity. Qed.

Lemma get_macro_cons : forall k v r n,
  get_macro ((k, v) :: r) n = if String.eqb k n then Some v else get_macro r n.
Proof. reflexivity. Qed.

Lemma get_macro_absent : forall ms n, ~ In n (map fst ms) -> get_macro ms n = None.
Proof.
  induction ms as [|[k v] r IH]; intros n Hn; [reflexivity|].
  rewrite get_macro_cons. cbn [map fst In] in Hn.
  destruct (String.eqb_spec k n) as [E|E]; [exfalso; auto|].
  apply IH. auto.
Qed.

(** T7 *)
Theorem undefine_exact : forall ms n m, NoDup (map fst ms) ->
  get_macro (undefine ms n) m = if String.eqb m n then None else get_macro ms m.
Proof.
  induction ms as [|[k v] r IH]; intros n m Hnd.
  - rewrite undefine_nil. cbn [get_macro]. destruct (String.eqb m n); reflexivity.
  - cbn [map fst] in Hnd. inversion Hnd as [|x l Hnotin Hnd' Heq]; subst x l.
    rewrite undefine_cons.
    destruct (String.eqb_spec k n) as [Ekn|Ekn].
    + subst k. destruct (String.eqb_spec m n) as [Emn|Emn].
      * subst m. apply get_macro_absent. exact Hnotin.
      * rewrite get_macro_cons.
        destruct (String.eqb_spec n m) as [E|E]; [congruence | reflexivity].
    + rewrite !get_macro_cons, (IH n m Hnd').
      destruct (String.eqb_spec k m) as [Ekm|Ekm]; [|reflexivity].
      subst m. destruct (String.eqb_spec k n) as [E|E]; [congruence | reflexivity].
Qed.
Print Assumptions undefine_exact.

(** nothing else changes: the order and content of the other entries is kept *)
Lemma undefine_absent : forall ms n, ~ In n (map fst ms) -> undefine ms n = ms.
Proof.
  induction ms as [|[k v] r IH]; intros n Hn; [reflexivity|].
  rewrite undefine_cons. cbn [map fst In] in Hn.
  destruct (String.eqb_spec k n) as [E|E]; [exfalso; auto|].
  rewrite IH; auto.
Qed.

(** * Token-wise substitutions compose *)

Lemma boundary_after_app : forall rest y,
  boundary_after rest = true -> boundary_after y = true -> boundary_after (rest ++ y) = true.
Proof. intros [|c r] y Hr Hy; cbn [append]; [exact Hy | exact Hr]. Qed.

(** cutting a text in front of a non-word character cuts its token list *)
Lemma tokens_app : forall x y, boundary_after y = true -> tokens (x ++ y) = (tokens x ++ tokens y)%list.
Proof.
  intros x y Hy. induction x as [| a r Ha IH | w rest Hne Hw Hr IH] using tok_ind.
  - reflexivity.
  - cbn [append]. rewrite !(tokens_nonword _ _ Ha), IH. reflexivity.
  - rewrite app_assoc_s.
    rewrite (tokens_word w (rest ++ y) Hne Hw (boundary_after_app _ _ Hr Hy)).
    rewrite (tokens_word w rest Hne Hw Hr), IH. reflexivity.
Qed.

Definition keeps_nonword (F : string -> string) : Prop :=
  forall a, is_word a = false -> F (String a "") = String a "".

Lemma tsubst_boundary : forall F s, keeps_nonword F ->
  boundary_after s = true -> boundary_after (tsubst F s) = true.
Proof.
  intros F [|c r] HF Hs; [reflexivity|].
  cbn [boundary_after] in Hs. apply negb_true_iff in Hs.
  rewrite (tsubst_nonword _ _ _ Hs), (HF c Hs). cbn [append boundary_after].
  rewrite Hs. reflexivity.
Qed.

Lemma tokens_single_nonword : forall a, is_word a = false -> tokens (String a "") = [String a ""].
Proof. intros a Ha. rewrite (tokens_nonword _ _ Ha). reflexivity. Qed.

Lemma tokens_single_word : forall w, w <> "" -> all_word w = true -> tokens w = [w].
Proof.
  intros w Hne Hw. rewrite <- (app_nil_r_s w) at 1.
  apply (tokens_word w "" Hne Hw). reflexivity.
Qed.

Lemma tokens_tsubst : forall F s, keeps_nonword F ->
  tokens (tsubst F s) = flat_map (fun t => tokens (F t)) (tokens s).
Proof.
  intros F s HF. induction s as [| a r Ha IH | w rest Hne Hw Hr IH] using tok_ind.
  - reflexivity.
  - rewrite (tsubst_nonword _ _ _ Ha), (tokens_nonword _ _ Ha), (HF a Ha).
    cbn [append flat_map]. rewrite (HF a Ha), (tokens_nonword _ _ Ha), IH.
    rewrite (tokens_single_nonword a Ha). reflexivity.
  - rewrite (tsubst_word _ _ _ Hne Hw Hr), (tokens_word _ _ Hne Hw Hr).
    cbn [flat_map]. rewrite (tokens_app _ _ (tsubst_boundary F rest HF Hr)), IH.
    reflexivity.
Qed.

(** a token is its own token list *)
Lemma token_tokens : forall s t, In t (tokens s) -> tokens t = [t].
Proof.
  intros s. induction s as [| a r Ha IH | w rest Hne Hw Hr IH] using tok_ind; intros t Hin.
  - contradiction.
  - rewrite (tokens_nonword _ _ Ha) in Hin. destruct Hin as [<-|Hin].
    + apply tokens_single_nonword. exact Ha.
    + apply IH. exact Hin.
  - rewrite (tokens_word _ _ Hne Hw Hr) in Hin. destruct Hin as [<-|Hin].
    + apply tokens_single_word; assumption.
    + apply IH. exact Hin.
Qed.

Lemma concat_flat_map : forall (h : string -> list string) l,
  String.concat "" (flat_map h l) = String.concat "" (map (fun t => String.concat "" (h t)) l).
Proof.
  intros h l. induction l as [|x l IH]; [reflexivity|].
  cbn [flat_map map]. rewrite concat_app, concat_cons, IH. reflexivity.
Qed.

Lemma map_flat_map_s : forall (G : string -> string) (h : string -> list string) l,
  map G (flat_map h l) = flat_map (fun t => map G (h t)) l.
Proof.
  intros G h l. induction l as [|x l IH]; [reflexivity|].
  cbn [flat_map]. rewrite map_app, IH. reflexivity.
Qed.

Lemma tsubst_tsubst : forall F G s, keeps_nonword F ->
  tsubst G (tsubst F s) = tsubst (fun t => tsubst G (F t)) s.
Proof.
  intros F G s HF. unfold tsubst at 1. rewrite (tokens_tsubst F s HF).
  rewrite map_flat_map_s, concat_flat_map. reflexivity.
Qed.

Lemma tsubst_ext_in : forall F G s, (forall t, In t (tokens s) -> F t = G t) ->
  tsubst F s = tsubst G s.
Proof. intros F G s H. unfold tsubst. rewrite (map_ext_in F G _ H). reflexivity. Qed.

Lemma tsubst_id : forall s, tsubst (fun t => t) s = s.
Proof. intros s. unfold tsubst. rewrite map_id. apply tokens_concat. Qed.

Lemma existsb_false_in : forall (A : Type) (f : A -> bool) l x,
  existsb f l = false -> In x l -> f x = false.
Proof.
  intros A f l x H Hin. destruct (f x) eqn:E; [|reflexivity].
  assert (existsb f l = true) by (apply existsb_exists; exists x; auto). congruence.
Qed.

Lemma existsb_flat_map_false : forall (A B : Type) (f : B -> bool) (h : A -> list B) l,
  (forall t, In t l -> existsb f (h t) = false) -> existsb f (flat_map h l) = false.
Proof.
  intros A B f h l. induction l as [|x l IH]; intros H; [reflexivity|].
  cbn [flat_map]. rewrite existsb_app, (H x (or_introl eq_refl)), IH; [reflexivity|].
  intros t Ht. apply H. right. exact Ht.
Qed.

Lemma sub1_keeps_nonword : forall name value, wordy name -> keeps_nonword (sub1 name value).
Proof.
  intros name value Hn a Ha. unfold sub1.
  destruct (nonword_neq_wordy a name Ha Hn) as [E _]. rewrite E. reflexivity.
Qed.

(** substituting a name that is not a token changes nothing *)
Lemma tsubst_sub1_absent : forall name value y,
  existsb (String.eqb name) (tokens y) = false -> tsubst (sub1 name value) y = y.
Proof.
  intros name value y H. rewrite <- (tsubst_id y) at 2. apply tsubst_ext_in.
  intros t Ht. unfold sub1. rewrite String.eqb_sym, (existsb_false_in _ _ _ _ H Ht). reflexivity.
Qed.

Lemma replace_word_absent : forall name value y, wordy name ->
  existsb (String.eqb name) (tokens y) = false -> replace_word name value y = (y, false).
Proof.
  intros name value y Hn H. rewrite (replace_word_spec _ _ _ Hn), H.
  rewrite subst_tokens_tsubst, (tsubst_sub1_absent _ _ _ H). reflexivity.
Qed.

(** * [replace_all] with object-like macros *)

Definition mk_obj (nv : string * string) : macro := (fst nv, MObj (snd nv)).

Definition names_wordy (ms : list (string * string)) : Prop :=
  forall n v, In (n, v) ms -> wordy n.

Definition values_closed (ms : list (string * string)) : Prop :=
  forall n v m, In (n, v) ms -> In m (map fst ms) -> existsb (String.eqb m) (tokens v) = false.

Lemma apply_all_cons : forall m r orig res ch,
  apply_all (m :: r) orig res ch =
  if macro_matches m orig
  then apply_all r orig (fst (apply_macro m res)) (ch || snd (apply_macro m res))
  else apply_all r orig res ch.
Proof.
  intros m r orig res ch. cbn [apply_all].
  destruct (macro_matches m orig); [|reflexivity].
  destruct (apply_macro m res) as [res' c]. reflexivity.
Qed.

Lemma replace_rounds_S : forall k ms orig res,
  replace_rounds (S k) ms orig res =
  if snd (apply_all ms orig res false)
  then replace_rounds k ms (fst (apply_all ms orig res false)) (fst (apply_all ms orig res false))
  else fst (apply_all ms orig res false).
Proof.
  intros k ms orig res. cbn [replace_rounds].
  destruct (apply_all ms orig res false) as [res' c]. reflexivity.
Qed.

Lemma apply_macro_obj : forall nv s, apply_macro (mk_obj nv) s = replace_word (fst nv) (snd nv) s.
Proof. reflexivity. Qed.

Lemma macro_matches_obj : forall nv s, wordy (fst nv) ->
  macro_matches (mk_obj nv) s = existsb (String.eqb (fst nv)) (tokens s).
Proof.
  intros nv s Hn. unfold macro_matches. rewrite apply_macro_obj.
  apply replace_word_changed_iff. exact Hn.
Qed.

Lemma subst_many_snoc : forall ms1 nv t,
  subst_many (ms1 ++ [nv]) t =
  match find (fun x => String.eqb (fst x) t) ms1 with
  | Some x => snd x
  | None => if String.eqb (fst nv) t then snd nv else t
  end.
Proof.
  intros ms1 nv t. unfold subst_many. induction ms1 as [|x ms1 IH].
  - cbn [app find]. destruct (String.eqb (fst nv) t); reflexivity.
  - cbn [app find]. destruct (String.eqb (fst x) t); [reflexivity | exact IH].
Qed.

Lemma subst_many_keeps_nonword : forall ms, names_wordy ms -> keeps_nonword (subst_many ms).
Proof.
  intros ms Hms a Ha. unfold subst_many.
  destruct (find _ ms) as [[n v]|] eqn:E; [|reflexivity].
  apply find_some in E as [Hin Heq]. cbn [fst] in Heq. apply String.eqb_eq in Heq. subst n.
  destruct (Hms _ _ Hin) as [_ Hw]. cbn [all_word] in Hw. rewrite Ha in Hw. discriminate.
Qed.

(** one step of [apply_all]: after the macros [ms1] the result is the simultaneous substitution
    of [ms1]; applying (or skipping) [nv] gives the simultaneous substitution of [ms1 ++ [nv]] *)
Lemma apply_step : forall ms1 nv s,
  names_wordy (ms1 ++ [nv]) -> values_closed (ms1 ++ [nv]) ->
  (if macro_matches (mk_obj nv) s
   then fst (apply_macro (mk_obj nv) (tsubst (subst_many ms1) s))
   else tsubst (subst_many ms1) s)
  = tsubst (subst_many (ms1 ++ [nv])) s.
Proof.
  intros ms1 [n v] s Hw Hc.
  assert (Hn : wordy n) by (apply (Hw n v), in_or_app; right; left; reflexivity).
  assert (Hw1 : names_wordy ms1) by (intros n' v' H; apply (Hw n' v'), in_or_app; auto).
  rewrite (macro_matches_obj (n, v) s Hn), apply_macro_obj. cbn [fst snd].
  destruct (existsb (String.eqb n) (tokens s)) eqn:Em.
  - rewrite (replace_word_token_exact _ _ _ Hn), subst_tokens_tsubst.
    rewrite (tsubst_tsubst _ _ _ (subst_many_keeps_nonword ms1 Hw1)).
    apply tsubst_ext_in. intros t Ht. rewrite subst_many_snoc. unfold subst_many. cbn [fst snd].
    destruct (find _ ms1) as [[n' v']|] eqn:E.
    + cbn [snd]. apply tsubst_sub1_absent.
      apply find_some in E as [Hin _].
      apply (Hc n' v' n); [apply in_or_app; auto|].
      rewrite map_app. apply in_or_app. right. left. reflexivity.
    + unfold tsubst. rewrite (token_tokens s t Ht). cbn [map]. rewrite concat_cons, concat_nil, app_nil_r_s.
      unfold sub1. rewrite String.eqb_sym. reflexivity.
  - apply tsubst_ext_in. intros t Ht. rewrite subst_many_snoc. unfold subst_many. cbn [fst snd].
    destruct (find _ ms1) as [x|]; [reflexivity|].
    rewrite (existsb_false_in _ _ _ _ Em Ht). reflexivity.
Qed.

Lemma names_wordy_assoc : forall ms1 nv ms2,
  names_wordy (ms1 ++ nv :: ms2) -> names_wordy (ms1 ++ [nv]).
Proof.
  intros ms1 nv ms2 H n v Hin. apply (H n v).
  apply in_app_or in Hin as [Hin|[Hin|[]]]; apply in_or_app; [left | right; left]; assumption.
Qed.

Lemma values_closed_assoc : forall ms1 nv ms2,
  values_closed (ms1 ++ nv :: ms2) -> values_closed (ms1 ++ [nv]).
Proof.
  intros ms1 nv ms2 H n v m Hin Hm. apply (H n v m).
  - apply in_app_or in Hin as [Hin|[Hin|[]]]; apply in_or_app; [left | right; left]; assumption.
  - rewrite map_app in *. apply in_app_or in Hm as [Hm|[Hm|[]]]; apply in_or_app;
      [left | right; left]; assumption.
Qed.

Lemma apply_all_fst : forall ms2 ms1 s c,
  names_wordy (ms1 ++ ms2) -> values_closed (ms1 ++ ms2) ->
  fst (apply_all (map mk_obj ms2) s (tsubst (subst_many ms1) s) c) =
  tsubst (subst_many (ms1 ++ ms2)) s.
Proof.
  induction ms2 as [|nv ms2 IH]; intros ms1 s c Hw Hc.
  - rewrite app_nil_r. reflexivity.
  - cbn [map]. rewrite apply_all_cons.
    pose proof (apply_step ms1 nv s (names_wordy_assoc _ _ _ Hw) (values_closed_assoc _ _ _ Hc)) as Hstep.
    assert (Eapp : (ms1 ++ nv :: ms2 = (ms1 ++ [nv]) ++ ms2)%list)
      by (rewrite <- app_assoc; reflexivity).
    rewrite Eapp in *.
    destruct (macro_matches (mk_obj nv) s).
    + rewrite Hstep. apply IH; assumption.
    + rewrite Hstep. apply IH; assumption.
Qed.

(** a text in which no macro name is a token is a fixed point *)
Lemma apply_all_stable : forall ms orig res c,
  names_wordy ms ->
  (forall nv, In nv ms -> existsb (String.eqb (fst nv)) (tokens res) = false) ->
  apply_all (map mk_obj ms) orig res c = (res, c).
Proof.
  induction ms as [|[n v] ms IH]; intros orig res c Hw Hfree; [reflexivity|].
  cbn [map]. rewrite apply_all_cons.
  assert (Hw' : names_wordy ms) by (intros n' v' H; apply (Hw n' v'); right; exact H).
  assert (Hfree' : forall nv, In nv ms -> existsb (String.eqb (fst nv)) (tokens res) = false)
    by (intros nv H; apply Hfree; right; exact H).
  destruct (macro_matches (mk_obj (n, v)) orig); [|apply IH; assumption].
  rewrite apply_macro_obj. cbn [fst snd].
  rewrite (replace_word_absent n v res (Hw n v (or_introl eq_refl)) (Hfree (n, v) (or_introl eq_refl))).
  cbn [fst snd]. rewrite orb_false_r. apply IH; assumption.
Qed.

Lemma replace_rounds_stable : forall k ms orig res,
  names_wordy ms ->
  (forall nv, In nv ms -> existsb (String.eqb (fst nv)) (tokens res) = false) ->
  replace_rounds k (map mk_obj ms) orig res = res.
Proof.
  intros [|k] ms orig res Hw Hfree; [reflexivity|].
  rewrite replace_rounds_S, (apply_all_stable ms orig res false Hw Hfree). reflexivity.
Qed.

(** after the simultaneous substitution no macro name is left as a token *)
Lemma subst_many_closed : forall ms s nv, names_wordy ms -> values_closed ms -> In nv ms ->
  existsb (String.eqb (fst nv)) (tokens (tsubst (subst_many ms) s)) = false.
Proof.
  intros ms s nv Hw Hc Hin.
  rewrite (tokens_tsubst _ s (subst_many_keeps_nonword ms Hw)).
  apply existsb_flat_map_false. intros t Ht. unfold subst_many.
  destruct (find _ ms) as [[n' v']|] eqn:E.
  - cbn [snd]. apply find_some in E as [Hin' _].
    apply (Hc n' v' (fst nv) Hin'). apply in_map. exact Hin.
  - rewrite (token_tokens s t Ht). cbn [existsb]. rewrite orb_false_r.
    apply (find_none _ _ E nv Hin).
Qed.

Lemma replace_all_obj : forall ms s, names_wordy ms -> values_closed ms ->
  replace_all (map mk_obj ms) s = tsubst (subst_many ms) s.
Proof.
  intros ms s Hw Hc. unfold replace_all.
  rewrite (replace_rounds_S 63).
  pose proof (apply_all_fst ms [] s false Hw Hc) as H1.
  change (tsubst (subst_many []) s) with (tsubst (fun t => t) s) in H1.
  rewrite tsubst_id in H1. cbn [app] in H1.
  rewrite H1.
  destruct (snd (apply_all (map mk_obj ms) s s false)); [|reflexivity].
  apply replace_rounds_stable; [exact Hw|].
  intros nv Hin. apply subst_many_closed; assumption.
Qed.

(** T6 *)
Theorem replace_all_independent : forall (ms : list (string * string)) s,
  NoDup (map fst ms) -> (forall n v, In (n, v) ms -> wordy n) ->
  (forall n v m, In (n, v) ms -> In m (map fst ms) -> existsb (String.eqb m) (tokens v) = false) ->
  replace_all (map (fun nv => (fst nv, MObj (snd nv))) ms) s =
  String.concat "" (map (fun t => match find (fun nv => String.eqb (fst nv) t) ms with
                                  | Some nv => snd nv | None => t end) (tokens s)).
Proof.
  intros ms s _ Hw Hc. exact (replace_all_obj ms s Hw Hc).
Qed.
Print Assumptions replace_all_independent.

(** T5 *)
Theorem replace_all_single : forall name value s, wordy name ->
  existsb (String.eqb name) (tokens value) = false ->
  replace_all [(name, MObj value)] s = subst_tokens name value s.
Proof.
  intros name value s Hn Hv.
  change [(name, MObj value)] with (map mk_obj [(name, value)]).
  rewrite replace_all_obj.
  - rewrite subst_tokens_tsubst. apply tsubst_ext_in. intros t _.
    unfold subst_many, sub1. cbn [find fst snd]. rewrite String.eqb_sym.
    destruct (String.eqb t name); reflexivity.
  - intros n v [E|[]]. inversion E; subst. exact Hn.
  - intros n v m [E|[]] [Em|[]]. inversion E; subst. cbn [fst]. exact Hv.
Qed.
Print Assumptions replace_all_single.

(** * [replace_all] with CHAINS of object-like macros

    Every round computes its match set on the text as it stands at the beginning of the round,
    so a macro name brought in by a replacement is expanded in a later round.  For an acyclic
    set of object-like macros (a rank strictly decreases from a macro to the macro names its
    value mentions) of depth below the 64-round cap, [replace_all] is the full recursive token
    substitution [tsubst (expand_tok 64 ms)]. *)

(** the change flag: once set it stays set, and a round that starts on [orig] reports a change
    as soon as one macro matches *)
Lemma apply_all_snd_true : forall ms orig res,
  snd (apply_all ms orig res true) = true.
Proof.
  induction ms as [|m r IH]; intros orig res; [reflexivity|].
  rewrite apply_all_cons. destruct (macro_matches m orig); [|apply IH].
  cbn [orb]. apply IH.
Qed.

Lemma apply_all_unchanged : forall ms orig,
  snd (apply_all ms orig orig false) = false ->
  forall m, In m ms -> macro_matches m orig = false.
Proof.
  induction ms as [|m0 r IH]; intros orig Hs m Hin; [contradiction|].
  rewrite apply_all_cons in Hs.
  destruct (macro_matches m0 orig) eqn:Em.
  - exfalso. unfold macro_matches in Em. rewrite Em in Hs. cbn [orb] in Hs.
    rewrite apply_all_snd_true in Hs. discriminate.
  - destruct Hin as [<-|Hin]; [exact Em | exact (IH orig Hs m Hin)].
Qed.

Lemma tsubst_token : forall F s t, In t (tokens s) -> tsubst F t = F t.
Proof.
  intros F s t Ht. unfold tsubst. rewrite (token_tokens s t Ht). cbn [map].
  rewrite concat_cons, concat_nil, app_nil_r_s. reflexivity.
Qed.

Lemma find_name_none : forall (ms : list (string * string)) t,
  ~ In t (map fst ms) -> find (fun nv => String.eqb (fst nv) t) ms = None.
Proof.
  induction ms as [|[n v] ms IH]; intros t Hn; [reflexivity|].
  cbn [find fst]. cbn [map fst In] in Hn.
  destruct (String.eqb_spec n t) as [E|E]; [exfalso; auto|]. apply IH. auto.
Qed.

Lemma find_name_some : forall (ms : list (string * string)) n v,
  NoDup (map fst ms) -> In (n, v) ms -> find (fun nv => String.eqb (fst nv) n) ms = Some (n, v).
Proof.
  induction ms as [|[n0 v0] ms IH]; intros n v Hnd Hin; [contradiction|].
  cbn [map fst] in Hnd. inversion Hnd as [|x l Hnotin Hnd' Heq]; subst x l.
  cbn [find fst]. destruct Hin as [E|Hin].
  - inversion E; subst. rewrite String.eqb_refl. reflexivity.
  - destruct (String.eqb_spec n0 n) as [E|E].
    + subst n0. exfalso. apply Hnotin. change n with (fst (n, v)). apply in_map. exact Hin.
    + apply IH; assumption.
Qed.

Lemma find_name_in : forall (ms : list (string * string)) t nv,
  find (fun x => String.eqb (fst x) t) ms = Some nv -> In nv ms /\ fst nv = t.
Proof.
  intros ms t nv H. apply find_some in H as [Hin Heq]. apply String.eqb_eq in Heq. auto.
Qed.

Lemma expand_tok_S : forall f ms t,
  expand_tok (S f) ms t =
  match find (fun nv => String.eqb (fst nv) t) ms with
  | Some nv => tsubst (expand_tok f ms) (snd nv)
  | None => t
  end.
Proof. reflexivity. Qed.

Lemma expand_tok_nonname : forall f ms t, ~ In t (map fst ms) -> expand_tok f ms t = t.
Proof.
  intros [|f] ms t Hn; [reflexivity|]. rewrite expand_tok_S, (find_name_none ms t Hn). reflexivity.
Qed.

Section Chain.
  Variable ms : list (string * string).
  Variable rank : string -> nat.
  Hypothesis Hnd : NoDup (map fst ms).
  Hypothesis Hw : names_wordy ms.
  Hypothesis Hrank : forall n v t,
    In (n, v) ms -> In t (tokens v) -> In t (map fst ms) -> rank t < rank n.

  (** more fuel than the rank of the token changes nothing *)
  Lemma expand_tok_fuel : forall f t, (In t (map fst ms) -> rank t < f) ->
    forall g, f <= g -> expand_tok g ms t = expand_tok f ms t.
  Proof.
    induction f as [|f IH]; intros t Ht g Hg.
    - assert (Hn : ~ In t (map fst ms)) by (intros H; specialize (Ht H); lia).
      rewrite !(expand_tok_nonname _ _ _ Hn). reflexivity.
    - destruct g as [|g]; [lia|]. rewrite !expand_tok_S.
      destruct (find _ ms) as [[n v]|] eqn:E; [|reflexivity].
      apply find_name_in in E as [Hin Hn]. cbn [fst] in Hn. subst n. cbn [snd].
      apply tsubst_ext_in. intros t' Ht'. apply IH; [|lia].
      intros Hname. pose proof (Hrank t v t' Hin Ht' Hname) as H1.
      assert (H2 : rank t < S f) by (apply Ht; change t with (fst (t, v)); apply in_map; exact Hin).
      lia.
  Qed.

  Variable b : nat.
  Hypothesis Hb : forall n, In n (map fst ms) -> rank n < b.

  Definition chain_E : string -> string := expand_tok b ms.

  (** the defining equations of the full expansion *)
  Lemma chain_E_name : forall n v, In (n, v) ms -> chain_E n = tsubst chain_E v.
  Proof.
    intros n v Hin. unfold chain_E.
    assert (Hname : In n (map fst ms)) by (change n with (fst (n, v)); apply in_map; exact Hin).
    pose proof (Hb n Hname) as Hlt.
    destruct b as [|b']; [lia|].
    rewrite expand_tok_S at 1. rewrite (find_name_some ms n v Hnd Hin). cbn [snd].
    apply tsubst_ext_in. intros t Ht. symmetry. apply expand_tok_fuel; [|lia].
    intros Htn. pose proof (Hrank n v t Hin Ht Htn). lia.
  Qed.

  Lemma chain_E_other : forall t, ~ In t (map fst ms) -> chain_E t = t.
  Proof. intros t Hn. apply expand_tok_nonname. exact Hn. Qed.

  Lemma nonword_not_name : forall a, is_word a = false -> ~ In (String a "") (map fst ms).
  Proof.
    intros a Ha Hin. apply in_map_iff in Hin as [[n v] [Hfst Hin]]. cbn [fst] in Hfst. subst n.
    destruct (Hw _ _ Hin) as [_ Hall]. cbn [all_word] in Hall. rewrite Ha in Hall. discriminate.
  Qed.

  Lemma chain_E_keeps_nonword : keeps_nonword chain_E.
  Proof. intros a Ha. apply chain_E_other. apply nonword_not_name. exact Ha. Qed.

  (** applying one macro of the set does not change the full expansion of the text *)
  Lemma chain_E_step : forall n v x, In (n, v) ms ->
    tsubst chain_E (fst (replace_word n v x)) = tsubst chain_E x.
  Proof.
    intros n v x Hin. pose proof (Hw n v Hin) as Hn.
    rewrite (replace_word_token_exact _ _ _ Hn), subst_tokens_tsubst.
    rewrite (tsubst_tsubst _ _ _ (sub1_keeps_nonword n v Hn)).
    apply tsubst_ext_in. intros t Ht. unfold sub1.
    destruct (String.eqb_spec t n) as [E|E].
    - subst t. symmetry. apply chain_E_name. exact Hin.
    - apply (tsubst_token chain_E x t Ht).
  Qed.

  Lemma apply_all_chain_E : forall ms2, incl ms2 ms -> forall orig res c,
    tsubst chain_E (fst (apply_all (map mk_obj ms2) orig res c)) = tsubst chain_E res.
  Proof.
    induction ms2 as [|[n v] ms2 IH]; intros Hincl orig res c; [reflexivity|].
    assert (Hincl' : incl ms2 ms) by (intros x Hx; apply Hincl; right; exact Hx).
    cbn [map]. rewrite apply_all_cons.
    destruct (macro_matches (mk_obj (n, v)) orig); rewrite (IH Hincl'); [|reflexivity].
    rewrite apply_macro_obj. cbn [fst snd]. apply chain_E_step. apply Hincl. left. reflexivity.
  Qed.

  (** [below k s]: every macro name that is a token of [s] has rank below [k] *)
  Definition below (k : nat) (s : string) : Prop :=
    forall t, In t (tokens s) -> In t (map fst ms) -> rank t < k.

  Lemma below_0_closed : forall s, below 0 s -> tsubst chain_E s = s.
  Proof.
    intros s H0. rewrite <- (tsubst_id s) at 2. apply tsubst_ext_in. intros t Ht.
    apply chain_E_other. intros Hname. specialize (H0 t Ht Hname). lia.
  Qed.

  (** one round lowers the largest rank present: a macro of the match set is removed for good
      (what its value brings in has lower rank), the others were absent at the start *)
  Lemma apply_all_below : forall ms2, incl ms2 ms -> forall orig res c k,
    below (S k) orig ->
    (forall t, In t (tokens res) -> In t (map fst ms) ->
               rank t < k \/ (In t (tokens orig) /\ In t (map fst ms2))) ->
    below k (fst (apply_all (map mk_obj ms2) orig res c)).
  Proof.
    induction ms2 as [|[n v] ms2 IH]; intros Hincl orig res c k Horig Hinv.
    - intros t Ht Hname. destruct (Hinv t Ht Hname) as [H|[_ []]]. exact H.
    - assert (Hincl' : incl ms2 ms) by (intros x Hx; apply Hincl; right; exact Hx).
      assert (Hin : In (n, v) ms) by (apply Hincl; left; reflexivity).
      pose proof (Hw n v Hin) as Hn.
      cbn [map]. rewrite apply_all_cons, (macro_matches_obj (n, v) orig Hn). cbn [fst].
      destruct (existsb (String.eqb n) (tokens orig)) eqn:Em.
      + apply existsb_exists in Em as [n' [Hn' En']]. apply String.eqb_eq in En'. subst n'.
        assert (Hrn : rank n < S k)
          by (apply Horig; [exact Hn' | change n with (fst (n, v)); apply in_map; exact Hin]).
        apply (IH Hincl'); [exact Horig|].
        rewrite apply_macro_obj. cbn [fst snd].
        rewrite (replace_word_token_exact _ _ _ Hn), subst_tokens_tsubst.
        rewrite (tokens_tsubst _ res (sub1_keeps_nonword n v Hn)).
        intros t Ht Hname. apply in_flat_map in Ht as [t0 [Ht0 Ht]]. unfold sub1 in Ht.
        destruct (String.eqb_spec t0 n) as [E|E].
        * left. pose proof (Hrank n v t Hin Ht Hname). lia.
        * rewrite (token_tokens res t0 Ht0) in Ht. destruct Ht as [<-|[]].
          destruct (Hinv t0 Ht0 Hname) as [H|[H1 H2]]; [left; exact H|].
          cbn [map fst In] in H2. destruct H2 as [H2|H2]; [congruence|]. right. auto.
      + apply (IH Hincl'); [exact Horig|].
        intros t Ht Hname. destruct (Hinv t Ht Hname) as [H|[H1 H2]]; [left; exact H|].
        cbn [map fst In] in H2. destruct H2 as [H2|H2]; [|right; auto].
        subst t. exfalso.
        assert (Ex : existsb (String.eqb n) (tokens orig) = true)
          by (apply existsb_exists; exists n; split; [exact H1 | apply String.eqb_refl]).
        congruence.
  Qed.

  Lemma round_below : forall s k, below (S k) s ->
    below k (fst (apply_all (map mk_obj ms) s s false)).
  Proof.
    intros s k Hs. apply apply_all_below; [apply incl_refl | exact Hs |].
    intros t Ht Hname. right. auto.
  Qed.

  (** a round that reports no change started on a text without macro names *)
  Lemma round_unchanged : forall s, snd (apply_all (map mk_obj ms) s s false) = false ->
    fst (apply_all (map mk_obj ms) s s false) = s /\ below 0 s.
  Proof.
    intros s Hs. pose proof (apply_all_unchanged _ _ Hs) as Hno.
    assert (Hfree : forall nv, In nv ms -> existsb (String.eqb (fst nv)) (tokens s) = false).
    { intros [n v] Hin. rewrite <- (macro_matches_obj (n, v) s (Hw n v Hin)).
      apply Hno. apply in_map. exact Hin. }
    split.
    - rewrite (apply_all_stable ms s s false Hw Hfree). reflexivity.
    - intros t Ht Hname. exfalso. apply in_map_iff in Hname as [nv [Hfst Hin]].
      specialize (Hfree nv Hin). rewrite Hfst in Hfree.
      assert (Ex : existsb (String.eqb t) (tokens s) = true)
        by (apply existsb_exists; exists t; split; [exact Ht | apply String.eqb_refl]).
      congruence.
  Qed.

  (** [k] rounds complete the expansion of a text whose macro names have rank below [k] *)
  Lemma replace_rounds_chain : forall k s, below k s ->
    replace_rounds k (map mk_obj ms) s s = tsubst chain_E s.
  Proof.
    induction k as [|k IH]; intros s Hs.
    - cbn [replace_rounds]. symmetry. apply below_0_closed. exact Hs.
    - rewrite replace_rounds_S.
      destruct (snd (apply_all (map mk_obj ms) s s false)) eqn:Ec.
      + rewrite (IH _ (round_below s k Hs)). apply apply_all_chain_E. apply incl_refl.
      + destruct (round_unchanged s Ec) as [E H0]. rewrite E. symmetry.
        apply below_0_closed. exact H0.
  Qed.

  (** the full expansion of a token contains no macro name *)
  Lemma expand_tok_closed : forall f t, tokens t = [t] -> (In t (map fst ms) -> rank t < f) ->
    forall t', In t' (tokens (expand_tok f ms t)) -> ~ In t' (map fst ms).
  Proof.
    induction f as [|f IH]; intros t Htok Ht t' Ht'.
    - cbn [expand_tok] in Ht'. rewrite Htok in Ht'. destruct Ht' as [<-|[]].
      intros H. specialize (Ht H). lia.
    - rewrite expand_tok_S in Ht'. destruct (find _ ms) as [[n v]|] eqn:E.
      + apply find_name_in in E as [Hin Hn]. cbn [fst] in Hn. subst n. cbn [snd] in Ht'.
        assert (Hk : keeps_nonword (expand_tok f ms))
          by (intros a Ha; apply expand_tok_nonname, nonword_not_name; exact Ha).
        rewrite (tokens_tsubst _ v Hk) in Ht'. apply in_flat_map in Ht' as [t0 [Ht0 Ht']].
        apply (IH t0 (token_tokens v t0 Ht0)); [|exact Ht'].
        intros Hname. pose proof (Hrank t v t0 Hin Ht0 Hname) as H1.
        assert (H2 : rank t < S f) by (apply Ht; change t with (fst (t, v)); apply in_map; exact Hin).
        lia.
      + rewrite Htok in Ht'. destruct Ht' as [<-|[]].
        intros H. apply in_map_iff in H as [nv [Hfst Hin]].
        pose proof (find_none _ _ E nv Hin) as Hf. cbn beta in Hf.
        rewrite Hfst, String.eqb_refl in Hf. discriminate.
  Qed.

  Lemma chain_E_closed : forall s t, In t (tokens (tsubst chain_E s)) -> ~ In t (map fst ms).
  Proof.
    intros s t Ht. rewrite (tokens_tsubst _ s chain_E_keeps_nonword) in Ht.
    apply in_flat_map in Ht as [t0 [Ht0 Ht]].
    apply (expand_tok_closed b t0 (token_tokens s t0 Ht0) (Hb t0) t Ht).
  Qed.
End Chain.

(** T6c: an acyclic set of object-like macros of depth below the round cap is expanded
    completely, whatever the order of the definitions *)
Theorem replace_all_chain : forall (ms : list (string * string)) (rank : string -> nat) s,
  NoDup (map fst ms) -> (forall n v, In (n, v) ms -> wordy n) ->
  (forall n v t, In (n, v) ms -> In t (tokens v) -> In t (map fst ms) -> rank t < rank n) ->
  (forall n, In n (map fst ms) -> rank n < 64) ->
  replace_all (map (fun nv => (fst nv, MObj (snd nv))) ms) s = tsubst (expand_tok 64 ms) s.
Proof.
  intros ms rank s Hnd Hw Hrank Hb. unfold replace_all.
  apply (replace_rounds_chain ms rank Hnd Hw Hrank 64 Hb 64 s).
  intros t _ Hname. apply Hb. exact Hname.
Qed.
Print Assumptions replace_all_chain.

(** what [expand_tok 64 ms] is: a macro name expands to its value with every token expanded in
    turn, any other token to itself ... *)
Theorem expand_tok_equations : forall (ms : list (string * string)) (rank : string -> nat),
  NoDup (map fst ms) -> (forall n v, In (n, v) ms -> wordy n) ->
  (forall n v t, In (n, v) ms -> In t (tokens v) -> In t (map fst ms) -> rank t < rank n) ->
  (forall n, In n (map fst ms) -> rank n < 64) ->
  (forall n v, In (n, v) ms -> expand_tok 64 ms n = tsubst (expand_tok 64 ms) v) /\
  (forall t, ~ In t (map fst ms) -> expand_tok 64 ms t = t).
Proof.
  intros ms rank Hnd Hw Hrank Hb. split.
  - exact (chain_E_name ms rank Hnd Hrank 64 Hb).
  - intros t Ht. apply expand_tok_nonname. exact Ht.
Qed.
Print Assumptions expand_tok_equations.

(** ... and no macro name is left as a token of the result *)
Theorem replace_all_chain_closed : forall (ms : list (string * string)) (rank : string -> nat) s t,
  NoDup (map fst ms) -> (forall n v, In (n, v) ms -> wordy n) ->
  (forall n v t, In (n, v) ms -> In t (tokens v) -> In t (map fst ms) -> rank t < rank n) ->
  (forall n, In n (map fst ms) -> rank n < 64) ->
  In t (tokens (replace_all (map (fun nv => (fst nv, MObj (snd nv))) ms) s)) ->
  ~ In t (map fst ms).
Proof.
  intros ms rank s t Hnd Hw Hrank Hb Ht.
  rewrite (replace_all_chain ms rank s Hnd Hw Hrank Hb) in Ht.
  exact (chain_E_closed ms rank Hw Hrank 64 Hb s t Ht).
Qed.
Print Assumptions replace_all_chain_closed.

(** the hypotheses in decidable form *)
Lemma nodup_b_NoDup : forall l, nodup_b l = true -> NoDup l.
Proof.
  induction l as [|x l IH]; intros H; [constructor|].
  cbn [nodup_b] in H. apply andb_true_iff in H as [Hx Hl]. apply negb_true_iff in Hx.
  constructor; [|exact (IH Hl)].
  intros Hin. assert (Ex : existsb (String.eqb x) l = true)
    by (apply existsb_exists; exists x; split; [exact Hin | apply String.eqb_refl]).
  congruence.
Qed.

Lemma wordy_b_wordy : forall n, wordy_b n = true -> wordy n.
Proof.
  intros n H. unfold wordy_b in H. apply andb_true_iff in H as [Hne Hall].
  split; [|exact Hall]. intros E. subst n. discriminate.
Qed.

Theorem replace_all_chain_b : forall (ms : list (string * string)) (rank : string -> nat) s,
  chain_ok_b rank ms = true ->
  replace_all (map (fun nv => (fst nv, MObj (snd nv))) ms) s = tsubst (expand_tok 64 ms) s.
Proof.
  intros ms rank s Hok. unfold chain_ok_b in Hok. apply andb_true_iff in Hok as [Hnd Hall].
  rewrite forallb_forall in Hall.
  assert (Hone : forall n v, In (n, v) ms ->
            wordy n /\ rank n < 64 /\
            forall t, In t (tokens v) -> In t (map fst ms) -> rank t < rank n).
  { intros n v Hin. specialize (Hall (n, v) Hin). cbn [fst snd] in Hall.
    apply andb_true_iff in Hall as [Hall Htoks]. apply andb_true_iff in Hall as [Hwb Hlt].
    split; [exact (wordy_b_wordy n Hwb)|]. split; [apply Nat.ltb_lt; exact Hlt|].
    intros t Ht Hname. rewrite forallb_forall in Htoks. specialize (Htoks t Ht).
    apply orb_true_iff in Htoks as [Hno|Hr]; [|apply Nat.ltb_lt; exact Hr].
    exfalso. apply negb_true_iff in Hno.
    assert (Ex : existsb (String.eqb t) (map fst ms) = true)
      by (apply existsb_exists; exists t; split; [exact Hname | apply String.eqb_refl]).
    congruence. }
  apply (replace_all_chain ms rank s (nodup_b_NoDup _ Hnd)).
  - intros n v Hin. apply (Hone n v Hin).
  - intros n v t Hin. apply (Hone n v Hin).
  - intros n Hname. apply in_map_iff in Hname as [[n' v] [Hfst Hin]]. cbn [fst] in Hfst. subst n'.
    apply (Hone n v Hin).
Qed.
Print Assumptions replace_all_chain_b.

(** the hypotheses are satisfiable: A -> B C, B -> 1, C -> 2 (A has rank 1, the others rank 0) *)
Definition chain_example : list (string * string) := [("A", "B C"); ("B", "1"); ("C", "2")].
Definition chain_example_rank (t : string) : nat := if String.eqb t "A" then 1 else 0.

Example chain_example_ok : chain_ok_b chain_example_rank chain_example = true.
Proof. vm_compute. reflexivity. Qed.

Example chain_example_expansion :
  map (expand_tok 64 chain_example) ["A"; "B"; "C"; "D"; "+"] = ["1 2"; "1"; "2"; "D"; "+"].
Proof. vm_compute. reflexivity. Qed.

Example chain_example_all_texts : forall s,
  replace_all [("A", MObj "B C"); ("B", MObj "1"); ("C", MObj "2")] s
  = tsubst (expand_tok 64 chain_example) s.
Proof. intros s. exact (replace_all_chain_b chain_example chain_example_rank s chain_example_ok). Qed.

Example chain_example_run :
  replace_all [("A", MObj "B C"); ("B", MObj "1"); ("C", MObj "2")] "A+B;C A" = "1 2+1;2 1 2"
  /\ tsubst (expand_tok 64 chain_example) "A+B;C A" = "1 2+1;2 1 2".
Proof. split; vm_compute; reflexivity. Qed.

(** two instances that need no rank function: the definitions are listed so that every value
    mentions only macros defined EARLIER (the order of -D options: -D A=1 -D B=A), or only
    macros defined LATER (the order of #define lines, whose bodies are expanded at definition
    time with the macros defined before); at most 64 macros *)
Lemma index_of_lt : forall t l, In t l -> index_of t l < List.length l.
Proof.
  intros t l. induction l as [|x l IH]; intros Hin; [contradiction|].
  cbn [index_of List.length]. destruct (String.eqb_spec x t) as [E|E]; [lia|].
  destruct Hin as [Hin|Hin]; [congruence|]. specialize (IH Hin). lia.
Qed.

Lemma index_of_app_in : forall t l1 l2, In t l1 -> index_of t (l1 ++ l2) = index_of t l1.
Proof.
  intros t l1 l2. induction l1 as [|x l1 IH]; intros Hin; [contradiction|].
  cbn [app index_of]. destruct (String.eqb_spec x t) as [E|E]; [reflexivity|].
  destruct Hin as [Hin|Hin]; [congruence|]. rewrite (IH Hin). reflexivity.
Qed.

Lemma index_of_app_notin : forall t l1 l2, ~ In t l1 ->
  index_of t (l1 ++ l2) = List.length l1 + index_of t l2.
Proof.
  intros t l1 l2. induction l1 as [|x l1 IH]; intros Hn; [reflexivity|].
  cbn [app index_of List.length]. cbn [In] in Hn.
  destruct (String.eqb_spec x t) as [E|E]; [exfalso; auto|].
  rewrite IH; [reflexivity | auto].
Qed.

Lemma index_of_head : forall t l, index_of t (t :: l) = 0.
Proof. intros t l. cbn [index_of]. rewrite String.eqb_refl. reflexivity. Qed.

Lemma nodup_app_disjoint : forall (l1 l2 : list string) t,
  NoDup (l1 ++ l2) -> In t l1 -> ~ In t l2.
Proof.
  induction l1 as [|x l1 IH]; intros l2 t Hnd Hin; [contradiction|].
  cbn [app] in Hnd. inversion Hnd as [|y l Hnotin Hnd' Heq]; subst y l.
  destruct Hin as [<-|Hin].
  - intros H2. apply Hnotin. apply in_or_app. right. exact H2.
  - apply IH; assumption.
Qed.

Lemma names_split : forall (ms1 ms2 : list (string * string)) n v,
  map fst (ms1 ++ (n, v) :: ms2) = (map fst ms1 ++ n :: map fst ms2)%list.
Proof. intros ms1 ms2 n v. rewrite map_app. reflexivity. Qed.

Theorem replace_all_chain_earlier : forall (ms : list (string * string)) s,
  NoDup (map fst ms) -> (forall n v, In (n, v) ms -> wordy n) ->
  (forall ms1 n v ms2 t, ms = (ms1 ++ (n, v) :: ms2)%list ->
     In t (tokens v) -> In t (map fst ms) -> In t (map fst ms1)) ->
  List.length ms <= 64 ->
  replace_all (map (fun nv => (fst nv, MObj (snd nv))) ms) s = tsubst (expand_tok 64 ms) s.
Proof.
  intros ms s Hnd Hw Hearlier Hlen.
  apply (replace_all_chain ms (fun t => index_of t (map fst ms)) s Hnd Hw).
  - intros n v t Hin Ht Hname.
    destruct (in_split _ _ Hin) as (ms1 & ms2 & Hms).
    pose proof (Hearlier ms1 n v ms2 t Hms Ht Hname) as Ht1.
    rewrite Hms, names_split in *.
    assert (Hn1 : ~ In n (map fst ms1)).
    { intros H. apply (NoDup_remove_2 _ _ _ Hnd). apply in_or_app. left. exact H. }
    rewrite (index_of_app_in t _ _ Ht1), (index_of_app_notin n _ _ Hn1), index_of_head.
    pose proof (index_of_lt t _ Ht1). lia.
  - intros n Hname. pose proof (index_of_lt n _ Hname) as H. rewrite map_length in H. lia.
Qed.
Print Assumptions replace_all_chain_earlier.

Theorem replace_all_chain_later : forall (ms : list (string * string)) s,
  NoDup (map fst ms) -> (forall n v, In (n, v) ms -> wordy n) ->
  (forall ms1 n v ms2 t, ms = (ms1 ++ (n, v) :: ms2)%list ->
     In t (tokens v) -> In t (map fst ms) -> In t (map fst ms2)) ->
  List.length ms <= 64 ->
  replace_all (map (fun nv => (fst nv, MObj (snd nv))) ms) s = tsubst (expand_tok 64 ms) s.
Proof.
  intros ms s Hnd Hw Hlater Hlen.
  apply (replace_all_chain ms (fun t => List.length ms - 1 - index_of t (map fst ms)) s Hnd Hw).
  - intros n v t Hin Ht Hname.
    destruct (in_split _ _ Hin) as (ms1 & ms2 & Hms).
    pose proof (Hlater ms1 n v ms2 t Hms Ht Hname) as Ht2.
    pose proof (index_of_lt t _ Hname) as Hlt. rewrite map_length in Hlt.
    rewrite Hms in Hnd, Hname, Hlt |- *. rewrite names_split in *.
    assert (Hn1 : ~ In n (map fst ms1)).
    { intros H. apply (NoDup_remove_2 _ _ _ Hnd). apply in_or_app. left. exact H. }
    assert (Ht1 : ~ In t (map fst ms1)).
    { intros H. apply (nodup_app_disjoint _ _ t Hnd H). right. exact Ht2. }
    assert (Etn : n <> t).
    { intros E. subst t. apply (NoDup_remove_2 _ _ _ Hnd). apply in_or_app. right. exact Ht2. }
    rewrite (index_of_app_notin n _ _ Hn1), index_of_head in *.
    rewrite (index_of_app_notin t _ _ Ht1) in *.
    cbn [index_of] in *. apply String.eqb_neq in Etn. rewrite Etn in *.
    lia.
  - intros n Hname. lia.
Qed.
Print Assumptions replace_all_chain_later.

(** * Argument capture of function-like macros *)

Lemma balanced_close : forall f d r, balanced (S f) d (String ")" r) = Some (")", r).
Proof. reflexivity. Qed.

Lemma balanced_open : forall f d r,
  balanced (S f) (S d) (String "(" r) =
  match balanced f d r with
  | Some (g, r') =>
      match balanced f (S d) r' with
      | Some (b, r'') => Some (String "(" (g ++ b), r'')
      | None => None
      end
  | None => None
  end.
Proof. reflexivity. Qed.

Lemma balanced_other : forall f d a r, paren a = false ->
  balanced (S f) d (String a r) =
  match balanced f d r with
  | Some (b, r') => Some (String a b, r')
  | None => None
  end.
Proof.
  intros f d a r H. unfold paren in H. apply orb_false_iff in H as [H1 H2].
  cbn [balanced]. rewrite H1, H2. reflexivity.
Qed.

Lemma group_app : forall g s y, ("(" ++ g ++ ")" ++ s) ++ y = String "(" (g ++ ")" ++ (s ++ y)).
Proof.
  intros g s y. cbn [append]. rewrite app_assoc_s. cbn [append]. reflexivity.
Qed.

Lemma group_length : forall g s,
  String.length ("(" ++ g ++ ")" ++ s) = S (String.length g + S (String.length s)).
Proof. intros g s. cbn [append String.length]. rewrite length_app_s. reflexivity. Qed.

(** a group body nested at most [d] deep is consumed whole, up to its closing parenthesis *)
Lemma balanced_nest : forall d g, nest d g -> forall fuel rest, String.length g < fuel ->
  balanced fuel d (g ++ ")" ++ rest) = Some (g ++ ")", rest).
Proof.
  intros d g Hn. induction Hn as [d | d a s Ha Hs IH | d g s Hg IHg Hs IHs]; intros fuel rest Hf.
  - destruct fuel as [|f]; [lia|]. reflexivity.
  - destruct fuel as [|f]; [lia|]. cbn [String.length] in Hf.
    cbn [append]. rewrite (balanced_other _ _ _ _ Ha).
    change (String ")" rest) with (")" ++ rest).
    rewrite (IH f rest); [reflexivity | lia].
  - destruct fuel as [|f]; [lia|]. rewrite group_length in Hf.
    rewrite !group_app. rewrite balanced_open.
    rewrite (IHg f (s ++ ")" ++ rest)); [|lia].
    rewrite (IHs f rest); [|lia].
    rewrite app_assoc_s. reflexivity.
Qed.

Lemma capture_arg_open : forall f r,
  capture_arg (S f) (String "(" r) =
  match balanced f 3 r with
  | Some (g, r') => (String "(" (g ++ fst (capture_arg f r')), snd (capture_arg f r'))
  | None => ("", String "(" r)
  end.
Proof.
  intros f r. cbn [capture_arg]. change (Ascii.eqb "(" "(") with true. cbv iota.
  destruct (balanced f 3 r) as [[g r']|]; [|reflexivity].
  destruct (capture_arg f r') as [b r'']. reflexivity.
Qed.

Lemma capture_arg_other : forall f a r, special a = false ->
  capture_arg (S f) (String a r) = (String a (fst (capture_arg f r)), snd (capture_arg f r)).
Proof.
  intros f a r H. cbn [capture_arg]. rewrite H.
  unfold special in H. apply orb_false_iff in H as [_ H]. rewrite H.
  destruct (capture_arg f r) as [b r']. reflexivity.
Qed.

(** T9: an argument made of non-special characters and groups nested at most 3 deep inside
    (4 levels in total) is captured whole, before "," and before ")" *)
Theorem capture_arg_nested : forall a, arg_ok a -> forall fuel c rest,
  String.length a < fuel -> (c = ","%char \/ c = ")"%char) ->
  capture_arg fuel (a ++ String c rest) = (a, String c rest).
Proof.
  intros a Ha. induction Ha as [| x s Hx Hs IH | g s Hg Hs IH]; intros fuel c rest Hf Hc.
  - destruct fuel as [|f]; [lia|]. destruct Hc; subst c; reflexivity.
  - destruct fuel as [|f]; [lia|]. cbn [String.length] in Hf.
    cbn [append]. rewrite (capture_arg_other _ _ _ Hx).
    rewrite (IH f c rest); [reflexivity | lia | exact Hc].
  - destruct fuel as [|f]; [lia|]. rewrite group_length in Hf.
    rewrite group_app, capture_arg_open.
    rewrite (balanced_nest 3 g Hg f (s ++ String c rest)); [|lia].
    rewrite (IH f c rest); [|lia|exact Hc].
    cbn [fst snd]. rewrite app_assoc_s. cbn [append]. reflexivity.
Qed.
Print Assumptions capture_arg_nested.

Theorem capture_arg_nested_comma : forall a rest, arg_ok a ->
  capture_arg (S (String.length (a ++ "," ++ rest))) (a ++ "," ++ rest) = (a, "," ++ rest).
Proof.
  intros a rest Ha. apply (capture_arg_nested a Ha); [|left; reflexivity].
  rewrite length_app_s. lia.
Qed.
Print Assumptions capture_arg_nested_comma.

Theorem capture_arg_nested_close : forall a rest, arg_ok a ->
  capture_arg (S (String.length (a ++ ")" ++ rest))) (a ++ ")" ++ rest) = (a, ")" ++ rest).
Proof.
  intros a rest Ha. apply (capture_arg_nested a Ha); [|right; reflexivity].
  rewrite length_app_s. lia.
Qed.
Print Assumptions capture_arg_nested_close.

(** four levels are captured, five are not: the capture stops before the group and the call is
    then not recognised *)
Example capture_arg_depth4 :
  capture_arg 100 "f((((x)))),y)" = ("f((((x))))", ",y)").
Proof. vm_compute. reflexivity. Qed.

Example capture_arg_depth5_refuted :
  capture_arg 100 "(((((x))))),y)" = ("", "(((((x))))),y)")
  /\ capture_args 100 2 "(((((x))))),y)" = None
  /\ replace_call "F" ["a"; "b"] "$a+$b" "F((((((x))))),y)" = ("F((((((x))))),y)", false)
  /\ replace_call "F" ["a"; "b"] "$a+$b" "F(((((x)))),y)" = ("((((x))))+y", true).
Proof. vm_compute. repeat split; reflexivity. Qed.

Lemma capture_args_1 : forall fuel s,
  capture_args fuel 1 s =
  match snd (capture_arg fuel s) with
  | String c r' => if Ascii.eqb c ")" then Some ([fst (capture_arg fuel s)], r') else None
  | EmptyString => None
  end.
Proof. intros fuel s. cbn [capture_args]. destruct (capture_arg fuel s). reflexivity. Qed.

Lemma capture_args_SS : forall fuel n s,
  capture_args fuel (S (S n)) s =
  match snd (capture_arg fuel s) with
  | String c r' =>
      if Ascii.eqb c ","
      then match capture_args fuel (S n) r' with
           | Some (l, r'') => Some (fst (capture_arg fuel s) :: l, r'')
           | None => None
           end
      else None
  | EmptyString => None
  end.
Proof. intros fuel n s. cbn [capture_args]. destruct (capture_arg fuel s). reflexivity. Qed.

Lemma concat_cons2 : forall sep (a b : string) l,
  String.concat sep (a :: b :: l) = a ++ sep ++ String.concat sep (b :: l).
Proof. reflexivity. Qed.

Lemma capture_args_ok : forall args fuel rest, args <> [] -> Forall arg_ok args ->
  (forall a, In a args -> String.length a < fuel) ->
  capture_args fuel (List.length args) (String.concat "," args ++ ")" ++ rest) = Some (args, rest).
Proof.
  induction args as [|a args IH]; intros fuel rest Hne Hok Hf; [congruence|].
  inversion Hok as [|x l Ha Hok' E]; subst x l.
  destruct args as [|b args].
  - cbn [List.length String.concat]. rewrite capture_args_1.
    cbn [append]. rewrite (capture_arg_nested a Ha fuel ")" rest);
      [reflexivity | apply Hf; left; reflexivity | right; reflexivity].
  - rewrite concat_cons2. change (List.length (a :: b :: args)) with (S (S (List.length args))).
    rewrite capture_args_SS. rewrite app_assoc_s. cbn [append].
    rewrite (capture_arg_nested a Ha fuel "," _);
      [| apply Hf; left; reflexivity | left; reflexivity].
    cbn [fst snd]. change (Ascii.eqb "," ",") with true. cbv iota.
    change (S (List.length args)) with (List.length (b :: args)).
    change (String ")" rest) with (")" ++ rest).
    rewrite (IH fuel rest); [reflexivity | discriminate | exact Hok' |].
    intros x Hx. apply Hf. right. exact Hx.
Qed.

Lemma length_concat_in : forall sep (a : string) args, In a args ->
  String.length a <= String.length (String.concat sep args).
Proof.
  intros sep a args. induction args as [|x args IH]; intros Hin; [contradiction|].
  destruct args as [|y args].
  - destruct Hin as [<-|[]]. cbn [String.concat]. lia.
  - rewrite concat_cons2, !length_app_s. destruct Hin as [<-|Hin]; [lia|].
    specialize (IH Hin). lia.
Qed.

(** arguments with nested parentheses are captured by position *)
Theorem capture_args_nested : forall args rest, Forall arg_ok args -> args <> [] ->
  capture_args (S (String.length (String.concat "," args ++ ")" ++ rest))) (List.length args)
               (String.concat "," args ++ ")" ++ rest) = Some (args, rest).
Proof.
  intros args rest Hok Hne. apply capture_args_ok; [exact Hne | exact Hok |].
  intros a Ha. pose proof (length_concat_in "," a args Ha). rewrite length_app_s. lia.
Qed.
Print Assumptions capture_args_nested.

Lemma simple_arg_ok : forall a, simple_arg a -> arg_ok a.
Proof.
  unfold simple_arg. induction a as [|c a IH]; intros H; [constructor|].
  cbn [no_special] in H. apply andb_true_iff in H as [Hc Ha].
  apply negb_true_iff in Hc. constructor; auto.
Qed.

(** T8 *)
Theorem capture_args_simple : forall args rest, Forall simple_arg args -> args <> [] ->
  capture_args (S (String.length (String.concat "," args ++ ")" ++ rest))) (List.length args)
               (String.concat "," args ++ ")" ++ rest) = Some (args, rest).
Proof.
  intros args rest Hs Hne. apply capture_args_nested; [|exact Hne].
  apply Forall_forall. intros a Ha. apply simple_arg_ok.
  rewrite Forall_forall in Hs. apply Hs. exact Ha.
Qed.
Print Assumptions capture_args_simple.

(** * Template expansion *)

Lemma take_word_all : forall p, all_word p = true -> take_word p = (p, "").
Proof.
  induction p as [|a p IH]; intros H; [reflexivity|].
  cbn [all_word] in H. apply andb_true_iff in H as [Ha Hp].
  cbn [take_word]. rewrite Ha, (IH Hp). reflexivity.
Qed.

Lemma lookup_arg_nth : forall ps args p, List.length ps = List.length args -> In p ps ->
  lookup_arg p ps args = nth (index_of p ps) args "".
Proof.
  induction ps as [|q ps IH]; intros args p Hlen Hin; [contradiction|].
  destruct args as [|a args]; [discriminate|].
  cbn [lookup_arg index_of]. destruct (String.eqb_spec q p) as [E|E]; [reflexivity|].
  cbn [nth]. apply IH.
  - cbn [List.length] in Hlen. lia.
  - destruct Hin as [Hin|Hin]; [congruence | exact Hin].
Qed.

Lemma is_word_not_dollar : forall b, is_word b = true -> Ascii.eqb b "$" = false.
Proof.
  intros b Hb. destruct (Ascii.eqb_spec b "$") as [E|E]; [|reflexivity].
  subst b. vm_compute in Hb. discriminate.
Qed.

(** T10 *)
Theorem expand_template_param : forall ps args p,
  NoDup ps -> List.length ps = List.length args -> In p ps -> wordy p ->
  expand_template (S (String.length ("$" ++ p))) ("$" ++ p) ps args = nth (index_of p ps) args "".
Proof.
  intros ps args p _ Hlen Hin Hp.
  destruct (wordy_head _ Hp) as (b & p' & -> & Hb & Hp').
  assert (Hall : all_word (String b p') = true) by apply Hp.
  cbn [append String.length expand_template].
  rewrite Ascii.eqb_refl, (is_word_not_dollar b Hb), (take_word_all _ Hall).
  cbn [String.eqb]. rewrite app_nil_r_s.
  apply lookup_arg_nth; assumption.
Qed.
Print Assumptions expand_template_param.

(** * The whole preprocessor on small inputs *)

(** T12: a body that uses earlier macros is expanded completely (at definition time) *)
Example body_uses_earlier_macro :
  cpp_output (run_cpp [] "m.c" [] ["#define A 1" ++ nl; "#define B (A+A)" ++ nl; "B" ++ nl])
  = Some ("(1+1)" ++ nl).
Proof. vm_compute. reflexivity. Qed.

(** T11: a parameter named like an earlier object-like macro is lost: the body is
    macro-expanded BEFORE the parameters are turned into template variables *)
Example param_shadow_refuted :
  cpp_output (run_cpp [] "m.c" [] ["#define x 5" ++ nl; "#define F(x) x+1" ++ nl; "F(3)" ++ nl])
  = Some ("5+1" ++ nl).
Proof. vm_compute. reflexivity. Qed.

(** positional substitution with nested parentheses, through the whole pipeline *)
Example function_macro_nested_args :
  cpp_output (run_cpp [] "m.c" []
    ["#define SUB(a,b) ((a)-(b))" ++ nl; "y = SUB(f(1,(2)),g((x)));" ++ nl])
  = Some ("y = ((f(1,(2)))-(g((x))));" ++ nl).
Proof. vm_compute. reflexivity. Qed.

(** #undef removes the macro, and only it *)
Example undef_through_pipeline :
  cpp_output (run_cpp [] "m.c" []
    ["#define A 1" ++ nl; "#define AB 2" ++ nl; "#undef A" ++ nl; "A AB A_ _A" ++ nl])
  = Some ("A 2 A_ _A" ++ nl).
Proof. vm_compute. reflexivity. Qed.

(** * A whole call of a function-like macro *)

(** [skip_blanks b = ""]: [b] is made of blanks and TABs only *)
Lemma skip_blanks_app : forall b s, skip_blanks b = "" -> skip_blanks (b ++ s) = skip_blanks s.
Proof.
  induction b as [|a b IH]; intros s H; [reflexivity|].
  cbn [skip_blanks] in H. cbn [append skip_blanks].
  destruct (is_blank_or_tab a); [exact (IH s H)|discriminate].
Qed.

Lemma skip_blanks_paren : forall b c s,
  skip_blanks b = "" -> is_blank_or_tab c = false -> skip_blanks (b ++ String c s) = String c s.
Proof.
  intros b c s Hb Hc. rewrite (skip_blanks_app b _ Hb). cbn [skip_blanks]. rewrite Hc. reflexivity.
Qed.

(** a hit of the call pattern: the name at a word boundary, blanks and TABs, the parenthesis,
    the arguments *)
Lemma rca_hit_blanks : forall f name ps tmpl prev s b s' args rest,
  s = name ++ b ++ "(" ++ s' ->
  boundary_before prev = true -> name <> "" -> skip_blanks b = "" ->
  capture_args (String.length s) (List.length ps) s' = Some (args, rest) ->
  replace_call_aux (S f) name ps tmpl prev s =
  (expand_template (S (String.length tmpl)) tmpl ps args
     ++ fst (replace_call_aux f name ps tmpl (Some ")"%char) rest), true).
Proof.
  intros f name ps tmpl prev s b s' args rest Hs Hb Hname Hbl Hcap.
  assert (Hst : starts_with name s = true) by (rewrite Hs; apply starts_with_app).
  assert (Hdrop : skip_blanks (string_drop (String.length name) s) = String "(" s').
  { rewrite Hs, string_drop_app. apply (skip_blanks_paren b "(" s' Hbl). reflexivity. }
  destruct s as [|a r]; [destruct name; [congruence|discriminate]|].
  cbn [replace_call_aux]. rewrite Hb, Hst, Hdrop.
  destruct name as [|n0 n']; [congruence|].
  cbn [String.length Nat.eqb negb andb]. change (Ascii.eqb "(" "(") with true. cbv iota.
  cbn [String.length] in Hcap. rewrite Hcap.
  destruct (replace_call_aux f _ ps tmpl _ rest) as [t c]. reflexivity.
Qed.

Lemma rca_hit : forall f name ps tmpl prev s args rest,
  s <> "" -> boundary_before prev = true -> starts_with (name ++ "(") s = true ->
  name <> "" ->
  capture_args (String.length s) (List.length ps) (string_drop (S (String.length name)) s)
    = Some (args, rest) ->
  replace_call_aux (S f) name ps tmpl prev s =
  (expand_template (S (String.length tmpl)) tmpl ps args
     ++ fst (replace_call_aux f name ps tmpl (Some ")"%char) rest), true).
Proof.
  intros f name ps tmpl prev s args rest Hs Hb Hst Hname Hcap.
  apply (rca_hit_blanks f name ps tmpl prev s "" (string_drop (S (String.length name)) s));
    try assumption; [|reflexivity].
  clear Hcap Hb. revert s Hs Hst. induction name as [|n0 n' IH]; intros s Hs Hst; [congruence|].
  destruct s as [|c s]; [discriminate|]. cbn [append starts_with] in Hst.
  apply andb_true_iff in Hst. destruct Hst as [H1 H2]. apply Ascii.eqb_eq in H1. subst c.
  cbn [append String.length string_drop]. f_equal.
  destruct n' as [|n1 n''].
  - cbn [append starts_with] in H2. destruct s as [|d s]; [discriminate|].
    apply andb_true_iff in H2. destruct H2 as [H2 _]. apply Ascii.eqb_eq in H2. subst d.
    reflexivity.
  - apply IH; [discriminate| |exact H2]. destruct s; [discriminate|discriminate].
Qed.

Lemma rca_nil : forall f name ps tmpl prev, replace_call_aux f name ps tmpl prev "" = ("", false).
Proof. intros [|f]; reflexivity. Qed.

(** the call [name(a1,...,an)] with acceptable arguments is replaced by the template with the
    arguments substituted by position *)
Theorem replace_call_whole : forall name ps tmpl args,
  wordy name -> Forall arg_ok args -> args <> [] -> List.length ps = List.length args ->
  replace_call name ps tmpl (name ++ "(" ++ String.concat "," args ++ ")") =
  (expand_template (S (String.length tmpl)) tmpl ps args, true).
Proof.
  intros name ps tmpl args [Hne _] Hok Hargs Hlen. unfold replace_call.
  assert (Es : name ++ "(" ++ String.concat "," args ++ ")"
               = (name ++ "(") ++ String.concat "," args ++ ")" ++ "")
    by (rewrite app_assoc_s; reflexivity).
  rewrite (rca_hit _ name ps tmpl None _ args "").
  - rewrite rca_nil. cbn [fst]. rewrite app_nil_r_s. reflexivity.
  - destruct name; [congruence | discriminate].
  - reflexivity.
  - rewrite Es. apply starts_with_app.
  - exact Hne.
  - rewrite Hlen. rewrite Es at 2.
    replace (S (String.length name)) with (String.length (name ++ "("))
      by (rewrite length_app_s; cbn [String.length]; lia).
    rewrite string_drop_app.
    apply capture_args_ok; [exact Hargs | exact Hok |].
    intros a Ha. pose proof (length_concat_in "," a args Ha).
    rewrite !length_app_s. cbn [String.length]. lia.
Qed.
Print Assumptions replace_call_whole.

(** a call is not recognised inside a longer identifier; blanks between the name and the
    parenthesis do not matter (the repaired defect: "F (5)" used to be left as it is) *)
Example replace_call_inside_identifier :
  replace_call "F" ["a"] "[$a]" "xF(1) F(2) F_(3) GF(4) F (5)" = ("xF(1) [2] F_(3) GF(4) [5]", true).
Proof. vm_compute. reflexivity. Qed.

(** * Blanks between the macro name and the parenthesis of a call *)

(** the call [name blanks (a1,...,an)] is replaced like [name(a1,...,an)] *)
Theorem replace_call_blank_before_paren : forall name ps tmpl args b,
  wordy name -> Forall arg_ok args -> args <> [] -> List.length ps = List.length args ->
  skip_blanks b = "" ->
  replace_call name ps tmpl (name ++ b ++ "(" ++ String.concat "," args ++ ")")
  = replace_call name ps tmpl (name ++ "(" ++ String.concat "," args ++ ")").
Proof.
  intros name ps tmpl args b Hw Hok Hargs Hlen Hb.
  rewrite (replace_call_whole name ps tmpl args Hw Hok Hargs Hlen).
  destruct Hw as [Hne _]. unfold replace_call.
  rewrite (rca_hit_blanks _ name ps tmpl None _ b (String.concat "," args ++ ")" ++ "") args "").
  - rewrite rca_nil. cbn [fst]. rewrite app_nil_r_s. reflexivity.
  - rewrite app_nil_r_s. reflexivity.
  - reflexivity.
  - exact Hne.
  - exact Hb.
  - rewrite Hlen. apply capture_args_ok; [exact Hargs | exact Hok |].
    intros a Ha. pose proof (length_concat_in "," a args Ha).
    rewrite !length_app_s. cbn [String.length]. lia.
Qed.
Print Assumptions replace_call_blank_before_paren.

Corollary replace_call_blank_before_paren_value : forall name ps tmpl args b,
  wordy name -> Forall arg_ok args -> args <> [] -> List.length ps = List.length args ->
  skip_blanks b = "" ->
  replace_call name ps tmpl (name ++ b ++ "(" ++ String.concat "," args ++ ")")
  = (expand_template (S (String.length tmpl)) tmpl ps args, true).
Proof.
  intros name ps tmpl args b Hw Hok Hargs Hlen Hb.
  rewrite (replace_call_blank_before_paren name ps tmpl args b Hw Hok Hargs Hlen Hb).
  apply replace_call_whole; assumption.
Qed.
Print Assumptions replace_call_blank_before_paren_value.

(** a macro without parameters: blanks before the parenthesis and between the parentheses *)
Lemma capture_args_0 : forall fuel b rest,
  skip_blanks b = "" -> capture_args fuel 0 (b ++ ")" ++ rest) = Some ([], rest).
Proof.
  intros fuel b rest Hb. cbn [capture_args].
  change (b ++ ")" ++ rest) with (b ++ String ")" rest).
  rewrite (skip_blanks_paren b ")" rest Hb eq_refl). reflexivity.
Qed.

Theorem replace_call_zero_param_blank : forall name tmpl b1 b2,
  wordy name -> skip_blanks b1 = "" -> skip_blanks b2 = "" ->
  replace_call name [] tmpl (name ++ b1 ++ "(" ++ b2 ++ ")")
  = (expand_template (S (String.length tmpl)) tmpl [] [], true).
Proof.
  intros name tmpl b1 b2 [Hne _] H1 H2. unfold replace_call.
  rewrite (rca_hit_blanks _ name [] tmpl None _ b1 (b2 ++ ")" ++ "") [] "").
  - rewrite rca_nil. cbn [fst]. rewrite app_nil_r_s. reflexivity.
  - reflexivity.
  - reflexivity.
  - exact Hne.
  - exact H1.
  - apply capture_args_0. exact H2.
Qed.
Print Assumptions replace_call_zero_param_blank.

(** through the whole pipeline.  BL = one blank, TB = one TAB *)
Example blank_before_paren_example :
  let TB := String (ascii_of_nat 9) "" in
  cpp_output (run_cpp [] "m.c" [] ["#define add(a,b) a+b" ++ nl; "x = add (1,2);" ++ nl]) = Some ("x = 1+2;" ++ nl)
  /\ cpp_output (run_cpp [] "m.c" [] ["#define add(a,b) a+b" ++ nl; "x = add" ++ TB ++ "(1,2);" ++ nl]) = Some ("x = 1+2;" ++ nl)
  /\ cpp_output (run_cpp [] "m.c" [] ["#define add(a,b) a+b" ++ nl; "x = add " ++ TB ++ " (1,2);" ++ nl]) = Some ("x = 1+2;" ++ nl)
  /\ cpp_output (run_cpp [] "m.c" [] ["#define add(a,b) a+b" ++ nl; "x = add(1,2);" ++ nl]) = Some ("x = 1+2;" ++ nl).
Proof. vm_compute. repeat split; reflexivity. Qed.

Example zero_param_blank_example :
  let TB := String (ascii_of_nat 9) "" in
  cpp_output (run_cpp [] "m.c" [] ["#define f() 7" ++ nl; "x = f( );" ++ nl]) = Some ("x = 7;" ++ nl)
  /\ cpp_output (run_cpp [] "m.c" [] ["#define f() 7" ++ nl; "x = f ( );" ++ nl]) = Some ("x = 7;" ++ nl)
  /\ cpp_output (run_cpp [] "m.c" [] ["#define f() 7" ++ nl; "x = f();" ++ nl]) = Some ("x = 7;" ++ nl)
  /\ cpp_output (run_cpp [] "m.c" [] ["#define f() 7" ++ nl; "x = f" ++ TB ++ "(" ++ TB ++ " );" ++ nl]) = Some ("x = 7;" ++ nl).
Proof. vm_compute. repeat split; reflexivity. Qed.

(** what does NOT change: an object-like macro whose value starts with a parenthesis (on the
    #define line a blank after the name makes the macro object-like) is replaced as a word and
    what follows it is left alone; the name of a function-like macro that is not followed by a
    parenthesis stays as it is; only blanks and TABs may separate the name from the parenthesis
    (not a newline, not a comment remnant), and a macro with parameters still needs its
    arguments *)
Example blank_before_paren_negative :
  cpp_output (run_cpp [] "m.c" [] ["#define A (x)" ++ nl; "A (1)" ++ nl]) = Some ("(x) (1)" ++ nl)
  /\ cpp_output (run_cpp [] "m.c" [] ["#define add(a,b) a+b" ++ nl; "y = add + 1;" ++ nl]) = Some ("y = add + 1;" ++ nl)
  /\ cpp_output (run_cpp [] "m.c" [] ["#define add(a,b) a+b" ++ nl; "y = add  ;" ++ nl]) = Some ("y = add  ;" ++ nl)
  /\ replace_call "add" ["a"; "b"] "$a+$b" ("add" ++ nl ++ "(1,2)") = ("add" ++ nl ++ "(1,2)", false)
  /\ replace_call "add" ["a"; "b"] "$a+$b" "xadd (1,2) add_ (1,2)" = ("xadd (1,2) add_ (1,2)", false)
  /\ replace_call "f" [] "7" "f(1) f(,)" = ("f(1) f(,)", false).
Proof. vm_compute. repeat split; reflexivity. Qed.

(** * Why the hypotheses of T5/T6 are there *)

(** a value that mentions its own name is substituted again in each of the 64 rounds *)
Example replace_all_self_reference :
  subst_tokens "A" "A+1" "A" = "A+1" /\
  replace_all [("A", MObj "A+1")] "A" <> subst_tokens "A" "A+1" "A".
Proof. split; [vm_compute; reflexivity | vm_compute; discriminate]. Qed.

(** a value that mentions ANOTHER macro is outside T5/T6 (the result is not ONE simultaneous
    substitution), but the match set of every round is computed on the text at the beginning of
    that round, so the name brought in is expanded in a later round ([replace_all_chain]) *)
Example replace_all_dependent_values :
  replace_all [("A", MObj "B"); ("B", MObj "C")] "A" = "C" /\
  replace_all [("A", MObj "B"); ("B", MObj "C")] "A B" = "C C" /\
  tsubst (subst_many [("A", "B"); ("B", "C")]) "A B" = "B C".
Proof. repeat split; vm_compute; reflexivity. Qed.

(** the same through the pipeline: a macro defined AFTER the one that mentions it (bodies are
    expanded at definition time only with the macros defined before) is expanded when the line
    is rescanned, whether or not its name occurs in the line *)
Example later_macro_rescan :
  cpp_output (run_cpp [] "m.c" [] ["#define A B" ++ nl; "#define B 7" ++ nl; "A" ++ nl])
    = Some ("7" ++ nl) /\
  cpp_output (run_cpp [] "m.c" [] ["#define A B" ++ nl; "#define B 7" ++ nl; "A B" ++ nl])
    = Some ("7 7" ++ nl).
Proof. split; vm_compute; reflexivity. Qed.

(** * The capped driver [replace_all_c] (what the line processor really calls)

    [replace_rounds_c] abandons the rounds as soon as a round has produced a text longer than
    64 KiB.  It agrees with [replace_rounds] -- the function every theorem above is about --
    whenever no round that would be followed by another one leaves the cap. *)

(** every text after which the uncapped driver goes on to another round is within the cap
    (defined by the recursion of [replace_rounds]) *)
Fixpoint rounds_within_cap (n : nat) (ms : list macro) (orig res : string) : Prop :=
  match n with
  | O => True
  | S k =>
      let '(res', c) := apply_all ms orig res false in
      if c then within_cap res' = true /\ rounds_within_cap k ms res' res' else True
  end.

(** the same as a boolean, for [vm_compute] on concrete tables ([if], not [&&]: [vm_compute] is
    call-by-value and must not run the rounds beyond the cap) *)
Fixpoint rounds_within_capb (n : nat) (ms : list macro) (orig res : string) : bool :=
  match n with
  | O => true
  | S k =>
      let '(res', c) := apply_all ms orig res false in
      if c then (if within_cap res' then rounds_within_capb k ms res' res' else false) else true
  end.

Lemma rounds_within_capb_spec : forall n ms orig res,
  rounds_within_capb n ms orig res = true -> rounds_within_cap n ms orig res.
Proof.
  induction n as [|k IH]; intros ms orig res Hb; cbn [rounds_within_capb rounds_within_cap] in *;
    [exact I|].
  destruct (apply_all ms orig res false) as [res' c]. destruct c; [|exact I].
  destruct (within_cap res'); [|discriminate Hb].
  split; [reflexivity | apply IH; exact Hb].
Qed.

Lemma replace_rounds_c_S : forall k ms orig res,
  replace_rounds_c (S k) ms orig res =
  if snd (apply_all ms orig res false)
  then (if within_cap (fst (apply_all ms orig res false))
        then replace_rounds_c k ms (fst (apply_all ms orig res false)) (fst (apply_all ms orig res false))
        else fst (apply_all ms orig res false))
  else fst (apply_all ms orig res false).
Proof.
  intros k ms orig res. cbn [replace_rounds_c].
  destruct (apply_all ms orig res false) as [res' c]. reflexivity.
Qed.

(** the bridge *)
Theorem replace_rounds_c_small : forall n ms orig res,
  rounds_within_cap n ms orig res ->
  replace_rounds_c n ms orig res = replace_rounds n ms orig res.
Proof.
  induction n as [|k IH]; intros ms orig res Hcap; [reflexivity|].
  cbn [rounds_within_cap replace_rounds_c replace_rounds] in *.
  destruct (apply_all ms orig res false) as [res' c]. destruct c; [|reflexivity].
  destruct Hcap as [Hcap Hrest]. rewrite Hcap. apply IH. exact Hrest.
Qed.
Print Assumptions replace_rounds_c_small.

Theorem replace_all_c_small : forall ms s,
  rounds_within_cap 64 ms s s -> replace_all_c ms s = replace_all ms s.
Proof. intros ms s Hcap. unfold replace_all_c, replace_all. apply replace_rounds_c_small. exact Hcap. Qed.
Print Assumptions replace_all_c_small.

(** ** sufficient conditions that need no length computation: the cap can only cut the rounds
    short after a round whose result would have been rewritten again; when a round ends on a text
    that no macro matches, both drivers stop there, whatever its length *)

Lemma apply_all_no_match : forall ms orig res c,
  (forall m, In m ms -> macro_matches m orig = false) ->
  apply_all ms orig res c = (res, c).
Proof.
  induction ms as [|m r IH]; intros orig res c Hno; [reflexivity|].
  rewrite apply_all_cons, (Hno m (or_introl eq_refl)).
  apply IH. intros m' Hin. apply Hno. right. exact Hin.
Qed.

Lemma replace_rounds_c_no_match : forall k ms s,
  (forall m, In m ms -> macro_matches m s = false) -> replace_rounds_c k ms s s = s.
Proof.
  intros [|k] ms s Hno; [reflexivity|].
  rewrite replace_rounds_c_S, (apply_all_no_match ms s s false Hno). reflexivity.
Qed.

Lemma replace_rounds_no_match : forall k ms s,
  (forall m, In m ms -> macro_matches m s = false) -> replace_rounds k ms s s = s.
Proof.
  intros [|k] ms s Hno; [reflexivity|].
  rewrite replace_rounds_S, (apply_all_no_match ms s s false Hno). reflexivity.
Qed.

(** no macro matches the text: nothing happens *)
Theorem replace_all_c_no_change : forall ms s,
  (forall m, In m ms -> macro_matches m s = false) -> replace_all_c ms s = s.
Proof. intros ms s Hno. apply replace_rounds_c_no_match. exact Hno. Qed.
Print Assumptions replace_all_c_no_change.

(** the first round ends on a text [r] that no macro matches: the result is [r], and it is also
    the result of the uncapped driver -- NO hypothesis on the length of [r] is needed *)
Theorem replace_all_c_one_round : forall ms s r,
  fst (apply_all ms s s false) = r ->
  (forall m, In m ms -> macro_matches m r = false) ->
  replace_all_c ms s = r /\ replace_all ms s = r.
Proof.
  intros ms s r Hr Hno. unfold replace_all_c, replace_all.
  rewrite (replace_rounds_c_S 63), (replace_rounds_S 63), Hr.
  rewrite (replace_rounds_c_no_match 63 ms r Hno), (replace_rounds_no_match 63 ms r Hno).
  split.
  - destruct (snd (apply_all ms s s false)); [destruct (within_cap r)|]; reflexivity.
  - destruct (snd (apply_all ms s s false)); reflexivity.
Qed.
Print Assumptions replace_all_c_one_round.

(** object-like macros with closed values (T6): one round, so the cap never matters *)
Lemma replace_all_c_obj : forall ms s, names_wordy ms -> values_closed ms ->
  replace_all_c (map mk_obj ms) s = tsubst (subst_many ms) s.
Proof.
  intros ms s Hw Hc.
  pose proof (apply_all_fst ms [] s false Hw Hc) as H1.
  change (tsubst (subst_many []) s) with (tsubst (fun t => t) s) in H1.
  rewrite tsubst_id in H1. cbn [app] in H1.
  apply (replace_all_c_one_round (map mk_obj ms) s _ H1).
  intros m Hin. apply in_map_iff in Hin. destruct Hin as [nv [<- Hin]].
  rewrite macro_matches_obj.
  - apply subst_many_closed; assumption.
  - destruct nv as [n v]. exact (Hw n v Hin).
Qed.

Theorem replace_all_c_independent : forall (ms : list (string * string)) s,
  NoDup (map fst ms) -> (forall n v, In (n, v) ms -> wordy n) ->
  (forall n v m, In (n, v) ms -> In m (map fst ms) -> existsb (String.eqb m) (tokens v) = false) ->
  replace_all_c (map (fun nv => (fst nv, MObj (snd nv))) ms) s =
  String.concat "" (map (fun t => match find (fun nv => String.eqb (fst nv) t) ms with
                                  | Some nv => snd nv | None => t end) (tokens s)).
Proof.
  intros ms s _ Hw Hc. exact (replace_all_c_obj ms s Hw Hc).
Qed.
Print Assumptions replace_all_c_independent.

Theorem replace_all_c_single : forall name value s, wordy name ->
  existsb (String.eqb name) (tokens value) = false ->
  replace_all_c [(name, MObj value)] s = subst_tokens name value s.
Proof.
  intros name value s Hn Hv.
  rewrite <- (replace_all_single name value s Hn Hv).
  change [(name, MObj value)] with (map mk_obj [(name, value)]).
  rewrite replace_all_c_obj, replace_all_obj; [reflexivity| | | |].
  - intros n v [E|[]]. inversion E; subst. exact Hn.
  - intros n v m [E|[]] [Em|[]]. inversion E; subst. cbn [fst]. exact Hv.
  - intros n v [E|[]]. inversion E; subst. exact Hn.
  - intros n v m [E|[]] [Em|[]]. inversion E; subst. cbn [fst]. exact Hv.
Qed.
Print Assumptions replace_all_c_single.

(** chains of object-like macros: several rounds, so the intermediate texts must fit *)
Theorem replace_all_c_chain : forall (ms : list (string * string)) (rank : string -> nat) s,
  NoDup (map fst ms) -> (forall n v, In (n, v) ms -> wordy n) ->
  (forall n v t, In (n, v) ms -> In t (tokens v) -> In t (map fst ms) -> rank t < rank n) ->
  (forall n, In n (map fst ms) -> rank n < 64) ->
  rounds_within_cap 64 (map (fun nv => (fst nv, MObj (snd nv))) ms) s s ->
  replace_all_c (map (fun nv => (fst nv, MObj (snd nv))) ms) s = tsubst (expand_tok 64 ms) s.
Proof.
  intros ms rank s Hnd Hw Hrank Hb Hcap.
  rewrite (replace_all_c_small _ s Hcap). exact (replace_all_chain ms rank s Hnd Hw Hrank Hb).
Qed.
Print Assumptions replace_all_c_chain.

(** ** the guard really bites: a macro whose value mentions its own name twice doubles the text
    at every round (2^(k+1)-1 characters after round k).  Round 15 leaves 65535 characters, still
    within the cap; round 16 leaves 131071 and the capped driver stops there, where the uncapped
    one would go on for 48 more rounds (2^65-1 characters). *)
Definition doubling : list macro := [("A", MObj "A A")].

Example replace_all_c_cap_bites :
  N.of_nat (String.length (replace_all_c doubling "A")) = 131071%N /\
  within_cap (replace_all_c doubling "A") = false /\
  replace_all_c doubling "A" = replace_rounds_c 17 doubling "A" "A" /\
  replace_all_c doubling "A" = replace_rounds 16 doubling "A" "A" /\
  N.of_nat (String.length (replace_rounds 15 doubling "A" "A")) = 65535%N /\
  N.of_nat (String.length (replace_rounds 17 doubling "A" "A")) = 262143%N.
Proof.
  split; [vm_compute; reflexivity|].
  split; [vm_compute; reflexivity|].
  split; [apply String.eqb_eq; vm_compute; reflexivity|].
  split; [apply String.eqb_eq; vm_compute; reflexivity|].
  split; vm_compute; reflexivity.
Qed.

(** so here [rounds_within_cap] fails and the two drivers differ after the same number of rounds *)
Example replace_all_c_cap_differs :
  rounds_within_capb 64 doubling "A" "A" = false /\
  replace_rounds_c 17 doubling "A" "A" <> replace_rounds 17 doubling "A" "A".
Proof.
  split; [vm_compute; reflexivity|].
  assert (Hlen : N.of_nat (String.length (replace_rounds_c 17 doubling "A" "A")) <>
                 N.of_nat (String.length (replace_rounds 17 doubling "A" "A")))
    by (vm_compute; discriminate).
  intros H. apply Hlen. rewrite H. reflexivity.
Qed.
