"""C02 — optimisation never changes observable behaviour.

proof   : Props/C02.v (structure: total, rewrites-only, nothing but unprotected instructions
          removed, non-instructions fixed) and Props/C02sem.v (semantics: knowledge transfer sound,
          every rewrite rule sound on the 6502 semantics) — when present
corr-M  : AssemblyCode::optimize vs the extracted model: unit line lists (rule baits) and
          end-to-end (model(optimize)(generated code at -O0 stage) = the compiler's -O1 code)
corr-S  : -O0 vs -O1/-O2/-O3 co-executed on the extracted 6502 semantics from the same states
"""
from lib.common import *
from lib.asmcorr import *
from lib.gen_c import gen_program
from lib.pipeline import *

LEVEL = 'proof'
THEOREMS = ['C02_optimize_total', 'C02_optimize_length', 'C02_noninstr_fixed', 'C02_instrs_subset',
            'C02_rewrites_only', 'C02_count']
SEM_THEOREMS_FILE = os.path.join(COQ, 'Props', 'C02sem.v')


def sem_theorems():
    if not os.path.exists(SEM_THEOREMS_FILE):
        return []
    import re
    return re.findall(r'^Theorem (\w+)', open(SEM_THEOREMS_FILE).read(), re.M)


def run(ctx):
    quick = ctx.tier == 'quick'
    rng = ctx.rng
    ctx.proof_stage('Props.C02', THEOREMS)
    st = sem_theorems()
    if st:
        ctx.proof_stage('Props.C02sem', st)
    # ---------------- corr-M (unit)
    n_unit = 6000 if quick else 150000
    cases = []
    corpus = os.path.join(CORPUS, 'C02_units.json')
    if os.path.exists(corpus):
        for k, c in enumerate(json.load(open(corpus))):
            cases.append(('corpus%d' % k, 'opt', [tuple(x) for x in c]))
    for i in range(n_unit):
        cases.append(('u%d' % i, 'opt', gen_opt_list(rng, maxlen=rng.choice([8, 24, 60]))))
    mism_all = []
    removed_hist = {}
    nontriv = set()
    for lo in range(0, len(cases), 20000):
        chunk = cases[lo:lo + 20000]
        n, mism, impl, model = compare_units(chunk)
        mism_all += mism
        for (cid, op, ls), ri in zip(chunk, impl):
            s_, ret, size, lines = canon_impl(ri)
            removed_hist[ret] = removed_hist.get(ret, 0) + 1
            if ret not in ('0', '-'):
                nontriv.add(hash(json.dumps(ls)))
    ctx.cov['evaluations'] += len(cases)
    ctx.cov['distinct_nontrivial'] += len(nontriv)
    ctx.cov['correspondence']['corr-M optimize (unit)'] = {'cases': len(cases), 'mismatches': len(mism_all),
                                                            'removed_instructions_histogram': dict(sorted(removed_hist.items(), key=lambda kv: -kv[1])[:12])}
    ctx.sample({'unit_input': cases[-1][2][:10]})
    # ---------------- programs: end-to-end corr-M and co-execution
    n_prog = 500 if quick else 12000
    progs = {}
    for i in range(n_prog):
        progs['p%d' % i] = gen_program(rng, dict(hw=(i % 3 == 0), bait=(i % 2 == 0), inline=(i % 5 == 0)))
    # fixed bait programs (witnesses of repaired defects: must stay repaired)
    baits = {
        'bait_rol': 'short s; char c; void main() { X = s >> 8; s <<= 1; X = s >> 8; }',
        'bait_ror': 'signed char a; char c, d; void main() { X = a >> 1; c = a; d = 1; }',
        'bait_alias': 'char a[4]; void main() { Y = a[X]; a[1]++; Y = a[X]; }',
        'bait_flags': 'char a, j; void main() { load(a); X++; if (a) j = 1; }',
        'bait_flags2': 'char a, j; void main() { load(a); a++; if (a) j = 1; }',
    }
    srcs = {k: p.source() for k, p in progs.items()}
    srcs.update(baits)
    # the fixed enumeration of the bait families (tools/lib/gen_c.py): the same programs every run
    from lib.gen_c import directed_programs
    srcs.update({k: p.source() for k, p in directed_programs().items()})
    variants = {'O0': ['-O0'], 'O1': ['-O1']}
    if not quick:
        variants.update({'O2': ['-O2'], 'O3': ['-O3']})
    viol = []
    e2e_mism = []
    accepted = 0
    ndiff = 0
    nexec = 0
    for lo in range(0, len(srcs), 3000):
        keys = list(srcs.keys())[lo:lo + 3000]
        comp = compile_variants({k: srcs[k] for k in keys}, variants)
        ok = {}
        for pid, vs in comp.items():
            sts = set(r['status'] for r in vs.values())
            if sts == {'ok'}:
                ok[pid] = vs
            elif 'ok' in sts:
                viol.append({'why': 'acceptance depends on the optimisation level', 'source': srcs[pid],
                             'status': {vn: (r['status'], r.get('err')) for vn, r in vs.items()}})
            for vn, r in vs.items():
                if r['status'] in ('panic', 'hang'):
                    pass   # C16's business
        accepted += len(ok)
        # end-to-end corr-M: model(gen) == opt ; model_cb(opt) == final
        e2e_cases = []
        e2e_expect = []
        for pid, vs in ok.items():
            for f in vs['O1'].get('funcs', []):
                if f.get('gen') is None or f.get('opt') is None:
                    continue
                e2e_cases.append(('%s/%s' % (pid, f['name']), 'optcb', norm_lines(f['gen'])))
                e2e_expect.append(('%d,%d' % (f['nopt'], f['nfix']), norm_lines(f['final'])))
        if e2e_cases:
            text = ''.join(unit_job(i, op, ls) for (i, op, ls) in e2e_cases)
            model = run_model(text)
            for (cid, op, ls), (ret, final), rm in zip(e2e_cases, e2e_expect, model):
                m = canon_model(rm)
                if (m[1], m[3]) != (ret, final):
                    e2e_mism.append({'id': cid, 'gen': ls, 'impl': (ret, final), 'model': (m[0], m[1], m[3])})
            ctx.cov['evaluations'] += len(e2e_cases)
        # co-execution
        ns = 16 if quick else 48
        ce = coexec(ok, ns, rng)
        for pid, m in ce.items():
            base = m['runs']['O0']
            for vn in variants:
                if vn == 'O0':
                    continue
                for k in range(ns):
                    a, b = base.get(k), m['runs'][vn].get(k)
                    if a is None or b is None:
                        raise HarnessError('missing co-execution result')
                    nexec += 1
                    if observable(a) != observable(b):
                        ndiff += 1
                        viol.append({'why': '-O0 and %s end in different states' % vn, 'source': srcs[pid],
                                     'initial': describe_state(m['layout'], m['states'][k], m['watch']),
                                     'O0': describe_run(m['layout'], a, m['watch']),
                                     vn: describe_run(m['layout'], b, m['watch'])})
                        break
    ctx.cov['programs'] = len(srcs)
    ctx.cov['correspondence']['corr-M optimize (end-to-end)'] = {'functions': ctx.cov['evaluations'] - len(cases), 'mismatches': len(e2e_mism)}
    ctx.cov['correspondence']['corr-S co-execution'] = {'programs_accepted': accepted, 'programs_generated': len(srcs),
                                                         'executions_compared': nexec, 'different': ndiff,
                                                         'levels': sorted(variants.keys())}
    ctx.cov['traces_validated_against_impl'] = nexec
    ctx.sample({'program': list(srcs.values())[0][:600]})
    # ---------------- verdict
    for v in viol[:3]:
        ctx.violation('coexec', v)
    mm = mism_all + e2e_mism
    if mism_all and not viol:
        # failure search: a state on which the implementation's output behaves differently from its input
        found = semantic_search(mism_all, rng)
        ctx.cov['correspondence']['failure search (unit mismatches co-executed)'] = {'searched': min(len(mism_all), 300), 'behaviour_changed': len(found)}
        for v in found[:3]:
            ctx.violation('unit', v)
        viol += found
    if mm and not viol:
        ctx.violation_noinput('correspondence Model/Optimize.v vs AssemblyCode::optimize broke on %d inputs; first: %s'
                              % (len(mm), json.dumps(mm[0])[:3000]), 'corr-M:optimize')
    ctx.cov['rule'] = ('unit: random line lists over the generator\'s vocabulary biased to the windows the rules match; '
                       'programs: seeded generator (tools/lib/gen_c.py) with optimiser baits, compiled at every level; '
                       'non-trivial unit case = the optimiser removed at least one instruction; distinct = distinct list')
    ctx.cov['trusted_base'] = ['Coq 8.16.1 kernel (coqc), vm_compute', 'extraction of Model/Optimize.v, Model/CheckBranches.v, M6502/Sem.v',
                               'harness ccv (generation loop copied from src/tests/build.rs, Debug-dump parser)',
                               'M6502/Isa.v, M6502/Sem.v as a transcription of the 6502 datasheet', 'layout used for co-execution (tools/lib/coexec.py)']
    ctx.assumptions = ['structural theorems are proved for all line lists; the global semantic simulation is proved for STRAIGHT-LINE code '
                       '(C02_optimize_straight_sound / _run: no labels, branches, calls or stack operations; operands immediate, symbol, symbol+k, indexed '
                       'with an absolute ,Y base; the executions of the original and the optimised list end in equal states, N and Z included); '
                       'across labels, branches and calls the theorems are per-instruction and per-rule (C02sem) and behaviour is co-executed',
                       'inline assembly has no modelled meaning beyond "nop"; that it is a barrier is C02_noninstr_fixed + the exact correspondence']
