(** C14 — inlining is transparent: the structural half (see tools/props/c14.py for what is
    co-executed).  Statements only. *)
From Coq Require Import String Ascii List Bool NArith ZArith.
From CC Require Import Base.Str Asm.Lines Model.Optimize Model.OptSpec Model.InlineRename Proofs.OptFacts.
Import ListNotations.

(** the optimiser never moves or changes a label (so an inlined block keeps its entry/exit labels) *)
Theorem C14_optimize_noninstr_fixed : forall (c : code) (k : nat) (l : line),
  nth_error c k = Some l -> is_ins l = false -> nth_error (fst (optimize c)) k = Some l.
Proof. exact optimize_noninstr_fixed. Qed.

(** inlining appends exactly the renamed body and the exit label; nothing of the caller changes *)
Theorem C14_push_code_shape : forall dst body n,
  push_code dst body n = dst ++ map (rename_line n) body ++ [Lbl (".endofinline" ++ string_of_N n)%string].
Proof. intros. unfold push_code, append_code. rewrite <- app_assoc. reflexivity. Qed.

(** renaming keeps every instruction except the operand text of branches and jumps *)
Theorem C14_rename_keeps_instructions : forall n i,
  renames_operand (i_mn i) = false -> rename_line n (Ins i) = Ins i.
Proof. intros n i H. unfold rename_line. rewrite H. reflexivity. Qed.

From CC Require Import Model.CbSpec Model.WfCode Proofs.InlineFacts.

(** ... of which it keeps the mnemonic, the [protected] flag, the cycles and the size: only the
    operand text gets the suffix *)
Theorem C14_rename_ins_shape : forall n i,
  exists i', rename_line n (Ins i) = Ins i' /\
             i_mn i' = i_mn i /\ i_prot i' = i_prot i /\
             i_cycles i' = i_cycles i /\ i_alt i' = i_alt i /\ i_bytes i' = i_bytes i /\
             i_op i' = if renames_operand (i_mn i) then suffix_of n (i_op i) else i_op i.
Proof. exact rename_ins_shape. Qed.

(** the expansion has exactly the protected instructions and inline-assembly lines of the caller
    followed by those of the body (renamed), in order *)
Theorem C14_push_code_marked : forall dst body n,
  marked (push_code dst body n) = marked dst ++ map (rename_line n) (marked body).
Proof. exact push_code_marked. Qed.

(** labels of the inlined body are exactly the suffixed labels; its branch targets likewise *)
Theorem C14_rename_labels : forall n c, all_labels (map (rename_line n) c) = map (suffix_of n) (all_labels c).
Proof. exact rename_labels. Qed.
Theorem C14_rename_targets : forall n c, local_targets (map (rename_line n) c) = map (suffix_of n) (local_targets c).
Proof. exact rename_targets. Qed.

(** the renaming is injective: two expansions (any counters, nested or not) never share a label *)
Theorem C14_suffix_inj : forall n1 n2 l1 l2,
  suffix_of n1 l1 = suffix_of n2 l2 -> n1 = n2 /\ l1 = l2.
Proof. exact suffix_of_inj. Qed.

(** control flow of the inlined body stays inside the block; its return lands on the exit label *)
Theorem C14_push_code_closed : forall (dst body : code) (n : N),
  (forall t, In t (local_targets body) -> In t (all_labels body) \/ t = ".endof"%string) ->
  forall t, In t (local_targets (map (rename_line n) body)) ->
            In t (all_labels (map (rename_line n) body ++ [Lbl (".endofinline" ++ string_of_N n)%string])).
Proof. exact push_code_closed. Qed.

(** * behaviour on the 6502 semantics (M6502/Sem.v): an inlined expansion executes like its body.
    Proofs in Proofs/InlineSemFacts.v; [runb] is [Sem.run] re-expressed with a call depth so that
    "the body reached its end" can be said ([run_runb] proves them equal). *)
From CC Require Import M6502.Sem Proofs.InlineSemFacts.

Theorem C14_runb_is_run : forall cfg prog inl_sem ext_call fuel fname c pc stack s tr cy,
  run cfg prog inl_sem ext_call fuel fname c pc stack s tr cy
  = out_of (runb cfg prog inl_sem ext_call fuel fname c pc stack (length stack) s tr cy).
Proof. exact run_runb. Qed.

(** renaming the local labels of a body injectively never changes its execution: same state, same
    cycles, same outcome kind, and the same trace event for event ([outcome_sim R]: traces related
    pointwise by [R]) except that the event of a protected branch/jump of the body carries the
    renamed operand text ([ev_ren r e e']: [e' = e], or [e = EvI m raw] of a branch/jump and
    [e' = EvI m (r raw)]); the renaming keeps the protection of every instruction *)
Theorem C14_rename_invariant : forall cfg prog inl_sem ext_call r c, inj_on r c ->
  forall fuel fname pc stack s tr cy,
  outcome_sim (ev_ren r) (run cfg prog inl_sem ext_call fuel fname c pc stack s tr cy)
                         (run cfg prog inl_sem ext_call fuel fname (map (rename_sline r) c) pc stack s tr cy).
Proof. exact run_rename. Qed.

(** hence the traces are equal once the operand text of the branch/jump events is erased
    ([same_erased t t' := map erase_jump_raw t = map erase_jump_raw t']) ... *)
Theorem C14_rename_invariant_erased : forall cfg prog inl_sem ext_call r c, inj_on r c ->
  forall fuel fname pc stack s tr cy,
  outcome_rel same_erased (run cfg prog inl_sem ext_call fuel fname c pc stack s tr cy)
                          (run cfg prog inl_sem ext_call fuel fname (map (rename_sline r) c) pc stack s tr cy).
Proof. exact run_rename_erased. Qed.

(** ... and (the former statement) once the branch/jump events are removed altogether
    ([same_nonjump t t' := filter keep_nonjump t = filter keep_nonjump t']) *)
Theorem C14_rename_invariant_weak : forall cfg prog inl_sem ext_call r c, inj_on r c ->
  forall fuel fname pc stack s tr cy,
  outcome_rel same_nonjump (run cfg prog inl_sem ext_call fuel fname c pc stack s tr cy)
                           (run cfg prog inl_sem ext_call fuel fname (map (rename_sline r) c) pc stack s tr cy).
Proof. exact run_rename_weak. Qed.

(** exactly equal when no branch of the body is protected *)

Theorem C14_rename_invariant_exact : forall cfg prog inl_sem ext_call r c, inj_on r c -> unprot_jumps c ->
  forall fuel fname pc stack s tr cy,
  run cfg prog inl_sem ext_call fuel fname (map (rename_sline r) c) pc stack s tr cy
  = run cfg prog inl_sem ext_call fuel fname c pc stack s tr cy.
Proof. exact run_rename_eq. Qed.

(** the model's renaming is that renaming (protected flags included) *)
Theorem C14_model_rename : forall n c sc, slines_of c = Some sc -> jump_ops_nonempty c ->
  slines_of (map (rename_line n) c) = Some (map (rename_sline (suffix_of n)) sc).
Proof. exact slines_of_rename. Qed.

(** a closed block with fresh labels placed inside a larger code runs exactly as it runs alone,
    and when it reaches its end the larger code continues right after it (calls, RTS, RTI included) *)
Theorem C14_embedding : forall cfg prog inl_sem ext_call fname0 pre body post base,
  sclosed body -> (forall l, In l (slabels body) -> ~ In l (slabels pre)) ->
  forall fuel k s tr cy, k <= length body ->
  emb_res cfg prog inl_sem ext_call fname0 pre body post base
          (runb cfg prog inl_sem ext_call fuel fname0 body k base 0 s tr cy)
          (run cfg prog inl_sem ext_call fuel fname0 (pre ++ body ++ post) (length pre + k) base s tr cy).
Proof. exact embed_run. Qed.

(** the expansion [push_code dst body n], entered at [length dst], behaves like the body followed by
    its exit label run on its own, for every state, fuel, caller stack and continuation [post];
    traces: event for event the same, up to the suffixed operand text in the events of the body's
    protected branches/jumps *)
Theorem C14_expansion_behaves_like_body : forall cfg prog inl_sem ext_call (dst body : code) (n : N) sd sb,
  slines_of dst = Some sd -> slines_of body = Some sb -> jump_ops_nonempty body ->
  (forall t, In t (local_targets body) -> In t (all_labels body) \/ t = ".endof"%string) ->
  (forall l, In l (all_labels dst) -> forall l0, l <> suffix_of n l0) ->
  let blk' := map (rename_sline (suffix_of n)) (sb ++ [SLbl ".endof"%string]) in
  slines_of (push_code dst body n) = Some (sd ++ blk') /\
  nth_error (sd ++ blk') (length sd + length sb) = Some (SLbl (endof_label n)) /\
  length blk' = S (length sb) /\
  forall post, block_spec cfg prog inl_sem ext_call (tsim (ev_ren (suffix_of n))) sd blk' post
                          (sb ++ [SLbl ".endof"%string]).
Proof. exact push_code_run. Qed.

(** ... in particular with traces equal once the operand text of branch/jump events is erased *)
Theorem C14_expansion_behaves_like_body_erased : forall cfg prog inl_sem ext_call (dst body : code) (n : N) sd sb,
  slines_of dst = Some sd -> slines_of body = Some sb -> jump_ops_nonempty body ->
  (forall t, In t (local_targets body) -> In t (all_labels body) \/ t = ".endof"%string) ->
  (forall l, In l (all_labels dst) -> forall l0, l <> suffix_of n l0) ->
  forall post, block_spec cfg prog inl_sem ext_call same_erased sd
                          (map (rename_sline (suffix_of n)) (sb ++ [SLbl ".endof"%string])) post
                          (sb ++ [SLbl ".endof"%string]).
Proof. exact push_code_run_erased. Qed.

(** ... and exactly equal when no branch/jump of the body is protected *)
Theorem C14_expansion_behaves_like_body_exact : forall cfg prog inl_sem ext_call (dst body : code) (n : N) sd sb,
  slines_of dst = Some sd -> slines_of body = Some sb -> jump_ops_nonempty body -> unprot_jumps sb ->
  (forall t, In t (local_targets body) -> In t (all_labels body) \/ t = ".endof"%string) ->
  (forall l, In l (all_labels dst) -> forall l0, l <> suffix_of n l0) ->
  forall post, block_spec_eq cfg prog inl_sem ext_call sd
                             (map (rename_sline (suffix_of n)) (sb ++ [SLbl ".endof"%string])) post
                             (sb ++ [SLbl ".endof"%string]).
Proof. exact push_code_run_eq. Qed.

From CC Require Import M6502.Isa Asm.Operand Model.OptSem Proofs.GenCmp16Facts Model.GenCall
  Proofs.GenCallFacts Model.InlineCall Proofs.InlineCallFacts.
Local Open Scope Z_scope.

(** * the other side: the OUT-OF-LINE spelling ([JSR f], the function in the program table)
    does what the expansion does.  Model/InlineCall.v: [ret_of_endof body] is the inline body with
    every unprotected [JMP .endof] ([return;] of an inline function) replaced by [RTS];
    [out_of_line body] adds the RTS line of the harness.  Proofs in Proofs/InlineCallFacts.v, on the
    call rule of Proofs/GenCallFacts.v ([goes]: a run inside a function under any call stack;
    [enter d s]: the state the [JSR] enters the callee with, the two markers pushed).
    [scallee sb] / [sinline sb]: the assembled lines of the out-of-line form / of the inline form
    followed by its [.endof] label. *)
Theorem C14_out_of_line_assembles :
  forall (body : code) (sb : list sline),
       slines_of body = Some sb -> slines_of (out_of_line body) = Some (scallee sb).
Proof. exact slines_of_out_of_line. Qed.

(** one instruction that uses neither the hardware stack nor an operand that can denote a cell of
    the stack page does the same in two states equal up to S and two cells of page 1 *)
Theorem C14_exec_up_to_markers :
  forall cfg : config,
       ports cfg = [] ->
       forall m1 m2 : Z,
       256 <= m1 < 512 ->
       256 <= m2 < 512 ->
       forall (m : mnem) (o : operand) (s sc : mstate),
       mrel m1 m2 s sc ->
       stack_free m = true ->
       op_safe cfg m o -> xres_rel m1 m2 s sc (exec cfg m o s) (exec cfg m o sc).
Proof. exact exec_mrel. Qed.

(** the out-of-line form, entered by a [JSR] (any call stack, any depth), reaches one of its RTS
    lines whenever the inline form reaches its end, in a state with the same A, X, Y, flags and
    memory except the two marker cells ([crel]); S as entered.  [body_ok]: the body uses neither
    the stack nor stack-page operands nor inline assembly, does not define [.endof], and refers to
    it by unprotected [JMP]s only *)
Theorem C14_ret_of_endof_runs :
  forall (cfg : config) (prog : sprogram) (body : code) (sb : list sline)
         (f : string) (stack : list frame) (d : Z) (s : mstate) (n : nat)
         (s' : mstate),
       ports cfg = [] ->
       slines_of body = Some sb ->
       body_ok cfg sb ->
       0 <= rS s < 256 ->
       stepn cfg (sinline sb) n 0 s = Some (S (Datatypes.length sb), s') ->
       slines_of (out_of_line body) = Some (scallee sb) /\
       (exists (pr : nat) (sc' : mstate),
          goes cfg prog f (scallee sb) stack 0 (enter d s) pr sc' /\
          is_rts (scallee sb) pr /\
          crel (256 + rS s) (256 + byte (rS s - 1)) (byte d) (byte (255 - d))
            (rS s) (rS (enter d s)) s' sc').
Proof. exact ret_of_endof_runs. Qed.

(** conversely *)
Theorem C14_ret_of_endof_runs_conv :
  forall (cfg : config) (body : code) (sb : list sline) (d : Z) (s : mstate)
         (n pr : nat) (sc' : mstate),
       ports cfg = [] ->
       slines_of body = Some sb ->
       body_ok cfg sb ->
       0 <= rS s < 256 ->
       stepn cfg (scallee sb) n 0 (enter d s) = Some (pr, sc') ->
       is_rts (scallee sb) pr ->
       exists (n' : nat) (s' : mstate),
         stepn cfg (sinline sb) n' 0 s = Some (S (Datatypes.length sb), s') /\
         crel (256 + rS s) (256 + byte (rS s - 1)) (byte d) (byte (255 - d))
           (rS s) (rS (enter d s)) s' sc'.
Proof. exact ret_of_endof_runs_conv. Qed.

(** the caller spelled with the call goes from the [JSR] to the next line, the caller spelled
    with the expansion from the first line of the expansion to the line after [.endofinlineN], in
    states equal but for the two stack-page cells where the [JSR] left its markers
    ([eq_but_markers]), whatever follows and whatever the call stack *)
Theorem C14_inline_equals_call :
  forall (cfg : config) (prog : sprogram)
         (inl_sem ext_call : string -> mstate -> option mstate) (dst body : code)
         (n : N) (sd sb : list sline) (f fname : string) (stack : list frame)
         (post1 post2 : list sline) (p : bool) (raw : string) (s : mstate)
         (k : nat) (s2 : mstate),
       ports cfg = [] ->
       slines_of dst = Some sd ->
       slines_of body = Some sb ->
       jump_ops_nonempty body ->
       (forall t : string, In t (local_targets body) -> In t (all_labels body) \/ t = ".endof") ->
       (forall l : string, In l (all_labels dst) -> forall l0 : string, l <> suffix_of n l0) ->
       body_ok cfg sb ->
       find_func f prog = Some (scallee sb) ->
       0 <= rS s < 256 ->
       stepn cfg (sinline sb) k 0 s = Some (S (Datatypes.length sb), s2) ->
       let blk' := map (rename_sline (suffix_of n)) (sinline sb) in
       slines_of (push_code dst body n) = Some (sd ++ blk') /\
       slines_of (out_of_line body) = Some (scallee sb) /\
       (exists s1 : mstate,
          goes cfg prog fname (sd ++ [SIns JSR (OLbl f) p raw] ++ post1) stack
            (Datatypes.length sd) s (S (Datatypes.length sd)) s1 /\ eq_but_markers s1 s2 (rS s)) /\
       (forall (fuel : nat) (tr : list event) (cy : N),
        exists (tr' : list event) (cy' : N),
          run cfg prog inl_sem ext_call (k + S fuel) fname (sd ++ blk' ++ post2)
            (Datatypes.length sd) stack s tr cy =
          run cfg prog inl_sem ext_call (S fuel) fname (sd ++ blk' ++ post2)
            (Datatypes.length sd + Datatypes.length blk') stack s2 tr' cy').
Proof. exact inline_equals_call. Qed.

(** conversely: if the callee reaches an RTS, the inline form ends, and the same holds *)
Theorem C14_inline_equals_call_conv :
  forall (cfg : config) (prog : sprogram)
         (inl_sem ext_call : string -> mstate -> option mstate) (dst body : code)
         (n : N) (sd sb : list sline) (f fname : string) (stack : list frame)
         (post1 post2 : list sline) (p : bool) (raw : string) (s : mstate)
         (j pr : nat) (sc' : mstate),
       ports cfg = [] ->
       slines_of dst = Some sd ->
       slines_of body = Some sb ->
       jump_ops_nonempty body ->
       (forall t : string, In t (local_targets body) -> In t (all_labels body) \/ t = ".endof") ->
       (forall l : string, In l (all_labels dst) -> forall l0 : string, l <> suffix_of n l0) ->
       body_ok cfg sb ->
       find_func f prog = Some (scallee sb) ->
       0 <= rS s < 256 ->
       stepn cfg (scallee sb) j 0 (enter (Z.of_nat (Datatypes.length stack) + 1) s) =
       Some (pr, sc') ->
       is_rts (scallee sb) pr ->
       let blk' := map (rename_sline (suffix_of n)) (sinline sb) in
       exists (k : nat) (s2 : mstate),
         stepn cfg (sinline sb) k 0 s = Some (S (Datatypes.length sb), s2) /\
         (exists s1 : mstate,
            goes cfg prog fname (sd ++ [SIns JSR (OLbl f) p raw] ++ post1) stack
              (Datatypes.length sd) s (S (Datatypes.length sd)) s1 /\ eq_but_markers s1 s2 (rS s)) /\
         (forall (fuel : nat) (tr : list event) (cy : N),
          exists (tr' : list event) (cy' : N),
            run cfg prog inl_sem ext_call (k + S fuel) fname (sd ++ blk' ++ post2)
              (Datatypes.length sd) stack s tr cy =
            run cfg prog inl_sem ext_call (S fuel) fname (sd ++ blk' ++ post2)
              (Datatypes.length sd + Datatypes.length blk') stack s2 tr' cy').
Proof. exact inline_equals_call_conv. Qed.

(** the compiler's example [inline void f() { if (a) return; c = 1; }  void main() { f(); b = 2; }]
    (Model/InlineCall.v: the exact -O0 output for both spellings) satisfies the hypotheses ... *)
Theorem C14_example_body_ok :
  body_ok cfg_calls ex_sb.
Proof. exact ex_body_ok. Qed.

Theorem C14_example_inline_equals_call :
  forall (prog : sprogram) (inl_sem ext_call : string -> mstate -> option mstate)
         (fname : string) (stack : list frame) (post1 post2 : list sline)
         (s : mstate) (k : nat) (s2 : mstate),
       find_func "f" prog = Some (scallee ex_sb) ->
       0 <= rS s < 256 ->
       stepn cfg_calls (sinline ex_sb) k 0 s = Some (S (Datatypes.length ex_sb), s2) ->
       let blk' := map (rename_sline (suffix_of 1)) (sinline ex_sb) in
       (exists s1 : mstate,
          goes cfg_calls prog fname ([SIns JSR (OLbl "f") false "f"] ++ post1) stack 0 s 1 s1 /\
          eq_but_markers s1 s2 (rS s)) /\
       (forall (fuel : nat) (tr : list event) (cy : N),
        exists (tr' : list event) (cy' : N),
          run cfg_calls prog inl_sem ext_call (k + S fuel) fname (blk' ++ post2) 0 stack s tr cy =
          run cfg_calls prog inl_sem ext_call (S fuel) fname (blk' ++ post2)
            (Datatypes.length blk') stack s2 tr' cy').
Proof. exact ex_inline_equals_call. Qed.

(** ... and both spellings of the whole program, run from a = 0 and from a = 1: the same variables,
    registers and S *)
Theorem C14_example_runs_a0 :
  run_ex ex_prog_call ex_main_call (st_calls 0 9) = Some (0, 2, 1, 2, 7, 2, 255) /\
       run_ex [] ex_main_inline (st_calls 0 9) = Some (0, 2, 1, 2, 7, 2, 255).
Proof. exact ex_both_spellings_a0. Qed.

Theorem C14_example_runs_a1 :
  run_ex ex_prog_call ex_main_call (st_calls 1 9) = Some (1, 2, 0, 2, 7, 2, 255) /\
       run_ex [] ex_main_inline (st_calls 1 9) = Some (1, 2, 0, 2, 7, 2, 255).
Proof. exact ex_both_spellings_a1. Qed.

