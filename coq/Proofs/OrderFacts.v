(** Facts about ordering by insertion counter ([Model/Order.v]). *)
From Coq Require Import String List Bool Arith Lia Sorting.Permutation Sorting.Sorted.
From CC Require Import Model.Order.
Import ListNotations.

(** * Insertion commutes for distinct orders (on arbitrary lists) *)

Ltac leb_cases :=
  repeat match goal with
         | |- context [Nat.leb ?a ?b] =>
             let H := fresh "Hleb" in
             destruct (Nat.leb a b) eqn:H;
             [apply Nat.leb_le in H | apply Nat.leb_gt in H]; cbn [insert_sorted]
         end.

Lemma insert_sorted_comm : forall (s : list entry) (x y : entry),
    snd x <> snd y ->
    insert_sorted x (insert_sorted y s) = insert_sorted y (insert_sorted x s).
Proof.
  induction s as [|a r IHr]; intros x y Hne; cbn [insert_sorted].
  - leb_cases; try reflexivity; lia.
  - leb_cases; try reflexivity; try lia.
    rewrite (IHr x y Hne). reflexivity.
Qed.

(** * Theorem 1 *)

(* if all order numbers are distinct, the sorted sequence does not depend on the iteration order of the table *)
Theorem sort_perm_invariant : forall l1 l2 : list entry,
  Permutation l1 l2 -> NoDup (map snd l1) -> sort_by_order l1 = sort_by_order l2.
Proof.
  intros l1 l2 Hperm. induction Hperm as [| x l l' Hp IH | x y l | l l' l'' Hp1 IH1 Hp2 IH2];
    intros Hnd.
  - reflexivity.
  - simpl. rewrite IH; [reflexivity|]. simpl in Hnd. inversion Hnd; assumption.
  - simpl. apply insert_sorted_comm.
    simpl in Hnd. inversion Hnd as [|a b Hnotin Hnd']. subst.
    intros Heq. apply Hnotin. left. symmetry. exact Heq.
  - rewrite (IH1 Hnd). apply IH2.
    apply Permutation_NoDup with (l := map snd l); [|exact Hnd].
    apply Permutation_map. exact Hp1.
Qed.
Print Assumptions sort_perm_invariant.

(** * Auxiliary list facts *)

Lemma map_snd_combine : forall (A B : Type) (l : list A) (l' : list B),
    length l = length l' -> map snd (combine l l') = l'.
Proof.
  intros A B. induction l as [|a l IHl]; intros l' Hlen; destruct l' as [|b l']; simpl in *;
    try reflexivity; try discriminate.
  f_equal. apply IHl. lia.
Qed.

Lemma map_fst_combine : forall (A B : Type) (l : list A) (l' : list B),
    length l = length l' -> map fst (combine l l') = l.
Proof.
  intros A B. induction l as [|a l IHl]; intros l' Hlen; destruct l' as [|b l']; simpl in *;
    try reflexivity; try discriminate.
  f_equal. apply IHl. lia.
Qed.

(** Sorting an already increasing table is the identity *)
Lemma sort_combine_seq : forall (ks : list string) (a : nat),
    sort_by_order (combine ks (seq a (length ks))) = combine ks (seq a (length ks)).
Proof.
  induction ks as [|k ks IHks]; intros a.
  - reflexivity.
  - cbn [length seq combine]. unfold sort_by_order. cbn [fold_right].
    fold (sort_by_order (combine ks (seq (S a) (length ks)))). rewrite IHks.
    destruct ks as [|k' ks].
    + reflexivity.
    + cbn [length seq combine insert_sorted snd].
      assert (Hle : Nat.leb a (S a) = true) by (apply Nat.leb_le; lia).
      rewrite Hle. reflexivity.
Qed.

(** every table of the shape [rev (combine N (seq 0 (length N)))] has distinct orders and sorts
    to the key sequence [N], whatever the iteration order *)
Lemma shape_orders_distinct : forall (N : list string),
    NoDup (map snd (rev (combine N (seq 0 (length N))))).
Proof.
  intros N. rewrite map_rev.
  rewrite map_snd_combine by (rewrite seq_length; reflexivity).
  apply Permutation_NoDup with (l := seq 0 (length N)).
  - apply Permutation_rev.
  - apply seq_NoDup.
Qed.

Lemma shape_sorted : forall (N : list string) (l : list entry),
    Permutation l (rev (combine N (seq 0 (length N)))) ->
    map fst (sort_by_order l) = N.
Proof.
  intros N l Hperm.
  pose proof (shape_orders_distinct N) as Hd.
  assert (Hdl : NoDup (map snd l)).
  { apply Permutation_NoDup with (l := map snd (rev (combine N (seq 0 (length N))))); [|exact Hd].
    apply Permutation_map. apply Permutation_sym. exact Hperm. }
  rewrite (sort_perm_invariant l _ Hperm Hdl).
  rewrite (sort_perm_invariant (rev (combine N (seq 0 (length N)))) (combine N (seq 0 (length N)))).
  - rewrite sort_combine_seq. apply map_fst_combine. rewrite seq_length. reflexivity.
  - apply Permutation_sym. apply Permutation_rev.
  - exact Hd.
Qed.

(** * [nodup_first] *)

Lemma existsb_eqb_In : forall (k : string) (l : list string),
    existsb (String.eqb k) l = true <-> In k l.
Proof.
  intros k l. rewrite existsb_exists. split.
  - intros [x [Hin Heq]]. apply String.eqb_eq in Heq. subst x. exact Hin.
  - intros Hin. exists k. split; [exact Hin | apply String.eqb_refl].
Qed.

Lemma existsb_eqb_notIn : forall (k : string) (l : list string),
    existsb (String.eqb k) l = false <-> ~ In k l.
Proof.
  intros k l. rewrite <- existsb_eqb_In. destruct (existsb (String.eqb k) l); intuition congruence.
Qed.

Lemma nodup_first_from_In : forall (ks seen : list string) (x : string),
    In x (nodup_first_from seen ks) <-> In x ks /\ ~ In x seen.
Proof.
  induction ks as [|k r IHr]; intros seen x; cbn [nodup_first_from].
  - simpl. tauto.
  - destruct (existsb (String.eqb k) seen) eqn:Hex.
    + apply existsb_eqb_In in Hex. rewrite IHr. simpl. split.
      * intros [H1 H2]. split; [right; exact H1 | exact H2].
      * intros [[H1|H1] H2]; [subst x; contradiction | split; assumption].
    + apply existsb_eqb_notIn in Hex. simpl. rewrite IHr. simpl. split.
      * intros [H|[H1 H2]].
        -- subst x. split; [left; reflexivity | exact Hex].
        -- split; [right; exact H1 | intros H3; apply H2; right; exact H3].
      * intros [[H1|H1] H2].
        -- left. exact H1.
        -- destruct (string_dec k x) as [E|E]; [left; exact E | right].
           split; [exact H1 | intros [H3|H3]; [apply E; exact H3 | apply H2; exact H3]].
Qed.

Lemma nodup_first_from_NoDup : forall (ks seen : list string), NoDup (nodup_first_from seen ks).
Proof.
  induction ks as [|k r IHr]; intros seen; cbn [nodup_first_from].
  - constructor.
  - destruct (existsb (String.eqb k) seen).
    + apply IHr.
    + constructor; [|apply IHr].
      intros Hin. apply nodup_first_from_In in Hin. destruct Hin as [_ Hn].
      apply Hn. left. reflexivity.
Qed.

Lemma nodup_first_from_id : forall (ks seen : list string),
    NoDup ks -> (forall k, In k ks -> ~ In k seen) -> nodup_first_from seen ks = ks.
Proof.
  induction ks as [|k r IHr]; intros seen Hnd Hfresh; cbn [nodup_first_from].
  - reflexivity.
  - inversion Hnd as [|k' r' Hnotin Hnd']. subst.
    assert (Hex : existsb (String.eqb k) seen = false).
    { apply existsb_eqb_notIn. apply Hfresh. left. reflexivity. }
    rewrite Hex. f_equal. apply IHr; [exact Hnd'|].
    intros k' Hk' [E|E].
    + apply Hnotin. rewrite E. exact Hk'.
    + apply (Hfresh k'); [right; exact Hk' | exact E].
Qed.

(* [nodup_first] keeps exactly the keys of the history ... *)
Theorem nodup_first_In : forall (ks : list string) (x : string), In x (nodup_first ks) <-> In x ks.
Proof.
  intros ks x. unfold nodup_first. rewrite nodup_first_from_In. simpl. tauto.
Qed.
Print Assumptions nodup_first_In.

(* ... each once ... *)
Theorem nodup_first_NoDup : forall ks : list string, NoDup (nodup_first ks).
Proof. intros ks. apply nodup_first_from_NoDup. Qed.
Print Assumptions nodup_first_NoDup.

(* ... and is the identity on histories without repetition *)
Theorem nodup_first_id : forall ks : list string, NoDup ks -> nodup_first ks = ks.
Proof.
  intros ks Hnd. apply nodup_first_from_id; [exact Hnd|]. intros k _ H. destruct H.
Qed.
Print Assumptions nodup_first_id.

(** * The current code: shape of [build] for ANY history *)

Lemma existsb_fst_map : forall (tbl : list entry) (k : string),
    existsb (fun e => String.eqb (fst e) k) tbl = existsb (String.eqb k) (map fst tbl).
Proof.
  induction tbl as [|a tbl IHtbl]; intros k; simpl.
  - reflexivity.
  - rewrite IHtbl. rewrite (String.eqb_sym (fst a) k). reflexivity.
Qed.

Lemma fold_insert_shape : forall (ks : list string) (tbl : list entry),
    fold_left insert_key ks tbl
    = rev (combine (nodup_first_from (map fst tbl) ks)
                   (seq (length tbl) (length (nodup_first_from (map fst tbl) ks)))) ++ tbl.
Proof.
  induction ks as [|k ks IHks]; intros tbl.
  - reflexivity.
  - cbn [fold_left nodup_first_from]. unfold insert_key at 2. rewrite existsb_fst_map.
    destruct (existsb (String.eqb k) (map fst tbl)).
    + apply IHks.
    + rewrite IHks. cbn [map fst length seq combine rev]. rewrite <- app_assoc. reflexivity.
Qed.

Lemma build_shape : forall ks : list string,
    build ks = rev (combine (nodup_first ks) (seq 0 (length (nodup_first ks)))).
Proof.
  intros ks. unfold build, nodup_first. rewrite fold_insert_shape. apply app_nil_r.
Qed.

(* the current code gives distinct orders for every history, re-insertions included *)
Theorem build_orders_distinct : forall ks, NoDup (map snd (build ks)).
Proof.
  intros ks. rewrite build_shape. apply shape_orders_distinct.
Qed.
Print Assumptions build_orders_distinct.

(* the table holds each key once *)
Theorem build_keys_distinct : forall ks, NoDup (map fst (build ks)).
Proof.
  intros ks. rewrite build_shape. rewrite map_rev.
  rewrite map_fst_combine by (rewrite seq_length; reflexivity).
  apply Permutation_NoDup with (l := nodup_first ks).
  - apply Permutation_rev.
  - apply nodup_first_NoDup.
Qed.
Print Assumptions build_keys_distinct.

(* the output order is the order of FIRST declaration, whatever the hash seed, for every history *)
Theorem build_sorted_is_first_declaration_order : forall ks l,
  Permutation l (build ks) -> map fst (sort_by_order l) = nodup_first ks.
Proof.
  intros ks l Hperm. rewrite build_shape in Hperm. apply shape_sorted. exact Hperm.
Qed.
Print Assumptions build_sorted_is_first_declaration_order.

(* corollary: histories without re-insertion come out in declaration order *)
Theorem build_sorted_is_declaration_order : forall ks (l : list entry), NoDup ks -> Permutation l (build ks) ->
  map fst (sort_by_order l) = ks.
Proof.
  intros ks l Hnd Hperm. rewrite (build_sorted_is_first_declaration_order ks l Hperm).
  apply nodup_first_id. exact Hnd.
Qed.
Print Assumptions build_sorted_is_declaration_order.

(* the history that broke the old code *)
Example reinsertion_keeps_order :
  build ["f"; "f"; "g"]%string = [("g", 1); ("f", 0)]%string.
Proof. reflexivity. Qed.
Print Assumptions reinsertion_keeps_order.

(** * The code before the repair: correct only on histories without re-insertion *)

Lemma filter_fresh : forall (tbl : list entry) (k : string),
    ~ In k (map fst tbl) ->
    filter (fun e => negb (String.eqb (fst e) k)) tbl = tbl.
Proof.
  induction tbl as [|a tbl IHtbl]; intros k Hk; simpl.
  - reflexivity.
  - simpl in Hk.
    assert (Hne : fst a <> k) by (intros E; apply Hk; left; exact E).
    apply String.eqb_neq in Hne. rewrite Hne. simpl.
    rewrite IHtbl; [reflexivity|]. intros Hin. apply Hk. right. exact Hin.
Qed.

Lemma fold_insert_old_fresh : forall (ks : list string) (tbl : list entry),
    NoDup ks -> (forall k, In k ks -> ~ In k (map fst tbl)) ->
    fold_left insert_key_old ks tbl
    = rev (combine ks (seq (length tbl) (length ks))) ++ tbl.
Proof.
  induction ks as [|k ks IHks]; intros tbl Hnd Hfresh.
  - reflexivity.
  - inversion Hnd as [|k' ks' Hnotin Hnd']. subst.
    cbn [fold_left]. unfold insert_key_old at 2.
    rewrite filter_fresh by (apply Hfresh; left; reflexivity).
    rewrite IHks.
    + cbn [length seq combine rev]. rewrite <- app_assoc. reflexivity.
    + exact Hnd'.
    + intros k' Hk' Hin. cbn [map fst] in Hin. destruct Hin as [E|E].
      * apply Hnotin. rewrite E. exact Hk'.
      * apply (Hfresh k'); [right; exact Hk' | exact E].
Qed.

Lemma build_old_fresh : forall ks, NoDup ks ->
    build_old ks = rev (combine ks (seq 0 (length ks))).
Proof.
  intros ks Hnd. unfold build_old. rewrite fold_insert_old_fresh.
  - cbn [length]. apply app_nil_r.
  - exact Hnd.
  - intros k _ Hin. destruct Hin.
Qed.

(* old code: histories without re-insertion give distinct orders *)
Theorem old_build_orders_distinct : forall ks, NoDup ks -> NoDup (map snd (build_old ks)).
Proof.
  intros ks Hnd. rewrite (build_old_fresh ks Hnd). apply shape_orders_distinct.
Qed.
Print Assumptions old_build_orders_distinct.

(* old code: ... hence the output order is the declaration order whatever the hash seed *)
Theorem old_build_sorted_is_declaration_order : forall ks (l : list entry),
  NoDup ks -> Permutation l (build_old ks) -> map fst (sort_by_order l) = ks.
Proof.
  intros ks l Hnd Hperm. rewrite (build_old_fresh ks Hnd) in Hperm. apply shape_sorted. exact Hperm.
Qed.
Print Assumptions old_build_sorted_is_declaration_order.

(** The defect of the old code: re-insertion makes the length-based counter repeat a number *)

(* prototype of f (order 0), then definition of f (replaces the entry, order = length = 1), then g
   (order = length = 1 again): the two entries of the final table share order 1 *)
Example old_reinsertion_ties :
  build_old ["f"; "f"; "g"]%string = [("g", 1); ("f", 1)]%string /\
  map snd (build_old ["f"; "f"; "g"]%string) = [1; 1].
Proof. split; reflexivity. Qed.
Print Assumptions old_reinsertion_ties.

(* two iteration orders of that same table give two different outputs *)
Example old_reinsertion_order_depends_on_iteration :
  exists l1 l2, Permutation l1 (build_old ["f"; "f"; "g"]%string) /\
                Permutation l2 (build_old ["f"; "f"; "g"]%string) /\
                map fst (sort_by_order l1) <> map fst (sort_by_order l2).
Proof.
  exists [("g", 1); ("f", 1)]%string, [("f", 1); ("g", 1)]%string.
  split; [apply Permutation_refl|].
  split; [apply perm_swap|].
  vm_compute. intros H. discriminate H.
Qed.
Print Assumptions old_reinsertion_order_depends_on_iteration.

(** * [sort_by_order] really is a stable sort (documentation of the choice made in Model/Order.v) *)

Lemma insert_sorted_perm : forall (e : entry) (l : list entry),
    Permutation (e :: l) (insert_sorted e l).
Proof.
  intros e. induction l as [|x r IHr]; cbn [insert_sorted].
  - apply Permutation_refl.
  - destruct (Nat.leb (snd e) (snd x)).
    + apply Permutation_refl.
    + eapply perm_trans; [apply perm_swap|]. apply perm_skip. exact IHr.
Qed.

Theorem sort_by_order_perm : forall l : list entry, Permutation l (sort_by_order l).
Proof.
  induction l as [|x l IHl]; simpl.
  - apply perm_nil.
  - eapply perm_trans; [apply perm_skip; exact IHl|]. apply insert_sorted_perm.
Qed.
Print Assumptions sort_by_order_perm.

Definition le_order (a b : entry) : Prop := snd a <= snd b.

Lemma insert_sorted_sorted : forall (e : entry) (l : list entry),
    Sorted le_order l -> Sorted le_order (insert_sorted e l).
Proof.
  intros e. induction l as [|x r IHr]; intros Hs; cbn [insert_sorted].
  - constructor; constructor.
  - destruct (Nat.leb (snd e) (snd x)) eqn:Hleb.
    + apply Nat.leb_le in Hleb. constructor; [exact Hs|]. constructor. exact Hleb.
    + apply Nat.leb_gt in Hleb. inversion Hs as [|x' r' Hsr Hhd]. subst.
      constructor; [apply IHr; exact Hsr|].
      destruct r as [|y r]; cbn [insert_sorted].
      * constructor. unfold le_order. lia.
      * destruct (Nat.leb (snd e) (snd y)).
        -- constructor. unfold le_order. lia.
        -- constructor. inversion Hhd. assumption.
Qed.

Theorem sort_by_order_sorted : forall l : list entry, Sorted le_order (sort_by_order l).
Proof.
  induction l as [|x l IHl]; simpl.
  - constructor.
  - apply insert_sorted_sorted. exact IHl.
Qed.
Print Assumptions sort_by_order_sorted.

(* stability: for every order number n, the entries carrying n appear in the output in exactly
   the sequence in which they appeared in the input *)
Lemma insert_sorted_filter : forall (n : nat) (e : entry) (l : list entry),
    filter (fun x => Nat.eqb (snd x) n) (insert_sorted e l)
    = filter (fun x => Nat.eqb (snd x) n) (e :: l).
Proof.
  intros n e. induction l as [|x r IHr]; cbn [insert_sorted].
  - reflexivity.
  - destruct (Nat.leb (snd e) (snd x)) eqn:Hleb.
    + reflexivity.
    + apply Nat.leb_gt in Hleb. cbn [filter] in *. rewrite IHr.
      destruct (Nat.eqb (snd e) n) eqn:He; [|reflexivity].
      apply Nat.eqb_eq in He.
      assert (Hx : Nat.eqb (snd x) n = false) by (apply Nat.eqb_neq; lia).
      rewrite Hx. reflexivity.
Qed.

Theorem sort_by_order_stable : forall (n : nat) (l : list entry),
    filter (fun x => Nat.eqb (snd x) n) (sort_by_order l)
    = filter (fun x => Nat.eqb (snd x) n) l.
Proof.
  intros n. induction l as [|x l IHl]; simpl.
  - reflexivity.
  - rewrite insert_sorted_filter. cbn [filter]. rewrite IHl. reflexivity.
Qed.
Print Assumptions sort_by_order_stable.
