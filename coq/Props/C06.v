(** C06 — diagnostics name the true source location.  Statements only (general theorems:
    Proofs/LineMapFacts.v when present). *)
From Coq Require Import String Ascii List Bool NArith.
From CC Require Import Base.Str Model.Cpp.
Import ListNotations.
Open Scope string_scope.

(** a run through comments, a splice, a skipped region, a define and an include: one entry per
    output line, each naming the last physical line of its logical line and the include site *)
Theorem C06_example_table :
  match run_cpp [("i.h", ["x;" ++ nl; "/* c" ++ nl; "*/ y;" ++ nl])] "m.c" []
        ["a;" ++ nl; "/* two" ++ nl; "lines */ b;" ++ nl; "c \" ++ nl; "d;" ++ nl; "#if 0" ++ nl; "z;" ++ nl; "#endif" ++ nl;
         "#define K 1" ++ nl; "#include ""i.h""" ++ nl; "e K;" ++ nl] with
  | POk p => rev (p_map p) =
             [("m.c", 1%N, None); ("m.c", 3%N, None); ("m.c", 5%N, None);
              ("i.h", 1%N, Some ("m.c", 10%N)); ("i.h", 3%N, Some ("m.c", 10%N)); ("m.c", 11%N, None)]
             /\ p_out p = "a;" ++ nl ++ " b;" ++ nl ++ "c d;" ++ nl ++ "x;" ++ nl ++ " y;" ++ nl ++ "e 1;" ++ nl
  | PErr _ => False
  end.
Proof. vm_compute. split; reflexivity. Qed.
