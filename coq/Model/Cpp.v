(** Model of the preprocessor [cpp::process] and [cpp::Context] (src/cpp.rs): line splicing,
    the per-line scanner (comments and string-literal extraction), the three-state conditional
    machine and the #if evaluator, object- and function-like macros with the regular-expression
    semantics the code relies on ([\bNAME\b], argument capture with four levels of nested
    parentheses), #include (C and assembler files), #error, and the line-mapping table.

    Text is ASCII [string]; the input is the list of physical lines as [read_line] returns them
    (each with its trailing newline except possibly the last).  Nothing is tidied up: the
    scanner's cut at the first "//" of the remaining line, the [starts_with] tests on directives,
    the per-round match set of [replace_all], are all reproduced. *)
From Coq Require Import String Ascii List Bool Arith NArith.
From CC Require Import Base.Str.
Import ListNotations.
Open Scope list_scope.
Open Scope string_scope.

(** ** string helpers (Rust [str] methods on ASCII text) *)
Definition is_word (a : ascii) : bool := is_ident_char a.

Definition is_ws (a : ascii) : bool :=
  let n := N_of_ascii a in (N.eqb n 32 || (N.leb 9 n && N.leb n 13))%N.

Fixpoint trim_start (s : string) : string :=
  match s with
  | String a r => if is_ws a then trim_start r else s
  | EmptyString => EmptyString
  end.
Definition trim_end (s : string) : string := rev_string (trim_start (rev_string s)).
Definition trim (s : string) : string := trim_end (trim_start s).

(** first occurrence of [pat] in [s]: (before, after) *)
Fixpoint split_once (pat s : string) : option (string * string) :=
  if starts_with pat s then Some (EmptyString, string_drop (String.length pat) s)
  else match s with
       | EmptyString => None
       | String a r =>
           match split_once pat r with
           | Some (b, t) => Some (String a b, t)
           | None => None
           end
       end.

Definition before (pat s : string) : string :=
  match split_once pat s with Some (b, _) => b | None => s end.

Definition contains (pat s : string) : bool :=
  match split_once pat s with Some _ => true | None => false end.

Definition str_eqb := String.eqb.

(** [splitn(2, [' ', '\t'])]: cut at the first blank or TAB: (before, after) *)
Definition is_blank_or_tab (a : ascii) : bool := Ascii.eqb a " " || Ascii.eqb a (ascii_of_nat 9).

Fixpoint split_blank (s : string) : option (string * string) :=
  match s with
  | EmptyString => None
  | String a r =>
      if is_blank_or_tab a then Some (EmptyString, r)
      else match split_blank r with
           | Some (b, t) => Some (String a b, t)
           | None => None
           end
  end.

(** [s.len() - s.trim_end_matches('\\').len()]: the length of the run of backslashes that ends
    [s], counted from the left ([run] = length of the run that ends the text read so far) *)
Fixpoint trailing_backslashes_from (run : nat) (s : string) : nat :=
  match s with
  | EmptyString => run
  | String a r => trailing_backslashes_from (if Ascii.eqb a "\" then S run else O) r
  end.
Definition trailing_backslashes (s : string) : nat := trailing_backslashes_from O s.

(** ** macros *)
Inductive macro_kind :=
| MObj (value : string)
| MFun (params : list string) (template : string).   (* template refers to parameters as $name *)

Definition macro := (string * macro_kind)%type.

(** is there a word boundary between [prev] (None = start of text) and the next character? the
    next character is a word character in all uses *)
Definition boundary_before (prev : option ascii) : bool :=
  match prev with None => true | Some a => negb (is_word a) end.
Definition boundary_after (rest : string) : bool :=
  match rest with EmptyString => true | String a _ => negb (is_word a) end.

(** [\bNAME\b] replacement, all non-overlapping occurrences, left to right.
    Returns the new text and whether anything was replaced. *)
Fixpoint replace_word_aux (fuel : nat) (name value : string) (prev : option ascii) (s : string)
  : string * bool :=
  match fuel with
  | O => (s, false)
  | S f =>
      match s with
      | EmptyString => (EmptyString, false)
      | String a r =>
          if boundary_before prev && starts_with name s
             && boundary_after (string_drop (String.length name) s)
             && negb (Nat.eqb (String.length name) 0)
          then
            let rest := string_drop (String.length name) s in
            let last := match rev_string name with String l _ => Some l | EmptyString => prev end in
            let '(t, _) := replace_word_aux f name value last rest in
            (value ++ t, true)
          else
            let '(t, c) := replace_word_aux f name value (Some a) r in
            (String a t, c)
      end
  end.
Definition replace_word (name value s : string) : string * bool :=
  replace_word_aux (S (String.length s)) name value None s.

(** argument capture of a function-like macro *)
Definition special (a : ascii) : bool :=
  Ascii.eqb a "," || Ascii.eqb a ")" || Ascii.eqb a "(".
Definition paren (a : ascii) : bool := Ascii.eqb a ")" || Ascii.eqb a "(".

(** [balanced depth s]: s starts just after a "(" ; consume the group body allowing [depth] more
    levels of nesting; returns (body including the closing paren, rest) *)
Fixpoint balanced (fuel depth : nat) (s : string) : option (string * string) :=
  match fuel with
  | O => None
  | S f =>
      match s with
      | EmptyString => None
      | String a r =>
          if Ascii.eqb a ")" then Some (String a EmptyString, r)
          else if Ascii.eqb a "(" then
            match depth with
            | O => None
            | S d =>
                match balanced f d r with
                | Some (g, r') =>
                    match balanced f depth r' with
                    | Some (b, r'') => Some (String a (g ++ b), r'')
                    | None => None
                    end
                | None => None
                end
            end
          else
            match balanced f depth r with
            | Some (b, r') => Some (String a b, r')
            | None => None
            end
      end
  end.

(** one argument: the maximal run of non-special characters and balanced groups (3 more levels
    inside a top-level group) *)
Fixpoint capture_arg (fuel : nat) (s : string) : string * string :=
  match fuel with
  | O => (EmptyString, s)
  | S f =>
      match s with
      | EmptyString => (EmptyString, s)
      | String a r =>
          if Ascii.eqb a "(" then
            match balanced f 3 r with
            | Some (g, r') =>
                let '(b, r'') := capture_arg f r' in (String a (g ++ b), r'')
            | None => (EmptyString, s)
            end
          else if special a then (EmptyString, s)
          else let '(b, r') := capture_arg f r in (String a b, r')
      end
  end.

(** [[ \t]*]: a run of blanks and TABs (these two characters only) *)
Fixpoint skip_blanks (s : string) : string :=
  match s with
  | String a r => if is_blank_or_tab a then skip_blanks r else s
  | EmptyString => EmptyString
  end.

(** after "NAME(": n arguments separated by "," and the closing ")"; without parameters blanks
    and TABs may stand between the parentheses *)
Fixpoint capture_args (fuel : nat) (n : nat) (s : string) : option (list string * string) :=
  match n with
  | O => match skip_blanks s with
         | String a r => if Ascii.eqb a ")" then Some ([], r) else None
         | EmptyString => None
         end
  | S O =>
      let '(a1, r) := capture_arg fuel s in
      match r with
      | String c r' => if Ascii.eqb c ")" then Some ([a1], r') else None
      | EmptyString => None
      end
  | S n' =>
      let '(a1, r) := capture_arg fuel s in
      match r with
      | String c r' =>
          if Ascii.eqb c "," then
            match capture_args fuel n' r' with
            | Some (l, r'') => Some (a1 :: l, r'')
            | None => None
            end
          else None
      | EmptyString => None
      end
  end.

(** expansion of a replacement template: $name -> captured text (longest [A-Za-z0-9_] name;
    unknown names expand to nothing, "$$" is a literal dollar) *)
Fixpoint take_word (s : string) : string * string :=
  match s with
  | String a r => if is_word a then let '(w, t) := take_word r in (String a w, t) else (EmptyString, s)
  | EmptyString => (EmptyString, EmptyString)
  end.

Fixpoint lookup_arg (name : string) (ps : list string) (args : list string) : string :=
  match ps, args with
  | p :: ps', a :: as' => if String.eqb p name then a else lookup_arg name ps' as'
  | _, _ => EmptyString
  end.

Fixpoint expand_template (fuel : nat) (t : string) (ps args : list string) : string :=
  match fuel with
  | O => t
  | S f =>
      match t with
      | EmptyString => EmptyString
      | String a r =>
          if Ascii.eqb a "$" then
            match r with
            | String b r' =>
                if Ascii.eqb b "$" then String "$" (expand_template f r' ps args)
                else
                  let '(w, rest) := take_word r in
                  if String.eqb w EmptyString then String a (expand_template f r ps args)
                  else lookup_arg w ps args ++ expand_template f rest ps args
            | EmptyString => String a EmptyString
            end
          else String a (expand_template f r ps args)
      end
  end.

Fixpoint replace_call_aux (fuel : nat) (name : string) (ps : list string) (tmpl : string)
         (prev : option ascii) (s : string) : string * bool :=
  match fuel with
  | O => (s, false)
  | S f =>
      match s with
      | EmptyString => (EmptyString, false)
      | String a r =>
          (* \bNAME[ \t]*\( : blanks and TABs may stand between the name and the parenthesis *)
          let try_here :=
            if boundary_before prev && starts_with name s
               && negb (Nat.eqb (String.length name) 0)
            then match skip_blanks (string_drop (String.length name) s) with
                 | String c r' =>
                     if Ascii.eqb c "(" then capture_args (String.length s) (List.length ps) r'
                     else None
                 | EmptyString => None
                 end
            else None in
          match try_here with
          | Some (args, rest) =>
              let '(t, _) := replace_call_aux f name ps tmpl (Some ")"%char) rest in
              (expand_template (S (String.length tmpl)) tmpl ps args ++ t, true)
          | None =>
              let '(t, c) := replace_call_aux f name ps tmpl (Some a) r in
              (String a t, c)
          end
      end
  end.
Definition replace_call (name : string) (ps : list string) (tmpl s : string) : string * bool :=
  replace_call_aux (S (String.length s)) name ps tmpl None s.

Definition apply_macro (m : macro) (s : string) : string * bool :=
  match snd m with
  | MObj v => replace_word (fst m) v s
  | MFun ps t => replace_call (fst m) ps t s
  end.

Definition macro_matches (m : macro) (s : string) : bool := snd (apply_macro m s).

(** [Context::replace_all]: in each round, the macros to apply are those that match the text as it
    stood at the BEGINNING of the round ([orig] below is that text) *)
Fixpoint apply_all (ms : list macro) (orig res : string) (changed : bool) : string * bool :=
  match ms with
  | [] => (res, changed)
  | m :: r =>
      if macro_matches m orig then
        let '(res', c) := apply_macro m res in apply_all r orig res' (changed || c)
      else apply_all r orig res changed
  end.

Fixpoint replace_rounds (n : nat) (ms : list macro) (orig res : string) : string :=
  match n with
  | O => res
  | S k =>
      let '(res', c) := apply_all ms orig res false in
      if c then replace_rounds k ms res' res' else res'
  end.

Definition replace_all (ms : list macro) (s : string) : string := replace_rounds 64 ms s s.

(** what [Context::replace_all] really runs: the same rounds, abandoned as soon as the text has
    grown past 64 KiB (a macro mentioning itself twice doubles the text at every round).
    [replace_all] above is the uncapped function the theorems are about; the two agree whenever no
    intermediate text exceeds the cap (Proofs/MacroFacts.v, [replace_all_c_small]). *)
Definition within_cap (s : string) : bool := (N.of_nat (String.length s) <=? 65536)%N.

Fixpoint replace_rounds_c (n : nat) (ms : list macro) (orig res : string) : string :=
  match n with
  | O => res
  | S k =>
      let '(res', c) := apply_all ms orig res false in
      if c then (if within_cap res' then replace_rounds_c k ms res' res' else res') else res'
  end.

Definition replace_all_c (ms : list macro) (s : string) : string := replace_rounds_c 64 ms s s.

Fixpoint get_macro (ms : list macro) (n : string) : option macro_kind :=
  match ms with
  | [] => None
  | (k, v) :: r => if String.eqb k n then Some v else get_macro r n
  end.

Definition undefine (ms : list macro) (n : string) : list macro :=
  (* removes the first entry named n (there is at most one) *)
  (fix go (l : list macro) : list macro :=
     match l with
     | [] => []
     | (k, v) :: r => if String.eqb k n then r else (k, v) :: go r
     end) ms.

(** ** #if expressions: [evaluate] / [eval_eq] / [eval_unary] / [eval_term]
    Terms are C integer constants (hexadecimal 0x.., octal 0.., decimal) that fit an i64;
    [!] is logical negation (0 or 1); [==] compares values; the condition holds when the result
    is not 0. *)
Inductive eval_res := EvOk (b : bool) (rest : string) | EvErr (msg : string).
Inductive ieval_res := IvOk (v : N) (rest : string) | IvErr (msg : string).

Definition digit_val (a : ascii) : option N :=
  let n := N_of_ascii a in
  if (48 <=? n)%N && (n <=? 57)%N then Some (n - 48)%N
  else if (97 <=? n)%N && (n <=? 102)%N then Some (n - 87)%N
  else if (65 <=? n)%N && (n <=? 70)%N then Some (n - 55)%N
  else None.

Fixpoint parse_radix_aux (radix : N) (s : string) (acc : N) : option N :=
  match s with
  | EmptyString => Some acc
  | String a r =>
      match digit_val a with
      | Some d => if (d <? radix)%N then parse_radix_aux radix r (acc * radix + d)%N else None
      | None => None
      end
  end.

(** [i64::from_str_radix] / [str::parse::<i64>] on a word (no sign can occur in a word) *)
Definition parse_radix (radix : N) (s : string) : option N :=
  match s with
  | EmptyString => None
  | _ => match parse_radix_aux radix s 0 with
         | Some n => if (n <? 9223372036854775808)%N then Some n else None
         | None => None
         end
  end.

Definition parse_c_int (term : string) : option N :=
  if starts_with "0x" term || starts_with "0X" term then parse_radix 16 (string_drop 2 term)
  else if (1 <? String.length term)%nat && starts_with "0" term then parse_radix 8 (string_drop 1 term)
  else parse_radix 10 term.

Definition eval_term (e : string) : ieval_res :=
  let e := trim_start e in
  let '(term, rest) := take_word e in
  match term with
  | EmptyString => IvErr "Expected term, found nothing"
  | String a _ =>
      if is_digit a then
        match parse_c_int term with
        | Some v => IvOk v rest
        | None => IvErr "Invalid number"
        end
      else IvErr "Undefined identifier"
  end.

Definition b2n (b : bool) : N := if b then 1%N else 0%N.

(** [nots]: None = no [!] seen; Some odd = an odd number of them *)
Fixpoint eval_unary (fuel : nat) (e : string) (nots : option bool) : ieval_res :=
  match fuel with
  | O => IvErr "fuel"
  | S f =>
      let e := trim_start e in
      match e with
      | String "!"%char r =>
          eval_unary f r (match nots with None => Some true | Some odd => Some (negb odd) end)
      | _ => match eval_term e with
             | IvOk v rest =>
                 IvOk (match nots with
                       | None => v
                       | Some true => b2n (N.eqb v 0)
                       | Some false => b2n (negb (N.eqb v 0))
                       end) rest
             | err => err
             end
      end
  end.

Fixpoint eval_eq_loop (fuel : nat) (result : N) (e : string) : ieval_res :=
  match fuel with
  | O => IvErr "fuel"
  | S f =>
      let e := trim_start e in
      if starts_with "==" e then
        match eval_unary (S (String.length e)) (string_drop 2 e) None with
        | IvOk v rest => eval_eq_loop f (b2n (N.eqb result v)) rest
        | err => err
        end
      else IvOk result e
  end.

Definition evaluate (e : string) : eval_res :=
  match eval_unary (S (String.length e)) e None with
  | IvOk v rest =>
      match eval_eq_loop (S (String.length rest)) v rest with
      | IvOk r rest' =>
          if String.eqb (trim_start rest') "" then EvOk (negb (N.eqb r 0)) "" else EvErr "Expected end-of-line"
      | IvErr m => EvErr m
      end
  | IvErr m => EvErr m
  end.

(** ** the per-line scanner *)
Record scan_state := mkScan {
  sc_in_comment : bool;
  sc_next_lit : N;               (* literal_strings_number *)
  sc_lits : list string          (* literal_strings, reversed *)
}.

(** [ScanUnterminated]: a string literal opens and never closes.  The scanner does not know the
    conditional state, so it hands over what the code keeps when the line belongs to a group that
    is not selected: the uncommented text so far followed by the text before the opening quote,
    [insert_it] and the scanner state as they are at that point (the rest of the line is dropped,
    no literal is recorded, the comment flag is not touched).  [line_step] makes it an error
    when the state is Active. *)
Inductive scan_res :=
| ScanOk (out : string) (insert_it : bool) (st : scan_state)
| ScanUnterminated (out : string) (insert_it : bool) (st : scan_state).

(** find the closing quote: [s] starts just after the opening quote; returns the literal body.
    A quote closes the literal unless it is escaped: an odd number of backslashes in front of it *)
Fixpoint find_close (fuel : nat) (s : string) (acc_rev : string) : option (string * string) :=
  match fuel with
  | O => None
  | S f =>
      match split_once """" s with
      | None => None
      | Some (lft, rest) =>
          if Nat.even (trailing_backslashes lft)
          then Some (rev_string acc_rev ++ lft, rest)
          else find_close f rest (rev_string (lft ++ """") ++ acc_rev)
      end
  end.

(** "this is an #include line, its quotes are not a string literal": after the leading white
    space comes '#', and after the white space that follows it, "include" *)
Definition is_include_line (s2 : string) : bool :=
  match trim_start s2 with
  | String h r => Ascii.eqb h "#" && starts_with "include" (trim_start r)
  | EmptyString => false
  end.

Fixpoint scan_loop (fuel : nat) (asm : bool) (remaining out : string) (insert_it : bool)
         (st : scan_state) : scan_res :=
  match fuel with
  | O => ScanOk out insert_it st
  | S f =>
      if String.eqb remaining "" then ScanOk out insert_it st
      else if sc_in_comment st then
        match split_once "*/" remaining with
        | Some (_, after) =>
            let st' := mkScan false (sc_next_lit st) (sc_lits st) in
            if String.eqb after "" then scan_loop f asm after out insert_it st'
            else if String.eqb after (String (ascii_of_nat 10) "") then scan_loop f asm "" out insert_it st'
            else scan_loop f asm after out true st'
        | None => ScanOk out insert_it st
        end
      else
        let pre := before "//" remaining in
        let '(s2, tail) := match split_once "/*" pre with
                           | Some (b, t) => (b, Some t)
                           | None => (pre, None)
                           end in
        let plain :=
          let out' := out ++ s2 in
          let ins' := if String.eqb out' "" then false else insert_it in
          match tail with
          | Some _ => scan_loop f asm (string_drop (String.length s2 + 2) remaining) out' ins'
                                (mkScan true (sc_next_lit st) (sc_lits st))
          | None => ScanOk out' ins' st
          end in
        if negb (is_include_line s2) && negb asm then
          match split_once """" s2 with
          | Some (lft, _) =>
              let after_quote := string_drop (S (String.length lft)) remaining in
              match find_close (S (String.length remaining)) after_quote "" with
              | None => ScanUnterminated (out ++ lft) insert_it st
              | Some (body, rest) =>
                  scan_loop f asm rest (out ++ lft ++ "@" ++ string_of_N (sc_next_lit st) ++ "@") insert_it
                            (mkScan false (sc_next_lit st + 1) (body :: sc_lits st))
              end
          | None => plain
          end
        else plain
  end.

Definition scan_line (asm : bool) (line : string) (st : scan_state) : scan_res :=
  scan_loop (S (S (String.length line))) asm line "" (negb (sc_in_comment st)) st.

(** ** the conditional machine and the driver *)
Inductive cstate := Skip | Inactive | Active.
Definition cstate_eqb (a b : cstate) : bool :=
  match a, b with Skip, Skip | Inactive, Inactive | Active, Active => true | _, _ => false end.

Definition loc := (string * N * option (string * N))%type.   (* file, line, included_in *)

Inductive err_kind := ESyntax | ECompiler.
Record cpp_error := mkErr { er_kind : err_kind; er_file : string; er_line : N;
                            er_inc : option (string * N); er_msg : string }.

Record ctx := mkCtx {
  c_macros : list macro;
  c_scan : scan_state
}.

Record pstate := mkP {
  p_ctx : ctx;
  p_out : string;               (* output text *)
  p_map : list loc;             (* reversed *)
  p_state : cstate;
  p_stack : list cstate
}.

Inductive presult := POk (p : pstate) | PErr (e : cpp_error).

(** splits "name rest": the first word (up to the first blank or TAB) and the trimmed non-empty
    remainder *)
Definition directive_parts (substr : string) : string * option string :=
  let s := before "//" substr in
  match split_blank s with
  | Some (w, r) => let r' := trim r in (w, if String.eqb r' "" then None else Some r')
  | None => (s, None)
  end.

(** the generic dispatch (after macro replacement; [substr] starts with '#'): the directive name
    is the first character and the ASCII letters that follow it, the argument the rest of the
    text before any "//", trimmed, [None] when empty: "#if!FOO" is "#if" with argument "!FOO" *)
Fixpoint take_alpha (s : string) : string * string :=
  match s with
  | String a r => if is_alpha a then let '(w, t) := take_alpha r in (String a w, t)
                  else (EmptyString, s)
  | EmptyString => (EmptyString, EmptyString)
  end.

Definition directive_name_arg (substr : string) : string * option string :=
  let text := before "//" substr in
  match text with
  | String h r =>
      let '(w, rest) := take_alpha r in
      let a := trim rest in
      (String h w, if String.eqb a "" then None else Some a)
  | EmptyString => (EmptyString, None)
  end.

(** '#' may be followed by blanks before the directive name ("#  define", "# else"): when the
    uncommented text, after its leading white space, is '#' followed by white space, it becomes
    '#' and the rest without that white space (the white space before the '#' goes too);
    otherwise it is left as it is *)
Definition hash_blanks (out : string) : string :=
  match trim_start out with
  | String h rest =>
      if Ascii.eqb h "#" then
        let name := trim_start rest in
        if Nat.eqb (String.length name) (String.length rest) then out else String "#" name
      else out
  | EmptyString => out
  end.

(** [define_regex] on the trimmed directive argument: leftmost identifier, optional "(params)",
    optional whitespace, rest *)
Fixpoint find_ident (s : string) : option (string * string) :=
  match s with
  | EmptyString => None
  | String a r =>
      if is_alpha a || Ascii.eqb a "_" then
        let '(w, rest) := take_word s in Some (w, rest)
      else find_ident r
  end.

(** "(p1, p2)" directly after the name; [None] when there is no well-formed parameter list *)
Fixpoint parse_params (fuel : nat) (s : string) (acc : list string) : option (list string * string) :=
  match fuel with
  | O => None
  | S f =>
      match s with
      | String a r =>
          if Ascii.eqb a ")" then Some (rev acc, r)
          else if is_alpha a || Ascii.eqb a "_" then
            let '(w, rest) := take_word s in
            let rest' := trim_start rest in
            match rest' with
            | String c r' =>
                if Ascii.eqb c "," then parse_params f (trim_start r') (w :: acc)
                else if Ascii.eqb c ")" then
                  (* the last identifier must be directly followed by ")" *)
                  if String.eqb rest rest' then Some (rev (w :: acc), r') else None
                else None
            | EmptyString => None
            end
          else None
      | EmptyString => None
      end
  end.

(** the first parameter name that already occurred (each becomes a named capture group) *)
Fixpoint first_dup (seen : list string) (ps : list string) : option string :=
  match ps with
  | [] => None
  | x :: r => if existsb (String.eqb x) seen then Some x else first_dup (x :: seen) r
  end.

Definition parse_define (expr : string) : option (string * option (list string) * string) :=
  match find_ident expr with
  | None => None
  | Some (name, rest) =>
      match rest with
      | String "("%char r =>
          match parse_params (S (String.length r)) r [] with
          | Some (ps, rest') => Some (name, Some ps, trim_start rest')
          | None => Some (name, None, trim_start rest)
          end
      | _ => Some (name, None, trim_start rest)
      end
  end.

(** parameters become $name in the body; "##" disappears *)
Fixpoint remove_hashhash (fuel : nat) (s : string) : string :=
  match fuel with
  | O => s
  | S f =>
      match s with
      | String "#"%char (String "#"%char r) => remove_hashhash f r
      | String a r => String a (remove_hashhash f r)
      | EmptyString => EmptyString
      end
  end.

Definition templatize (ps : list string) (body : string) : string :=
  let t := fold_left (fun v p => fst (replace_word p ("$" ++ p) v)) ps body in
  remove_hashhash (S (String.length t)) t.

Definition files := list (string * list string).    (* include name -> physical lines *)

Fixpoint find_file (fs : files) (n : string) : option (list string) :=
  match fs with
  | [] => None
  | (k, v) :: r => if String.eqb k n then Some v else find_file r n
  end.

Definition nl : string := String (ascii_of_nat 10) "".
Definition cr : string := String (ascii_of_nat 13) "".

(** splice handling: join following physical lines while the buffer ends in backslash-newline.
    Returns the logical line, the number of physical lines consumed beyond the first, the rest. *)
Fixpoint splice (fuel : nat) (buf : string) (rest : list string) (extra : N) : string * N * list string :=
  match fuel with
  | O => (buf, extra, rest)
  | S f =>
      let crlf := ends_with ("\" ++ cr ++ nl) buf in
      if ends_with ("\" ++ nl) buf || crlf then
        let stripped := string_take (String.length buf - (if crlf then 3 else 2)) buf in
        match rest with
        | l :: r => splice f (stripped ++ l) r (extra + 1)%N
        | [] => (stripped, extra, [])
        end
      else (buf, extra, rest)
  end.

Definition is_asm_file (n : string) : bool :=
  ends_with ".inc" n || ends_with ".a" n || ends_with ".asm" n.

Definition err (k : err_kind) (file : string) (line : N) (inc : option (string * N)) (m : string) : presult :=
  PErr (mkErr k file line inc m).

Definition emit (p : pstate) (l : loc) (text : string) : pstate :=
  mkP (p_ctx p) (p_out p ++ text) (l :: p_map p) (p_state p) (p_stack p).

Definition set_state (p : pstate) (s : cstate) (stk : list cstate) : pstate :=
  mkP (p_ctx p) (p_out p) (p_map p) s stk.

Definition set_macros (p : pstate) (ms : list macro) : pstate :=
  mkP (mkCtx ms (c_scan (p_ctx p))) (p_out p) (p_map p) (p_state p) (p_stack p).

Definition set_scan (p : pstate) (sc : scan_state) : pstate :=
  mkP (mkCtx (c_macros (p_ctx p)) sc) (p_out p) (p_map p) (p_state p) (p_stack p).

(** one logical line (after splicing), once the scanner has produced the uncommented text [out],
    the flag [insert_it] and its new state [sc]: directive handling or emission.
    [rec] processes an included file. *)
Definition line_body (rec : string -> option (string * N) -> bool -> list string -> pstate -> presult)
           (fs : files) (fname : string) (inc : option (string * N))
           (p : pstate) (line : N) (buf : string)
           (out : string) (insert_it : bool) (sc : scan_state) : presult :=
  let has_lf := ends_with nl buf in
      let p := set_scan p sc in
      if negb insert_it then POk p else
      let out := hash_blanks out in
      let substr := trim out in
      let here := (fname, line, inc) in
      let st := p_state p in
      let ms := c_macros (p_ctx p) in
      if starts_with "#ifdef" substr then
        match snd (directive_parts substr) with
        | None => err ESyntax fname line inc "Expected something after `#ifdef`"
        | Some e =>
            let st' := if cstate_eqb st Active
                       then (match get_macro ms e with None => Inactive | Some _ => Active end)
                       else Skip in
            POk (set_state p st' (st :: p_stack p))
        end
      else if starts_with "#ifndef" substr then
        match snd (directive_parts substr) with
        | None => err ESyntax fname line inc "Expected something after `#ifndef`"
        | Some e =>
            let st' := if cstate_eqb st Active
                       then (match get_macro ms e with Some _ => Inactive | None => Active end)
                       else Skip in
            POk (set_state p st' (st :: p_stack p))
        end
      else if starts_with "#undef" substr then
        if cstate_eqb st Active then
          match snd (directive_parts substr) with
          | None => err ESyntax fname line inc "Expected something after `#undef`"
          | Some e =>
              match get_macro ms e with
              | Some _ => POk (set_macros p (undefine ms e))
              | None => POk p
              end
          end
        else POk p
      else if starts_with "#define" substr then
        if cstate_eqb st Active then
          match snd (directive_parts substr) with
          | None => err ESyntax fname line inc "Expected macro after `#define`"
          | Some e =>
              match parse_define e with
              | None => err ESyntax fname line inc "Expected macro name after `#define`"
              | Some (name, params, body) =>
                  match get_macro ms name with
                  | Some _ => err ESyntax fname line inc ("Macro " ++ name ++ " already defined")
                  | None =>
                      match match params with Some ps => first_dup [] ps | None => None end with
                      | Some d => err ESyntax fname line inc ("Duplicate macro parameter " ++ d)
                      | None =>
                      let value := replace_all_c ms body in
                      let m := match params with
                               | None => (name, MObj value)
                               | Some ps => (name, MFun ps (templatize ps value))
                               end in
                      POk (set_macros p (ms ++ [m])%list)
                      end
                  end
              end
          end
        else POk p
      else
        let new_line := replace_all_c ms out in
        let substr := trim new_line in
        if starts_with "#" substr then
          let '(name, arg) := directive_name_arg substr in
          if String.eqb name "#include" then
            if cstate_eqb st Active then
              match arg with
              | None => err ESyntax fname line inc "Expected filename after `#include`"
              | Some e =>
                  let close := match e with
                               | String "<"%char _ => Some ">"
                               | String """"%char _ => Some """"
                               | _ => None
                               end in
                  match close with
                  | None => err ESyntax fname line inc "Expected < or "" in #include filename spec"
                  | Some c =>
                      match split_once c (string_drop 1 e) with
                      | None => err ESyntax fname line inc "Missing end separator in #include fname"
                      | Some (iname, _) =>
                          match find_file fs iname with
                          | None => err ESyntax fname line inc ("Included file " ++ iname ++ " not found")
                          | Some ilines =>
                              let a := is_asm_file iname in
                              let p1 := if a
                                        then emit (emit p here ("=== ASSEMBLER BEGIN ===" ++ nl)) here
                                                  ("; file: " ++ iname ++ nl)
                                        else p in
                              match rec iname (Some (fname, line)) a ilines p1 with
                              | PErr e => PErr e
                              | POk p2 =>
                                  (* back in this file: our own conditional state, comment flag *)
                                  let p3 := mkP (mkCtx (c_macros (p_ctx p2))
                                                       (mkScan (sc_in_comment (c_scan (p_ctx p1)))
                                                               (sc_next_lit (c_scan (p_ctx p2)))
                                                               (sc_lits (c_scan (p_ctx p2)))))
                                                (p_out p2) (p_map p2) st (p_stack p) in
                                  let p4 := if a then emit p3 here ("==== ASSEMBLER END ====" ++ nl) else p3 in
                                  POk p4
                              end
                          end
                      end
                  end
              end
            else POk p
          else if String.eqb name "#if" then
            (* the expression is only looked at when it decides something *)
            if cstate_eqb st Active then
              match arg with
              | None => err ESyntax fname line inc "Expected expression after `#if`"
              | Some e =>
                  match evaluate e with
                  | EvOk b _ => POk (set_state p (if b then Active else Inactive) (st :: p_stack p))
                  | EvErr m => err ESyntax fname line inc m
                  end
              end
            else POk (set_state p Skip (st :: p_stack p))
          else if String.eqb name "#elif" then
            if cstate_eqb st Inactive then
              match arg with
              | None => err ESyntax fname line inc "Expected expression after `#elif`"
              | Some e =>
                  match evaluate e with
                  | EvOk b _ => POk (set_state p (if b then Active else Inactive) (p_stack p))
                  | EvErr m => err ESyntax fname line inc m
                  end
              end
            else POk (set_state p Skip (p_stack p))
          else if String.eqb name "#else" then
            match arg with
            | Some _ => err ESyntax fname line inc "Unexpected expression after `#else`"
            | None =>
                POk (set_state p (if cstate_eqb st Inactive then Active else Skip) (p_stack p))
            end
          else if String.eqb name "#endif" then
            match arg with
            | Some _ => err ESyntax fname line inc "Unexpected expression after `#else`"
            | None =>
                match p_stack p with
                | s0 :: stk => POk (set_state p s0 stk)
                | [] => err ESyntax fname line inc "Unexpected `#endif` with no matching `#if`"
                end
            end
          else if String.eqb name "#error" then
            if cstate_eqb st Active then
              match arg with
              | None => err ESyntax fname line inc "Expected error text after `#error`"
              | Some e => err ECompiler fname line inc e
              end
            else POk p
          else
            (* directives of other compilers may sit in groups that are not selected *)
            if cstate_eqb st Active
            then err ESyntax fname line inc "Unrecognised preprocessor directive"
            else POk p
        else if cstate_eqb st Active then
          let included := match inc with Some _ => true | None => false end in
          let text := if negb (ends_with nl new_line) && (has_lf || included) then new_line ++ nl else new_line in
          POk (emit p here text)
        else POk p.

(** one logical line (after splicing): the scanner, then [line_body].  An unterminated string
    literal is an error only in selected text (state Active); in a group that is not selected
    the line goes on with the text that precedes the opening quote (a directive at its start
    still counts). *)
Definition line_step (rec : string -> option (string * N) -> bool -> list string -> pstate -> presult)
           (fs : files) (fname : string) (inc : option (string * N)) (asm : bool)
           (p : pstate) (line : N) (buf : string) : presult :=
  match scan_line asm buf (c_scan (p_ctx p)) with
  | ScanOk out insert_it sc => line_body rec fs fname inc p line buf out insert_it sc
  | ScanUnterminated out insert_it sc =>
      if cstate_eqb (p_state p) Active
      then err ESyntax fname line inc "Unterminated string"
      else line_body rec fs fname inc p line buf out insert_it sc
  end.

(** the lines of one file *)
Fixpoint go (rec : string -> option (string * N) -> bool -> list string -> pstate -> presult)
         (fs : files) (fname : string) (inc : option (string * N)) (asm : bool)
         (fuel : nat) (ls : list string) (line : N) (p : pstate) {struct fuel} : presult :=
  match fuel with
  | O => POk p
  | S fu =>
      match ls with
      | [] => POk p
      | l0 :: rest0 =>
          let '(buf, extra, rest) := splice (S (List.length rest0)) l0 rest0 0%N in
          let line := (line + 1 + extra)%N in
          match line_step rec fs fname inc asm p line buf with
          | POk p' => go rec fs fname inc asm fu rest line p'
          | PErr e => PErr e
          end
      end
  end.

(** the conditional state and stack are local to a file; the comment flag too *)
Definition file_start (p0 : pstate) : pstate :=
  mkP (mkCtx (c_macros (p_ctx p0))
             (mkScan false (sc_next_lit (c_scan (p_ctx p0))) (sc_lits (c_scan (p_ctx p0)))))
      (p_out p0) (p_map p0) Active [].

(** [process] on one file.  [depth] bounds the include nesting. *)
Fixpoint process (depth : nat) (fs : files) (fname : string) (inc : option (string * N))
         (asm : bool) (lines : list string) (p0 : pstate) {struct depth} : presult :=
  match depth with
  | O => err ESyntax fname 0 inc "include depth"
  | S d => go (process d fs) fs fname inc asm (S (List.length lines)) lines 0%N (file_start p0)
  end.

Definition init_ctx (defs : list (string * string)) : ctx :=
  mkCtx (map (fun d => (fst d, MObj (snd d))) defs) (mkScan false 0 []).

Definition run_cpp (fs : files) (fname : string) (defs : list (string * string)) (lines : list string) : presult :=
  process 8 fs fname None false lines (mkP (init_ctx defs) "" [] Active []).
