(** C11 — comments, layout and listing options never affect behaviour.  Statements only (general
    scanner theorems: Proofs/ScanFacts.v when present). *)
From Coq Require Import String Ascii List Bool NArith.
From CC Require Import Base.Str Asm.Lines Model.Cpp Model.Optimize Model.OptSpec Proofs.OptFacts.
Import ListNotations.
Open Scope string_scope.

(** comment lines (the listing of --insert-code) are never changed or moved by the optimiser *)
Theorem C11_optimize_keeps_comments : forall (c : code) (k : nat) (t : string),
  nth_error c k = Some (Cmt t) -> nth_error (fst (optimize c)) k = Some (Cmt t).
Proof. intros c k t H. apply optimize_noninstr_fixed; [exact H | reflexivity]. Qed.

(** comments of several shapes, a splice and CR-LF around the same tokens *)
Theorem C11_example_layout :
  match run_cpp [] "m.c" [] ["char /* c ""q"" */ a; // tail /* x" ++ nl; "char \" ++ nl; "b; /* open" ++ nl; "still */ char c;" ++ cr ++ nl] with
  | POk p => p_out p = "char  a; " ++ nl ++ "char b; " ++ nl ++ " char c;" ++ cr ++ nl
  | PErr _ => False
  end.
Proof. vm_compute. reflexivity. Qed.

(** the repaired defect: a // inside a block comment cuts nothing; the comment is removed and the
    declaration after it survives *)
Theorem C11_block_comment_slashes_fixed :
  scan_line false ("/* see http://x.org */ char a;" ++ nl) (mkScan false 0 [])
  = ScanOk (" char a;" ++ nl) true (mkScan false 0 []).
Proof. vm_compute. reflexivity. Qed.

From CC Require Import Model.ScanSpec Proofs.ScanFacts.

(** a // comment runs to the end of its line whatever it contains *)
Theorem C11_line_comment_dropped : forall asm pre cmt st,
  sc_in_comment st = false -> no_markers pre -> pre <> "" ->
  forall no_trailing_slash : ends_with "/" pre = false,
  scan_line asm (pre ++ "//" ++ cmt) st = ScanOk pre true st.
Proof. exact line_comment_dropped. Qed.

(** a block comment ends at its first */ and is removed, whatever it contains (// included) *)
Theorem C11_block_comment_removed : forall asm pre body post st,
  sc_in_comment st = false -> no_markers pre ->
  forall no_trailing_slash : ends_with "/" pre = false,
  contains "*/" body = false ->
  contains """" post = false -> contains "//" post = false -> contains "/*" post = false ->
  post <> "" -> post <> nl ->
  scan_line asm (pre ++ "/*" ++ body ++ "*/" ++ post) st = ScanOk (pre ++ post) true st.
Proof. exact scan_line_block_comment. Qed.

(** ... also when a // comment follows it on the line *)
Theorem C11_block_then_line_comment : forall asm pre body mid cmt st,
  sc_in_comment st = false -> no_markers pre ->
  forall no_trailing_slash : ends_with "/" pre = false,
  contains "*/" body = false ->
  contains """" mid = false -> contains "//" mid = false -> contains "/*" mid = false ->
  forall mid_no_trailing_slash : ends_with "/" mid = false,
  mid <> "" ->
  scan_line asm (pre ++ "/*" ++ body ++ "*/" ++ mid ++ "//" ++ cmt) st = ScanOk (pre ++ mid) true st.
Proof. exact scan_line_block_then_line_comment. Qed.

(** a comment spanning lines: opened on one line ... *)
Theorem C11_comment_open : forall asm a c st,
  sc_in_comment st = false -> no_markers a ->
  forall no_trailing_slash : ends_with "/" a = false,
  contains "*/" c = false ->
  scan_line asm (a ++ "/*" ++ c) st
  = ScanOk a (negb (String.eqb a "")) (mkScan true (sc_next_lit st) (sc_lits st)).
Proof. exact comment_spans_lines_open. Qed.

(** ... lines inside it vanish ... *)
Theorem C11_comment_inside : forall asm c st,
  sc_in_comment st = true -> contains "*/" c = false -> scan_line asm c st = ScanOk "" false st.
Proof. exact comment_line_inside. Qed.

(** ... and it is closed at the first */ of a later line *)
Theorem C11_comment_close : forall asm c d st,
  sc_in_comment st = true -> contains "*/" c = false ->
  contains """" d = false -> contains "//" d = false -> contains "/*" d = false ->
  d <> "" -> d <> nl ->
  scan_line asm (c ++ "*/" ++ d) st = ScanOk d true (mkScan false (sc_next_lit st) (sc_lits st)).
Proof. exact comment_spans_lines_close. Qed.

(** backslash-newline joins physical lines *)
Theorem C11_splice_joins : forall fuel a l rest,
  forall joined_ends_plain : ends_with ("\" ++ nl) (a ++ l) = false,
  forall joined_ends_plain_crlf : ends_with ("\" ++ cr ++ nl) (a ++ l) = false,
  splice (S (S fuel)) (a ++ "\" ++ nl) (l :: rest) 0%N = (a ++ l, 1%N, rest).
Proof. exact splice_joins. Qed.

(** a TAB after the directive word is as good as a blank (repaired defect: "#ifdef<TAB>FOO" was
    the word "#ifdef<TAB>FOO" without argument) *)
Theorem C11_directive_parts_blank_or_tab : forall w c z,
  split_blank w = None -> is_blank_or_tab c = true ->
  contains "//" (w ++ String c z) = false ->
  directive_parts (w ++ String c z) = (w, if String.eqb (trim z) "" then None else Some (trim z)).
Proof. exact directive_parts_blank_or_tab. Qed.

Theorem C11_directive_parts_tab_like_blank : forall w z,
  split_blank w = None ->
  contains "//" (w ++ TAB ++ z) = false -> contains "//" (w ++ " " ++ z) = false ->
  directive_parts (w ++ TAB ++ z) = directive_parts (w ++ " " ++ z).
Proof. exact directive_parts_tab_like_blank. Qed.

Example C11_ifdef_tab_example :
  match run_cpp [] "m.c" [("FOO", "1")] ["#ifdef" ++ TAB ++ "FOO" ++ nl; "x" ++ nl; "#else" ++ nl; "y" ++ nl; "#endif" ++ nl] with
  | POk p => p_out p = "x" ++ nl
  | PErr _ => False
  end
  /\ run_cpp [] "m.c" [] ["#ifdef" ++ TAB ++ "FOO" ++ nl; "x" ++ nl; "#else" ++ nl; "y" ++ nl; "#endif" ++ nl]
     = run_cpp [] "m.c" [] ["#ifdef FOO" ++ nl; "x" ++ nl; "#else" ++ nl; "y" ++ nl; "#endif" ++ nl].
Proof. vm_compute. split; reflexivity. Qed.

(** an #include line keeps its quotes whatever white space precedes the directive (repaired
    defect: with leading blanks the file name was taken for a string literal) *)
Theorem C11_include_line_not_scanned : forall asm l st,
  sc_in_comment st = false ->
  starts_with "#include" (trim_start l) = true ->
  contains "//" l = false -> contains "/*" l = false ->
  scan_line asm l st = ScanOk l true st.
Proof. exact include_line_not_scanned. Qed.

Example C11_include_leading_blanks_example :
  match run_cpp [("f.h", ["int x;" ++ nl])] "m.c" [] ["   #include ""f.h""" ++ nl; "int y;" ++ nl] with
  | POk p => p_out p = "int x;" ++ nl ++ "int y;" ++ nl /\ c_scan (p_ctx p) = mkScan false 0 []
  | PErr _ => False
  end.
Proof. vm_compute. split; reflexivity. Qed.

(** blanks between '#' and the directive name do not matter (repaired defect: "# define N 1" was
    an unknown directive).  On the function that handles one scanned line: *)
Theorem C11_directive_blank_after_hash : forall rec fs fname inc p line buf b1 b2 rest ins sc,
  trim_start b1 = "" -> trim_start b2 = "" -> b2 <> "" -> trim_start rest = rest ->
  line_body rec fs fname inc p line buf (b1 ++ "#" ++ b2 ++ rest) ins sc
  = line_body rec fs fname inc p line buf ("#" ++ rest) ins sc.
Proof. exact directive_blank_after_hash. Qed.

(** the normalisation itself: at least one blank after the '#' / none / no '#' at all *)
Theorem C11_hash_blanks_removes : forall b1 b2 rest,
  trim_start b1 = "" -> trim_start b2 = "" -> b2 <> "" -> trim_start rest = rest ->
  hash_blanks (b1 ++ "#" ++ b2 ++ rest) = "#" ++ rest.
Proof. exact hash_blanks_removes. Qed.

Theorem C11_hash_blanks_keeps : forall b1 rest,
  trim_start b1 = "" -> trim_start rest = rest ->
  hash_blanks (b1 ++ "#" ++ rest) = b1 ++ "#" ++ rest.
Proof. exact hash_blanks_keeps. Qed.

Theorem C11_hash_blanks_other : forall out,
  starts_with "#" (trim_start out) = false -> hash_blanks out = out.
Proof. exact hash_blanks_other. Qed.

Theorem C11_line_body_hash_blanks : forall rec fs fname inc p line buf out ins sc,
  line_body rec fs fname inc p line buf out ins sc
  = line_body rec fs fname inc p line buf (hash_blanks out) ins sc.
Proof. exact line_body_hash_blanks. Qed.

Example C11_define_blank_after_hash_example :
  run_cpp [] "m.c" [] ["# define N 1" ++ nl; "N" ++ nl]
  = run_cpp [] "m.c" [] ["#define N 1" ++ nl; "N" ++ nl]
  /\ match run_cpp [] "m.c" [] ["# define N 1" ++ nl; "N" ++ nl] with
     | POk p => p_out p = "1" ++ nl
     | PErr _ => False
     end.
Proof. vm_compute. split; reflexivity. Qed.

(** the name of a directive dispatched after macro replacement is '#' and the letters that
    follow it; the argument is the rest (repaired defect: "#if!FOO" was the unknown directive
    "#if!FOO") *)
Theorem C11_directive_name_arg_letters : forall h w rest,
  take_alpha w = (w, "") -> fst (take_alpha rest) = "" ->
  contains "//" (String h (w ++ rest)) = false ->
  directive_name_arg (String h (w ++ rest))
  = (String h w, if String.eqb (trim rest) "" then None else Some (trim rest)).
Proof. exact directive_name_arg_letters. Qed.

Example C11_directive_name_arg_examples :
  directive_name_arg "#if!FOO" = ("#if", Some "!FOO")
  /\ directive_name_arg "#if(A) // c" = ("#if", Some "(A)")
  /\ directive_name_arg "#include""f.h""" = ("#include", Some """f.h""").
Proof. vm_compute. repeat split. Qed.

(** an #include line keeps its quotes whatever white space surrounds the '#' *)
Theorem C11_include_line_not_scanned_gen : forall asm l st,
  sc_in_comment st = false ->
  is_include_line l = true ->
  contains "//" l = false -> contains "/*" l = false ->
  scan_line asm l st = ScanOk l true st.
Proof. exact include_line_not_scanned_gen. Qed.

Example C11_include_blank_after_hash_example :
  match run_cpp [("f.h", ["int x;" ++ nl])] "m.c" [] ["  #  include ""f.h""" ++ nl; "int y;" ++ nl] with
  | POk p => p_out p = "int x;" ++ nl ++ "int y;" ++ nl /\ c_scan (p_ctx p) = mkScan false 0 []
  | PErr _ => False
  end.
Proof. vm_compute. split; reflexivity. Qed.
