(** Spec-side definitions for property C08 (macro replacement).

    The reference semantics of macro replacement is stated on TOKENS: the text is cut into
    maximal runs of word characters [A-Za-z0-9_] (identifier tokens) and single non-word
    characters; an object-like macro replaces exactly the tokens equal to its name.
    Nothing here refers to the scanning functions of [Model/Cpp.v] (only to the character
    class [is_word] and to the data type of macros). *)
From Coq Require Import String Ascii List Bool Arith.
From CC Require Import Base.Str Model.Cpp.
Import ListNotations.
Open Scope list_scope.
Open Scope string_scope.

(** ** tokenisation *)

(** the maximal prefix of word characters, and what follows it *)
Fixpoint word_prefix (s : string) : string :=
  match s with
  | String a r => if is_word a then String a (word_prefix r) else EmptyString
  | EmptyString => EmptyString
  end.

Fixpoint word_suffix (s : string) : string :=
  match s with
  | String a r => if is_word a then word_suffix r else s
  | EmptyString => EmptyString
  end.

(** maximal runs of word characters are identifier tokens; every other character is a token by
    itself.  [fuel] bounds the number of tokens. *)
Fixpoint tokens_aux (fuel : nat) (s : string) : list string :=
  match fuel with
  | O => []
  | S f =>
      match s with
      | EmptyString => []
      | String a r =>
          if is_word a then word_prefix s :: tokens_aux f (word_suffix s)
          else String a EmptyString :: tokens_aux f r
      end
  end.

Definition tokens (s : string) : list string := tokens_aux (String.length s) s.

Fixpoint all_word (s : string) : bool :=
  match s with
  | EmptyString => true
  | String a r => is_word a && all_word r
  end.

(** a non-empty string of word characters (what a macro name or parameter name is) *)
Definition wordy (n : string) : Prop := n <> EmptyString /\ all_word n = true.

(** ** reference semantics of object-like macros *)

(** token-wise substitution by an arbitrary token map *)
Definition tsubst (F : string -> string) (s : string) : string :=
  String.concat "" (map F (tokens s)).

(** one macro: replace exactly the tokens equal to the name *)
Definition subst_tokens (name value : string) (s : string) : string :=
  String.concat "" (map (fun t => if String.eqb t name then value else t) (tokens s)).

(** several macros, simultaneously: the first entry whose name is the token *)
Definition subst_many (ms : list (string * string)) (t : string) : string :=
  match find (fun nv => String.eqb (fst nv) t) ms with
  | Some nv => snd nv
  | None => t
  end.

(** chains of object-like macros (values that mention other macros): the full recursive
    expansion of a token.  A macro name becomes its value with every token of the value expanded
    in turn; [fuel] bounds the depth of the recursion (for acyclic macro sets of depth below the
    fuel the result does not depend on it: [expand_tok_fuel] in Proofs/MacroFacts.v). *)
Fixpoint expand_tok (fuel : nat) (ms : list (string * string)) (t : string) : string :=
  match fuel with
  | O => t
  | S f =>
      match find (fun nv => String.eqb (fst nv) t) ms with
      | Some nv => tsubst (expand_tok f ms) (snd nv)
      | None => t
      end
  end.

(** decidable form of the hypotheses of the chain theorem: distinct wordy names, and a rank
    below 64 that strictly decreases from a macro to every macro name its value mentions *)
Definition wordy_b (n : string) : bool := negb (String.eqb n EmptyString) && all_word n.

Fixpoint nodup_b (l : list string) : bool :=
  match l with
  | [] => true
  | x :: r => negb (existsb (String.eqb x) r) && nodup_b r
  end.

Definition chain_ok_b (rank : string -> nat) (ms : list (string * string)) : bool :=
  nodup_b (map fst ms)
  && forallb (fun nv =>
       wordy_b (fst nv) && Nat.ltb (rank (fst nv)) 64
       && forallb (fun t => negb (existsb (String.eqb t) (map fst ms))
                            || Nat.ltb (rank t) (rank (fst nv)))
                  (tokens (snd nv))) ms.

(** ** function-like macros: shapes of arguments *)

Fixpoint no_special (a : string) : bool :=
  match a with
  | EmptyString => true
  | String c r => negb (special c) && no_special r
  end.

(** no character of [a] is ',' '(' ')' *)
Definition simple_arg (a : string) : Prop := no_special a = true.

(** [nest d s]: [s] has balanced parentheses nested at most [d] deep (commas allowed anywhere) *)
Inductive nest : nat -> string -> Prop :=
| nest_nil : forall d, nest d EmptyString
| nest_char : forall d a s, paren a = false -> nest d s -> nest d (String a s)
| nest_group : forall d g s, nest d g -> nest (S d) s -> nest (S d) ("(" ++ g ++ ")" ++ s).

(** a macro argument the capture accepts: non-special characters and top-level groups whose
    inside nests at most three deep (four levels of parentheses in total) *)
Inductive arg_ok : string -> Prop :=
| arg_nil : arg_ok EmptyString
| arg_char : forall a s, special a = false -> arg_ok s -> arg_ok (String a s)
| arg_group : forall g s, nest 3 g -> arg_ok s -> arg_ok ("(" ++ g ++ ")" ++ s).

(** position of a parameter in the parameter list *)
Fixpoint index_of (p : string) (ps : list string) : nat :=
  match ps with
  | [] => 0
  | q :: r => if String.eqb q p then 0 else S (index_of p r)
  end.

(** output text of a preprocessor run ([None] on error) *)
Definition cpp_output (r : presult) : option string :=
  match r with
  | POk p => Some (p_out p)
  | PErr _ => None
  end.
