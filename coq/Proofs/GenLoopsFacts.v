(** Correctness of the loop templates of the code generator (Model/GenLoops.v) on the executable
    6502 semantics (M6502/Sem.v): the sequences contain BACKWARD branches; each theorem is about
    [Sem.run] on the whole sequence, for ALL initial states, and is proved by induction on the
    number of iterations that remain.

    Infrastructure.  [stepn] / [reach] (Proofs/GenCmp16Facts.v) execute any branch, forward or
    backward, and agree with [Sem.run] ([stepn_run]).  Added here:
      [reach_seq]       composition: a run to an intermediate point, then a run from there
      [loop_rule]       THE GENERAL LEMMA: total correctness of code with a loop head.  If from
                        every state satisfying the invariant with measure [k] one pass from the
                        head either comes back to the head in a state satisfying the invariant
                        with a measure [0 <= k' < k], or arrives at the exit in a state satisfying
                        the postcondition, then from every state satisfying the invariant the code
                        arrives at the exit in a state satisfying the postcondition
      [loop_rule_run]   the same, stated on [Sem.run]
      [halts_to]        [c] assembles and [Sem.run] executes it from [st] (empty call stack, any
                        program around it, any fuel above some bound) to a normal halt in [st']:
                        [runs_to] without the bound "its length" on the fuel, which a loop exceeds
      [halts_to_reach], [halts_to_bytes_ok], [halts_to_det], [runs_to_halts_to]

    Shape of the theorems [X_correct] (on the code with the compiler's labels, [ltemplate]) and
    [X_code_correct] (for any labels that are non-empty and distinct where it matters):

      forall cfg names label-number addresses st,
        ports cfg = [] -> var_name v ... -> layout cfg v = Some pv ... -> 0 <= pv < 65536 ... ->
        <the variables of the loop are different cells> -> bytes_ok st ->
        exists st', halts_to cfg (ltemplate X) st st'      (no fault, halts past the end label)
          /\ <the variables hold what C says, as closed forms in the initial values>
          /\ only_changes [cells written] st st'           (every other memory cell unchanged)
          /\ keeps_xys st st'                              (X, Y, S unchanged; for the loops on a
                                                            register: the other register and S)

    The theorems (all eight listings; nothing is refuted):
      [do_dec_correct]       do { a++; i--; } while (i != 0);   i' = 0, a' = a + (i = 0 ? 256 : i)
      [do_x_correct]         do { a += c; X--; } while (X);     X' = 0, a' = a + (X = 0 ? 256 : X) * c
      [for_ne_correct]       for (i = 0; i != b; i++) a++;      i' = b, a' = a + b
      [while_ne_correct]     while (i != b) { a++; i++; }       i' = b, a' = a + (b - i) mod 256
      [for_x_down_correct]   for (X = b; X != 0; X--) a += c;   X' = 0, a' = a + b * c
      [for_y_up_correct]     for (Y = 0; Y != k; Y++) a++;      Y' = k, a' = a + k   (0 <= k < 256;
                             [for_y_4_correct] is the listing's k = 4)
      [for_lt_cont_correct]  for (i = 0; i < b; i++) { if (a == c) continue; a++; }
                             i' = b, a' = a + min b ((c - a) mod 256)
      [while_brk_correct]    while (i) { i--; if (i == b) break; a++; }
                             b < i: i' = b, a' = a + i - 1 - b;  otherwise i' = 0, a' = a + i
    (all sums mod 256).  For the [continue] and [break] loops the C meaning is also given as a
    Gallina function iterating the C body ([cont_iter], [brk_loop]); the closed forms are proved
    equal to them ([cont_iter_closed], [brk_loop_closed]; [for_lt_cont_iter], [while_brk_iter]).
    At the end: the instances on the listing's own names with a concrete layout, and five plain
    computations with [Sem.run]. *)
From Coq Require Import String Ascii List Bool Arith NArith ZArith Lia ZifyBool.
From CC Require Import Base.Str Asm.Lines M6502.Isa Asm.Operand M6502.Sem
  Model.OptSem Proofs.OptSemFacts Model.GenTemplates Proofs.GenTemplatesFacts
  Proofs.GenCmp16Facts Model.GenLoops.
Import ListNotations.
Open Scope string_scope.
Open Scope list_scope.
Open Scope Z_scope.

Ltac Zify.zify_post_hook ::= Z.div_mod_to_equations.

(** * Composition of runs *)

Lemma stepn_add : forall cfg c n1 n2 pc s pc1 s1,
  stepn cfg c n1 pc s = Some (pc1, s1) ->
  stepn cfg c (n1 + n2) pc s = stepn cfg c n2 pc1 s1.
Proof.
  intros cfg c. induction n1 as [|n1 IH]; intros n2 pc s pc1 s1 H.
  - cbn [stepn] in H. inversion H; subst. reflexivity.
  - cbn [stepn Nat.add] in *.
    destruct (nth_error c pc) as [[l|m o p raw|t|]|]; try discriminate H.
    + apply IH; exact H.
    + destruct (exec cfg m o s) as [s2 k fl|why]; [|discriminate H].
      destruct fl as [|l|f| |]; try discriminate H.
      * apply IH; exact H.
      * destruct (find_label l c 0) as [k'|]; [|discriminate H]. apply IH; exact H.
    + apply IH; exact H.
Qed.

Lemma reach_seq : forall cfg c pc s (Q : nat -> nat -> mstate -> Prop),
  reach cfg c pc s (fun n1 pc1 s1 => reach cfg c pc1 s1 (fun n2 => Q (n1 + n2)%nat)) ->
  reach cfg c pc s Q.
Proof.
  intros cfg c pc s Q (n1 & pc1 & s1 & H1 & (n2 & pc2 & s2 & H2 & HQ)).
  exists (n1 + n2)%nat, pc2, s2. split; [|exact HQ].
  rewrite (stepn_add cfg c n1 n2 pc s pc1 s1 H1). exact H2.
Qed.

Lemma reach_weaken : forall cfg c pc s (Q Q' : nat -> nat -> mstate -> Prop),
  (forall n pc' s', Q n pc' s' -> Q' n pc' s') -> reach cfg c pc s Q -> reach cfg c pc s Q'.
Proof.
  intros cfg c pc s Q Q' HQ (n & pc' & s' & H & Hq). exists n, pc', s'. split; [exact H|].
  apply HQ. exact Hq.
Qed.

(** * The general lemma: a loop head, a measure that decreases at each pass *)

Theorem loop_rule : forall cfg (c : list sline) (head exit : nat)
    (Inv : Z -> mstate -> Prop) (Post : mstate -> Prop),
  (forall k s, Inv k s ->
     reach cfg c head s (fun (_ pc' : nat) (s' : mstate) =>
       (pc' = head /\ exists k', 0 <= k' < k /\ Inv k' s') \/ (pc' = exit /\ Post s'))) ->
  forall k s, Inv k s ->
    reach cfg c head s (fun (_ pc' : nat) (s' : mstate) => pc' = exit /\ Post s').
Proof.
  intros cfg c head exit Inv Post Hpass.
  assert (H : forall (m : nat) k s, k < Z.of_nat m -> Inv k s ->
            reach cfg c head s (fun (_ pc' : nat) (s' : mstate) => pc' = exit /\ Post s')).
  { induction m as [|m IH]; intros k s Hk Hinv.
    - apply reach_seq.
      eapply reach_weaken; [|apply (Hpass k s Hinv)].
      intros n pc' s' [[_ (k' & Hk' & _)]|[Hpc Hpost]]; [lia|].
      apply reach_stop. split; assumption.
    - apply reach_seq.
      eapply reach_weaken; [|apply (Hpass k s Hinv)].
      intros n pc' s' [[Hpc (k' & Hk' & Hinv')]|[Hpc Hpost]].
      + subst pc'. apply (IH k' s'); [lia|exact Hinv'].
      + apply reach_stop. split; assumption. }
  intros k s Hinv. apply (H (Z.to_nat (k + 1) + 1)%nat k s); [lia|exact Hinv].
Qed.
Print Assumptions loop_rule.

(** the same on [Sem.run]: started at the head with enough fuel, [run] gets to the exit line with
    an empty call stack in a state satisfying the postcondition *)
Theorem loop_rule_run : forall cfg (c : list sline) (head exit : nat)
    (Inv : Z -> mstate -> Prop) (Post : mstate -> Prop),
  (forall k s, Inv k s ->
     reach cfg c head s (fun (_ pc' : nat) (s' : mstate) =>
       (pc' = head /\ exists k', 0 <= k' < k /\ Inv k' s') \/ (pc' = exit /\ Post s'))) ->
  forall k s, Inv k s ->
    exists (N : nat) (s' : mstate), Post s' /\
      forall prog inl_sem ext_call fuel fname tr cy, exists tr' cy',
        Sem.run cfg prog inl_sem ext_call (N + fuel) fname c head [] s tr cy
        = Sem.run cfg prog inl_sem ext_call fuel fname c exit [] s' tr' cy'.
Proof.
  intros cfg c head exit Inv Post Hpass k s Hinv.
  destruct (loop_rule cfg c head exit Inv Post Hpass k s Hinv) as (n & pc' & s' & Hs & Hpc & HP).
  subst pc'. exists n, s'. split; [exact HP|].
  intros prog inl_sem ext_call fuel fname tr cy.
  apply (stepn_run cfg c n head s exit s' Hs).
Qed.
Print Assumptions loop_rule_run.

(** * Terminating runs of a whole sequence *)

(** [c] assembles, and [Sem.run] executes it from [st] (empty call stack, any program around it,
    any fuel above some bound) to a normal halt in [st'] *)
Definition halts_to (cfg : config) (c : code) (st st' : mstate) : Prop :=
  exists sl, slines_of c = Some sl /\ exists N : nat,
    forall prog inl_sem ext_call fname fuel, (N < fuel)%nat ->
      exists tr cy, Sem.run cfg prog inl_sem ext_call fuel fname sl 0 [] st [] 0%N = Halt st' tr cy.

Lemma runs_to_halts_to : forall cfg c st st', runs_to cfg c st st' -> halts_to cfg c st st'.
Proof.
  intros cfg c st st' (sl & Hsl & H). exists sl. split; [exact Hsl|]. exists (length sl). exact H.
Qed.
Print Assumptions runs_to_halts_to.

Lemma halts_to_reach : forall cfg c sl st (P : mstate -> Prop),
  slines_of c = Some sl ->
  reach cfg sl 0 st (fun (_ pc' : nat) (s' : mstate) => pc' = length sl /\ P s') ->
  exists st', halts_to cfg c st st' /\ P st'.
Proof.
  intros cfg c sl st P Hsl (n & pc' & s' & Hs & Hpc & HP). subst pc'.
  exists s'. split; [|exact HP]. exists sl. split; [exact Hsl|]. exists n.
  intros prog inl_sem ext_call fname fuel Hf.
  destruct (stepn_run cfg sl n 0 st _ s' Hs prog inl_sem ext_call (fuel - n)%nat fname [] 0%N)
    as (tr' & cy' & Hr).
  replace fuel with (n + (fuel - n))%nat by lia. rewrite Hr.
  destruct (fuel - n)%nat as [|f] eqn:Ef; [lia|].
  rewrite run_S. rewrite (proj2 (nth_error_None sl (length sl))) by lia. eauto.
Qed.
Print Assumptions halts_to_reach.

(** the final state is unique ... *)
Lemma halts_to_det : forall cfg c st s1 s2,
  halts_to cfg c st s1 -> halts_to cfg c st s2 -> s1 = s2.
Proof.
  intros cfg c st s1 s2 (sl1 & E1 & N1 & H1) (sl2 & E2 & N2 & H2).
  rewrite E1 in E2. inversion E2; subst sl2.
  destruct (H1 [] (fun _ _ => None) (fun _ _ => None) ""%string (S (N1 + N2)) ltac:(lia))
    as (tr1 & cy1 & R1).
  destruct (H2 [] (fun _ _ => None) (fun _ _ => None) ""%string (S (N1 + N2)) ltac:(lia))
    as (tr2 & cy2 & R2).
  rewrite R1 in R2. inversion R2. reflexivity.
Qed.
Print Assumptions halts_to_det.

(** ... and byte-valued again: the theorems compose *)
Theorem halts_to_bytes_ok : forall cfg c st st',
  halts_to cfg c st st' -> bytes_ok st -> bytes_ok st'.
Proof.
  intros cfg c st st' (sl & _ & N & Hrun) Hb.
  destruct (Hrun [] (fun _ _ => None) (fun _ _ => None) ""%string (S N) (Nat.lt_succ_diag_r _))
    as (tr & cy & Hr).
  apply (run_bytes_ok cfg [] (fun _ _ => None) (fun _ _ => None)
           ltac:(intros t s s' H; discriminate H) ltac:(intros f s s' H; discriminate H)
           _ _ _ _ _ _ _ _ _ _ _ Hr Hb).
Qed.
Print Assumptions halts_to_bytes_ok.

(** * More one-step lemmas: the index registers, the jump *)

Lemma exec_dex : forall cfg s,
  exec cfg DEX ONone s = XOk (set_nz (set_x s (byte (rX s - 1))) (byte (rX s - 1))) 2%N FNext.
Proof. reflexivity. Qed.
Lemma exec_inx : forall cfg s,
  exec cfg INX ONone s = XOk (set_nz (set_x s (byte (rX s + 1))) (byte (rX s + 1))) 2%N FNext.
Proof. reflexivity. Qed.
Lemma exec_dey : forall cfg s,
  exec cfg DEY ONone s = XOk (set_nz (set_y s (byte (rY s - 1))) (byte (rY s - 1))) 2%N FNext.
Proof. reflexivity. Qed.
Lemma exec_iny : forall cfg s,
  exec cfg INY ONone s = XOk (set_nz (set_y s (byte (rY s + 1))) (byte (rY s + 1))) 2%N FNext.
Proof. reflexivity. Qed.

Lemma reach_jmp : forall cfg c pc s l p raw k' (Q : nat -> nat -> mstate -> Prop),
  nth_error c pc = Some (SIns JMP (OLbl l) p raw) ->
  find_label l c 0 = Some k' ->
  reach cfg c k' s (fun n => Q (S n)) -> reach cfg c pc s Q.
Proof.
  intros cfg c pc s l p raw k' Q Hn Hf (n & pc' & s' & Hs & HQ). exists (S n), pc', s'.
  split; [|exact HQ]. cbn [stepn]. rewrite Hn. cbn [exec]. rewrite Hf. exact Hs.
Qed.

(** * The compiler's labels are non-empty and distinct *)

Lemma append_length : forall p s, String.length (p ++ s) = (String.length p + String.length s)%nat.
Proof. induction p as [|ch p IH]; intros s; [reflexivity|]. cbn [append String.length]. rewrite IH. reflexivity. Qed.

Lemma append_neq_self : forall p s, p <> ""%string -> (p ++ s)%string <> s.
Proof.
  intros p s Hp E. apply (f_equal String.length) in E. rewrite append_length in E.
  destruct p as [|ch p]; [contradiction|]. cbn [String.length] in E. lia.
Qed.

Lemma lname_nonempty_for : forall n, lname ".for" n <> ""%string.
Proof. intros n. unfold lname. cbn [append]. discriminate. Qed.
Lemma lname_nonempty_forupdate : forall n, lname ".forupdate" n <> ""%string.
Proof. intros n. unfold lname. cbn [append]. discriminate. Qed.
Lemma lname_nonempty_forend : forall n, lname ".forend" n <> ""%string.
Proof. intros n. unfold lname. cbn [append]. discriminate. Qed.
Lemma lname_nonempty_while : forall n, lname ".while" n <> ""%string.
Proof. intros n. unfold lname. cbn [append]. discriminate. Qed.
Lemma lname_nonempty_whileend : forall n, lname ".whileend" n <> ""%string.
Proof. intros n. unfold lname. cbn [append]. discriminate. Qed.
Lemma lname_nonempty_dowhile : forall n, lname ".dowhile" n <> ""%string.
Proof. intros n. unfold lname. cbn [append]. discriminate. Qed.

Lemma lname_for_forend : forall n, lname ".for" n <> lname ".forend" n.
Proof.
  intros n H. unfold lname in H. cbn [append] in H. inversion H as [H1].
  symmetry in H1. revert H1. apply (append_neq_self "end"). discriminate.
Qed.
Lemma lname_for_forupdate : forall n, lname ".for" n <> lname ".forupdate" n.
Proof.
  intros n H. unfold lname in H. cbn [append] in H. inversion H as [H1].
  symmetry in H1. revert H1. apply (append_neq_self "update"). discriminate.
Qed.
Lemma lname_forupdate_forend : forall n, lname ".forupdate" n <> lname ".forend" n.
Proof. intros n H. unfold lname in H. cbn [append] in H. inversion H. Qed.
Lemma lname_while_whileend : forall n, lname ".while" n <> lname ".whileend" n.
Proof.
  intros n H. unfold lname in H. cbn [append] in H. inversion H as [H1].
  symmetry in H1. revert H1. apply (append_neq_self "end"). discriminate.
Qed.
Lemma lname_dowhile_dowhileend : forall n, lname ".dowhile" n <> lname ".dowhileend" n.
Proof.
  intros n H. unfold lname in H. cbn [append] in H. inversion H as [H1].
  symmetry in H1. revert H1. apply (append_neq_self "end"). discriminate.
Qed.

(** * Tactics *)

Ltac exec_solve2 :=
  first [ exec_solve | apply exec_dex | apply exec_inx | apply exec_dey | apply exec_iny ].
Ltac lnext := eapply reach_next; [reflexivity|exec_solve2|].
Ltac ljmp := eapply reach_jmp; [reflexivity|cbn [find_label]; eqb_rewrite; reflexivity|].
Ltac lstep := first [rlbl | rbranch | ljmp | lnext].
Ltac not_at h := lazymatch goal with |- reach _ _ h _ _ => fail | _ => idtac end.
(** one pass: at least one step, then on to the head [h] or to the end of the code *)
Ltac lpass h := lstep; repeat (not_at h; lstep).

Ltac lcode_tac :=
  cbv [for_ne_code while_ne_code do_dec_code for_x_down_code for_lt_cont_code while_brk_code
       do_x_code for_y_up_code add_assign l_head l_cont l_end app];
  slines_tac.

(** the frame of an invariant or postcondition: [Hf] is the frame so far *)
Ltac lframe Hf :=
  let a := fresh "a" in let H0 := fresh "H0" in let Hn := fresh "Hn" in let Hfa := fresh "Hfa" in
  intros a H0 Hn; pose proof (Hf a H0 Hn) as Hfa; cbn [In] in Hn; mem_simp; exact Hfa.

Ltac lframe0 :=
  let a := fresh "a" in let H0 := fresh "H0" in let Hn := fresh "Hn" in
  intros a H0 Hn; cbn [In] in Hn; mem_simp; reflexivity.

(** split the goal; the frame by [lframe], the registers from the hypotheses, the values by
    linear arithmetic after deciding the comparisons *)
Ltac lfin Hf :=
  repeat match goal with |- _ /\ _ => split end;
  try reflexivity; try assumption; try lframe0; try (lframe Hf); try congruence; try bool_lia.

(** at the end of a pass: back at the head with measure [k'], or at the exit *)
Ltac lagain k' := apply reach_stop; cbv beta; left; split; [reflexivity|]; exists k'.
Ltac lexit := apply reach_stop; cbv beta; right; split; [reflexivity|].

(** * [do { a++; i--; } while (i != 0);] *)

Definition do_dec_inv (pa pi : Z) (st : mstate) (n k : Z) (s : mstate) : Prop :=
  1 <= k <= 256 /\ mget (mem s) pi = k mod 256 /\
  mget (mem s) pa = (mget (mem st) pa + n - k) mod 256 /\
  only_changes [pa; pi] st s /\ keeps_xys st s.

Theorem do_dec_code_correct : forall cfg a i lh lc le pa pi st,
  ports cfg = [] -> var_name a -> var_name i -> lh <> ""%string ->
  layout cfg a = Some pa -> layout cfg i = Some pi ->
  0 <= pa < 65536 -> 0 <= pi < 65536 -> pa <> pi ->
  bytes_ok st ->
  exists st', halts_to cfg (do_dec_code a i (mkLL lh lc le)) st st' /\
    mget (mem st') pi = 0 /\
    mget (mem st') pa
    = (mget (mem st) pa + (if mget (mem st) pi =? 0 then 256 else mget (mem st) pi)) mod 256 /\
    only_changes [pa; pi] st st' /\ keeps_xys st st'.
Proof.
  intros cfg a i lh lc le pa pi st Hp Va Vi Hlh La Li Ra Ri Nai (HA & HX & HY & HS & HM).
  eapply halts_to_reach; [lcode_tac|].
  set (n := if mget (mem st) pi =? 0 then 256 else mget (mem st) pi).
  eapply (loop_rule _ _ 0%nat _ (do_dec_inv pa pi st n)) with (k := n).
  - intros k s (Hk & Hi & Ha & Hf & Hx).
    lpass 0%nat.
    + lagain (k - 1).
      unfold do_dec_inv, only_changes, keeps_xys in *. state_simp. mem_simp.
      destruct Hx as (Hx1 & Hx2 & Hx3). rewrite Hi, Ha in *. lfin Hf.
    + lexit.
      unfold do_dec_inv, only_changes, keeps_xys in *. state_simp. mem_simp.
      destruct Hx as (Hx1 & Hx2 & Hx3). rewrite Hi, Ha in *. lfin Hf.
  - unfold do_dec_inv, only_changes, keeps_xys. pose proof (HM pi). pose proof (HM pa).
    subst n. lfin Hp.
Qed.
Print Assumptions do_dec_code_correct.

Theorem do_dec_correct : forall cfg a i n pa pi st,
  ports cfg = [] -> var_name a -> var_name i ->
  layout cfg a = Some pa -> layout cfg i = Some pi ->
  0 <= pa < 65536 -> 0 <= pi < 65536 -> pa <> pi ->
  bytes_ok st ->
  exists st', halts_to cfg (ltemplate (LDoDec a i n)) st st' /\
    mget (mem st') pi = 0 /\
    mget (mem st') pa
    = (mget (mem st) pa + (if mget (mem st) pi =? 0 then 256 else mget (mem st) pi)) mod 256 /\
    only_changes [pa; pi] st st' /\ keeps_xys st st'.
Proof.
  intros cfg a i n pa pi st Hp Va Vi. apply do_dec_code_correct; try assumption.
  apply lname_nonempty_dowhile.
Qed.
Print Assumptions do_dec_correct.

(** the code before the loop head [h]: on to the head or, the loop being skipped, to the end *)
Ltac lprefix h := apply reach_seq; lpass h.
(** the loop is skipped: at the exit *)
Ltac lskip := apply reach_stop; cbv beta; apply reach_stop; cbv beta; split; [reflexivity|].
(** at the head: the loop proper *)
Ltac lenter := apply reach_stop; cbv beta.

(** * [for (i = 0; i != b; i++) a++;] *)

Definition for_ne_inv (pa pi : Z) (st : mstate) (b0 k : Z) (s : mstate) : Prop :=
  1 <= k <= b0 /\ mget (mem s) pi = b0 - k /\
  mget (mem s) pa = (mget (mem st) pa + b0 - k) mod 256 /\
  only_changes [pa; pi] st s /\ keeps_xys st s.

Theorem for_ne_code_correct : forall cfg i b a lh lc le pi pb pa st,
  ports cfg = [] -> var_name i -> var_name b -> var_name a ->
  lh <> ""%string -> le <> ""%string -> lh <> le -> lc <> le ->
  layout cfg i = Some pi -> layout cfg b = Some pb -> layout cfg a = Some pa ->
  0 <= pi < 65536 -> 0 <= pb < 65536 -> 0 <= pa < 65536 ->
  pa <> pi -> pa <> pb -> pi <> pb ->
  bytes_ok st ->
  exists st', halts_to cfg (for_ne_code i b a (mkLL lh lc le)) st st' /\
    mget (mem st') pi = mget (mem st) pb /\
    mget (mem st') pa = (mget (mem st) pa + mget (mem st) pb) mod 256 /\
    only_changes [pa; pi] st st' /\ keeps_xys st st'.
Proof.
  intros cfg i b a lh lc le pi pb pa st Hp Vi Vb Va Hlh Hle Nhe Nce Li Lb La Ri Rb Ra
    Nai Nab Nib (HA & HX & HY & HS & HM).
  lbl_facts. pose proof (HM pa) as Ma. pose proof (HM pb) as Mb.
  eapply halts_to_reach; [lcode_tac|].
  lprefix 5%nat.
  - lskip. unfold only_changes, keeps_xys. state_simp. mem_simp. lfin HM.
  - lenter.
    eapply (loop_rule _ _ 5%nat _ (for_ne_inv pa pi st (mget (mem st) pb)))
      with (k := mget (mem st) pb).
    + intros k s (Hk & Hi & Ha & Hf & Hx).
      pose proof (Hf pb ltac:(lia) ltac:(cbn [In]; lia)) as Hb.
      lpass 5%nat; first [lagain (k - 1)|lexit];
        unfold for_ne_inv, only_changes, keeps_xys in *; state_simp; mem_simp;
        destruct Hx as (Hx1 & Hx2 & Hx3); rewrite ?Hi, ?Ha, ?Hb in *; lfin Hf.
    + unfold for_ne_inv, only_changes, keeps_xys. state_simp. mem_simp. lfin HM.
Qed.
Print Assumptions for_ne_code_correct.

Theorem for_ne_correct : forall cfg i b a n pi pb pa st,
  ports cfg = [] -> var_name i -> var_name b -> var_name a ->
  layout cfg i = Some pi -> layout cfg b = Some pb -> layout cfg a = Some pa ->
  0 <= pi < 65536 -> 0 <= pb < 65536 -> 0 <= pa < 65536 ->
  pa <> pi -> pa <> pb -> pi <> pb ->
  bytes_ok st ->
  exists st', halts_to cfg (ltemplate (LForNe i b a n)) st st' /\
    mget (mem st') pi = mget (mem st) pb /\
    mget (mem st') pa = (mget (mem st) pa + mget (mem st) pb) mod 256 /\
    only_changes [pa; pi] st st' /\ keeps_xys st st'.
Proof.
  intros cfg i b a n pi pb pa st Hp Vi Vb Va. apply for_ne_code_correct; try assumption.
  - apply lname_nonempty_for.
  - apply lname_nonempty_forend.
  - apply lname_for_forend.
  - apply lname_forupdate_forend.
Qed.
Print Assumptions for_ne_correct.

(** * [while (i != b) { a++; i++; }] *)

Definition while_ne_inv (pa pi : Z) (st : mstate) (b0 n k : Z) (s : mstate) : Prop :=
  0 <= k < 256 /\ mget (mem s) pi = (b0 - k) mod 256 /\
  mget (mem s) pa = (mget (mem st) pa + n - k) mod 256 /\
  only_changes [pa; pi] st s /\ keeps_xys st s.

Theorem while_ne_code_correct : forall cfg i b a lh lc le pi pb pa st,
  ports cfg = [] -> var_name i -> var_name b -> var_name a ->
  lh <> ""%string -> le <> ""%string -> lh <> le ->
  layout cfg i = Some pi -> layout cfg b = Some pb -> layout cfg a = Some pa ->
  0 <= pi < 65536 -> 0 <= pb < 65536 -> 0 <= pa < 65536 ->
  pa <> pi -> pa <> pb -> pi <> pb ->
  bytes_ok st ->
  exists st', halts_to cfg (while_ne_code i b a (mkLL lh lc le)) st st' /\
    mget (mem st') pi = mget (mem st) pb /\
    mget (mem st') pa
    = (mget (mem st) pa + (mget (mem st) pb - mget (mem st) pi) mod 256) mod 256 /\
    only_changes [pa; pi] st st' /\ keeps_xys st st'.
Proof.
  intros cfg i b a lh lc le pi pb pa st Hp Vi Vb Va Hlh Hle Nhe Li Lb La Ri Rb Ra
    Nai Nab Nib (HA & HX & HY & HS & HM).
  lbl_facts. pose proof (HM pa) as Ma. pose proof (HM pb) as Mb. pose proof (HM pi) as Mi.
  eapply halts_to_reach; [lcode_tac|].
  eapply (loop_rule _ _ 0%nat _
            (while_ne_inv pa pi st (mget (mem st) pb) ((mget (mem st) pb - mget (mem st) pi) mod 256)))
    with (k := (mget (mem st) pb - mget (mem st) pi) mod 256).
  - intros k s (Hk & Hi & Ha & Hf & Hx).
    pose proof (Hf pb ltac:(lia) ltac:(cbn [In]; lia)) as Hb.
    lpass 0%nat; first [lagain (k - 1)|lexit];
      unfold while_ne_inv, only_changes, keeps_xys in *; state_simp; mem_simp;
      destruct Hx as (Hx1 & Hx2 & Hx3); rewrite ?Hi, ?Ha, ?Hb in *; lfin Hf.
  - unfold while_ne_inv, only_changes, keeps_xys. lfin HM.
Qed.
Print Assumptions while_ne_code_correct.

Theorem while_ne_correct : forall cfg i b a n pi pb pa st,
  ports cfg = [] -> var_name i -> var_name b -> var_name a ->
  layout cfg i = Some pi -> layout cfg b = Some pb -> layout cfg a = Some pa ->
  0 <= pi < 65536 -> 0 <= pb < 65536 -> 0 <= pa < 65536 ->
  pa <> pi -> pa <> pb -> pi <> pb ->
  bytes_ok st ->
  exists st', halts_to cfg (ltemplate (LWhileNe i b a n)) st st' /\
    mget (mem st') pi = mget (mem st) pb /\
    mget (mem st') pa
    = (mget (mem st) pa + (mget (mem st) pb - mget (mem st) pi) mod 256) mod 256 /\
    only_changes [pa; pi] st st' /\ keeps_xys st st'.
Proof.
  intros cfg i b a n pi pb pa st Hp Vi Vb Va. apply while_ne_code_correct; try assumption.
  - apply lname_nonempty_while.
  - apply lname_nonempty_whileend.
  - apply lname_while_whileend.
Qed.
Print Assumptions while_ne_correct.

(** * [do { a += c; X--; } while (X);] *)

(** what a loop on [X] keeps: [Y] and [S] *)
Definition keeps_ys (st st' : mstate) : Prop := rY st' = rY st /\ rS st' = rS st.
(** what a loop on [Y] keeps: [X] and [S] *)
Definition keeps_xs (st st' : mstate) : Prop := rX st' = rX st /\ rS st' = rS st.

Definition do_x_inv (pa : Z) (st : mstate) (c0 n k : Z) (s : mstate) : Prop :=
  1 <= k <= 256 /\ rX s = k mod 256 /\
  mget (mem s) pa = (mget (mem st) pa + (n - k) * c0) mod 256 /\
  only_changes [pa] st s /\ keeps_ys st s.

Theorem do_x_code_correct : forall cfg a c lh lc le pa pc st,
  ports cfg = [] -> var_name a -> var_name c -> lh <> ""%string ->
  layout cfg a = Some pa -> layout cfg c = Some pc ->
  0 <= pa < 65536 -> 0 <= pc < 65536 -> pa <> pc ->
  bytes_ok st ->
  exists st', halts_to cfg (do_x_code a c (mkLL lh lc le)) st st' /\
    rX st' = 0 /\
    mget (mem st') pa
    = (mget (mem st) pa + (if rX st =? 0 then 256 else rX st) * mget (mem st) pc) mod 256 /\
    only_changes [pa] st st' /\ keeps_ys st st'.
Proof.
  intros cfg a c lh lc le pa pc st Hp Va Vc Hlh La Lc Ra Rc Nac (HA & HX & HY & HS & HM).
  pose proof (HM pa) as Ma. pose proof (HM pc) as Mc.
  eapply halts_to_reach; [lcode_tac|].
  set (n := if rX st =? 0 then 256 else rX st).
  eapply (loop_rule _ _ 0%nat _ (do_x_inv pa st (mget (mem st) pc) n)) with (k := n).
  - intros k s (Hk & Hi & Ha & Hf & Hx).
    pose proof (Hf pc ltac:(lia) ltac:(cbn [In]; lia)) as Hc.
    lpass 0%nat; first [lagain (k - 1)|lexit];
      unfold do_x_inv, only_changes, keeps_ys in *; state_simp; mem_simp;
      destruct Hx as (Hx1 & Hx2); rewrite ?Hi, ?Ha, ?Hc in *; lfin Hf.
  - unfold do_x_inv, only_changes, keeps_ys. subst n. lfin HM.
Qed.
Print Assumptions do_x_code_correct.

Theorem do_x_correct : forall cfg a c n pa pc st,
  ports cfg = [] -> var_name a -> var_name c ->
  layout cfg a = Some pa -> layout cfg c = Some pc ->
  0 <= pa < 65536 -> 0 <= pc < 65536 -> pa <> pc ->
  bytes_ok st ->
  exists st', halts_to cfg (ltemplate (LDoX a c n)) st st' /\
    rX st' = 0 /\
    mget (mem st') pa
    = (mget (mem st) pa + (if rX st =? 0 then 256 else rX st) * mget (mem st) pc) mod 256 /\
    only_changes [pa] st st' /\ keeps_ys st st'.
Proof.
  intros cfg a c n pa pc st Hp Va Vc. apply do_x_code_correct; try assumption.
  apply lname_nonempty_dowhile.
Qed.
Print Assumptions do_x_correct.

(** * [for (X = b; X != 0; X--) a += c;] *)

Definition for_x_inv (pa : Z) (st : mstate) (b0 c0 k : Z) (s : mstate) : Prop :=
  1 <= k <= b0 /\ rX s = k /\
  mget (mem s) pa = (mget (mem st) pa + (b0 - k) * c0) mod 256 /\
  only_changes [pa] st s /\ keeps_ys st s.

(** [a] may be the same cell as [b] ([b] is read once, before the loop), not the same as [c] *)
Theorem for_x_down_code_correct : forall cfg b a c lh lc le pb pa pc st,
  ports cfg = [] -> var_name b -> var_name a -> var_name c ->
  lh <> ""%string -> le <> ""%string -> lh <> le -> lc <> le ->
  layout cfg b = Some pb -> layout cfg a = Some pa -> layout cfg c = Some pc ->
  0 <= pb < 65536 -> 0 <= pa < 65536 -> 0 <= pc < 65536 -> pa <> pc ->
  bytes_ok st ->
  exists st', halts_to cfg (for_x_down_code b a c (mkLL lh lc le)) st st' /\
    rX st' = 0 /\
    mget (mem st') pa = (mget (mem st) pa + mget (mem st) pb * mget (mem st) pc) mod 256 /\
    only_changes [pa] st st' /\ keeps_ys st st'.
Proof.
  intros cfg b a c lh lc le pb pa pc st Hp Vb Va Vc Hlh Hle Nhe Nce Lb La Lc Rb Ra Rc Nac
    (HA & HX & HY & HS & HM).
  lbl_facts. pose proof (HM pa) as Ma. pose proof (HM pb) as Mb. pose proof (HM pc) as Mc.
  eapply halts_to_reach; [lcode_tac|].
  lprefix 2%nat.
  - lskip. unfold only_changes, keeps_ys. state_simp. mem_simp. lfin HM.
  - lenter.
    eapply (loop_rule _ _ 2%nat _ (for_x_inv pa st (mget (mem st) pb) (mget (mem st) pc)))
      with (k := mget (mem st) pb).
    + intros k s (Hk & Hi & Ha & Hf & Hx).
      pose proof (Hf pc ltac:(lia) ltac:(cbn [In]; lia)) as Hc.
      lpass 2%nat; first [lagain (k - 1)|lexit];
        unfold for_x_inv, only_changes, keeps_ys in *; state_simp; mem_simp;
        destruct Hx as (Hx1 & Hx2); rewrite ?Hi, ?Ha, ?Hc in *; lfin Hf.
    + unfold for_x_inv, only_changes, keeps_ys. state_simp. mem_simp. lfin HM.
Qed.
Print Assumptions for_x_down_code_correct.

Theorem for_x_down_correct : forall cfg b a c n pb pa pc st,
  ports cfg = [] -> var_name b -> var_name a -> var_name c ->
  layout cfg b = Some pb -> layout cfg a = Some pa -> layout cfg c = Some pc ->
  0 <= pb < 65536 -> 0 <= pa < 65536 -> 0 <= pc < 65536 -> pa <> pc ->
  bytes_ok st ->
  exists st', halts_to cfg (ltemplate (LForXDown b a c n)) st st' /\
    rX st' = 0 /\
    mget (mem st') pa = (mget (mem st) pa + mget (mem st) pb * mget (mem st) pc) mod 256 /\
    only_changes [pa] st st' /\ keeps_ys st st'.
Proof.
  intros cfg b a c n pb pa pc st Hp Vb Va Vc. apply for_x_down_code_correct; try assumption.
  - apply lname_nonempty_for.
  - apply lname_nonempty_forend.
  - apply lname_for_forend.
  - apply lname_forupdate_forend.
Qed.
Print Assumptions for_x_down_correct.

(** * [for (Y = 0; Y != k; Y++) a++;] for a constant [0 <= k < 256] (the listing: 4) *)

Definition for_y_inv (pa : Z) (st : mstate) (kk k : Z) (s : mstate) : Prop :=
  1 <= k <= kk /\ rY s = kk - k /\
  mget (mem s) pa = (mget (mem st) pa + kk - k) mod 256 /\
  only_changes [pa] st s /\ keeps_xs st s.

Theorem for_y_up_code_correct : forall cfg kk a lh lc le pa st,
  ports cfg = [] -> var_name a -> 0 <= kk < 256 ->
  lh <> ""%string -> le <> ""%string -> lh <> le -> lc <> le ->
  layout cfg a = Some pa -> 0 <= pa < 65536 ->
  bytes_ok st ->
  exists st', halts_to cfg (for_y_up_code kk a (mkLL lh lc le)) st st' /\
    rY st' = kk /\
    mget (mem st') pa = (mget (mem st) pa + kk) mod 256 /\
    only_changes [pa] st st' /\ keeps_xs st st'.
Proof.
  intros cfg kk a lh lc le pa st Hp Va Rk Hlh Hle Nhe Nce La Ra (HA & HX & HY & HS & HM).
  lbl_facts. pose proof (HM pa) as Ma.
  eapply halts_to_reach; [lcode_tac|].
  lprefix 3%nat.
  - lskip. unfold only_changes, keeps_xs. state_simp. mem_simp. lfin HM.
  - lenter.
    eapply (loop_rule _ _ 3%nat _ (for_y_inv pa st kk)) with (k := kk).
    + intros k s (Hk & Hi & Ha & Hf & Hx).
      lpass 3%nat; first [lagain (k - 1)|lexit];
        unfold for_y_inv, only_changes, keeps_xs in *; state_simp; mem_simp;
        destruct Hx as (Hx1 & Hx2); rewrite ?Hi, ?Ha in *; lfin Hf.
    + unfold for_y_inv, only_changes, keeps_xs. state_simp. mem_simp. lfin HM.
Qed.
Print Assumptions for_y_up_code_correct.

Theorem for_y_up_correct : forall cfg kk a n pa st,
  ports cfg = [] -> var_name a -> 0 <= kk < 256 ->
  layout cfg a = Some pa -> 0 <= pa < 65536 ->
  bytes_ok st ->
  exists st', halts_to cfg (ltemplate (LForYUp kk a n)) st st' /\
    rY st' = kk /\
    mget (mem st') pa = (mget (mem st) pa + kk) mod 256 /\
    only_changes [pa] st st' /\ keeps_xs st st'.
Proof.
  intros cfg kk a n pa st Hp Va Rk. apply for_y_up_code_correct; try assumption.
  - apply lname_nonempty_for.
  - apply lname_nonempty_forend.
  - apply lname_for_forend.
  - apply lname_forupdate_forend.
Qed.
Print Assumptions for_y_up_correct.

(** the instance of the listing *)
Corollary for_y_4_correct : forall cfg a n pa st,
  ports cfg = [] -> var_name a -> layout cfg a = Some pa -> 0 <= pa < 65536 ->
  bytes_ok st ->
  exists st', halts_to cfg (ltemplate (LForYUp 4 a n)) st st' /\
    rY st' = 4 /\
    mget (mem st') pa = (mget (mem st) pa + 4) mod 256 /\
    only_changes [pa] st st' /\ keeps_xs st st'.
Proof.
  intros cfg a n pa st Hp Va La Ra Hb. apply for_y_up_correct; try assumption. lia.
Qed.
Print Assumptions for_y_4_correct.

(** * [for (i = 0; i < b; i++) { if (a == c) continue; a++; }]

    [a] climbs by one at each iteration until it equals [c], then stays: with
    [d = (c - a) mod 256] the distance to [c], after [b] iterations [a] has climbed [min b d]. *)

Definition cont_inv (pa pi : Z) (st : mstate) (b0 d k : Z) (s : mstate) : Prop :=
  1 <= k <= b0 /\ mget (mem s) pi = b0 - k /\
  mget (mem s) pa = (mget (mem st) pa + Z.min (b0 - k) d) mod 256 /\
  only_changes [pa; pi] st s /\ keeps_xys st s.

Theorem for_lt_cont_code_correct : forall cfg i b a c lh lc le pi pb pa pc st,
  ports cfg = [] -> var_name i -> var_name b -> var_name a -> var_name c ->
  lh <> ""%string -> lc <> ""%string -> le <> ""%string -> lh <> lc -> lh <> le -> lc <> le ->
  layout cfg i = Some pi -> layout cfg b = Some pb -> layout cfg a = Some pa ->
  layout cfg c = Some pc ->
  0 <= pi < 65536 -> 0 <= pb < 65536 -> 0 <= pa < 65536 -> 0 <= pc < 65536 ->
  pa <> pi -> pa <> pb -> pa <> pc -> pi <> pb -> pi <> pc ->
  bytes_ok st ->
  exists st', halts_to cfg (for_lt_cont_code i b a c (mkLL lh lc le)) st st' /\
    mget (mem st') pi = mget (mem st) pb /\
    mget (mem st') pa
    = (mget (mem st) pa
       + Z.min (mget (mem st) pb) ((mget (mem st) pc - mget (mem st) pa) mod 256)) mod 256 /\
    only_changes [pa; pi] st st' /\ keeps_xys st st'.
Proof.
  intros cfg i b a c lh lc le pi pb pa pc st Hp Vi Vb Va Vc Hlh Hlc Hle Nhc Nhe Nce
    Li Lb La Lc Ri Rb Ra Rc Nai Nab Nac Nib Nic (HA & HX & HY & HS & HM).
  lbl_facts. pose proof (HM pa) as Ma. pose proof (HM pb) as Mb. pose proof (HM pc) as Mc.
  eapply halts_to_reach; [lcode_tac|].
  lprefix 5%nat.
  - lskip. unfold only_changes, keeps_xys. state_simp. mem_simp. lfin HM.
  - lenter.
    eapply (loop_rule _ _ 5%nat _
              (cont_inv pa pi st (mget (mem st) pb) ((mget (mem st) pc - mget (mem st) pa) mod 256)))
      with (k := mget (mem st) pb).
    + intros k s (Hk & Hi & Ha & Hf & Hx).
      pose proof (Hf pb ltac:(lia) ltac:(cbn [In]; lia)) as Hb.
      pose proof (Hf pc ltac:(lia) ltac:(cbn [In]; lia)) as Hc.
      lpass 5%nat; first [lagain (k - 1)|lexit];
        unfold cont_inv, only_changes, keeps_xys in *; state_simp; mem_simp;
        destruct Hx as (Hx1 & Hx2 & Hx3); rewrite ?Hi, ?Ha, ?Hb, ?Hc in *; lfin Hf.
    + unfold cont_inv, only_changes, keeps_xys. state_simp. mem_simp. lfin HM.
Qed.
Print Assumptions for_lt_cont_code_correct.

Theorem for_lt_cont_correct : forall cfg i b a c n pi pb pa pc st,
  ports cfg = [] -> var_name i -> var_name b -> var_name a -> var_name c ->
  layout cfg i = Some pi -> layout cfg b = Some pb -> layout cfg a = Some pa ->
  layout cfg c = Some pc ->
  0 <= pi < 65536 -> 0 <= pb < 65536 -> 0 <= pa < 65536 -> 0 <= pc < 65536 ->
  pa <> pi -> pa <> pb -> pa <> pc -> pi <> pb -> pi <> pc ->
  bytes_ok st ->
  exists st', halts_to cfg (ltemplate (LForLtCont i b a c n)) st st' /\
    mget (mem st') pi = mget (mem st) pb /\
    mget (mem st') pa
    = (mget (mem st) pa
       + Z.min (mget (mem st) pb) ((mget (mem st) pc - mget (mem st) pa) mod 256)) mod 256 /\
    only_changes [pa; pi] st st' /\ keeps_xys st st'.
Proof.
  intros cfg i b a c n pi pb pa pc st Hp Vi Vb Va Vc.
  apply for_lt_cont_code_correct; try assumption.
  - apply lname_nonempty_for.
  - apply lname_nonempty_forupdate.
  - apply lname_nonempty_forend.
  - apply lname_for_forupdate.
  - apply lname_for_forend.
  - apply lname_forupdate_forend.
Qed.
Print Assumptions for_lt_cont_correct.

(** the C meaning as a function: the body [if (a == c) continue; a++;], iterated [n] times *)
Definition cont_body (c a : Z) : Z := if a =? c then a else (a + 1) mod 256.
Fixpoint cont_iter (n : nat) (c a : Z) : Z :=
  match n with
  | O => a
  | S m => cont_body c (cont_iter m c a)
  end.

Lemma cont_iter_closed : forall n c a, 0 <= a < 256 -> 0 <= c < 256 ->
  cont_iter n c a = (a + Z.min (Z.of_nat n) ((c - a) mod 256)) mod 256.
Proof.
  intros n c a Ha Hc. induction n as [|n IH].
  - cbn [cont_iter]. lia.
  - cbn [cont_iter]. rewrite IH. unfold cont_body.
    destruct (Z.eqb_spec ((a + Z.min (Z.of_nat n) ((c - a) mod 256)) mod 256) c); lia.
Qed.
Print Assumptions cont_iter_closed.

Theorem for_lt_cont_iter : forall cfg i b a c n pi pb pa pc st,
  ports cfg = [] -> var_name i -> var_name b -> var_name a -> var_name c ->
  layout cfg i = Some pi -> layout cfg b = Some pb -> layout cfg a = Some pa ->
  layout cfg c = Some pc ->
  0 <= pi < 65536 -> 0 <= pb < 65536 -> 0 <= pa < 65536 -> 0 <= pc < 65536 ->
  pa <> pi -> pa <> pb -> pa <> pc -> pi <> pb -> pi <> pc ->
  bytes_ok st ->
  exists st', halts_to cfg (ltemplate (LForLtCont i b a c n)) st st' /\
    mget (mem st') pi = mget (mem st) pb /\
    mget (mem st') pa
    = cont_iter (Z.to_nat (mget (mem st) pb)) (mget (mem st) pc) (mget (mem st) pa) /\
    only_changes [pa; pi] st st' /\ keeps_xys st st'.
Proof.
  intros cfg i b a c n pi pb pa pc st Hp Vi Vb Va Vc Li Lb La Lc Ri Rb Ra Rc
    Nai Nab Nac Nib Nic Hb.
  destruct (for_lt_cont_correct cfg i b a c n pi pb pa pc st Hp Vi Vb Va Vc Li Lb La Lc
              Ri Rb Ra Rc Nai Nab Nac Nib Nic Hb) as (st' & Hh & Hi & Ha & Hf).
  destruct Hb as (_ & _ & _ & _ & HM).
  exists st'. split; [exact Hh|]. split; [exact Hi|]. split; [|exact Hf].
  rewrite Ha. rewrite (cont_iter_closed _ _ _ (HM pa) (HM pc)).
  pose proof (HM pb). rewrite Z2Nat.id by lia. reflexivity.
Qed.
Print Assumptions for_lt_cont_iter.

(** * [while (i) { i--; if (i == b) break; a++; }]

    If [b < i] the loop stops at [i = b], by the [break], after [i - 1 - b] increments of [a];
    otherwise [i] runs down to 0 and [a] is incremented [i] times. *)

Definition brk_inv (pa pi : Z) (st : mstate) (b0 i0 k : Z) (s : mstate) : Prop :=
  0 <= k <= i0 /\ (b0 < i0 -> b0 < k) /\ mget (mem s) pi = k /\
  mget (mem s) pa = (mget (mem st) pa + i0 - k) mod 256 /\
  only_changes [pa; pi] st s /\ keeps_xys st s.

Theorem while_brk_code_correct : forall cfg i b a lh lc le pi pb pa st,
  ports cfg = [] -> var_name i -> var_name b -> var_name a ->
  lh <> ""%string -> le <> ""%string -> lh <> le ->
  layout cfg i = Some pi -> layout cfg b = Some pb -> layout cfg a = Some pa ->
  0 <= pi < 65536 -> 0 <= pb < 65536 -> 0 <= pa < 65536 ->
  pa <> pi -> pa <> pb -> pi <> pb ->
  bytes_ok st ->
  exists st', halts_to cfg (while_brk_code i b a (mkLL lh lc le)) st st' /\
    mget (mem st') pi = (if mget (mem st) pb <? mget (mem st) pi then mget (mem st) pb else 0) /\
    mget (mem st') pa
    = (mget (mem st) pa
       + (if mget (mem st) pb <? mget (mem st) pi
          then mget (mem st) pi - 1 - mget (mem st) pb else mget (mem st) pi)) mod 256 /\
    only_changes [pa; pi] st st' /\ keeps_xys st st'.
Proof.
  intros cfg i b a lh lc le pi pb pa st Hp Vi Vb Va Hlh Hle Nhe Li Lb La Ri Rb Ra
    Nai Nab Nib (HA & HX & HY & HS & HM).
  lbl_facts. pose proof (HM pa) as Ma. pose proof (HM pb) as Mb. pose proof (HM pi) as Mi.
  eapply halts_to_reach; [lcode_tac|].
  eapply (loop_rule _ _ 0%nat _ (brk_inv pa pi st (mget (mem st) pb) (mget (mem st) pi)))
    with (k := mget (mem st) pi).
  - intros k s (Hk & Hbk & Hi & Ha & Hf & Hx).
    pose proof (Hf pb ltac:(lia) ltac:(cbn [In]; lia)) as Hb.
    lpass 0%nat; first [lagain (k - 1)|lexit];
      unfold brk_inv, only_changes, keeps_xys in *; state_simp; mem_simp;
      destruct Hx as (Hx1 & Hx2 & Hx3); rewrite ?Hi, ?Ha, ?Hb in *; lfin Hf.
  - unfold brk_inv, only_changes, keeps_xys. lfin HM.
Qed.
Print Assumptions while_brk_code_correct.

Theorem while_brk_correct : forall cfg i b a n pi pb pa st,
  ports cfg = [] -> var_name i -> var_name b -> var_name a ->
  layout cfg i = Some pi -> layout cfg b = Some pb -> layout cfg a = Some pa ->
  0 <= pi < 65536 -> 0 <= pb < 65536 -> 0 <= pa < 65536 ->
  pa <> pi -> pa <> pb -> pi <> pb ->
  bytes_ok st ->
  exists st', halts_to cfg (ltemplate (LWhileBrk i b a n)) st st' /\
    mget (mem st') pi = (if mget (mem st) pb <? mget (mem st) pi then mget (mem st) pb else 0) /\
    mget (mem st') pa
    = (mget (mem st) pa
       + (if mget (mem st) pb <? mget (mem st) pi
          then mget (mem st) pi - 1 - mget (mem st) pb else mget (mem st) pi)) mod 256 /\
    only_changes [pa; pi] st st' /\ keeps_xys st st'.
Proof.
  intros cfg i b a n pi pb pa st Hp Vi Vb Va. apply while_brk_code_correct; try assumption.
  - apply lname_nonempty_while.
  - apply lname_nonempty_whileend.
  - apply lname_while_whileend.
Qed.
Print Assumptions while_brk_correct.

(** the C meaning as a function: [fuel] bounds the number of iterations ([i] is enough);
    the result is the final [(i, a)] *)
Fixpoint brk_loop (fuel : nat) (b i a : Z) : Z * Z :=
  match fuel with
  | O => (i, a)
  | S f =>
      if i =? 0 then (i, a)
      else if i - 1 =? b then (i - 1, a)
      else brk_loop f b (i - 1) ((a + 1) mod 256)
  end.

Lemma brk_loop_closed : forall fuel b i a,
  0 <= i <= Z.of_nat fuel -> 0 <= b -> 0 <= a < 256 ->
  brk_loop fuel b i a
  = (if b <? i then b else 0, (a + (if b <? i then i - 1 - b else i)) mod 256).
Proof.
  induction fuel as [|fuel IH]; intros b i a Hi Hb Ha.
  - cbn [brk_loop]. assert (i = 0) by lia. subst i.
    destruct (Z.ltb_spec b 0); [lia|]. f_equal. lia.
  - cbn [brk_loop].
    destruct (Z.eqb_spec i 0) as [->|Hi0].
    + destruct (Z.ltb_spec b 0); [lia|]. f_equal. lia.
    + destruct (Z.eqb_spec (i - 1) b) as [E|E].
      * destruct (Z.ltb_spec b i); [|lia]. f_equal; lia.
      * rewrite IH by lia.
        destruct (Z.ltb_spec b (i - 1)); destruct (Z.ltb_spec b i); try lia; f_equal; lia.
Qed.
Print Assumptions brk_loop_closed.

Theorem while_brk_iter : forall cfg i b a n pi pb pa st,
  ports cfg = [] -> var_name i -> var_name b -> var_name a ->
  layout cfg i = Some pi -> layout cfg b = Some pb -> layout cfg a = Some pa ->
  0 <= pi < 65536 -> 0 <= pb < 65536 -> 0 <= pa < 65536 ->
  pa <> pi -> pa <> pb -> pi <> pb ->
  bytes_ok st ->
  exists st', halts_to cfg (ltemplate (LWhileBrk i b a n)) st st' /\
    (mget (mem st') pi, mget (mem st') pa)
    = brk_loop (Z.to_nat (mget (mem st) pi)) (mget (mem st) pb) (mget (mem st) pi)
        (mget (mem st) pa) /\
    only_changes [pa; pi] st st' /\ keeps_xys st st'.
Proof.
  intros cfg i b a n pi pb pa st Hp Vi Vb Va Li Lb La Ri Rb Ra Nai Nab Nib Hb.
  destruct (while_brk_correct cfg i b a n pi pb pa st Hp Vi Vb Va Li Lb La Ri Rb Ra
              Nai Nab Nib Hb) as (st' & Hh & Hi & Ha & Hf).
  destruct Hb as (_ & _ & _ & _ & HM).
  exists st'. split; [exact Hh|]. split; [|exact Hf].
  pose proof (HM pi). pose proof (HM pb). pose proof (HM pa).
  rewrite brk_loop_closed by lia. rewrite Hi, Ha. reflexivity.
Qed.
Print Assumptions while_brk_iter.

(** * The instances of the listing: the hypotheses of the theorems are satisfiable *)

Definition cfg_loops : config :=
  mkCfg (fun y =>
    if String.eqb y "a" then Some 128 else if String.eqb y "b" then Some 129
    else if String.eqb y "c" then Some 130 else if String.eqb y "i" then Some 131
    else None) [].

Corollary listing_do_dec : forall st, bytes_ok st ->
  exists st', halts_to cfg_loops (ltemplate (LDoDec "a" "i" 1)) st st' /\
    mget (mem st') 131 = 0 /\
    mget (mem st') 128
    = (mget (mem st) 128 + (if mget (mem st) 131 =? 0 then 256 else mget (mem st) 131)) mod 256 /\
    only_changes [128; 131] st st' /\ keeps_xys st st'.
Proof.
  intros st Hb. apply (do_dec_correct cfg_loops "a" "i" 1%N 128 131 st);
    try reflexivity; try lia; try exact Hb;
    (apply ident_var_name; [discriminate|reflexivity]).
Qed.
Print Assumptions listing_do_dec.

Corollary listing_for_ne : forall st, bytes_ok st ->
  exists st', halts_to cfg_loops (ltemplate (LForNe "i" "b" "a" 1)) st st' /\
    mget (mem st') 131 = mget (mem st) 129 /\
    mget (mem st') 128 = (mget (mem st) 128 + mget (mem st) 129) mod 256 /\
    only_changes [128; 131] st st' /\ keeps_xys st st'.
Proof.
  intros st Hb. apply (for_ne_correct cfg_loops "i" "b" "a" 1%N 131 129 128 st);
    try reflexivity; try lia; try exact Hb;
    (apply ident_var_name; [discriminate|reflexivity]).
Qed.
Print Assumptions listing_for_ne.

Corollary listing_for_lt_cont : forall st, bytes_ok st ->
  exists st', halts_to cfg_loops (ltemplate (LForLtCont "i" "b" "a" "c" 1)) st st' /\
    mget (mem st') 131 = mget (mem st) 129 /\
    mget (mem st') 128
    = cont_iter (Z.to_nat (mget (mem st) 129)) (mget (mem st) 130) (mget (mem st) 128) /\
    only_changes [128; 131] st st' /\ keeps_xys st st'.
Proof.
  intros st Hb. apply (for_lt_cont_iter cfg_loops "i" "b" "a" "c" 1%N 131 129 128 130 st);
    try reflexivity; try lia; try exact Hb;
    (apply ident_var_name; [discriminate|reflexivity]).
Qed.
Print Assumptions listing_for_lt_cont.

(** and plain computations with [Sem.run] on the listing's code: A, X, Y, S = 0, 7, 2, 255;
    [a], [b], [c], [i] as given; the result is [(a, i, X, Y, S)] *)
Definition st_loops (va vb vc vi : Z) : mstate :=
  mkS 0 7 2 255 false false false false
    (mset (mset (mset (mset mem_empty 128 va) 129 vb) 130 vc) 131 vi).

Definition run_loop (t : lschema) (fuel : nat) (st : mstate) : option (Z * Z * Z * Z * Z) :=
  match slines_of (ltemplate t) with
  | Some sl =>
      match Sem.run cfg_loops [] (fun _ _ => None) (fun _ _ => None) fuel "f" sl 0 [] st [] 0%N with
      | Halt s' _ _ => Some (mget (mem s') 128, mget (mem s') 131, rX s', rY s', rS s')
      | _ => None
      end
  | None => None
  end.

(** [do { a++; i--; } while (i != 0);] from a = 250, i = 10: a = 4 *)
Example run_do_dec_10 :
  run_loop (LDoDec "a" "i" 1) 100 (st_loops 250 0 0 10) = Some (4, 0, 7, 2, 255).
Proof. vm_compute. reflexivity. Qed.
(** from i = 0: 256 iterations, a is back to 250 *)
Example run_do_dec_0 :
  run_loop (LDoDec "a" "i" 1) 1100 (st_loops 250 0 0 0) = Some (250, 0, 7, 2, 255).
Proof. vm_compute. reflexivity. Qed.
(** [for (X = b; X != 0; X--) a += c;] from a = 1, b = 5, c = 60: a = 301 mod 256 = 45 *)
Example run_for_x_down :
  run_loop (LForXDown "b" "a" "c" 1) 100 (st_loops 1 5 60 9) = Some (45, 9, 0, 2, 255).
Proof. vm_compute. reflexivity. Qed.
(** the [continue] loop from a = 3, b = 10, c = 6: a stops at 6; i = 10 *)
Example run_for_lt_cont :
  run_loop (LForLtCont "i" "b" "a" "c" 1) 200 (st_loops 3 10 6 77) = Some (6, 10, 7, 2, 255).
Proof. vm_compute. reflexivity. Qed.
(** the [break] loop from a = 3, b = 4, i = 9: stops at i = 4 after 4 increments *)
Example run_while_brk :
  run_loop (LWhileBrk "i" "b" "a" 1) 200 (st_loops 3 4 0 9) = Some (7, 4, 7, 2, 255).
Proof. vm_compute. reflexivity. Qed.
