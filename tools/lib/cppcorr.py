"""corr-M for the preprocessor: cpp::process (through the verification hook) vs the extracted
Model/Cpp.v on generated sources; plus the generators the preprocessor properties share."""
import os
import shutil
from .common import *

IDENTS = ['A', 'B', 'AB', 'FOO', 'N', 'MAX', 'x', 'y', 'val', 'A1', '_t', 'FOOBAR', 'F', 'G', 'SQ']


def run_cpp_model(text):
    drv = ocaml_driver('cpp')
    d = os.path.join('/dev/shm', 'cppm.%d' % os.getpid())
    os.makedirs(d, exist_ok=True)
    try:
        recs = ['@cpp ' + r for r in text.split('@cpp ')[1:]]
        ns = max(1, min(NCPU, len(recs)))
        files = []
        for i in range(ns):
            fn = os.path.join(d, 'c%d.txt' % i)
            open(fn, 'w').write(''.join(recs[i::ns]))
            files.append(fn)
        # results go to files: a shard must not wait on a full pipe while an earlier one is being read
        procs = [(subprocess.Popen(['bash', '-c', 'ulimit -s unlimited; exec "$0" "$1" > "$1.out" 2> "$1.err"', drv, fn]), fn) for fn in files]
        res = {}
        for p, fn in procs:
            p.wait(timeout=7200)
            if p.returncode != 0:
                raise HarnessError('cpp.native failed: ' + open(fn + '.err', errors='replace').read()[-1000:])
            for l in open(fn + '.out', errors='replace').read().splitlines():
                if not l.startswith('@cppr '):
                    continue
                f = l.split(' ')
                jid = f[1]
                un = lambda s: bytes.fromhex(s).decode('utf-8', 'replace') if s != '-' else ''
                if f[2] == 'ok':
                    body = l.split(' ', 3)[3]
                    pp, mp, lits = [x.strip() for x in body.split(' | ')] if body.count(' | ') == 2 else (body.split(' |')[0], '', '')
                    m = []
                    for e_ in mp.split():
                        a = e_.split(':')
                        m.append([un(a[0]), int(a[1]), None if a[2] == '-' else [un(a[2]), int(a[3])]])
                    res[jid] = ('ok', un(pp), m, [un(x) for x in lits.split()])
                elif f[2] == 'err':
                    res[jid] = ('err', f[3], un(f[4]), int(f[5]), None if f[6] == '-' else [un(f[6]), int(f[7])], un(f[8]))
                else:
                    res[jid] = (f[2],)
        return res
    finally:
        shutil.rmtree(d, ignore_errors=True)


def canon_impl(r):
    st = r.get('status')
    if st == 'ok':
        return ('ok', r['pp'], r['map'], r['lits'])
    if st == 'err':
        e = r['err']
        if e.get('kind') in ('syntax', 'compiler'):
            return ('err', e['kind'], e['file'], e['line'], e['inc'], e['msg'])
        return ('err', e.get('kind'), e.get('msg'))
    return (st, r.get('loc'), r.get('msg'))


def compare(cases):
    """cases: list of (id, src, defs, files, name) -> (n, mismatches, impl-results, model-results)"""
    text = ''.join(cpp_job(cid, src, defs=defs, files=files, name=name) for (cid, src, defs, files, name) in cases)
    impl = run_ccv(text, tag='cpp', timeout_ms=8000)
    model = run_cpp_model(text)
    mism = []
    for (cid, src, defs, files, name), ri in zip(cases, impl):
        a = canon_impl(ri)
        b = model.get(cid)
        if b is not None and b[0] == 'ok':
            b = (b[0], b[1], b[2], b[3])
        if a != b:
            mism.append({'id': cid, 'src': src, 'defs': defs, 'files': files, 'impl': a, 'model': b})
    return len(cases), mism, impl, model


# ------------------------------------------------------------------ generators

def rand_string_lit(rng):
    alphabet = ['a', 'b', 'Z', ' ', '//', '/*', '*/', '#', '@', '\\n', '\\t', '\\\\', '\\"', 'FOO', 'A', '%', '0', "'", '\\0', ';', ',']
    return '"' + ''.join(rng.choice(alphabet) for _ in range(rng.randrange(0, 6))) + '"'


def rand_comment(rng):
    body = ''.join(rng.choice(['x', ' ', 'FOO', '"', "'", '#define A 1', '/', '*', '/*', 'http:', 'a b']) for _ in range(rng.randrange(0, 5)))
    k = rng.random()
    if k < 0.45:
        return '/*' + body.replace('*/', '* /') + '*/'
    if k < 0.55:
        return '/*' + body.replace('*/', '') + '\n' + rng.choice(['', 'more ', ' * x ']) + '*/'
    return '//' + body


def rand_code_piece(rng, macros):
    k = rng.random()
    if k < 0.25:
        return 'char m%d;' % rng.randrange(100)
    if k < 0.45 and macros:
        m = rng.choice(macros)
        if m[1] is None:
            return rng.choice(['char a[%s];', 'x = %s + 1;', '%s', 'q%sq', '%s_', '(%s)', '-%s*2']) % m[0]
        args = ', '.join(rng.choice(['1', 'x', '(a,b)', 'f(1,2)', 'A', '((1))', 'p+1', '', '"s"', 'g((h(1)))']) for _ in range(len(m[1])))
        return rng.choice(['y = %s(%s);', '%s(%s)', 'z%s(%s)']) % (m[0], args)
    if k < 0.6:
        return 'const char *s%d = %s;' % (rng.randrange(10), rand_string_lit(rng))
    if k < 0.7:
        return rng.choice(IDENTS) + ' ' + rng.choice(IDENTS) + ';'
    if k < 0.8:
        return "c = '%s';" % rng.choice(['a', '\\n', '"', '\\\\', '/'])
    return rng.choice(['void f() { }', 'x = y / 2;', 'a = b /* c */ + d;', 'i++;', '{', '}', ''])


def gen_source(rng, depth=0, allow_include=True, nlines=None, files=None, macros=None, error_p=0.03):
    """-> (text, files) ; files: list of (name, content) included"""
    files = files if files is not None else []
    macros = macros if macros is not None else []
    out = []
    n = nlines if nlines is not None else rng.randrange(1, 14)
    open_ifs = 0
    for _ in range(n):
        k = rng.random()
        eol = '\r\n' if rng.random() < 0.05 else '\n'
        if k < 0.10:
            name = rng.choice(IDENTS)
            if rng.random() < 0.35:
                ps = rng.sample(['a', 'b', 'c', 'x'], rng.randrange(0, 3))
                body = ' '.join(rng.choice(ps + ['+', '1', '(', ')', '*', name.lower(), 'A', '##']) for _ in range(rng.randrange(1, 6))) if ps else rng.choice(['7', '(1+2)'])
                out.append('#define %s(%s) %s%s' % (name, rng.choice([', ', ',']).join(ps), body, eol))
                macros.append((name, ps))
            else:
                body = rng.choice(['1', '0', '2', '', '(1+2)', 'B', 'A', 'x y', '0x10', rand_string_lit(rng), 'FOO + 1'])
                out.append('#define %s %s%s' % (name, body, eol))
                macros.append((name, None))
        elif k < 0.14:
            out.append('#undef %s%s' % (rng.choice(IDENTS), eol))
        elif k < 0.24:
            kind = rng.choice(['#ifdef %s', '#ifndef %s', '#if %s', '#if %s', '#if !%s', '#if %s == %s', '#if %s == %s == %s', '#if !%s == %s',
                               '#if %s == !%s == %s', '#if %s == %s == %s == %s', '#if !!%s == %s == %s'])
            ops = [rng.choice(['0', '1', '2', '3'] + IDENTS) for _ in range(4)]
            out.append((kind % tuple(ops[:kind.count('%s')])) + eol)
            open_ifs += 1
        elif k < 0.30 and open_ifs:
            out.append(rng.choice(['#else', '#elif 1', '#elif 0', '#elif %s' % rng.choice(IDENTS)]) + eol)
        elif k < 0.38 and open_ifs:
            out.append('#endif' + eol)
            open_ifs -= 1
        elif k < 0.41 and allow_include and depth < 2:
            sub, _ = gen_source(rng, depth + 1, allow_include=True, nlines=rng.randrange(0, 6), files=files, macros=macros)
            iname = 'inc%d%s' % (len(files), rng.choice(['.h', '.h', '.inc', '.asm']))
            files.append((iname, sub))
            out.append('#include %s%s' % (rng.choice(['"%s"', '<%s>']) % iname, eol))
        elif k < 0.41 + error_p:
            out.append(rng.choice(['#error stop here', '#pragma once', '#endif', '#else', '#define', '#include', '#if', 'char *u = "abc;',
                                   '#include "nothere.h"', '#if 1 +', '#if UNDEFINED_NAME']) + eol)
        else:
            pieces = [rand_code_piece(rng, macros) for _ in range(rng.randrange(1, 4))]
            if rng.random() < 0.3:
                pieces.insert(rng.randrange(len(pieces) + 1), rand_comment(rng))
            line = ' '.join(pieces)
            if rng.random() < 0.1 and len(line) > 4:
                # one to three splices in one logical line, each physical line with its own line end
                for _s in range(rng.choice([1, 1, 2, 3])):
                    j = rng.randrange(1, len(line))
                    if line[j - 1] in '\\\r' or line[j:j + 1] in ('\n', '\r'):
                        continue
                    line = line[:j] + '\\' + rng.choice(['\n', '\n', '\r\n', eol]) + line[j:]
            out.append(line + eol)
    for _ in range(open_ifs):
        if rng.random() < 0.9:
            out.append('#endif\n')
    # layout of directive lines: blanks before '#', between '#' and the name; no blank between `#if` / `#elif` and
    # an argument that starts with `!`
    for i_, l_ in enumerate(out):
        if l_.startswith('#') and rng.random() < 0.15:
            l_ = rng.choice(['', ' ', '\t']) + '#' + rng.choice(['', ' ', '  ', '\t']) + l_[1:]
            if rng.random() < 0.3:
                l_ = l_.replace('if !', 'if!', 1)
            out[i_] = l_
    text = ''.join(out)
    if rng.random() < 0.1 and text.endswith('\n'):
        text = text[:-1]
    return text, files


def gen_case(rng, cid):
    defs = []
    for _ in range(rng.randrange(0, 3)):
        defs.append((rng.choice(IDENTS), rng.choice(['1', '0', '2', 'A', '', '(3)'])))
    seen = set()
    defs = [d for d in defs if not (d[0] in seen or seen.add(d[0]))]
    src, files = gen_source(rng)
    return (cid, src, defs, files, 'main.c')
