(** COMPOSITION theorems for the control-flow templates of Model/GenIf.v on the executable 6502
    semantics (M6502/Sem.v): [if], [if]/[else] and [while] over an 8-bit unsigned comparison, for
    ALL byte-valued machine states and for ANY body code satisfying the interface below.

    The interface of a body [B] (what a statement must provide to be put under an [if] / [while]):
      - a specification [forall s, bytes_ok s -> exists s', runs_to cfg B s s' /\ R s s']
        ([halts_to] instead of [runs_to] in the [_h] variants and in the while rule: the body may
        itself contain loops).  Every theorem [X_correct] of Proofs/GenTemplatesFacts.v,
        Proofs/GenCmp16Facts.v, Proofs/GenLoopsFacts.v and of this file has that shape, so the
        templates nest;
      - [no_ret B]: no RTS / RTI in [B] (alone, [Sem.run] "halts" on an RTS with an empty call
        stack; inside a statement that would leave the function);
      - [fresh_in l B] for the labels [l] of the template: [B] does not define them (so a jump of
        [B] to one of its own labels still finds it in [B], and the template's jumps find the
        template's labels).  Nothing else: [B] may branch backward, need not be [fwd_ok].
    [embed_halt] is the lemma behind it: a run of [B] alone that halts, is, inside any code
    [pre ++ B ++ post] where [pre] defines no label of [B], a run from the first line of [B] to the
    line after its last, with the same final state, in fewer steps than the fuel.

    [cond_code_correct]   the load / CMP / branch skeleton: from the first line of the condition,
                          in at most its length steps, control is just past it when the C relation
                          holds on the byte values of the operands and at the label otherwise;
                          memory, X, Y, S unchanged (A = left operand, flags = those of the CMP).
                          All six operators, variable or constant right operand.
    [if_tpl_correct], [ifelse_tpl_correct]   ([_h]: bodies with [halts_to])
    [while_tpl_correct]   the total-correctness while rule: invariant, measure
    [if_assign_correct], [ifelse_assign_correct], [if_var_listing], [ifelse_var_listing],
    [ifelse_const_listing]   the 18 if / if-else listings ([c = 1;] / [c = 2;] bodies), generic in
                          the operator, with the compiler's labels
    [while_ne_inc_correct], [while_lt_inc_correct]   [while (a != b) a++;], [while (a < b) a++;] *)
From Coq Require Import String Ascii List Bool Arith NArith ZArith Lia ZifyBool.
From CC Require Import Base.Str Asm.Lines M6502.Isa Asm.Operand M6502.Sem
  Model.OptSem Proofs.OptSemFacts Model.CheckBranches Model.CbSpec
  Model.GenTemplates Proofs.GenTemplatesFacts Proofs.GenCmp16Facts Model.GenLoops
  Proofs.GenLoopsFacts Model.GenTables Proofs.GenTablesFacts Model.GenIf.
Import ListNotations.
Open Scope string_scope.
Open Scope list_scope.
Open Scope Z_scope.

Ltac Zify.zify_post_hook ::= Z.div_mod_to_equations.

(** * Labels defined by a piece of code *)

Fixpoint defs (c : code) : list string :=
  match c with
  | [] => []
  | Lbl l :: r => l :: defs r
  | _ :: r => defs r
  end.

Fixpoint sdefs (c : list sline) : list string :=
  match c with
  | [] => []
  | SLbl l :: r => l :: sdefs r
  | _ :: r => sdefs r
  end.

(** [B] does not define the label [l] *)
Definition fresh_in (l : string) (B : code) : Prop := ~ In l (defs B).

Definition is_ret_line (l : line) : bool :=
  match l with
  | Ins i => match i_mn i with RTS | RTI => true | _ => false end
  | _ => false
  end.

(** no RTS / RTI in [B] *)
Definition no_ret (B : code) : Prop := forallb (fun l => negb (is_ret_line l)) B = true.

Definition no_ret_s (sl : list sline) : Prop :=
  forall m o p raw, In (SIns m o p raw) sl -> m <> RTS /\ m <> RTI.

Lemma slines_cons_inv : forall x c sl, slines_of (x :: c) = Some sl ->
  exists sx sc, sline_of x = Some sx /\ slines_of c = Some sc /\ sl = sx :: sc.
Proof.
  intros x c sl H. cbn [slines_of] in H.
  destruct (sline_of x) as [sx|]; [|discriminate H].
  destruct (slines_of c) as [sc|]; [|discriminate H].
  inversion H. exists sx, sc. repeat split; reflexivity.
Qed.

Lemma slines_defs : forall c sl, slines_of c = Some sl -> sdefs sl = defs c.
Proof.
  induction c as [|x c IH]; intros sl H.
  - inversion H. reflexivity.
  - destruct (slines_cons_inv x c sl H) as (sx & sc & Hx & Hc & ->).
    pose proof (IH sc Hc) as IHc.
    destruct x as [l|i|t n0|t|]; cbn [sline_of] in Hx.
    + inversion Hx; subst sx. cbn [sdefs defs]. rewrite IHc. reflexivity.
    + destruct (parse_operand (i_mn i) (i_op i)); [|discriminate Hx].
      inversion Hx; subst sx. cbn [sdefs defs]. exact IHc.
    + inversion Hx; subst sx. cbn [sdefs defs]. exact IHc.
    + inversion Hx; subst sx. cbn [sdefs defs]. exact IHc.
    + inversion Hx; subst sx. cbn [sdefs defs]. exact IHc.
Qed.

Lemma slines_length : forall c sl, slines_of c = Some sl -> length sl = length c.
Proof.
  induction c as [|x c IH]; intros sl H.
  - inversion H. reflexivity.
  - destruct (slines_cons_inv x c sl H) as (sx & sc & Hx & Hc & ->).
    cbn [length]. rewrite (IH sc Hc). reflexivity.
Qed.

Lemma slines_no_ret : forall c sl, slines_of c = Some sl -> no_ret c -> no_ret_s sl.
Proof.
  induction c as [|x c IH]; intros sl H Hn.
  - inversion H. intros m o p raw [].
  - destruct (slines_cons_inv x c sl H) as (sx & sc & Hx & Hc & ->).
    unfold no_ret in Hn. cbn [forallb] in Hn. apply andb_true_iff in Hn. destruct Hn as [Hn1 Hn2].
    intros m o p raw [E|Hin]; [|exact (IH sc Hc Hn2 m o p raw Hin)].
    subst sx. destruct x as [l|i|t n0|t|]; cbn [sline_of] in Hx; try discriminate Hx.
    destruct (parse_operand (i_mn i) (i_op i)); [|discriminate Hx].
    inversion Hx; subst. cbn [is_ret_line] in Hn1.
    split; intros E; rewrite E in Hn1; discriminate Hn1.
Qed.

Lemma slines_app_inv : forall a b sl, slines_of (a ++ b) = Some sl ->
  exists sa sb, slines_of a = Some sa /\ slines_of b = Some sb /\ sl = sa ++ sb.
Proof.
  induction a as [|x a IH]; intros b sl H.
  - exists [], sl. repeat split; [exact H].
  - cbn [app] in H. destruct (slines_cons_inv x (a ++ b) sl H) as (sx & sc & Hx & Hc & ->).
    destruct (IH b sc Hc) as (sa & sb & Ha & Hb & ->).
    exists (sx :: sa), sb. cbn [slines_of]. rewrite Hx, Ha. repeat split; [exact Hb].
Qed.

Lemma sdefs_app : forall a b, sdefs (a ++ b) = sdefs a ++ sdefs b.
Proof.
  induction a as [|x a IH]; intros b; [reflexivity|].
  cbn [app sdefs]. destruct x; cbn [app]; rewrite IH; reflexivity.
Qed.

(** * [find_label] *)

Lemma find_label_fresh : forall l c k, ~ In l (sdefs c) -> find_label l c k = None.
Proof.
  intros l c. induction c as [|x c IH]; intros k H; [reflexivity|].
  cbn [find_label]. destruct x as [y|m o p raw|t|]; cbn [sdefs In] in H; try (apply IH; exact H).
  destruct (String.eqb_spec y l) as [E|E]; [exfalso; apply H; left; exact E|].
  apply IH. intros Hin. apply H. right. exact Hin.
Qed.

Lemma find_label_some_in : forall l c k j, find_label l c k = Some j -> In l (sdefs c).
Proof.
  intros l c. induction c as [|x c IH]; intros k j H; [discriminate H|].
  cbn [find_label] in H. destruct x as [y|m o p raw|t|]; cbn [sdefs]; try (apply (IH _ _ H)).
  destruct (String.eqb_spec y l) as [E|E]; [left; exact E|right; apply (IH _ _ H)].
Qed.

Lemma find_label_some_bound : forall l c k j, find_label l c k = Some j -> (k <= j < k + length c)%nat.
Proof.
  intros l c. induction c as [|x c IH]; intros k j H; [discriminate H|].
  cbn [find_label length] in *.
  assert (Hrec : find_label l c (S k) = Some j -> (k <= j < k + S (length c))%nat).
  { intros H'. pose proof (IH _ _ H'). lia. }
  destruct x as [y|m o p raw|t|]; try (apply Hrec; exact H).
  destruct (String.eqb y l); [inversion H; lia|apply Hrec; exact H].
Qed.

Lemma find_label_app_some : forall l a b k j, find_label l a k = Some j -> find_label l (a ++ b) k = Some j.
Proof.
  intros l a. induction a as [|x a IH]; intros b k j H; [discriminate H|].
  cbn [app find_label] in *. destruct x as [y|m o p raw|t|]; try (apply IH; exact H).
  destruct (String.eqb y l); [exact H|apply IH; exact H].
Qed.

Lemma find_label_shift_some : forall l c k j, find_label l c k = Some j ->
  forall d, find_label l c (d + k) = Some (d + j)%nat.
Proof.
  intros l c. induction c as [|x c IH]; intros k j H d; [discriminate H|].
  cbn [find_label] in *.
  assert (Hrec : find_label l c (S k) = Some j -> find_label l c (S (d + k)) = Some (d + j)%nat).
  { intros H'. rewrite <- Nat.add_succ_r. apply IH. exact H'. }
  destruct x as [y|m o p raw|t|]; try (apply Hrec; exact H).
  destruct (String.eqb y l); [inversion H; reflexivity|apply Hrec; exact H].
Qed.

(** a label of [sl] that [pre] does not define is found in [pre ++ sl ++ post] where it is in [sl] *)
Lemma find_label_embed : forall l pre sl post j,
  find_label l pre 0 = None -> find_label l sl 0 = Some j ->
  find_label l (pre ++ sl ++ post) 0 = Some (length pre + j)%nat.
Proof.
  intros l pre sl post j Hp Hs. rewrite find_label_app_none by exact Hp. cbn [Nat.add].
  apply find_label_app_some.
  pose proof (find_label_shift_some l sl 0 j Hs (length pre)) as H.
  rewrite Nat.add_0_r in H. exact H.
Qed.

(** the first definition of [l] in [a ++ SLbl l :: b], when [a] does not define it *)
Lemma find_label_mid : forall l a b, ~ In l (sdefs a) ->
  find_label l (a ++ SLbl l :: b) 0 = Some (length a).
Proof.
  intros l a b H. rewrite find_label_app_none by (apply find_label_fresh; exact H).
  cbn [Nat.add find_label]. rewrite String.eqb_refl. reflexivity.
Qed.

Lemma nth_embed : forall (pre sl post : list sline) i, (i < length sl)%nat ->
  nth_error (pre ++ sl ++ post) (length pre + i) = nth_error sl i.
Proof.
  intros pre sl post i Hi. rewrite nth_error_app2 by lia.
  replace (length pre + i - length pre)%nat with i by lia.
  apply nth_error_app1. exact Hi.
Qed.

(** * Only RTS / RTI return *)

Lemma exec_ret_inv : forall cfg m o s s' k, exec cfg m o s = XOk s' k FRet -> m = RTS.
Proof.
  intros cfg m o s s' k H. unfold exec in H.
  destruct m;
    repeat match type of H with
           | (match ?x with _ => _ end) = _ => destruct x eqn:?
           | (let '(_, _) := ?x in _) = _ => destruct x eqn:?
           end; try discriminate H; reflexivity.
Qed.

Lemma exec_rti_inv : forall cfg m o s s' k, exec cfg m o s = XOk s' k FRti -> m = RTI.
Proof.
  intros cfg m o s s' k H. unfold exec in H.
  destruct m;
    repeat match type of H with
           | (match ?x with _ => _ end) = _ => destruct x eqn:?
           | (let '(_, _) := ?x in _) = _ => destruct x eqn:?
           end; try discriminate H; reflexivity.
Qed.

(** * Embedding a halting run of a body into any code around it *)

Lemma embed_halt : forall cfg slB pre post,
  no_ret_s slB ->
  (forall l, In l (sdefs slB) -> find_label l pre 0 = None) ->
  forall fuel pc s tr cy st' tr' cy', (pc <= length slB)%nat ->
    Sem.run cfg [] (fun _ _ => None) (fun _ _ => None) fuel ""%string slB pc [] s tr cy
    = Halt st' tr' cy' ->
    exists n, (n < fuel)%nat /\
      stepn cfg (pre ++ slB ++ post) n (length pre + pc) s
      = Some ((length pre + length slB)%nat, st').
Proof.
  intros cfg slB pre post Hnr Hfresh.
  induction fuel as [|fuel IH]; intros pc s tr cy st' tr' cy' Hpc H; [discriminate H|].
  rewrite run_S in H.
  destruct (nth_error slB pc) as [x|] eqn:En.
  - assert (Hlt : (pc < length slB)%nat) by (apply nth_error_Some; congruence).
    assert (Ec : nth_error (pre ++ slB ++ post) (length pre + pc) = Some x)
      by (rewrite nth_embed by exact Hlt; exact En).
    assert (Hstep : forall s1 tr1 cy1,
              Sem.run cfg [] (fun _ _ => None) (fun _ _ => None) fuel ""%string slB (S pc) [] s1 tr1 cy1
              = Halt st' tr' cy' ->
              exists n, (n < fuel)%nat /\
                stepn cfg (pre ++ slB ++ post) n (S (length pre + pc)) s1
                = Some ((length pre + length slB)%nat, st')).
    { intros s1 tr1 cy1 H1. rewrite <- Nat.add_succ_r.
      apply (IH (S pc) s1 tr1 cy1 st' tr' cy'); [lia|exact H1]. }
    destruct x as [l|m o p raw|t|].
    + destruct (Hstep _ _ _ H) as (n & Hn & Hs).
      exists (S n). split; [lia|]. cbn [stepn]. rewrite Ec. exact Hs.
    + destruct (exec cfg m o s) as [s1 k fl|why] eqn:Ex; [|discriminate H]. cbv zeta in H.
      destruct fl as [|l|f| |].
      * destruct (Hstep _ _ _ H) as (n & Hn & Hs).
        exists (S n). split; [lia|]. cbn [stepn]. rewrite Ec, Ex. exact Hs.
      * destruct (find_label l slB 0) as [k'|] eqn:Ef; [|discriminate H].
        pose proof (find_label_some_bound _ _ _ _ Ef) as Hb.
        destruct (IH k' s1 _ _ st' tr' cy' ltac:(lia) H) as (n & Hn & Hs).
        exists (S n). split; [lia|]. cbn [stepn]. rewrite Ec, Ex.
        rewrite (find_label_embed l pre slB post k'
                   (Hfresh l (find_label_some_in _ _ _ _ Ef)) Ef). exact Hs.
      * cbn [find_func] in H. discriminate H.
      * exfalso. pose proof (exec_ret_inv _ _ _ _ _ _ Ex) as Em.
        apply (proj1 (Hnr m o p raw (nth_error_In _ _ En))). exact Em.
      * exfalso. pose proof (exec_rti_inv _ _ _ _ _ _ Ex) as Em.
        apply (proj2 (Hnr m o p raw (nth_error_In _ _ En))). exact Em.
    + discriminate H.
    + destruct (Hstep _ _ _ H) as (n & Hn & Hs).
      exists (S n). split; [lia|]. cbn [stepn]. rewrite Ec. exact Hs.
  - inversion H; subst st'.
    assert (pc = length slB) by (apply nth_error_None in En; lia). subst pc.
    exists O. split; [lia|]. reflexivity.
Qed.
Print Assumptions embed_halt.

(** [Sem.run] on [sl] alone, from [st], with any fuel above [N], halts normally in [st'] *)
Definition sl_halts (cfg : config) (sl : list sline) (N : nat) (st st' : mstate) : Prop :=
  forall prog inl_sem ext_call fname fuel, (N < fuel)%nat ->
    exists tr cy, Sem.run cfg prog inl_sem ext_call fuel fname sl 0 [] st [] 0%N = Halt st' tr cy.

Lemma runs_to_sl_halts : forall cfg c sl st st', slines_of c = Some sl ->
  runs_to cfg c st st' -> sl_halts cfg sl (length sl) st st'.
Proof.
  intros cfg c sl st st' Hsl (sl' & Hsl' & H). rewrite Hsl in Hsl'. inversion Hsl'; subst sl'. exact H.
Qed.

Lemma halts_to_sl_halts : forall cfg c sl st st', slines_of c = Some sl ->
  halts_to cfg c st st' -> exists N, sl_halts cfg sl N st st'.
Proof.
  intros cfg c sl st st' Hsl (sl' & Hsl' & N & H). rewrite Hsl in Hsl'. inversion Hsl'; subst sl'.
  exists N. exact H.
Qed.

(** the body inside [c = pre ++ slB ++ post]: from its first line to the line after its last *)
Lemma reach_body : forall cfg c slB pre post pc N st st' (Q : nat -> nat -> mstate -> Prop),
  c = pre ++ slB ++ post -> pc = length pre ->
  sl_halts cfg slB N st st' -> no_ret_s slB ->
  (forall l, In l (sdefs slB) -> ~ In l (sdefs pre)) ->
  (forall n, (n <= N)%nat -> Q n (length pre + length slB)%nat st') ->
  reach cfg c pc st Q.
Proof.
  intros cfg c slB pre post pc N st st' Q -> -> Hh Hnr Hfresh HQ.
  destruct (Hh [] (fun _ _ => None) (fun _ _ => None) ""%string (S N) (Nat.lt_succ_diag_r _))
    as (tr & cy & Hr).
  destruct (embed_halt cfg slB pre post Hnr
              (fun l Hl => find_label_fresh l pre 0 (Hfresh l Hl))
              (S N) 0%nat st [] 0%N st' tr cy (Nat.le_0_l _) Hr) as (n & Hn & Hs).
  rewrite Nat.add_0_r in Hs.
  exists n, (length pre + length slB)%nat, st'. split; [exact Hs|]. apply HQ. lia.
Qed.
Print Assumptions reach_body.

(** * The condition: load, CMP, branch skeleton *)

(** the assembled lines *)
Definition sbr (m : mnem) (l : string) (p : bool) : sline := SIns m (OLbl l) p l.

Definition sbranch_seq (o : relop) (lbl here : string) : list sline :=
  match o with
  | RNeq => [sbr BNE lbl false]
  | REq => [sbr BEQ lbl false]
  | RLt => [sbr BCC lbl false]
  | RGt => [sbr BEQ here true; sbr BCS lbl false; SLbl here]
  | RLte => [sbr BCC lbl false; sbr BEQ lbl false]
  | RGte => [sbr BCS lbl false]
  end.

Definition cond_rhs_opnd (c : cond8) : operand :=
  match c with CVar _ _ y => OMem y 0 IxNone | CConst _ _ k => OImm (INum k) end.

Definition scond_code (c : cond8) (lbl here : string) : list sline :=
  [SIns LDA (OMem (cond_lhs c) 0 IxNone) false (cond_lhs c);
   SIns CMP (cond_rhs_opnd c) false (cond_rhs c)]
  ++ sbranch_seq (negate_op (cond_op c)) lbl here.

(** the operands are plain variables with an address, the constant is a byte *)
Definition var_at (cfg : config) (x : string) : Prop :=
  var_name x /\ exists px, layout cfg x = Some px /\ 0 <= px < 65536.

Definition cond_wf (cfg : config) (c : cond8) : Prop :=
  match c with
  | CVar _ x y => var_at cfg x /\ var_at cfg y
  | CConst _ x k => var_at cfg x /\ 0 <= k < 256
  end.

(** the values compared, and the C condition (unsigned 8-bit) *)
Definition var_val (cfg : config) (x : string) (st : mstate) : Z :=
  match layout cfg x with Some p => mget (mem st) p | None => 0 end.

Definition cond_lhs_val (cfg : config) (c : cond8) (st : mstate) : Z := var_val cfg (cond_lhs c) st.
Definition cond_rhs_val (cfg : config) (c : cond8) (st : mstate) : Z :=
  match c with CVar _ _ y => var_val cfg y st | CConst _ _ k => k end.

Definition cond_holds (cfg : config) (c : cond8) (st : mstate) : bool :=
  rel_holds (cond_op c) (cond_lhs_val cfg c st) (cond_rhs_val cfg c st).

(** the state after the comparison: A holds the left operand, the flags are those of the CMP *)
Definition cond_state (cfg : config) (c : cond8) (st : mstate) : mstate :=
  let a := cond_lhs_val cfg c st in
  cmp (set_nz (set_a st a) a) a (cond_rhs_val cfg c st).

(** memory, X, Y, S are the same (A and the flags may differ) *)
Definition same_mxys (st st' : mstate) : Prop :=
  mem st' = mem st /\ rX st' = rX st /\ rY st' = rY st /\ rS st' = rS st.

Lemma same_mxys_refl : forall s, same_mxys s s.
Proof. intros s. repeat split; reflexivity. Qed.

Lemma same_mxys_trans : forall s1 s2 s3, same_mxys s1 s2 -> same_mxys s2 s3 -> same_mxys s1 s3.
Proof.
  intros s1 s2 s3 (H1 & H2 & H3 & H4) (K1 & K2 & K3 & K4). repeat split; congruence.
Qed.

Lemma cond_state_same : forall cfg c st, same_mxys st (cond_state cfg c st).
Proof. intros cfg c st. repeat split; reflexivity. Qed.

Lemma var_val_range : forall cfg x st, bytes_ok st -> 0 <= var_val cfg x st < 256.
Proof.
  intros cfg x st (_ & _ & _ & _ & HM). unfold var_val. destruct (layout cfg x); [apply HM|lia].
Qed.

Lemma cond_state_bytes_ok : forall cfg c st, bytes_ok st -> bytes_ok (cond_state cfg c st).
Proof.
  intros cfg c st Hb. pose proof (var_val_range cfg (cond_lhs c) st Hb) as Ha.
  destruct Hb as (HA & HX & HY & HS & HM).
  unfold cond_state, cond_lhs_val, cmp, set_nz, set_c, set_a. cbn [rA rX rY rS fN fV fZ fC mem].
  apply bytes_ok_mk; assumption.
Qed.

Lemma cond_holds_same : forall cfg c s s', mem s' = mem s -> cond_holds cfg c s' = cond_holds cfg c s.
Proof.
  intros cfg c s s' E. unfold cond_holds, cond_lhs_val, cond_rhs_val, var_val. rewrite E. reflexivity.
Qed.

Lemma cond_holds_state : forall cfg c st, cond_holds cfg c (cond_state cfg c st) = cond_holds cfg c st.
Proof. intros cfg c st. apply cond_holds_same. reflexivity. Qed.

(** ** assembling *)

Lemma slines_br : forall m l p r sr, takes_label m = true -> l <> ""%string ->
  slines_of r = Some sr -> slines_of (br m l p :: r) = Some (sbr m l p :: sr).
Proof.
  intros m l p r sr Hm Hl Hr. cbn [slines_of sline_of br i_mn i_op i_prot].
  rewrite (parse_lbl m l Hm Hl), Hr. reflexivity.
Qed.

Lemma slines_branch_seq : forall o lbl here, lbl <> ""%string -> here <> ""%string ->
  slines_of (branch_seq o false lbl here) = Some (sbranch_seq o lbl here).
Proof.
  intros o lbl here Hl Hh.
  destruct o; cbn [branch_seq sbranch_seq];
    repeat first [ apply slines_nil
                 | apply slines_br; [reflexivity|assumption|]
                 | apply slines_lbl ].
Qed.

Lemma slines_cond_code : forall cfg c lbl here, cond_wf cfg c ->
  lbl <> ""%string -> here <> ""%string ->
  slines_of (cond_code_at c lbl here) = Some (scond_code c lbl here).
Proof.
  intros cfg c lbl here Hw Hl Hh. unfold cond_code_at, scond_code.
  apply slines_app; [|apply slines_branch_seq; assumption].
  destruct c as [o x y|o x k]; cbn [cond_wf cond_lhs cond_rhs cond_rhs_opnd] in *.
  - destruct Hw as [[Vx _] [Vy _]]. slines_tac.
  - destruct Hw as [[Vx _] Hk]. slines_tac.
Qed.

Lemma sdefs_branch_seq : forall o lbl here l, In l (sdefs (sbranch_seq o lbl here)) -> l = here.
Proof.
  intros o lbl here l H. destruct o; cbn [sbranch_seq sdefs sbr In] in H;
    try contradiction. destruct H as [E|[]]. symmetry. exact E.
Qed.

Lemma sdefs_scond_code : forall c lbl here l, In l (sdefs (scond_code c lbl here)) -> l = here.
Proof.
  intros c lbl here l H. unfold scond_code in H. rewrite sdefs_app in H.
  cbn [sdefs app] in H. apply (sdefs_branch_seq _ _ _ _ H).
Qed.

Lemma scond_code_length : forall c lbl here,
  length (scond_code c lbl here) = length (cond_code_at c lbl here).
Proof.
  intros c lbl here. unfold scond_code, cond_code_at. rewrite !app_length.
  destruct (cond_op c); reflexivity.
Qed.

(** ** stepping inside [pre ++ l] *)

Lemma nth_at : forall (pre l : list sline) i, nth_error (pre ++ l) (length pre + i) = nth_error l i.
Proof. intros pre l i. rewrite nth_error_app2 by lia. f_equal. lia. Qed.

Lemma reach_next_at : forall cfg pre l i s m o p raw s' k (Q : nat -> nat -> mstate -> Prop),
  nth_error l i = Some (SIns m o p raw) -> exec cfg m o s = XOk s' k FNext ->
  reach cfg (pre ++ l) (length pre + S i) s' (fun n => Q (S n)) ->
  reach cfg (pre ++ l) (length pre + i) s Q.
Proof.
  intros cfg pre l i s m o p raw s' k Q Hn He H.
  eapply reach_next; [rewrite nth_at; exact Hn|exact He|].
  rewrite <- Nat.add_succ_r. exact H.
Qed.

Lemma reach_lbl_at : forall cfg pre l i s lb (Q : nat -> nat -> mstate -> Prop),
  nth_error l i = Some (SLbl lb) ->
  reach cfg (pre ++ l) (length pre + S i) s (fun n => Q (S n)) ->
  reach cfg (pre ++ l) (length pre + i) s Q.
Proof.
  intros cfg pre l i s lb Q Hn H.
  eapply reach_lbl; [rewrite nth_at; exact Hn|].
  rewrite <- Nat.add_succ_r. exact H.
Qed.

Lemma reach_branch_at : forall cfg pre l i s m lb p raw k' (Q : nat -> nat -> mstate -> Prop),
  nth_error l i = Some (SIns m (OLbl lb) p raw) -> is_cond_branch m = true ->
  find_label lb (pre ++ l) 0 = Some k' ->
  (if branch_taken m s then reach cfg (pre ++ l) k' s (fun n => Q (S n))
   else reach cfg (pre ++ l) (length pre + S i) s (fun n => Q (S n))) ->
  reach cfg (pre ++ l) (length pre + i) s Q.
Proof.
  intros cfg pre l i s m lb p raw k' Q Hn Hm Hf H.
  eapply reach_branch; [rewrite nth_at; exact Hn|exact Hm|exact Hf|].
  rewrite <- Nat.add_succ_r. exact H.
Qed.

Lemma reach_at0 : forall cfg pre l s (Q : nat -> nat -> mstate -> Prop),
  reach cfg (pre ++ l) (length pre + 0) s Q -> reach cfg (pre ++ l) (length pre) s Q.
Proof. intros cfg pre l s Q H. rewrite Nat.add_0_r in H. exact H. Qed.

(** ** the branch skeleton, for ANY state: it jumps to [lbl] exactly when [seq_cond] says so *)
Lemma branch_seq_reach : forall cfg o lbl here pre post kl s,
  lbl <> here -> find_label here pre 0 = None ->
  find_label lbl (pre ++ sbranch_seq o lbl here ++ post) 0 = Some kl ->
  reach cfg (pre ++ sbranch_seq o lbl here ++ post) (length pre) s
    (fun (n pc' : nat) (s' : mstate) =>
       (n <= length (sbranch_seq o lbl here))%nat /\ s' = s /\
       pc' = if seq_cond o false s then kl else (length pre + length (sbranch_seq o lbl here))%nat).
Proof.
  intros cfg o lbl here pre post kl s Hne Hhere Hkl.
  apply reach_at0.
  destruct o; cbn [sbranch_seq app length seq_cond sbr] in *.
  - (* == : BEQ lbl *)
    eapply reach_branch_at; [reflexivity|reflexivity|exact Hkl|].
    cbn [branch_taken]. destruct (fZ s); apply reach_stop; repeat split; lia.
  - (* != : BNE lbl *)
    eapply reach_branch_at; [reflexivity|reflexivity|exact Hkl|].
    cbn [branch_taken]. destruct (fZ s); cbn [negb]; apply reach_stop; repeat split; lia.
  - (* < : BCC lbl *)
    eapply reach_branch_at; [reflexivity|reflexivity|exact Hkl|].
    cbn [branch_taken]. destruct (fC s); cbn [negb]; apply reach_stop; repeat split; lia.
  - (* > : BEQ here; BCS lbl; here: *)
    assert (Hh : find_label here (pre ++ SIns BEQ (OLbl here) true here
                    :: SIns BCS (OLbl lbl) false lbl :: SLbl here :: post) 0
                 = Some (length pre + 2)%nat).
    { rewrite find_label_app_none by exact Hhere. cbn [find_label Nat.add].
      rewrite String.eqb_refl. f_equal. lia. }
    eapply reach_branch_at; [reflexivity|reflexivity|exact Hh|].
    cbn [branch_taken]. destruct (fZ s); cbn [negb andb].
    + eapply reach_lbl_at; [reflexivity|]. apply reach_stop; repeat split; lia.
    + eapply reach_branch_at; [reflexivity|reflexivity|exact Hkl|].
      cbn [branch_taken]. destruct (fC s).
      * apply reach_stop; repeat split; lia.
      * eapply reach_lbl_at; [reflexivity|]. apply reach_stop; repeat split; lia.
  - (* <= : BCC lbl; BEQ lbl *)
    eapply reach_branch_at; [reflexivity|reflexivity|exact Hkl|].
    cbn [branch_taken]. destruct (fC s); cbn [negb orb].
    + eapply reach_branch_at; [reflexivity|reflexivity|exact Hkl|].
      cbn [branch_taken]. destruct (fZ s); apply reach_stop; repeat split; lia.
    + apply reach_stop; repeat split; lia.
  - (* >= : BCS lbl *)
    eapply reach_branch_at; [reflexivity|reflexivity|exact Hkl|].
    cbn [branch_taken]. destruct (fC s); apply reach_stop; repeat split; lia.
Qed.
Print Assumptions branch_seq_reach.

(** the flags after CMP decide the unsigned relation *)
Lemma seq_cond_cmp : forall o s a b, 0 <= a < 256 -> 0 <= b < 256 ->
  seq_cond o false (cmp s a b) = rel_holds o a b.
Proof.
  intros o s a b Ha Hb.
  destruct o; cbn [seq_cond rel_holds]; rewrite ?cmp_fC, ?(cmp_fZ s a b Ha Hb); split_cmps.
Qed.

Lemma byte_small : forall k, 0 <= k < 256 -> byte k = k.
Proof. intros k Hk. unfold byte. apply Z.mod_small. exact Hk. Qed.

(** ** the condition inside [pre ++ scond_code c lbl here ++ post] *)
Lemma cond_reach : forall cfg c lbl here pre post kl st,
  ports cfg = [] -> cond_wf cfg c -> lbl <> here -> ~ In here (sdefs pre) ->
  find_label lbl (pre ++ scond_code c lbl here ++ post) 0 = Some kl -> bytes_ok st ->
  reach cfg (pre ++ scond_code c lbl here ++ post) (length pre) st
    (fun (n pc' : nat) (s' : mstate) =>
       (n <= length (scond_code c lbl here))%nat /\ s' = cond_state cfg c st /\
       pc' = if cond_holds cfg c st then (length pre + length (scond_code c lbl here))%nat else kl).
Proof.
  intros cfg c lbl here pre post kl st Hp Hw Hne Hhere Hkl Hb.
  pose proof (var_val_range cfg (cond_lhs c) st Hb) as Ra.
  assert (Rb : 0 <= cond_rhs_val cfg c st < 256).
  { destruct c as [o x y|o x k]; cbn [cond_rhs_val cond_wf] in *;
      [apply var_val_range; exact Hb|exact (proj2 Hw)]. }
  (* the two reads *)
  assert (E1 : exists k1, exec cfg LDA (OMem (cond_lhs c) 0 IxNone) st
                 = XOk (set_nz (set_a st (cond_lhs_val cfg c st)) (cond_lhs_val cfg c st)) k1 FNext).
  { assert (Hx : var_at cfg (cond_lhs c)) by (destruct c; cbn [cond_wf cond_lhs] in *; exact (proj1 Hw)).
    destruct Hx as (Vx & px & Lx & Rx). eexists.
    rewrite (exec_rd_mem cfg LDA st (cond_lhs c) 0 px Hp eq_refl Lx ltac:(lia)).
    unfold cond_lhs_val, var_val. rewrite Lx, Z.add_0_r. reflexivity. }
  assert (E2 : forall s1, mem s1 = mem st -> exists k2, exec cfg CMP (cond_rhs_opnd c) s1
                 = XOk (cmp s1 (rA s1) (cond_rhs_val cfg c st)) k2 FNext).
  { intros s1 Em. destruct c as [o x y|o x k]; cbn [cond_wf cond_rhs_opnd cond_rhs_val] in *.
    - destruct Hw as [_ (Vy & py & Ly & Ry)]. eexists.
      rewrite (exec_rd_mem cfg CMP s1 y 0 py Hp eq_refl Ly ltac:(lia)).
      unfold var_val. rewrite Ly, Z.add_0_r, Em. reflexivity.
    - destruct Hw as [_ Hk]. eexists. rewrite (exec_rd_imm cfg CMP s1 k eq_refl).
      rewrite (byte_small k Hk). reflexivity. }
  destruct E1 as (k1 & E1).
  destruct (E2 (set_nz (set_a st (cond_lhs_val cfg c st)) (cond_lhs_val cfg c st)) eq_refl) as (k2 & E2').
  cbn [rA set_nz set_a] in E2'. clear E2.
  unfold scond_code in *. rewrite <- app_assoc in *.
  apply reach_at0.
  eapply reach_next_at; [reflexivity|exact E1|].
  eapply reach_next_at; [reflexivity|exact E2'|].
  fold (cond_state cfg c st).
  set (a := SIns LDA (OMem (cond_lhs c) 0 IxNone) false (cond_lhs c)) in *.
  set (b := SIns CMP (cond_rhs_opnd c) false (cond_rhs c)) in *.
  set (sbs := sbranch_seq (negate_op (cond_op c)) lbl here) in *.
  assert (EL : pre ++ [a; b] ++ sbs ++ post = (pre ++ [a; b]) ++ sbs ++ post)
    by (rewrite <- app_assoc; reflexivity).
  assert (EN : (length pre + 2)%nat = length (pre ++ [a; b]))
    by (rewrite app_length; reflexivity).
  rewrite EL in *. rewrite EN.
  eapply reach_weaken; [|apply (branch_seq_reach cfg (negate_op (cond_op c)) lbl here
                                  (pre ++ [a; b]) post kl (cond_state cfg c st) Hne)].
  - intros n pc' s' (Hn & Hs & Hpc). cbv beta. fold sbs in Hn, Hpc.
    split; [rewrite app_length; cbn [length]; lia|]. split; [exact Hs|].
    rewrite Hpc. unfold cond_state at 1.
    rewrite (seq_cond_cmp _ _ _ _ Ra Rb), negate_op_correct.
    change (rel_holds (cond_op c) (var_val cfg (cond_lhs c) st) (cond_rhs_val cfg c st))
      with (cond_holds cfg c st).
    destruct (cond_holds cfg c st); cbn [negb]; [|reflexivity].
    rewrite <- EN. rewrite app_length. cbn [length]. lia.
  - rewrite find_label_app_none by (apply find_label_fresh; exact Hhere). reflexivity.
  - exact Hkl.
Qed.
Print Assumptions cond_reach.

(** ** [cond_code_correct]: the condition inside any code

    [cpre ++ cond_code_at c lbl here ++ cpost] assembles to [sl]; [lbl] is defined somewhere in it,
    at line [kl]; [cpre] does not define [here].  Then from the first line of the condition, in a
    byte-valued state [st], after at most as many steps as the condition has lines, [Sem.run] is
       - just past the condition when the C relation holds on the byte values of the operands,
       - at the line of [lbl] otherwise,
    in the state [cond_state cfg c st]: memory, X, Y, S unchanged ([same_mxys]), byte-valued. *)
Theorem cond_code_correct : forall cfg c lbl here cpre cpost sl kl st,
  ports cfg = [] -> cond_wf cfg c ->
  lbl <> ""%string -> here <> ""%string -> lbl <> here ->
  slines_of (cpre ++ cond_code_at c lbl here ++ cpost) = Some sl ->
  ~ In here (defs cpre) -> find_label lbl sl 0 = Some kl -> bytes_ok st ->
  reach cfg sl (length cpre) st
    (fun (n pc' : nat) (s' : mstate) =>
       (n <= length (cond_code_at c lbl here))%nat /\
       s' = cond_state cfg c st /\ same_mxys st s' /\ bytes_ok s' /\
       pc' = if cond_holds cfg c st
             then (length cpre + length (cond_code_at c lbl here))%nat else kl).
Proof.
  intros cfg c lbl here cpre cpost sl kl st Hp Hw Hl Hh Hne Hsl Hfresh Hkl Hb.
  destruct (slines_app_inv _ _ _ Hsl) as (spre & srest & Hspre & Hsrest & ->).
  destruct (slines_app_inv _ _ _ Hsrest) as (sc & spost & Hsc & Hspost & ->).
  rewrite (slines_cond_code cfg c lbl here Hw Hl Hh) in Hsc. inversion Hsc; subst sc.
  rewrite <- (slines_length _ _ Hspre). rewrite <- scond_code_length.
  eapply reach_weaken; [|apply (cond_reach cfg c lbl here spre spost kl st Hp Hw Hne)].
  - intros n pc' s' (Hn & Hs & Hpc). cbv beta.
    split; [exact Hn|]. split; [exact Hs|]. subst s'.
    split; [apply cond_state_same|]. split; [apply cond_state_bytes_ok; exact Hb|exact Hpc].
  - rewrite (slines_defs _ _ Hspre). exact Hfresh.
  - exact Hkl.
  - exact Hb.
Qed.
Print Assumptions cond_code_correct.

(** the same with the compiler's [.ifhereN] label *)
Corollary cond_code_correct_n : forall cfg c lbl n cpre cpost sl kl st,
  ports cfg = [] -> cond_wf cfg c ->
  lbl <> ""%string -> lbl <> lname ".ifhere" n ->
  slines_of (cpre ++ cond_code c lbl n ++ cpost) = Some sl ->
  ~ In (lname ".ifhere" n) (defs cpre) -> find_label lbl sl 0 = Some kl -> bytes_ok st ->
  reach cfg sl (length cpre) st
    (fun (k pc' : nat) (s' : mstate) =>
       (k <= length (cond_code c lbl n))%nat /\
       s' = cond_state cfg c st /\ same_mxys st s' /\ bytes_ok s' /\
       pc' = if cond_holds cfg c st then (length cpre + length (cond_code c lbl n))%nat else kl).
Proof.
  intros cfg c lbl n cpre cpost sl kl st Hp Hw Hl Hne. unfold cond_code.
  apply cond_code_correct; try assumption.
  unfold lname. cbn [append]. discriminate.
Qed.
Print Assumptions cond_code_correct_n.

(** * Gluing: a label or a JMP between the pieces *)

Definition sjmp (l : string) : sline := SIns JMP (OLbl l) false l.

Lemma reach_lbl_mid : forall cfg c a l b pc s (Q : nat -> nat -> mstate -> Prop),
  c = a ++ SLbl l :: b -> pc = length a ->
  reach cfg c (S pc) s (fun n => Q (S n)) -> reach cfg c pc s Q.
Proof.
  intros cfg c a l b pc s Q -> -> H. eapply reach_lbl; [apply nth_error_mid|exact H].
Qed.

Lemma reach_jmp_mid : forall cfg c a l b pc k' s (Q : nat -> nat -> mstate -> Prop),
  c = a ++ sjmp l :: b -> pc = length a -> find_label l c 0 = Some k' ->
  reach cfg c k' s (fun n => Q (S n)) -> reach cfg c pc s Q.
Proof.
  intros cfg c a l b pc k' s Q Ec -> Hf H.
  eapply reach_jmp; [rewrite Ec; apply nth_error_mid|exact Hf|exact H].
Qed.

Lemma slines_jmp : forall l r sr, l <> ""%string -> slines_of r = Some sr ->
  slines_of (ins JMP l :: r) = Some (sjmp l :: sr).
Proof.
  intros l r sr Hl Hr. apply slines_ins; [apply parse_lbl; [reflexivity|exact Hl]|exact Hr].
Qed.

(** [l] is not defined in a concatenation: split, and use what is known of each piece *)
Ltac notin_tac Hc :=
  rewrite ?sdefs_app, ?in_app_iff; cbn [sdefs In sjmp];
  let H := fresh "Hin" in
  intros H;
  repeat match goal with
         | K : _ \/ _ |- _ => destruct K as [K|K]
         end;
  try contradiction;
  try (match goal with K : In _ (sdefs _) |- _ => apply Hc in K end);
  try congruence; try (subst; contradiction).

(** * [if (c) B] *)

Lemma if_reach : forall cfg c slB lend here N (R : mstate -> mstate -> Prop) st,
  ports cfg = [] -> cond_wf cfg c -> lend <> here ->
  no_ret_s slB -> ~ In lend (sdefs slB) -> ~ In here (sdefs slB) -> bytes_ok st ->
  (cond_holds cfg c st = true ->
     exists st', sl_halts cfg slB N (cond_state cfg c st) st' /\ R (cond_state cfg c st) st') ->
  reach cfg (scond_code c lend here ++ slB ++ [SLbl lend]) 0 st
    (fun (n pc' : nat) (s' : mstate) =>
      (n <= length (scond_code c lend here) + (if cond_holds cfg c st then N + 1 else 1))%nat /\
      pc' = length (scond_code c lend here ++ slB ++ [SLbl lend]) /\
      if cond_holds cfg c st then R (cond_state cfg c st) s' else s' = cond_state cfg c st).
Proof.
  intros cfg c slB lend here N R st Hp Hw Nlh Hnr Fl Fh Hb Hbody.
  pose proof (sdefs_scond_code c lend here) as Hc.
  remember (scond_code c lend here) as slc eqn:Eslc.
  remember (slc ++ slB ++ [SLbl lend]) as sl eqn:Esl.
  assert (E0 : sl = [] ++ slc ++ (slB ++ [SLbl lend])) by (subst sl; reflexivity).
  assert (E3 : sl = (slc ++ slB) ++ SLbl lend :: []) by (subst sl; rewrite <- !app_assoc; reflexivity).
  assert (Hlen : length sl = S (length (slc ++ slB)))
    by (rewrite E3, app_length; cbn [length]; lia).
  assert (Hkl : find_label lend sl 0 = Some (length (slc ++ slB))).
  { rewrite E3. apply find_label_mid. notin_tac Hc. }
  pose proof (cond_reach cfg c lend here [] (slB ++ [SLbl lend]) (length (slc ++ slB)) st Hp Hw Nlh
                (fun H => H)) as Hcond.
  rewrite <- Eslc, <- E0 in Hcond. specialize (Hcond Hkl Hb). cbn [length Nat.add] in Hcond.
  apply reach_seq.
  eapply reach_weaken; [|exact Hcond].
  intros n pc' s' (Hn & Hs & Hpc). cbv beta. subst s'.
  destruct (cond_holds cfg c st) eqn:Ec.
  - destruct (Hbody eq_refl) as (st' & Hh & HR).
    apply reach_seq.
    eapply (reach_body cfg sl slB slc [SLbl lend] pc' N _ st');
      [exact Esl|exact Hpc|exact Hh|exact Hnr| |].
    + intros l Hl Hin. apply Hc in Hin. subst l. contradiction.
    + intros n1 Hn1. cbv beta.
      eapply reach_lbl_mid; [exact E3|rewrite app_length; reflexivity|].
      apply reach_stop. split; [lia|]. split; [rewrite Hlen, ?app_length; cbn [length]; lia|exact HR].
  - subst pc'.
    eapply reach_lbl_mid; [exact E3|reflexivity|].
    apply reach_stop. split; [lia|]. split; [rewrite Hlen, ?app_length; cbn [length]; lia|reflexivity].
Qed.
Print Assumptions if_reach.

Lemma slines_if_tpl : forall cfg c B slB lend here, cond_wf cfg c ->
  lend <> ""%string -> here <> ""%string -> slines_of B = Some slB ->
  slines_of (if_tpl_at c B lend here) = Some (scond_code c lend here ++ slB ++ [SLbl lend]).
Proof.
  intros cfg c B slB lend here Hw Hl Hh HB. unfold if_tpl_at.
  apply slines_app; [apply (slines_cond_code cfg); assumption|].
  apply slines_app; [exact HB|reflexivity].
Qed.

(** ** [if_tpl_correct]

    The body [B] has the specification [R] on byte-valued states, contains no RTS / RTI and does
    not define the two labels of the template.  Then [if (c) B] runs from any byte-valued [st] to
    a normal halt in [st'] ([runs_to]: assembled, [Sem.run], empty call stack, any program around,
    any fuel above the length of the code) and
      - if the C condition holds on [st]: [R mid st'] for the state [mid] after the comparison,
        which equals [st] on memory, X, Y, S (and is byte-valued);
      - otherwise [st'] equals [st] on memory, X, Y, S. *)
Theorem if_tpl_correct : forall cfg c B lend here (R : mstate -> mstate -> Prop) st,
  ports cfg = [] -> cond_wf cfg c ->
  lend <> ""%string -> here <> ""%string -> lend <> here ->
  no_ret B -> fresh_in lend B -> fresh_in here B ->
  (forall s, bytes_ok s -> exists s', runs_to cfg B s s' /\ R s s') ->
  bytes_ok st ->
  exists st', runs_to cfg (if_tpl_at c B lend here) st st' /\
    (if cond_holds cfg c st
     then exists mid, same_mxys st mid /\ bytes_ok mid /\ R mid st'
     else same_mxys st st').
Proof.
  intros cfg c B lend here R st Hp Hw Hl Hh Nlh Hnr Fl Fh HB Hb.
  destruct (HB st Hb) as (s0 & (slB & HslB & _) & _).
  unfold fresh_in in Fl, Fh. rewrite <- (slines_defs _ _ HslB) in Fl, Fh.
  eapply runs_to_reach; [apply (slines_if_tpl cfg); eassumption|].
  eapply reach_weaken;
    [|apply (if_reach cfg c slB lend here (length slB) R st Hp Hw Nlh
               (slines_no_ret _ _ HslB Hnr) Fl Fh Hb)].
  - intros n pc' s' (Hn & Hpc & HP). cbv beta.
    split; [rewrite !app_length; cbn [length]; destruct (cond_holds cfg c st); lia|].
    split; [exact Hpc|].
    destruct (cond_holds cfg c st).
    + exists (cond_state cfg c st).
      split; [apply cond_state_same|]. split; [apply cond_state_bytes_ok; exact Hb|exact HP].
    + subst s'. apply cond_state_same.
  - intros _. destruct (HB _ (cond_state_bytes_ok cfg c st Hb)) as (s' & Hr & HR).
    exists s'. split; [apply (runs_to_sl_halts cfg B); assumption|exact HR].
Qed.
Print Assumptions if_tpl_correct.

(** the same for a body that only [halts_to] (it may contain loops) *)
Theorem if_tpl_correct_h : forall cfg c B lend here (R : mstate -> mstate -> Prop) st,
  ports cfg = [] -> cond_wf cfg c ->
  lend <> ""%string -> here <> ""%string -> lend <> here ->
  no_ret B -> fresh_in lend B -> fresh_in here B ->
  (forall s, bytes_ok s -> exists s', halts_to cfg B s s' /\ R s s') ->
  bytes_ok st ->
  exists st', halts_to cfg (if_tpl_at c B lend here) st st' /\
    (if cond_holds cfg c st
     then exists mid, same_mxys st mid /\ bytes_ok mid /\ R mid st'
     else same_mxys st st').
Proof.
  intros cfg c B lend here R st Hp Hw Hl Hh Nlh Hnr Fl Fh HB Hb.
  destruct (HB st Hb) as (s0 & (slB & HslB & _) & _).
  unfold fresh_in in Fl, Fh. rewrite <- (slines_defs _ _ HslB) in Fl, Fh.
  destruct (HB _ (cond_state_bytes_ok cfg c st Hb)) as (s1 & Hr & HR).
  destruct (halts_to_sl_halts cfg B slB _ _ HslB Hr) as (N & HN).
  eapply halts_to_reach; [apply (slines_if_tpl cfg); eassumption|].
  eapply reach_weaken;
    [|apply (if_reach cfg c slB lend here N R st Hp Hw Nlh
               (slines_no_ret _ _ HslB Hnr) Fl Fh Hb)].
  - intros n pc' s' (Hn & Hpc & HP). cbv beta. split; [exact Hpc|].
    destruct (cond_holds cfg c st).
    + exists (cond_state cfg c st).
      split; [apply cond_state_same|]. split; [apply cond_state_bytes_ok; exact Hb|exact HP].
    + subst s'. apply cond_state_same.
  - intros _. exists s1. split; [exact HN|exact HR].
Qed.
Print Assumptions if_tpl_correct_h.

(** * [if (c) B1 else B2] *)

Lemma ifelse_reach : forall cfg c slB1 slB2 lelse lend here N1 N2
    (R1 R2 : mstate -> mstate -> Prop) st,
  ports cfg = [] -> cond_wf cfg c -> lelse <> here -> lend <> here -> lelse <> lend ->
  no_ret_s slB1 -> no_ret_s slB2 ->
  ~ In lelse (sdefs slB1) -> ~ In lend (sdefs slB1) -> ~ In here (sdefs slB1) ->
  ~ In lelse (sdefs slB2) -> ~ In lend (sdefs slB2) -> ~ In here (sdefs slB2) ->
  (forall l, In l (sdefs slB2) -> ~ In l (sdefs slB1)) ->
  bytes_ok st ->
  (cond_holds cfg c st = true ->
     exists st', sl_halts cfg slB1 N1 (cond_state cfg c st) st' /\ R1 (cond_state cfg c st) st') ->
  (cond_holds cfg c st = false ->
     exists st', sl_halts cfg slB2 N2 (cond_state cfg c st) st' /\ R2 (cond_state cfg c st) st') ->
  reach cfg (scond_code c lelse here ++ slB1 ++ [sjmp lend; SLbl lelse] ++ slB2 ++ [SLbl lend]) 0 st
    (fun (n pc' : nat) (s' : mstate) =>
      (n <= length (scond_code c lelse here) + (if cond_holds cfg c st then N1 + 2 else N2 + 2))%nat /\
      pc' = length (scond_code c lelse here ++ slB1 ++ [sjmp lend; SLbl lelse] ++ slB2 ++ [SLbl lend]) /\
      if cond_holds cfg c st then R1 (cond_state cfg c st) s' else R2 (cond_state cfg c st) s').
Proof.
  intros cfg c slB1 slB2 lelse lend here N1 N2 R1 R2 st Hp Hw Neh Ndh Ned Hnr1 Hnr2
    F1e F1d F1h F2e F2d F2h Hdisj Hb Hb1 Hb2.
  pose proof (sdefs_scond_code c lelse here) as Hc.
  remember (scond_code c lelse here) as slc eqn:Eslc.
  remember (slc ++ slB1 ++ [sjmp lend; SLbl lelse] ++ slB2 ++ [SLbl lend]) as sl eqn:Esl.
  assert (E0 : sl = [] ++ slc ++ (slB1 ++ [sjmp lend; SLbl lelse] ++ slB2 ++ [SLbl lend]))
    by (subst sl; reflexivity).
  assert (E1 : sl = (slc ++ slB1) ++ sjmp lend :: (SLbl lelse :: slB2 ++ [SLbl lend]))
    by (subst sl; rewrite <- !app_assoc; reflexivity).
  assert (E2 : sl = (slc ++ slB1 ++ [sjmp lend]) ++ SLbl lelse :: (slB2 ++ [SLbl lend]))
    by (subst sl; rewrite <- !app_assoc; reflexivity).
  assert (E3 : sl = (slc ++ slB1 ++ [sjmp lend; SLbl lelse] ++ slB2) ++ SLbl lend :: [])
    by (subst sl; rewrite <- !app_assoc; reflexivity).
  assert (E4 : sl = (slc ++ slB1 ++ [sjmp lend; SLbl lelse]) ++ slB2 ++ [SLbl lend])
    by (subst sl; rewrite <- !app_assoc; reflexivity).
  assert (Hlen : length sl = S (length (slc ++ slB1 ++ [sjmp lend; SLbl lelse] ++ slB2)))
    by (rewrite E3, app_length; cbn [length]; lia).
  assert (Hkelse : find_label lelse sl 0 = Some (length (slc ++ slB1 ++ [sjmp lend]))).
  { rewrite E2. apply find_label_mid. notin_tac Hc. }
  assert (Hkend : find_label lend sl 0
                  = Some (length (slc ++ slB1 ++ [sjmp lend; SLbl lelse] ++ slB2))).
  { rewrite E3. apply find_label_mid. notin_tac Hc. }
  pose proof (cond_reach cfg c lelse here []
                (slB1 ++ [sjmp lend; SLbl lelse] ++ slB2 ++ [SLbl lend])
                (length (slc ++ slB1 ++ [sjmp lend])) st Hp Hw Neh (fun H => H)) as Hcond.
  rewrite <- Eslc, <- E0 in Hcond. specialize (Hcond Hkelse Hb). cbn [length Nat.add] in Hcond.
  apply reach_seq.
  eapply reach_weaken; [|exact Hcond].
  intros n pc' s' (Hn & Hs & Hpc). cbv beta. subst s'.
  destruct (cond_holds cfg c st) eqn:Ec.
  - destruct (Hb1 eq_refl) as (st' & Hh & HR).
    apply reach_seq.
    eapply (reach_body cfg sl slB1 slc _ pc' N1 _ st');
      [exact Esl|exact Hpc|exact Hh|exact Hnr1| |].
    + intros l Hl Hin. apply Hc in Hin. subst l. contradiction.
    + intros n1 Hn1. cbv beta.
      eapply reach_jmp_mid; [exact E1|rewrite app_length; reflexivity|exact Hkend|].
      eapply reach_lbl_mid; [exact E3|reflexivity|].
      apply reach_stop. split; [lia|]. split; [rewrite Hlen; reflexivity|exact HR].
  - destruct (Hb2 eq_refl) as (st' & Hh & HR). subst pc'.
    eapply reach_lbl_mid; [exact E2|reflexivity|].
    apply reach_seq.
    eapply (reach_body cfg sl slB2 (slc ++ slB1 ++ [sjmp lend; SLbl lelse]) [SLbl lend] _ N2 _ st');
      [exact E4|rewrite !app_length; cbn [length]; lia|exact Hh|exact Hnr2| |].
    + intros l Hl. notin_tac Hc. exact (Hdisj l Hl Hin).
    + intros n2 Hn2. cbv beta.
      eapply reach_lbl_mid; [exact E3|rewrite !app_length; cbn [length]; lia|].
      apply reach_stop. split; [lia|]. split; [|exact HR].
      rewrite Hlen, !app_length. cbn [length]. lia.
Qed.
Print Assumptions ifelse_reach.

Lemma slines_ifelse_tpl : forall cfg c B1 B2 slB1 slB2 lelse lend here, cond_wf cfg c ->
  lelse <> ""%string -> lend <> ""%string -> here <> ""%string ->
  slines_of B1 = Some slB1 -> slines_of B2 = Some slB2 ->
  slines_of (ifelse_tpl_at c B1 B2 lelse lend here)
  = Some (scond_code c lelse here ++ slB1 ++ [sjmp lend; SLbl lelse] ++ slB2 ++ [SLbl lend]).
Proof.
  intros cfg c B1 B2 slB1 slB2 lelse lend here Hw He Hd Hh H1 H2. unfold ifelse_tpl_at.
  apply slines_app; [apply (slines_cond_code cfg); assumption|].
  apply slines_app; [exact H1|].
  apply slines_app; [apply slines_jmp; [exact Hd|reflexivity]|].
  apply slines_app; [exact H2|reflexivity].
Qed.

(** no label is defined by both *)
Definition defs_disjoint (B1 B2 : code) : Prop := forall l, In l (defs B1) -> ~ In l (defs B2).

(** ** [ifelse_tpl_correct]: as [if_tpl_correct], with two bodies and the JMP over the else part;
    the three labels of the template are defined by neither body, and the bodies define different
    labels *)
Theorem ifelse_tpl_correct : forall cfg c B1 B2 lelse lend here
    (R1 R2 : mstate -> mstate -> Prop) st,
  ports cfg = [] -> cond_wf cfg c ->
  lelse <> ""%string -> lend <> ""%string -> here <> ""%string ->
  lelse <> here -> lend <> here -> lelse <> lend ->
  no_ret B1 -> no_ret B2 ->
  fresh_in lelse B1 -> fresh_in lend B1 -> fresh_in here B1 ->
  fresh_in lelse B2 -> fresh_in lend B2 -> fresh_in here B2 ->
  defs_disjoint B1 B2 ->
  (forall s, bytes_ok s -> exists s', runs_to cfg B1 s s' /\ R1 s s') ->
  (forall s, bytes_ok s -> exists s', runs_to cfg B2 s s' /\ R2 s s') ->
  bytes_ok st ->
  exists st', runs_to cfg (ifelse_tpl_at c B1 B2 lelse lend here) st st' /\
    exists mid, same_mxys st mid /\ bytes_ok mid /\
      if cond_holds cfg c st then R1 mid st' else R2 mid st'.
Proof.
  intros cfg c B1 B2 lelse lend here R1 R2 st Hp Hw He Hd Hh Neh Ndh Ned Hnr1 Hnr2
    F1e F1d F1h F2e F2d F2h Hdisj HB1 HB2 Hb.
  destruct (HB1 st Hb) as (s0 & (slB1 & HslB1 & _) & _).
  destruct (HB2 st Hb) as (s0' & (slB2 & HslB2 & _) & _).
  unfold fresh_in, defs_disjoint in *.
  rewrite <- (slines_defs _ _ HslB1) in F1e, F1d, F1h, Hdisj.
  rewrite <- (slines_defs _ _ HslB2) in F2e, F2d, F2h, Hdisj.
  eapply runs_to_reach; [apply (slines_ifelse_tpl cfg); eassumption|].
  eapply reach_weaken;
    [|apply (ifelse_reach cfg c slB1 slB2 lelse lend here (length slB1) (length slB2) R1 R2 st
               Hp Hw Neh Ndh Ned (slines_no_ret _ _ HslB1 Hnr1) (slines_no_ret _ _ HslB2 Hnr2)
               F1e F1d F1h F2e F2d F2h (fun l H2 H1 => Hdisj l H1 H2) Hb)].
  - intros n pc' s' (Hn & Hpc & HP). cbv beta.
    split; [rewrite !app_length; cbn [length]; destruct (cond_holds cfg c st); lia|].
    split; [exact Hpc|].
    exists (cond_state cfg c st).
    split; [apply cond_state_same|]. split; [apply cond_state_bytes_ok; exact Hb|exact HP].
  - intros _. destruct (HB1 _ (cond_state_bytes_ok cfg c st Hb)) as (s' & Hr & HR).
    exists s'. split; [apply (runs_to_sl_halts cfg B1); assumption|exact HR].
  - intros _. destruct (HB2 _ (cond_state_bytes_ok cfg c st Hb)) as (s' & Hr & HR).
    exists s'. split; [apply (runs_to_sl_halts cfg B2); assumption|exact HR].
Qed.
Print Assumptions ifelse_tpl_correct.

Theorem ifelse_tpl_correct_h : forall cfg c B1 B2 lelse lend here
    (R1 R2 : mstate -> mstate -> Prop) st,
  ports cfg = [] -> cond_wf cfg c ->
  lelse <> ""%string -> lend <> ""%string -> here <> ""%string ->
  lelse <> here -> lend <> here -> lelse <> lend ->
  no_ret B1 -> no_ret B2 ->
  fresh_in lelse B1 -> fresh_in lend B1 -> fresh_in here B1 ->
  fresh_in lelse B2 -> fresh_in lend B2 -> fresh_in here B2 ->
  defs_disjoint B1 B2 ->
  (forall s, bytes_ok s -> exists s', halts_to cfg B1 s s' /\ R1 s s') ->
  (forall s, bytes_ok s -> exists s', halts_to cfg B2 s s' /\ R2 s s') ->
  bytes_ok st ->
  exists st', halts_to cfg (ifelse_tpl_at c B1 B2 lelse lend here) st st' /\
    exists mid, same_mxys st mid /\ bytes_ok mid /\
      if cond_holds cfg c st then R1 mid st' else R2 mid st'.
Proof.
  intros cfg c B1 B2 lelse lend here R1 R2 st Hp Hw He Hd Hh Neh Ndh Ned Hnr1 Hnr2
    F1e F1d F1h F2e F2d F2h Hdisj HB1 HB2 Hb.
  destruct (HB1 _ (cond_state_bytes_ok cfg c st Hb)) as (s1 & Hr1 & HR1).
  destruct (HB2 _ (cond_state_bytes_ok cfg c st Hb)) as (s2 & Hr2 & HR2).
  pose proof Hr1 as (slB1 & HslB1 & _). pose proof Hr2 as (slB2 & HslB2 & _).
  destruct (halts_to_sl_halts cfg B1 slB1 _ _ HslB1 Hr1) as (N1 & HN1).
  destruct (halts_to_sl_halts cfg B2 slB2 _ _ HslB2 Hr2) as (N2 & HN2).
  unfold fresh_in, defs_disjoint in *.
  rewrite <- (slines_defs _ _ HslB1) in F1e, F1d, F1h, Hdisj.
  rewrite <- (slines_defs _ _ HslB2) in F2e, F2d, F2h, Hdisj.
  eapply halts_to_reach; [apply (slines_ifelse_tpl cfg); eassumption|].
  eapply reach_weaken;
    [|apply (ifelse_reach cfg c slB1 slB2 lelse lend here N1 N2 R1 R2 st
               Hp Hw Neh Ndh Ned (slines_no_ret _ _ HslB1 Hnr1) (slines_no_ret _ _ HslB2 Hnr2)
               F1e F1d F1h F2e F2d F2h (fun l H2 H1 => Hdisj l H1 H2) Hb)].
  - intros n pc' s' (Hn & Hpc & HP). cbv beta. split; [exact Hpc|].
    exists (cond_state cfg c st).
    split; [apply cond_state_same|]. split; [apply cond_state_bytes_ok; exact Hb|exact HP].
  - intros _. exists s1. split; [exact HN1|exact HR1].
  - intros _. exists s2. split; [exact HN2|exact HR2].
Qed.
Print Assumptions ifelse_tpl_correct_h.

(** * [while (c) B] *)

(** one pass from the loop head: back at the head after the body when the condition holds, past
    the end label otherwise *)
Lemma while_pass : forall cfg c slB lhead lend here N (R : mstate -> mstate -> Prop) s,
  ports cfg = [] -> cond_wf cfg c -> lhead <> lend -> lhead <> here -> lend <> here ->
  no_ret_s slB ->
  ~ In lhead (sdefs slB) -> ~ In lend (sdefs slB) -> ~ In here (sdefs slB) ->
  bytes_ok s ->
  (cond_holds cfg c s = true ->
     exists s', sl_halts cfg slB N (cond_state cfg c s) s' /\ R (cond_state cfg c s) s') ->
  reach cfg ([SLbl lhead] ++ scond_code c lend here ++ slB ++ [sjmp lhead; SLbl lend]) 0 s
    (fun (_ pc' : nat) (s' : mstate) =>
      if cond_holds cfg c s then pc' = 0%nat /\ R (cond_state cfg c s) s'
      else pc' = length ([SLbl lhead] ++ scond_code c lend here ++ slB ++ [sjmp lhead; SLbl lend])
           /\ s' = cond_state cfg c s).
Proof.
  intros cfg c slB lhead lend here N R s Hp Hw Nhd Nhh Ndh Hnr Fh Fd Fe Hb Hbody.
  pose proof (sdefs_scond_code c lend here) as Hc.
  remember (scond_code c lend here) as slc eqn:Eslc.
  remember ([SLbl lhead] ++ slc ++ slB ++ [sjmp lhead; SLbl lend]) as sl eqn:Esl.
  assert (E0 : sl = [] ++ SLbl lhead :: (slc ++ slB ++ [sjmp lhead; SLbl lend]))
    by (subst sl; reflexivity).
  assert (Ec0 : sl = [SLbl lhead] ++ slc ++ (slB ++ [sjmp lhead; SLbl lend]))
    by (subst sl; reflexivity).
  assert (E3 : sl = ([SLbl lhead] ++ slc ++ slB ++ [sjmp lhead]) ++ SLbl lend :: [])
    by (subst sl; rewrite <- !app_assoc; reflexivity).
  assert (E4 : sl = ([SLbl lhead] ++ slc) ++ slB ++ [sjmp lhead; SLbl lend])
    by (subst sl; rewrite <- !app_assoc; reflexivity).
  assert (E5 : sl = ([SLbl lhead] ++ slc ++ slB) ++ sjmp lhead :: [SLbl lend])
    by (subst sl; rewrite <- !app_assoc; reflexivity).
  assert (Hlen : length sl = S (length ([SLbl lhead] ++ slc ++ slB ++ [sjmp lhead])))
    by (rewrite E3, app_length; cbn [length]; lia).
  assert (Hkhead : find_label lhead sl 0 = Some 0%nat).
  { rewrite E0. cbn [app find_label]. rewrite String.eqb_refl. reflexivity. }
  assert (Hkend : find_label lend sl 0
                  = Some (length ([SLbl lhead] ++ slc ++ slB ++ [sjmp lhead]))).
  { rewrite E3. apply find_label_mid. notin_tac Hc. }
  assert (Hh1 : ~ In here (sdefs [SLbl lhead])).
  { cbn [sdefs In]. intros [E|[]]. apply Nhh. exact E. }
  pose proof (cond_reach cfg c lend here [SLbl lhead] (slB ++ [sjmp lhead; SLbl lend])
                (length ([SLbl lhead] ++ slc ++ slB ++ [sjmp lhead])) s Hp Hw Ndh Hh1) as Hcond.
  rewrite <- Eslc, <- Ec0 in Hcond. specialize (Hcond Hkend Hb).
  eapply reach_lbl_mid; [exact E0|reflexivity|].
  apply reach_seq.
  eapply reach_weaken; [|exact Hcond].
  intros n pc' s' (Hn & Hs & Hpc). cbv beta. subst s'.
  destruct (cond_holds cfg c s) eqn:Ec.
  - destruct (Hbody eq_refl) as (s' & Hh & HR).
    apply reach_seq.
    eapply (reach_body cfg sl slB ([SLbl lhead] ++ slc) _ pc' N _ s');
      [exact E4|rewrite Hpc, app_length; reflexivity|exact Hh|exact Hnr| |].
    + intros l Hl. notin_tac Hc.
    + intros n1 Hn1. cbv beta.
      eapply reach_jmp_mid; [exact E5|rewrite !app_length; cbn [length]; lia|exact Hkhead|].
      apply reach_stop. split; [reflexivity|exact HR].
  - subst pc'.
    eapply reach_lbl_mid; [exact E3|reflexivity|].
    apply reach_stop. split; [rewrite Hlen; reflexivity|reflexivity].
Qed.
Print Assumptions while_pass.

Lemma slines_while_tpl : forall cfg c B slB lhead lend here, cond_wf cfg c ->
  lhead <> ""%string -> lend <> ""%string -> here <> ""%string -> slines_of B = Some slB ->
  slines_of (while_tpl_at c B lhead lend here)
  = Some ([SLbl lhead] ++ scond_code c lend here ++ slB ++ [sjmp lhead; SLbl lend]).
Proof.
  intros cfg c B slB lhead lend here Hw Hh Hd He HB. unfold while_tpl_at.
  apply slines_app; [reflexivity|].
  apply slines_app; [apply (slines_cond_code cfg); assumption|].
  apply slines_app; [exact HB|].
  apply slines_jmp; [exact Hh|reflexivity].
Qed.

(** ** [while_tpl_correct]: the while rule (total correctness)

    [I] is the invariant, [mu] the measure; both are about memory, X, Y, S only (they do not see A
    and the flags, which the evaluation of the condition changes).  Whenever the invariant and the
    C condition hold on a byte-valued state, [mu] is non-negative and the body (which has no
    RTS / RTI and does not define the three labels of the template) halts in a state where the
    invariant holds again and [mu] is smaller.  Then from every byte-valued state satisfying the
    invariant, [while (c) B] halts ([halts_to]: [Sem.run] on the whole sequence, backward jump
    included, with any fuel above some bound), the invariant holds on the final state and the
    C condition does not. *)
Theorem while_tpl_correct : forall cfg c B lhead lend here
    (I : mstate -> Prop) (mu : mstate -> Z) st,
  ports cfg = [] -> cond_wf cfg c ->
  lhead <> ""%string -> lend <> ""%string -> here <> ""%string ->
  lhead <> lend -> lhead <> here -> lend <> here ->
  no_ret B -> fresh_in lhead B -> fresh_in lend B -> fresh_in here B ->
  (exists slB, slines_of B = Some slB) ->
  (forall s s', same_mxys s s' -> I s -> I s') ->
  (forall s s', same_mxys s s' -> mu s' = mu s) ->
  (forall s, bytes_ok s -> I s -> cond_holds cfg c s = true ->
     0 <= mu s /\ exists s', halts_to cfg B s s' /\ I s' /\ mu s' < mu s) ->
  bytes_ok st -> I st ->
  exists st', halts_to cfg (while_tpl_at c B lhead lend here) st st' /\
    I st' /\ cond_holds cfg c st' = false /\ bytes_ok st'.
Proof.
  intros cfg c B lhead lend here I mu st Hp Hw Hh Hd He Nhd Nhh Ndh Hnr Fh Fd Fe (slB & HslB)
    HI Hmu Hbody Hb Hinv.
  unfold fresh_in in Fh, Fd, Fe. rewrite <- (slines_defs _ _ HslB) in Fh, Fd, Fe.
  pose proof (slines_no_ret _ _ HslB Hnr) as Hnrs.
  eapply halts_to_reach; [apply (slines_while_tpl cfg); eassumption|].
  eapply (loop_rule cfg _ 0%nat _
            (fun k s => I s /\ bytes_ok s /\ k = Z.max 0 (mu s + 1))
            (fun s' => I s' /\ cond_holds cfg c s' = false /\ bytes_ok s'))
    with (k := Z.max 0 (mu st + 1)); [|split; [exact Hinv|split; [exact Hb|reflexivity]]].
  intros k s (Hi & Hbs & Hk).
  pose proof (cond_state_same cfg c s) as Hsame.
  pose proof (cond_state_bytes_ok cfg c s Hbs) as Hbm.
  destruct (cond_holds cfg c s) eqn:Ec.
  - destruct (Hbody (cond_state cfg c s) Hbm (HI _ _ Hsame Hi)
                ltac:(rewrite cond_holds_state; exact Ec)) as (Hm0 & s' & Hr & Hi' & Hlt).
    rewrite (Hmu _ _ Hsame) in Hm0, Hlt.
    destruct (halts_to_sl_halts cfg B slB _ _ HslB Hr) as (N & HN).
    eapply reach_weaken;
      [|apply (while_pass cfg c slB lhead lend here N
                 (fun _ s' => I s' /\ bytes_ok s' /\ mu s' < mu s) s
                 Hp Hw Nhd Nhh Ndh Hnrs Fh Fd Fe Hbs)].
    + intros n pc' s2 HP. cbv beta in HP. rewrite Ec in HP. destruct HP as (Hpc & Hi2 & Hb2 & Hlt2).
      left. split; [exact Hpc|]. exists (Z.max 0 (mu s2 + 1)).
      split; [lia|]. split; [exact Hi2|]. split; [exact Hb2|reflexivity].
    + intros _. exists s'. split; [exact HN|]. split; [exact Hi'|].
      split; [apply (halts_to_bytes_ok cfg B _ _ Hr Hbm)|exact Hlt].
  - eapply reach_weaken;
      [|apply (while_pass cfg c slB lhead lend here 0%nat (fun _ _ => True) s
                 Hp Hw Nhd Nhh Ndh Hnrs Fh Fd Fe Hbs)].
    + intros n pc' s2 HP. cbv beta in HP. rewrite Ec in HP. destruct HP as (Hpc & Hs2). subst s2.
      right. split; [exact Hpc|]. split; [apply (HI _ _ Hsame Hi)|].
      split; [rewrite cond_holds_state; exact Ec|exact Hbm].
    + intros E. rewrite Ec in E. discriminate E.
Qed.
Print Assumptions while_tpl_correct.

(** * Instances: the bodies of the listing *)

(** [dst = k;] *)
Theorem assign8_correct : forall cfg dst k pd st,
  ports cfg = [] -> var_name dst -> layout cfg dst = Some pd -> 0 <= pd < 65536 -> 0 <= k < 256 ->
  exists st', runs_to cfg (assign8 dst k) st st' /\
    mget (mem st') pd = k /\ only_changes [pd] st st' /\ keeps_xys st st'.
Proof.
  intros cfg dst k pd st Hp Vd Ld Rd Rk.
  eexists. split.
  - eapply runs_to_intro with (n := 20%nat);
      [unfold assign8; slines_tac|cbn [fwd_ok targets In]; tauto|repeat xstep; reflexivity].
  - post_tac. rewrite (byte_small k Rk). split; [mem_simp; reflexivity|frame_tac].
Qed.
Print Assumptions assign8_correct.

Lemma assign8_no_ret : forall dst k, no_ret (assign8 dst k).
Proof. reflexivity. Qed.
Lemma assign8_fresh : forall l dst k, fresh_in l (assign8 dst k).
Proof. intros l dst k H. exact H. Qed.

Lemma only_changes_same : forall d st mid st',
  same_mxys st mid -> only_changes d mid st' -> only_changes d st st'.
Proof.
  intros d st mid st' (Em & _) H a Ha Hn. rewrite (H a Ha Hn), Em. reflexivity.
Qed.
Lemma keeps_xys_same : forall st mid st',
  same_mxys st mid -> keeps_xys mid st' -> keeps_xys st st'.
Proof.
  intros st mid st' (_ & Ex & Ey & Es) (Kx & Ky & Ks). repeat split; congruence.
Qed.
Lemma same_only_changes : forall d st st', same_mxys st st' -> only_changes d st st'.
Proof. intros d st st' (Em & _) a _ _. rewrite Em. reflexivity. Qed.
Lemma same_keeps_xys : forall st st', same_mxys st st' -> keeps_xys st st'.
Proof. intros st st' (_ & Ex & Ey & Es). repeat split; assumption. Qed.

(** [if (c) dst = k;] for ANY 8-bit condition [c]: [dst] holds the C value, every other cell and
    X, Y, S are unchanged (the operands of [c] may be [dst] itself) *)
Corollary if_assign_correct : forall cfg c dst k lend here pd st,
  ports cfg = [] -> cond_wf cfg c ->
  lend <> ""%string -> here <> ""%string -> lend <> here ->
  var_name dst -> layout cfg dst = Some pd -> 0 <= pd < 65536 -> 0 <= k < 256 ->
  bytes_ok st ->
  exists st', runs_to cfg (if_tpl_at c (assign8 dst k) lend here) st st' /\
    mget (mem st') pd = (if cond_holds cfg c st then k else mget (mem st) pd) /\
    only_changes [pd] st st' /\ keeps_xys st st'.
Proof.
  intros cfg c dst k lend here pd st Hp Hw Hl Hh Nlh Vd Ld Rd Rk Hb.
  destruct (if_tpl_correct cfg c (assign8 dst k) lend here
              (fun s s' => mget (mem s') pd = k /\ only_changes [pd] s s' /\ keeps_xys s s') st
              Hp Hw Hl Hh Nlh (assign8_no_ret _ _) (assign8_fresh _ _ _) (assign8_fresh _ _ _)
              (fun s _ => assign8_correct cfg dst k pd s Hp Vd Ld Rd Rk) Hb) as (st' & Hr & HP).
  exists st'. split; [exact Hr|].
  destruct (cond_holds cfg c st).
  - destruct HP as (mid & Hs & _ & Hv & Hoc & Hk).
    split; [exact Hv|]. split; [apply (only_changes_same _ _ _ _ Hs Hoc)|apply (keeps_xys_same _ _ _ Hs Hk)].
  - split; [destruct HP as (Em & _); rewrite Em; reflexivity|].
    split; [apply same_only_changes; exact HP|apply same_keeps_xys; exact HP].
Qed.
Print Assumptions if_assign_correct.

(** [if (c) dst = k1; else dst = k2;] *)
Corollary ifelse_assign_correct : forall cfg c dst k1 k2 lelse lend here pd st,
  ports cfg = [] -> cond_wf cfg c ->
  lelse <> ""%string -> lend <> ""%string -> here <> ""%string ->
  lelse <> here -> lend <> here -> lelse <> lend ->
  var_name dst -> layout cfg dst = Some pd -> 0 <= pd < 65536 ->
  0 <= k1 < 256 -> 0 <= k2 < 256 ->
  bytes_ok st ->
  exists st', runs_to cfg (ifelse_tpl_at c (assign8 dst k1) (assign8 dst k2) lelse lend here) st st' /\
    mget (mem st') pd = (if cond_holds cfg c st then k1 else k2) /\
    only_changes [pd] st st' /\ keeps_xys st st'.
Proof.
  intros cfg c dst k1 k2 lelse lend here pd st Hp Hw He Hd Hh Neh Ndh Ned Vd Ld Rd Rk1 Rk2 Hb.
  destruct (ifelse_tpl_correct cfg c (assign8 dst k1) (assign8 dst k2) lelse lend here
              (fun s s' => mget (mem s') pd = k1 /\ only_changes [pd] s s' /\ keeps_xys s s')
              (fun s s' => mget (mem s') pd = k2 /\ only_changes [pd] s s' /\ keeps_xys s s') st
              Hp Hw He Hd Hh Neh Ndh Ned (assign8_no_ret _ _) (assign8_no_ret _ _)
              (assign8_fresh _ _ _) (assign8_fresh _ _ _) (assign8_fresh _ _ _)
              (assign8_fresh _ _ _) (assign8_fresh _ _ _) (assign8_fresh _ _ _)
              (fun l H => match H with end)
              (fun s _ => assign8_correct cfg dst k1 pd s Hp Vd Ld Rd Rk1)
              (fun s _ => assign8_correct cfg dst k2 pd s Hp Vd Ld Rd Rk2) Hb)
    as (st' & Hr & mid & Hs & _ & HP).
  exists st'. split; [exact Hr|].
  destruct (cond_holds cfg c st); destruct HP as (Hv & Hoc & Hk);
    (split; [exact Hv|]; split;
       [apply (only_changes_same _ _ _ _ Hs Hoc)|apply (keeps_xys_same _ _ _ Hs Hk)]).
Qed.
Print Assumptions ifelse_assign_correct.

(** ** the compiler's labels are non-empty and distinct *)
Lemma lname_ifend_ne : forall n, lname ".ifend" n <> ""%string.
Proof. intros n. unfold lname. cbn [append]. discriminate. Qed.
Lemma lname_ifhere_ne : forall n, lname ".ifhere" n <> ""%string.
Proof. intros n. unfold lname. cbn [append]. discriminate. Qed.
Lemma lname_else_ne : forall n, lname ".else" n <> ""%string.
Proof. intros n. unfold lname. cbn [append]. discriminate. Qed.
Lemma lname_ifend_ifhere : forall n m, lname ".ifend" n <> lname ".ifhere" m.
Proof. intros n m. unfold lname. cbn [append]. discriminate. Qed.
Lemma lname_else_ifhere : forall n m, lname ".else" n <> lname ".ifhere" m.
Proof. intros n m. unfold lname. cbn [append]. discriminate. Qed.
Lemma lname_else_ifend : forall n m, lname ".else" n <> lname ".ifend" m.
Proof. intros n m. unfold lname. cbn [append]. discriminate. Qed.
Lemma lname_while_ifhere : forall n m, lname ".while" n <> lname ".ifhere" m.
Proof. intros n m. unfold lname. cbn [append]. discriminate. Qed.
Lemma lname_whileend_ifhere : forall n m, lname ".whileend" n <> lname ".ifhere" m.
Proof. intros n m. unfold lname. cbn [append]. discriminate. Qed.

Lemma var_at_intro : forall cfg x px, var_name x -> layout cfg x = Some px -> 0 <= px < 65536 ->
  var_at cfg x.
Proof. intros cfg x px V L R. split; [exact V|]. exists px. split; assumption. Qed.

Lemma cond_holds_var : forall cfg o x y px py st,
  layout cfg x = Some px -> layout cfg y = Some py ->
  cond_holds cfg (CVar o x y) st = rel_holds o (mget (mem st) px) (mget (mem st) py).
Proof.
  intros cfg o x y px py st Lx Ly.
  unfold cond_holds, cond_lhs_val, cond_rhs_val, var_val. cbn [cond_op cond_lhs]. rewrite Lx, Ly.
  reflexivity.
Qed.

Lemma cond_holds_const : forall cfg o x k px st,
  layout cfg x = Some px ->
  cond_holds cfg (CConst o x k) st = rel_holds o (mget (mem st) px) k.
Proof.
  intros cfg o x k px st Lx.
  unfold cond_holds, cond_lhs_val, cond_rhs_val, var_val. cbn [cond_op cond_lhs]. rewrite Lx.
  reflexivity.
Qed.

(** ** the 18 if / if-else listings, generic in the operator, any label number, any addresses

    [if (x o y) dst = k;]  (listings 01 05 09 13 17 21 with [o] = == != < >= > <=, k = 1) *)
Corollary if_var_listing : forall o cfg x y dst k n px py pd st,
  ports cfg = [] -> var_name x -> var_name y -> var_name dst ->
  layout cfg x = Some px -> layout cfg y = Some py -> layout cfg dst = Some pd ->
  0 <= px < 65536 -> 0 <= py < 65536 -> 0 <= pd < 65536 -> 0 <= k < 256 ->
  bytes_ok st ->
  exists st', runs_to cfg (if_tpl (CVar o x y) (assign8 dst k) n) st st' /\
    mget (mem st') pd
    = (if rel_holds o (mget (mem st) px) (mget (mem st) py) then k else mget (mem st) pd) /\
    only_changes [pd] st st' /\ keeps_xys st st'.
Proof.
  intros o cfg x y dst k n px py pd st Hp Vx Vy Vd Lx Ly Ld Rx Ry Rd Rk Hb.
  rewrite <- (cond_holds_var cfg o x y px py st Lx Ly). unfold if_tpl.
  apply if_assign_correct; try assumption.
  - split; [apply (var_at_intro cfg x px)|apply (var_at_intro cfg y py)]; assumption.
  - apply lname_ifend_ne.
  - apply lname_ifhere_ne.
  - apply lname_ifend_ifhere.
Qed.
Print Assumptions if_var_listing.

(** [if (x o y) dst = k1; else dst = k2;]  (listings 02 06 10 14 18 22) *)
Corollary ifelse_var_listing : forall o cfg x y dst k1 k2 n px py pd st,
  ports cfg = [] -> var_name x -> var_name y -> var_name dst ->
  layout cfg x = Some px -> layout cfg y = Some py -> layout cfg dst = Some pd ->
  0 <= px < 65536 -> 0 <= py < 65536 -> 0 <= pd < 65536 -> 0 <= k1 < 256 -> 0 <= k2 < 256 ->
  bytes_ok st ->
  exists st', runs_to cfg (ifelse_tpl (CVar o x y) (assign8 dst k1) (assign8 dst k2) n) st st' /\
    mget (mem st') pd = (if rel_holds o (mget (mem st) px) (mget (mem st) py) then k1 else k2) /\
    only_changes [pd] st st' /\ keeps_xys st st'.
Proof.
  intros o cfg x y dst k1 k2 n px py pd st Hp Vx Vy Vd Lx Ly Ld Rx Ry Rd Rk1 Rk2 Hb.
  rewrite <- (cond_holds_var cfg o x y px py st Lx Ly). unfold ifelse_tpl.
  apply ifelse_assign_correct; try assumption.
  - split; [apply (var_at_intro cfg x px)|apply (var_at_intro cfg y py)]; assumption.
  - apply lname_else_ne.
  - apply lname_ifend_ne.
  - apply lname_ifhere_ne.
  - apply lname_else_ifhere.
  - apply lname_ifend_ifhere.
  - apply lname_else_ifend.
Qed.
Print Assumptions ifelse_var_listing.

(** [if (x o kc) dst = k1; else dst = k2;] for a constant [0 <= kc < 256]
    (listings 03 07 11 15 19 23 with kc = 5) *)
Corollary ifelse_const_listing : forall o cfg x kc dst k1 k2 n px pd st,
  ports cfg = [] -> var_name x -> var_name dst ->
  layout cfg x = Some px -> layout cfg dst = Some pd ->
  0 <= px < 65536 -> 0 <= pd < 65536 -> 0 <= kc < 256 -> 0 <= k1 < 256 -> 0 <= k2 < 256 ->
  bytes_ok st ->
  exists st', runs_to cfg (ifelse_tpl (CConst o x kc) (assign8 dst k1) (assign8 dst k2) n) st st' /\
    mget (mem st') pd = (if rel_holds o (mget (mem st) px) kc then k1 else k2) /\
    only_changes [pd] st st' /\ keeps_xys st st'.
Proof.
  intros o cfg x kc dst k1 k2 n px pd st Hp Vx Vd Lx Ld Rx Rd Rkc Rk1 Rk2 Hb.
  rewrite <- (cond_holds_const cfg o x kc px st Lx). unfold ifelse_tpl.
  apply ifelse_assign_correct; try assumption.
  - split; [apply (var_at_intro cfg x px); assumption|exact Rkc].
  - apply lname_else_ne.
  - apply lname_ifend_ne.
  - apply lname_ifhere_ne.
  - apply lname_else_ifhere.
  - apply lname_ifend_ifhere.
  - apply lname_else_ifend.
Qed.
Print Assumptions ifelse_const_listing.

(** ** on the listing's own names, with a concrete layout (a, b, c at 128, 129, 130):
    [if (a < b) c = 1; else c = 2;] leaves [c = (a < b ? 1 : 2)], [a], [b] and everything else
    unchanged; [if (a <= b) c = 1;] (the form with the protected BEQ and the [.ifhere] label) *)
Corollary listing_if_lt_else : forall st, bytes_ok st ->
  exists st', runs_to cfg_listing (ifelse_tpl (CVar RLt "a" "b") (assign8 "c" 1) (assign8 "c" 2) 1) st st' /\
    mget (mem st') 130 = (if mget (mem st) 128 <? mget (mem st) 129 then 1 else 2) /\
    mget (mem st') 128 = mget (mem st) 128 /\ mget (mem st') 129 = mget (mem st) 129 /\
    only_changes [130] st st' /\ keeps_xys st st'.
Proof.
  intros st Hb.
  destruct (ifelse_var_listing RLt cfg_listing "a" "b" "c" 1 2 1%N 128 129 130 st) as (st' & Hr & Hv & Hoc & Hk);
    try reflexivity; try lia; try exact Hb;
    try (apply ident_var_name; [discriminate|reflexivity]).
  exists st'. split; [exact Hr|]. split; [exact Hv|].
  split; [apply Hoc; [lia|cbn [In]; lia]|]. split; [apply Hoc; [lia|cbn [In]; lia]|].
  split; assumption.
Qed.
Print Assumptions listing_if_lt_else.

Corollary listing_if_le : forall st, bytes_ok st ->
  exists st', runs_to cfg_listing (if_tpl (CVar RLte "a" "b") (assign8 "c" 1) 1) st st' /\
    mget (mem st') 130 = (if mget (mem st) 128 <=? mget (mem st) 129 then 1 else mget (mem st) 130) /\
    only_changes [130] st st' /\ keeps_xys st st'.
Proof.
  intros st Hb.
  apply (if_var_listing RLte cfg_listing "a" "b" "c" 1 1%N 128 129 130 st);
    try reflexivity; try lia; try exact Hb;
    (apply ident_var_name; [discriminate|reflexivity]).
Qed.
Print Assumptions listing_if_le.

Corollary listing_if_gt5_else : forall st, bytes_ok st ->
  exists st', runs_to cfg_listing (ifelse_tpl (CConst RGt "a" 5) (assign8 "c" 1) (assign8 "c" 2) 1) st st' /\
    mget (mem st') 130 = (if 5 <? mget (mem st) 128 then 1 else 2) /\
    only_changes [130] st st' /\ keeps_xys st st'.
Proof.
  intros st Hb.
  apply (ifelse_const_listing RGt cfg_listing "a" 5 "c" 1 2 1%N 128 130 st);
    try reflexivity; try lia; try exact Hb;
    (apply ident_var_name; [discriminate|reflexivity]).
Qed.
Print Assumptions listing_if_gt5_else.

(** * Instances of the while rule: the loops of the listing with a closed form *)

Lemma only_changes_trans : forall d s1 s2 s3,
  only_changes d s1 s2 -> only_changes d s2 s3 -> only_changes d s1 s3.
Proof. intros d s1 s2 s3 H1 H2 a Ha Hn. rewrite (H2 a Ha Hn). apply (H1 a Ha Hn). Qed.
Lemma keeps_xys_trans : forall s1 s2 s3, keeps_xys s1 s2 -> keeps_xys s2 s3 -> keeps_xys s1 s3.
Proof. intros s1 s2 s3 (A1 & A2 & A3) (B1 & B2 & B3). repeat split; congruence. Qed.
Lemma only_changes_refl : forall d s, only_changes d s s.
Proof. intros d s a _ _. reflexivity. Qed.
Lemma keeps_xys_refl : forall s, keeps_xys s s.
Proof. intros s. repeat split; reflexivity. Qed.

(** the frame part of the invariants: insensitive to A and the flags *)
Lemma frame_same : forall d st s s', same_mxys s s' ->
  only_changes d st s /\ keeps_xys st s -> only_changes d st s' /\ keeps_xys st s'.
Proof.
  intros d st s s' (Em & Ex & Ey & Es) (H1 & H2 & H3 & H4).
  split; [intros a Ha Hn; rewrite Em; apply (H1 a Ha Hn)|repeat split; congruence].
Qed.

Lemma inc8_assembles : forall a, var_name a -> exists slB, slines_of (template (SInc8 a)) = Some slB.
Proof. intros a Va. eexists. cbn [template]. slines_tac. Qed.

(** [while (a != b) a++;] terminates from EVERY byte-valued state, with [a = b]:
    the measure is [(b - a) mod 256] *)
Theorem while_ne_inc_code_correct : forall cfg a b lhead lend here pa pb st,
  ports cfg = [] -> var_name a -> var_name b ->
  lhead <> ""%string -> lend <> ""%string -> here <> ""%string ->
  lhead <> lend -> lhead <> here -> lend <> here ->
  layout cfg a = Some pa -> layout cfg b = Some pb ->
  0 <= pa < 65536 -> 0 <= pb < 65536 -> pa <> pb ->
  bytes_ok st ->
  exists st', halts_to cfg (while_tpl_at (CVar RNeq a b) (template (SInc8 a)) lhead lend here) st st' /\
    mget (mem st') pa = mget (mem st) pb /\
    only_changes [pa] st st' /\ keeps_xys st st'.
Proof.
  intros cfg a b lhead lend here pa pb st Hp Va Vb Hh Hd He Nhd Nhh Ndh La Lb Ra Rb Nab Hb.
  pose proof Hb as (_ & _ & _ & _ & HM0).
  destruct (while_tpl_correct cfg (CVar RNeq a b) (template (SInc8 a)) lhead lend here
              (fun s => mget (mem s) pb = mget (mem st) pb /\ only_changes [pa] st s /\ keeps_xys st s)
              (fun s => (mget (mem st) pb - mget (mem s) pa) mod 256) st Hp)
    as (st' & Hr & (Hvb & Hoc & Hk) & Hc & _); try assumption.
  - split; [apply (var_at_intro cfg a pa)|apply (var_at_intro cfg b pb)]; assumption.
  - reflexivity.
  - intros H; exact H.
  - intros H; exact H.
  - intros H; exact H.
  - apply inc8_assembles. exact Va.
  - intros s s' Hs (H1 & H2). split; [destruct Hs as (Em & _); rewrite Em; exact H1|].
    apply (frame_same _ _ _ _ Hs H2).
  - intros s s' (Em & _). cbv beta. rewrite Em. reflexivity.
  - intros s Hbs (H1 & H2 & H3) Hc. rewrite (cond_holds_var cfg RNeq a b pa pb s La Lb) in Hc.
    cbn [rel_holds] in Hc. rewrite H1 in Hc.
    pose proof Hbs as (_ & _ & _ & _ & HM).
    pose proof (HM pa) as Ma. pose proof (HM0 pb) as Mb.
    split; [lia|].
    destruct (inc8_correct cfg a pa s Hp Va La Ra) as (s' & Hr & Hv & Hoc & Hk).
    exists s'. split; [apply runs_to_halts_to; exact Hr|].
    split.
    + split; [rewrite (Hoc pb ltac:(lia) ltac:(cbn [In]; lia)); exact H1|].
      split; [apply (only_changes_trans _ _ _ _ H2 Hoc)|apply (keeps_xys_trans _ _ _ H3 Hk)].
    + rewrite Hv. destruct (Z.eqb_spec (mget (mem s) pa) (mget (mem st) pb)); [discriminate Hc|]. lia.
  - split; [reflexivity|]. split; [apply only_changes_refl|apply keeps_xys_refl].
  - exists st'. split; [exact Hr|]. split; [|split; assumption].
    rewrite (cond_holds_var cfg RNeq a b pa pb st' La Lb) in Hc. cbn [rel_holds] in Hc.
    rewrite Hvb in Hc. destruct (Z.eqb_spec (mget (mem st') pa) (mget (mem st) pb)); [assumption|discriminate Hc].
Qed.
Print Assumptions while_ne_inc_code_correct.

(** [while (a < b) a++;]: [a] ends as the larger of [a] and [b] *)
Theorem while_lt_inc_code_correct : forall cfg a b lhead lend here pa pb st,
  ports cfg = [] -> var_name a -> var_name b ->
  lhead <> ""%string -> lend <> ""%string -> here <> ""%string ->
  lhead <> lend -> lhead <> here -> lend <> here ->
  layout cfg a = Some pa -> layout cfg b = Some pb ->
  0 <= pa < 65536 -> 0 <= pb < 65536 -> pa <> pb ->
  bytes_ok st ->
  exists st', halts_to cfg (while_tpl_at (CVar RLt a b) (template (SInc8 a)) lhead lend here) st st' /\
    mget (mem st') pa = Z.max (mget (mem st) pa) (mget (mem st) pb) /\
    only_changes [pa] st st' /\ keeps_xys st st'.
Proof.
  intros cfg a b lhead lend here pa pb st Hp Va Vb Hh Hd He Nhd Nhh Ndh La Lb Ra Rb Nab Hb.
  pose proof Hb as (_ & _ & _ & _ & HM0).
  destruct (while_tpl_correct cfg (CVar RLt a b) (template (SInc8 a)) lhead lend here
              (fun s => mget (mem s) pb = mget (mem st) pb /\
                        mget (mem st) pa <= mget (mem s) pa
                          <= Z.max (mget (mem st) pa) (mget (mem st) pb) /\
                        only_changes [pa] st s /\ keeps_xys st s)
              (fun s => mget (mem st) pb - mget (mem s) pa) st Hp)
    as (st' & Hr & (Hvb & Hva & Hoc & Hk) & Hc & _); try assumption.
  - split; [apply (var_at_intro cfg a pa)|apply (var_at_intro cfg b pb)]; assumption.
  - reflexivity.
  - intros H; exact H.
  - intros H; exact H.
  - intros H; exact H.
  - apply inc8_assembles. exact Va.
  - intros s s' Hs (H1 & H2 & H3). pose proof Hs as (Em & _). rewrite Em.
    split; [exact H1|]. split; [exact H2|]. apply (frame_same _ _ _ _ Hs H3).
  - intros s s' (Em & _). cbv beta. rewrite Em. reflexivity.
  - intros s Hbs (H1 & H2 & H3 & H4) Hc. rewrite (cond_holds_var cfg RLt a b pa pb s La Lb) in Hc.
    cbn [rel_holds] in Hc. rewrite H1 in Hc.
    pose proof (HM0 pa) as Ma. pose proof (HM0 pb) as Mb.
    destruct (Z.ltb_spec (mget (mem s) pa) (mget (mem st) pb)) as [Hlt|]; [|discriminate Hc].
    split; [lia|].
    destruct (inc8_correct cfg a pa s Hp Va La Ra) as (s' & Hr & Hv & Hoc & Hk).
    exists s'. split; [apply runs_to_halts_to; exact Hr|].
    rewrite Z.mod_small in Hv by lia.
    split.
    + split; [rewrite (Hoc pb ltac:(lia) ltac:(cbn [In]; lia)); exact H1|].
      split; [lia|].
      split; [apply (only_changes_trans _ _ _ _ H3 Hoc)|apply (keeps_xys_trans _ _ _ H4 Hk)].
    + lia.
  - split; [reflexivity|]. split; [lia|]. split; [apply only_changes_refl|apply keeps_xys_refl].
  - exists st'. split; [exact Hr|]. split; [|split; assumption].
    rewrite (cond_holds_var cfg RLt a b pa pb st' La Lb) in Hc. cbn [rel_holds] in Hc.
    rewrite Hvb in Hc.
    destruct (Z.ltb_spec (mget (mem st') pa) (mget (mem st) pb)); [discriminate Hc|]. lia.
Qed.
Print Assumptions while_lt_inc_code_correct.

(** with the compiler's labels: listings 08 and 12 *)
Corollary while_ne_inc_correct : forall cfg a b n pa pb st,
  ports cfg = [] -> var_name a -> var_name b ->
  layout cfg a = Some pa -> layout cfg b = Some pb ->
  0 <= pa < 65536 -> 0 <= pb < 65536 -> pa <> pb ->
  bytes_ok st ->
  exists st', halts_to cfg (while_tpl (CVar RNeq a b) (template (SInc8 a)) n) st st' /\
    mget (mem st') pa = mget (mem st) pb /\
    only_changes [pa] st st' /\ keeps_xys st st'.
Proof.
  intros cfg a b n pa pb st Hp Va Vb. unfold while_tpl.
  apply while_ne_inc_code_correct; try assumption.
  - apply lname_nonempty_while.
  - apply lname_nonempty_whileend.
  - apply lname_ifhere_ne.
  - apply lname_while_whileend.
  - apply lname_while_ifhere.
  - apply lname_whileend_ifhere.
Qed.
Print Assumptions while_ne_inc_correct.

Corollary while_lt_inc_correct : forall cfg a b n pa pb st,
  ports cfg = [] -> var_name a -> var_name b ->
  layout cfg a = Some pa -> layout cfg b = Some pb ->
  0 <= pa < 65536 -> 0 <= pb < 65536 -> pa <> pb ->
  bytes_ok st ->
  exists st', halts_to cfg (while_tpl (CVar RLt a b) (template (SInc8 a)) n) st st' /\
    mget (mem st') pa = Z.max (mget (mem st) pa) (mget (mem st) pb) /\
    only_changes [pa] st st' /\ keeps_xys st st'.
Proof.
  intros cfg a b n pa pb st Hp Va Vb. unfold while_tpl.
  apply while_lt_inc_code_correct; try assumption.
  - apply lname_nonempty_while.
  - apply lname_nonempty_whileend.
  - apply lname_ifhere_ne.
  - apply lname_while_whileend.
  - apply lname_while_ifhere.
  - apply lname_whileend_ifhere.
Qed.
Print Assumptions while_lt_inc_correct.

(** on the listing's own names and a concrete layout *)
Corollary listing_while_ne : forall st, bytes_ok st ->
  exists st', halts_to cfg_listing (while_tpl (CVar RNeq "a" "b") (template (SInc8 "a")) 1) st st' /\
    mget (mem st') 128 = mget (mem st) 129 /\
    only_changes [128] st st' /\ keeps_xys st st'.
Proof.
  intros st Hb.
  apply (while_ne_inc_correct cfg_listing "a" "b" 1%N 128 129 st);
    try reflexivity; try lia; try exact Hb;
    (apply ident_var_name; [discriminate|reflexivity]).
Qed.
Print Assumptions listing_while_ne.

Corollary listing_while_lt : forall st, bytes_ok st ->
  exists st', halts_to cfg_listing (while_tpl (CVar RLt "a" "b") (template (SInc8 "a")) 1) st st' /\
    mget (mem st') 128 = Z.max (mget (mem st) 128) (mget (mem st) 129) /\
    only_changes [128] st st' /\ keeps_xys st st'.
Proof.
  intros st Hb.
  apply (while_lt_inc_correct cfg_listing "a" "b" 1%N 128 129 st);
    try reflexivity; try lia; try exact Hb;
    (apply ident_var_name; [discriminate|reflexivity]).
Qed.
Print Assumptions listing_while_lt.

(** * The templates nest: [if (a < b) while (a != b) a++;]

    The body of the [if] is the whole [while] statement ([halts_to], hence [if_tpl_correct_h]); its
    specification is [while_ne_inc_correct].  (A composition of the two templates with the
    compiler's label names, any numbers [n], [m]; this nested statement is not one of the listing.) *)
Theorem nested_if_while_correct : forall cfg a b n m pa pb st,
  ports cfg = [] -> var_name a -> var_name b ->
  layout cfg a = Some pa -> layout cfg b = Some pb ->
  0 <= pa < 65536 -> 0 <= pb < 65536 -> pa <> pb ->
  bytes_ok st ->
  exists st', halts_to cfg (if_tpl (CVar RLt a b)
                              (while_tpl (CVar RNeq a b) (template (SInc8 a)) m) n) st st' /\
    mget (mem st') pa = Z.max (mget (mem st) pa) (mget (mem st) pb) /\
    only_changes [pa] st st' /\ keeps_xys st st'.
Proof.
  intros cfg a b n m pa pb st Hp Va Vb La Lb Ra Rb Nab Hb.
  destruct (if_tpl_correct_h cfg (CVar RLt a b)
              (while_tpl (CVar RNeq a b) (template (SInc8 a)) m)
              (lname ".ifend" n) (lname ".ifhere" (n + 1))
              (fun s s' => mget (mem s') pa = mget (mem s) pb /\
                           only_changes [pa] s s' /\ keeps_xys s s') st Hp)
    as (st' & Hr & HP); try assumption.
  - split; [apply (var_at_intro cfg a pa)|apply (var_at_intro cfg b pb)]; assumption.
  - apply lname_ifend_ne.
  - apply lname_ifhere_ne.
  - apply lname_ifend_ifhere.
  - reflexivity.
  - unfold fresh_in, lname. cbn. intros [H|[H|[]]]; discriminate H.
  - unfold fresh_in, lname. cbn. intros [H|[H|[]]]; discriminate H.
  - intros s Hbs. apply while_ne_inc_correct; assumption.
  - exists st'. split; [exact Hr|].
    rewrite (cond_holds_var cfg RLt a b pa pb st La Lb) in HP. cbn [rel_holds] in HP.
    destruct (Z.ltb_spec (mget (mem st) pa) (mget (mem st) pb)) as [Hlt|Hge].
    + destruct HP as (mid & Hs & _ & Hv & Hoc & Hk). pose proof Hs as (Em & _).
      split; [rewrite Hv, Em; lia|].
      split; [apply (only_changes_same _ _ _ _ Hs Hoc)|apply (keeps_xys_same _ _ _ Hs Hk)].
    + pose proof HP as (Em & _).
      split; [rewrite Em; lia|]. split; [apply same_only_changes; exact HP|apply same_keeps_xys; exact HP].
Qed.
Print Assumptions nested_if_while_correct.
