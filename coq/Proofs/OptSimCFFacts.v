(** GLOBAL simulation of the peephole optimiser on code WITH labels, conditional branches and JMP
    (one function body; no JSR/RTS/RTI, no stack operation, no inline assembly) (C02): whenever
    the original code halts (falls off its end), the optimised code halts in the same state --
    loops included.

    Method.  As in Proofs/OptSimFacts.v the walk of [optimize] is a sequence of rewritings of the
    whole code.  Each rewriting touches a label-free WINDOW of the code: the lines since the last
    label, the first and second instruction, and (for a removal that rests on the look-ahead) the
    lines the optimiser has looked at.  [window]: replacing a label-free window by one that, from
    every byte-valued state, leaves by the same exit (falls through, or jumps to the same place)
    in an equal state, preserves halting and the final state -- by induction on the length of the
    run, which may cross the window any number of times and enters it only at its top, since
    branches go to labels.  The knowledge is sound after the first instruction for EVERY state in
    which the block can be entered ([KInv]): knowledge is reset at labels, so it only depends on
    the lines since the last label ([kinv_start], [kinv_advance], [kinv_removed], [kinv_rf],
    [kinv_sw]).  Per phase of [step]:
    - (J) [step_jmp_cf]: a JMP to the label that follows it goes where falling through goes
      (labels pairwise different);
    - (S) [step_second_cf]: nothing is rewritten; after a label the new knowledge is sound
      whatever the state;
    - (P)+(T)+(A) [step_pair_cf]: the branches of [step_pair] as in the straight-line proof, each
      through [rewrite_equiv]; remove_both (the known-compare rule) is EXCLUDED by hypothesis.
    Theorems: [optimize_cf_sound] (on [halts]) and [optimize_cf_run] (on [Sem.run], through
    [halts_halts_to] / [halts_to_halts]).

    Finding: the known-compare rule is unsound as it stands.  "CMP #n; BNE l" is removed when the
    register is known to hold "#n"; the branch is indeed never taken ([rule_cmp_known]) but the
    compare also sets N, Z and the CARRY, and the removal leaves them as they were:
    [cmp_rule_changes_c] ("LDA #2; CMP #2; BNE l; ADC #0": A = 3, optimised A = 2).  Hence the
    hypothesis [rb_free].  [duplicate_label_changes_x]: labels must be pairwise different. *)
From Coq Require Import String Ascii List Bool NArith ZArith Lia Arith.
From CC Require Import Base.Str Asm.Lines M6502.Isa Asm.Operand M6502.Sem
     Model.Optimize Model.OptSpec Model.OptSem Model.OptSim Model.OptSimCF
     Proofs.OptSemFacts Proofs.OptSimFacts.
From CC Require Proofs.OptFacts Proofs.GenTemplatesFacts Proofs.GenCmp16Facts Proofs.GenLoopsFacts.
Import ListNotations.
Open Scope Z_scope.

#[local] Opaque mget mset byte.
#[local] Arguments mget : simpl never.
#[local] Arguments mset : simpl never.
#[local] Arguments byte : simpl never.

(** * Labels and positions *)

(** no label, no inline assembly *)
Definition nobar (w : code) : bool :=
  forallb (fun x => match x with Ins _ | Cmt _ | Dummy => true | _ => false end) w.

Lemma nobar_cons (x : line) (w : code) :
  nobar (x :: w) = true ->
  (match x with Ins _ | Cmt _ | Dummy => true | _ => false end) = true /\ nobar w = true.
Proof. unfold nobar. cbn [forallb]. intros H. apply andb_true_iff in H. exact H. Qed.

Lemma nobar_app (a b : code) : nobar (a ++ b) = nobar a && nobar b.
Proof. unfold nobar. apply forallb_app. Qed.

Lemma find_lbl_nobar (l : string) (w : code) : nobar w = true -> find_lbl l w = None.
Proof.
  induction w as [|x w IH]; intros H; [reflexivity|].
  apply nobar_cons in H. destruct H as [H1 H2].
  destruct x; try discriminate H1; cbn [find_lbl]; rewrite (IH H2); reflexivity.
Qed.

Lemma find_lbl_app (l : string) (a b : code) :
  find_lbl l (a ++ b) =
  match find_lbl l a with
  | Some k => Some k
  | None => option_map (fun k => (length a + k)%nat) (find_lbl l b)
  end.
Proof.
  induction a as [|x a IH]; cbn [app length].
  - cbn [find_lbl]. destruct (find_lbl l b); reflexivity.
  - destruct x as [y|i|t sz|cm|]; cbn [find_lbl]; try destruct (String.eqb y l); try reflexivity;
      rewrite IH; destruct (find_lbl l a); cbn [option_map]; try reflexivity;
      destruct (find_lbl l b); reflexivity.
Qed.

Lemma find_lbl_window (l : string) (L W W' R : code) :
  nobar W = true -> nobar W' = true -> length W = length W' ->
  find_lbl l (L ++ W ++ R) = find_lbl l (L ++ W' ++ R).
Proof.
  intros N N' E. rewrite !find_lbl_app, (find_lbl_nobar l W N), (find_lbl_nobar l W' N'), E.
  reflexivity.
Qed.

Lemma find_lbl_nth (l : string) (c : code) : forall k,
  find_lbl l c = Some k -> nth_error c k = Some (Lbl l).
Proof.
  induction c as [|x c IH]; intros k H; [discriminate H|].
  assert (G : option_map S (find_lbl l c) = Some k -> nth_error (x :: c) k = Some (Lbl l)).
  { destruct (find_lbl l c) as [j|]; [|discriminate]. intros E. inversion E; subst. apply IH. reflexivity. }
  destruct x as [y|i|t sz|cm|]; cbn [find_lbl] in H; try (apply G; exact H).
  destruct (String.eqb_spec y l) as [->|NE]; [inversion H; reflexivity|apply G; exact H].
Qed.

Lemma nth_error_window_in (L W R : code) (k : nat) :
  (length L <= k < length L + length W)%nat ->
  nth_error (L ++ W ++ R) k = nth_error W (k - length L).
Proof.
  intros H. rewrite nth_error_app2 by lia. rewrite nth_error_app1 by lia. reflexivity.
Qed.

Lemma nth_error_window_out (L W W' R : code) (k : nat) :
  length W = length W' -> (k < length L \/ length L + length W <= k)%nat ->
  nth_error (L ++ W ++ R) k = nth_error (L ++ W' ++ R) k.
Proof.
  intros E [H|H].
  - rewrite !nth_error_app1 by lia. reflexivity.
  - rewrite !(nth_error_app2 L) by lia. rewrite !nth_error_app2 by lia. rewrite E. reflexivity.
Qed.

Lemma nobar_nth (w : code) (k : nat) (l : string) : nobar w = true -> nth_error w k <> Some (Lbl l).
Proof.
  intros N H. apply nth_error_In in H. unfold nobar in N.
  pose proof (proj1 (forallb_forall _ w) N _ H) as X. discriminate X.
Qed.

(** a label is never inside a label-free window *)
Lemma find_lbl_outside (l : string) (L W R : code) (k : nat) :
  nobar W = true -> find_lbl l (L ++ W ++ R) = Some k ->
  (k < length L \/ length L + length W <= k)%nat.
Proof.
  intros N H. apply find_lbl_nth in H.
  destruct (Nat.lt_ge_cases k (length L)) as [A|A]; [left; exact A|].
  destruct (Nat.lt_ge_cases k (length L + length W)) as [B|B]; [|right; exact B].
  exfalso. rewrite nth_error_window_in in H by lia. exact (nobar_nth _ _ _ N H).
Qed.

(** * The executor *)

Lemma crun_add (cfg : config) (c : code) (a b : nat) : forall pc s,
  crun cfg c (a + b) pc s =
  match crun cfg c a pc s with Some (pc1, s1) => crun cfg c b pc1 s1 | None => None end.
Proof.
  induction a as [|a IH]; intros pc s; [reflexivity|].
  cbn [Nat.add crun].
  destruct (nth_error c pc) as [[l|i|t sz|cm|]|]; try reflexivity; try apply IH.
  destruct (parse_operand (i_mn i) (i_op i)) as [op|]; [|reflexivity].
  destruct (exec cfg (i_mn i) op s) as [s1 k f|w]; [|reflexivity].
  destruct f; try reflexivity; [apply IH|].
  destruct (find_lbl l c); [apply IH|reflexivity].
Qed.

Definition bst (r : bres) : mstate := match r with BFall s | BJump _ s => s end.

(** where a block exit leads, the block being [W] in [L ++ W ++ R] *)
Definition dest (c : code) (after : nat) (r : bres) : option nat :=
  match r with BFall _ => Some after | BJump l _ => find_lbl l c end.

(** a halting run that enters a block at its top traverses it *)
Lemma crun_block_inv (cfg : config) (W : code) : forall L R n s fin,
  nobar W = true ->
  crun cfg (L ++ W ++ R) n (length L) s = Some (length (L ++ W ++ R), fin) ->
  exists r m k, bexec cfg W s = Some r /\ (m <= n)%nat /\ (W <> [] -> (m < n)%nat) /\
                dest (L ++ W ++ R) (length L + length W) r = Some k /\
                crun cfg (L ++ W ++ R) m k (bst r) = Some (length (L ++ W ++ R), fin).
Proof.
  induction W as [|x W IH]; intros L R n s fin N H.
  - exists (BFall s), n, (length L + 0)%nat. cbn [bexec dest bst length].
    repeat split; try reflexivity; try lia; [congruence|]. rewrite Nat.add_0_r. exact H.
  - apply nobar_cons in N. destruct N as [N1 N2].
    assert (EQ : L ++ (x :: W) ++ R = (L ++ [x]) ++ W ++ R) by (rewrite <- app_assoc; reflexivity).
    assert (LEN : length (L ++ [x]) = S (length L)) by (rewrite app_length; cbn; lia).
    destruct n as [|n].
    { cbn [crun] in H. inversion H as [[H1 H2]]. rewrite !app_length in H1. cbn [length] in H1. lia. }
    cbn [crun] in H. rewrite (nth_error_window_in L (x :: W) R) in H by (cbn [length]; lia).
    rewrite Nat.sub_diag in H. cbn [nth_error] in H.
    assert (REC : forall s1, crun cfg (L ++ (x :: W) ++ R) n (S (length L)) s1
                             = Some (length (L ++ (x :: W) ++ R), fin) ->
                  exists r m k, bexec cfg W s1 = Some r /\ (m <= n)%nat /\
                    dest (L ++ (x :: W) ++ R) (length L + length (x :: W)) r = Some k /\
                    crun cfg (L ++ (x :: W) ++ R) m k (bst r) = Some (length (L ++ (x :: W) ++ R), fin)).
    { intros s1 H1. rewrite EQ in H1 |- *. rewrite <- LEN in H1.
      destruct (IH (L ++ [x]) R n s1 fin N2 H1) as (r & m & k & B & M1 & _ & D & C).
      exists r, m, k. split; [exact B|]. split; [exact M1|]. split; [|exact C].
      rewrite <- D. rewrite LEN. cbn [length]. destruct r; cbn [dest]; [f_equal; lia|reflexivity]. }
    destruct x as [l|i|t sz|cm|]; try discriminate N1; cbn [bexec].
    + destruct (parse_operand (i_mn i) (i_op i)) as [op|]; [|discriminate H].
      destruct (exec cfg (i_mn i) op s) as [s1 c1 f|w]; [|discriminate H].
      destruct f as [|l|g| |]; try discriminate H.
      * destruct (REC s1 H) as (r & m & k & B & M1 & D & C).
        exists r, m, k. repeat split; try assumption; lia.
      * destruct (find_lbl l (L ++ (Ins i :: W) ++ R)) as [k|] eqn:F; [|discriminate H].
        exists (BJump l s1), n, k. cbn [dest bst]. repeat split; try assumption; try lia; try reflexivity.
    + destruct (REC s H) as (r & m & k & B & M1 & D & C).
      exists r, m, k. repeat split; try assumption; lia.
    + destruct (REC s H) as (r & m & k & B & M1 & D & C).
      exists r, m, k. repeat split; try assumption; lia.
Qed.

(** conversely a block exit is a run from the top of the block to where the exit leads *)
Lemma crun_block (cfg : config) (W : code) : forall L R s r k,
  nobar W = true -> bexec cfg W s = Some r ->
  dest (L ++ W ++ R) (length L + length W) r = Some k ->
  exists j, crun cfg (L ++ W ++ R) j (length L) s = Some (k, bst r).
Proof.
  induction W as [|x W IH]; intros L R s r k N B D.
  - cbn [bexec] in B. inversion B; subst r. cbn [dest] in D. inversion D; subst k.
    exists O. cbn [crun bst length]. rewrite Nat.add_0_r. reflexivity.
  - apply nobar_cons in N. destruct N as [N1 N2].
    assert (EQ : L ++ (x :: W) ++ R = (L ++ [x]) ++ W ++ R) by (rewrite <- app_assoc; reflexivity).
    assert (LEN : length (L ++ [x]) = S (length L)) by (rewrite app_length; cbn; lia).
    assert (REC : forall s1, bexec cfg W s1 = Some r ->
                  exists j, crun cfg (L ++ (x :: W) ++ R) j (S (length L)) s1 = Some (k, bst r)).
    { intros s1 B1. rewrite EQ. rewrite <- LEN. apply (IH (L ++ [x]) R s1 r k N2 B1).
      rewrite <- EQ. rewrite <- D. rewrite LEN. cbn [length].
      destruct r; cbn [dest]; [f_equal; lia|reflexivity]. }
    assert (NTH : nth_error (L ++ (x :: W) ++ R) (length L) = Some x).
    { rewrite nth_error_window_in by (cbn [length]; lia). rewrite Nat.sub_diag. reflexivity. }
    destruct x as [l|i|t sz|cm|]; try discriminate N1; cbn [bexec] in B.
    + destruct (parse_operand (i_mn i) (i_op i)) as [op|] eqn:P; [|discriminate B].
      destruct (exec cfg (i_mn i) op s) as [s1 c1 f|w] eqn:X; [|discriminate B].
      destruct f as [|l|g| |]; try discriminate B.
      * destruct (REC s1 B) as [j C]. exists (S j). cbn [crun]. rewrite NTH, P, X. exact C.
      * inversion B; subst r. cbn [dest] in D. exists 1%nat. cbn [crun]. rewrite NTH, P, X, D. reflexivity.
    + destruct (REC s B) as [j C]. exists (S j). cbn [crun]. rewrite NTH. exact C.
    + destruct (REC s B) as [j C]. exists (S j). cbn [crun]. rewrite NTH. exact C.
Qed.

(** * Equal states give equal behaviours *)

Lemma cf_mnem_cases (m : mnem) :
  cf_mnem m = true -> plain m = true \/ is_cond_branch m = true \/ m = JMP.
Proof.
  unfold cf_mnem. intros H. apply orb_true_iff in H. destruct H as [H|H].
  - apply orb_true_iff in H. tauto.
  - apply mnem_eqb_eq in H. tauto.
Qed.

Lemma exec_cf_eq (cfg : config) (m : mnem) (op : operand) (s1 s2 : mstate) :
  cf_mnem m = true -> eq_state s1 s2 ->
  outcome_eq (exec cfg m op s1) (exec cfg m op s2).
Proof.
  intros C H. destruct (cf_mnem_cases m C) as [P|[B| ->]].
  - apply exec_plain_eq; assumption.
  - pose proof H as ((HA & HX & HY & HS & HV & HC & HM) & HN & HZ).
    destruct m; try discriminate B; cbv beta iota zeta delta [exec];
      destruct op; cbn [outcome_eq]; try reflexivity;
      unfold branch_taken; rewrite ?HC, ?HN, ?HZ;
      match goal with |- context [if ?b then _ else _] => destruct b end;
      cbn [outcome_eq]; auto.
  - cbv beta iota zeta delta [exec]. destruct op; unfold Fault; cbn [outcome_eq]; auto.
Qed.

Definition bres_eq (r r' : bres) : Prop :=
  match r, r' with
  | BFall a, BFall b => eq_state a b
  | BJump l a, BJump l' b => l = l' /\ eq_state a b
  | _, _ => False
  end.

Lemma cf_ok_cons (cfg : config) (x : line) (c : code) :
  cf_ok cfg (x :: c) = true -> cf_line_ok cfg x = true /\ cf_ok cfg c = true.
Proof. unfold cf_ok. cbn [forallb]. intros H. apply andb_true_iff in H. exact H. Qed.

Lemma cf_ok_app (cfg : config) (a b : code) :
  cf_ok cfg (a ++ b) = true <-> cf_ok cfg a = true /\ cf_ok cfg b = true.
Proof. unfold cf_ok. rewrite forallb_app. apply andb_true_iff. Qed.

Lemma cf_ins_mnem (cfg : config) (i : instr) : cf_ins_ok cfg i = true -> cf_mnem (i_mn i) = true.
Proof.
  unfold cf_ins_ok. intros H. apply andb_true_iff in H. destruct H as [H _].
  apply andb_true_iff in H. exact (proj1 H).
Qed.

Lemma bexec_eq (cfg : config) (w : code) : forall s t r,
  cf_ok cfg w = true -> eq_state s t -> bexec cfg w s = Some r ->
  exists r', bexec cfg w t = Some r' /\ bres_eq r r'.
Proof.
  induction w as [|x w IH]; intros s t r OK E B.
  - cbn [bexec] in *. inversion B; subst. exists (BFall t). split; [reflexivity|exact E].
  - apply cf_ok_cons in OK. destruct OK as [OK1 OK2].
    destruct x as [l|i|tx sz|cm|]; cbn [bexec] in B |- *; try discriminate B;
      try (exact (IH s t r OK2 E B)).
    destruct (parse_operand (i_mn i) (i_op i)) as [op|]; [|discriminate B].
    pose proof (exec_cf_eq cfg (i_mn i) op s t (cf_ins_mnem cfg i OK1) E) as O.
    destruct (exec cfg (i_mn i) op s) as [s1 c1 f1|w1]; [|discriminate B].
    destruct (exec cfg (i_mn i) op t) as [t1 c2 f2|w2]; cbn [outcome_eq] in O; [|contradiction].
    destruct O as (_ & <- & O). destruct f1; try discriminate B.
    + exact (IH s1 t1 r OK2 O B).
    + inversion B; subst. exists (BJump l t1). split; [reflexivity|]. split; [reflexivity|exact O].
Qed.

Lemma bexec_bytes (cfg : config) (w : code) : forall s r,
  bytes_ok s -> bexec cfg w s = Some r -> bytes_ok (bst r).
Proof.
  induction w as [|x w IH]; intros s r HB B.
  - cbn [bexec] in B. inversion B; subst. exact HB.
  - destruct x as [l|i|tx sz|cm|]; cbn [bexec] in B; try discriminate B; try (exact (IH s r HB B)).
    destruct (parse_operand (i_mn i) (i_op i)) as [op|]; [|discriminate B].
    destruct (exec cfg (i_mn i) op s) as [s1 c1 f1|w1] eqn:X; [|discriminate B].
    pose proof (GenTemplatesFacts.exec_bytes_ok _ _ _ _ _ _ _ X HB) as HB1.
    destruct f1; try discriminate B; [exact (IH s1 r HB1 B)|].
    inversion B; subst. exact HB1.
Qed.

(** * Replacing a label-free window by one that behaves alike *)

Section Window.
  Variables (cfg : config) (L W W' R : code).
  Hypothesis NW : nobar W = true.
  Hypothesis NW' : nobar W' = true.
  Hypothesis LEN : length W = length W'.
  Hypothesis OK' : cf_ok cfg (L ++ W' ++ R) = true.

  Let c := L ++ W ++ R.
  Let c' := L ++ W' ++ R.
  Let after := (length L + length W)%nat.

  (** from every byte-valued state: same destination, equal states *)
  Hypothesis LS : forall s r k, bytes_ok s -> bexec cfg W s = Some r -> dest c after r = Some k ->
    exists r', bexec cfg W' s = Some r' /\ dest c after r' = Some k /\ eq_state (bst r') (bst r).

  Lemma len_cc' : length c' = length c.
  Proof. unfold c, c'. rewrite !app_length. lia. Qed.

  Lemma dest_cc' (r : bres) : dest c' (length L + length W')%nat r = dest c after r.
  Proof.
    unfold after. destruct r; cbn [dest]; [rewrite LEN; reflexivity|].
    symmetry. apply find_lbl_window; assumption.
  Qed.

  Lemma window_sim (WNE : W <> []) : forall n pc s t fin,
    crun cfg c n pc s = Some (length c, fin) ->
    (pc <= length L \/ after <= pc)%nat -> eq_state s t -> bytes_ok s -> bytes_ok t ->
    exists n' fin', crun cfg c' n' pc t = Some (length c', fin') /\ eq_state fin fin'.
  Proof.
    induction n as [n IHn] using lt_wf_ind. intros pc s t fin H OUT E HBs HBt.
    destruct (Nat.eq_dec pc (length L)) as [->|NE].
    - (* at the top of the window *)
      destruct (crun_block_inv cfg W L R n s fin NW H) as (r & m & k & B & M1 & M2 & D & C).
      specialize (M2 WNE).
      destruct (LS s r k HBs B D) as (r1 & B1 & D1 & E1).
      assert (OKW' : cf_ok cfg W' = true).
      { apply cf_ok_app in OK'. destruct OK' as [_ X]. apply cf_ok_app in X. exact (proj1 X). }
      destruct (bexec_eq cfg W' s t r1 OKW' E B1) as (r2 & B2 & E2).
      assert (D2 : dest c' (length L + length W')%nat r2 = Some k).
      { rewrite dest_cc'. rewrite <- D1. destruct r1, r2; cbn [bres_eq] in E2; try contradiction;
          cbn [dest]; [reflexivity|]. destruct E2 as [-> _]. reflexivity. }
      destruct (crun_block cfg W' L R t r2 k NW' B2 D2) as [j C2].
      assert (E3 : eq_state (bst r) (bst r2)).
      { apply (eq_state_trans _ (bst r1)); [apply eq_state_sym; exact E1|].
        destruct r1, r2; cbn [bres_eq] in E2; try contradiction; cbn [bst]; tauto. }
      assert (OUTk : (k <= length L \/ after <= k)%nat).
      { destruct r as [s1|l s1]; cbn [dest] in D.
        - inversion D. right. unfold after. lia.
        - destruct (find_lbl_outside l L W R k NW D) as [X|X]; [left; lia|right; exact X]. }
      destruct (IHn m M2 k (bst r) (bst r2) fin C OUTk E3
                  (bexec_bytes cfg W s r HBs B) (bexec_bytes cfg W' t r2 HBt B2)) as (n' & fin' & C' & EF).
      exists (j + n')%nat, fin'. split; [|exact EF]. rewrite crun_add. unfold c' in *. rewrite C2. exact C'.
    - (* outside the window: the same line *)
      assert (OUT' : (pc < length L \/ length L + length W <= pc)%nat) by (unfold after in OUT; lia).
      destruct n as [|n].
      { cbn [crun] in H. inversion H; subst. exists O, t. split; [|exact E].
        cbn [crun]. rewrite len_cc'. reflexivity. }
      cbn [crun] in H.
      assert (NTH : nth_error c' pc = nth_error c pc).
      { symmetry. apply nth_error_window_out; assumption. }
      assert (STEP : forall s1 t1 pc1, crun cfg c n pc1 s1 = Some (length c, fin) ->
                (pc1 <= length L \/ after <= pc1)%nat -> eq_state s1 t1 -> bytes_ok s1 -> bytes_ok t1 ->
                forall X, (forall n', crun cfg c' (S n') pc t = X n') ->
                (forall n', X n' = crun cfg c' n' pc1 t1) ->
                exists n' fin', crun cfg c' n' pc t = Some (length c', fin') /\ eq_state fin fin').
      { intros s1 t1 pc1 H1 O1 E1 B1 B1' X HX HX'.
        destruct (IHn n (Nat.lt_succ_diag_r n) pc1 s1 t1 fin H1 O1 E1 B1 B1') as (n' & fin' & C' & EF).
        exists (S n'), fin'. split; [|exact EF]. rewrite HX, HX'. exact C'. }
      destruct (nth_error c pc) as [[l|i|tx sz|cm|]|] eqn:NC; try discriminate H.
      + apply (STEP s t (S pc) H ltac:(unfold after; lia) E HBs HBt (fun n' => crun cfg c' n' (S pc) t));
          [|reflexivity]. intros n'. cbn [crun]. rewrite NTH. reflexivity.
      + assert (OKi : cf_ins_ok cfg i = true).
        { pose proof NTH as NC'. apply nth_error_In in NC'.
          exact (proj1 (forallb_forall _ _) OK' _ NC'). }
        destruct (parse_operand (i_mn i) (i_op i)) as [op|] eqn:P; [|discriminate H].
        pose proof (exec_cf_eq cfg (i_mn i) op s t (cf_ins_mnem cfg i OKi) E) as O.
        destruct (exec cfg (i_mn i) op s) as [s1 c1 f1|w1] eqn:X1; [|discriminate H].
        destruct (exec cfg (i_mn i) op t) as [t1 c2 f2|w2] eqn:X2; cbn [outcome_eq] in O; [|contradiction].
        destruct O as (_ & <- & O).
        pose proof (GenTemplatesFacts.exec_bytes_ok _ _ _ _ _ _ _ X1 HBs) as HB1.
        pose proof (GenTemplatesFacts.exec_bytes_ok _ _ _ _ _ _ _ X2 HBt) as HB2.
        destruct f1 as [|l|g| |]; try discriminate H.
        * apply (STEP s1 t1 (S pc) H ltac:(unfold after; lia) O HB1 HB2 (fun n' => crun cfg c' n' (S pc) t1));
            [|reflexivity]. intros n'. cbn [crun]. rewrite NTH, P, X2. reflexivity.
        * destruct (find_lbl l c) as [k|] eqn:F; [|discriminate H].
          assert (F' : find_lbl l c' = Some k).
          { rewrite <- F. symmetry. apply find_lbl_window; assumption. }
          assert (OUTk : (k <= length L \/ after <= k)%nat).
          { destruct (find_lbl_outside l L W R k NW F) as [Y|Y]; [left; lia|right; exact Y]. }
          apply (STEP s1 t1 k H OUTk O HB1 HB2 (fun n' => crun cfg c' n' k t1)); [|reflexivity].
          intros n'. cbn [crun]. rewrite NTH, P, X2, F'. reflexivity.
      + apply (STEP s t (S pc) H ltac:(unfold after; lia) E HBs HBt (fun n' => crun cfg c' n' (S pc) t));
          [|reflexivity]. intros n'. cbn [crun]. rewrite NTH. reflexivity.
      + apply (STEP s t (S pc) H ltac:(unfold after; lia) E HBs HBt (fun n' => crun cfg c' n' (S pc) t));
          [|reflexivity]. intros n'. cbn [crun]. rewrite NTH. reflexivity.
  Qed.

  Theorem window : cf_equiv cfg c c'.
  Proof.
    intros s s' HB (n & H).
    destruct (Nat.eq_dec (length W) 0) as [Z|NZ].
    - assert (E0 : W = []) by (apply length_zero_iff_nil; exact Z).
      assert (E1 : W' = []) by (apply length_zero_iff_nil; lia).
      exists s'. split; [|apply eq_state_refl]. exists n. unfold c, c' in *.
      rewrite E1. rewrite E0 in H. exact H.
    - assert (WNE : W <> []) by (intros E0; rewrite E0 in NZ; cbn in NZ; lia).
      destruct (window_sim WNE n 0%nat s s s' H ltac:(left; lia) (eq_state_refl s) HB HB)
        as (n' & fin' & C' & EF).
      exists fin'. split; [exists n'; exact C'|apply eq_state_sym; exact EF].
  Qed.
End Window.

(** * Instructions of code with branches *)

Lemma cf_plain_or_label (m : mnem) : cf_mnem m = true -> takes_label m = false -> plain m = true.
Proof. destruct m; intros C T; try discriminate C; try discriminate T; reflexivity. Qed.

Lemma cf_ins_parts (cfg : config) (i : instr) :
  cf_ins_ok cfg i = true ->
  cf_mnem (i_mn i) = true /\
  (takes_label (i_mn i) = false -> plain (i_mn i) = true /\ ins_ok cfg i = true) /\
  load_wf cfg i = true.
Proof.
  unfold cf_ins_ok. intros H. apply andb_true_iff in H. destruct H as [H W].
  apply andb_true_iff in H. destruct H as [C O]. split; [exact C|]. split; [|exact W].
  intros T. rewrite T in O. split; [apply cf_plain_or_label; assumption|exact O].
Qed.

Lemma cf_ind_legal (cfg : config) (i : instr) : cf_ins_ok cfg i = true -> ind_legal i.
Proof.
  intros H. destruct (cf_ins_parts cfg i H) as (C & PO & _).
  destruct (takes_label (i_mn i)) eqn:T.
  - intros y k P. rewrite parse_operand_eq in P. rewrite T in P.
    destruct (String.eqb (i_op i) ""); discriminate P.
  - apply (ins_ok_ind_legal cfg). exact (proj2 (PO eq_refl)).
Qed.

Lemma transfer_sound_cf (cfg : config) (k : know) (i : instr) (a : list line) (s s' : mstate) :
  ports cfg = [] -> bytes_ok s -> cf_ins_ok cfg i = true ->
  know_ops_ok cfg k -> know_sound cfg k s -> steps_to cfg i s s' ->
  snd (transfer k i a) = false ->
  know_sound cfg (fst (transfer k i a)) s'.
Proof.
  intros HP HB OK KO KS ST R. destruct (cf_ins_parts cfg i OK) as (C & _ & _).
  apply (transfer_sound cfg k i a s s'); auto.
  - intros [E|E]; rewrite E in C; discriminate C.
  - apply (cf_ind_legal cfg); exact OK.
  - apply know_ops_ok_xfer; exact KO.
Qed.

Lemma know_ops_ok_transfer_cf (cfg : config) (k : know) (i : instr) (a : list line) :
  cf_ins_ok cfg i = true -> know_ops_ok cfg k -> know_ops_ok cfg (fst (transfer k i a)).
Proof.
  intros OK KO. destruct (cf_ins_parts cfg i OK) as (C & PO & _).
  destruct (takes_label (i_mn i)) eqn:T.
  - unfold transfer. destruct (i_mn i); try discriminate T; try discriminate C; cbn [fst];
      try exact KO; intros o op [H|[H|H]]; discriminate H.
  - destruct (PO eq_refl) as [PL IO]. apply know_ops_ok_transfer; assumption.
Qed.

(** whether a load executes does not depend on the state *)
Lemma load_defined (cfg : config) (i : instr) (s : mstate) :
  ports cfg = [] -> is_load (i_mn i) = true -> ins_ok cfg i = true -> load_wf cfg i = true ->
  exists s', steps_to cfg i s s'.
Proof.
  intros HP LD IO WF. unfold load_wf in WF. rewrite LD in WF. unfold ins_ok in IO.
  destruct (parse_operand (i_mn i) (i_op i)) as [op|] eqn:P; [|discriminate WF].
  destruct (exec cfg (i_mn i) op probe) as [sp cp fp|w] eqn:X; [|discriminate WF].
  assert (Hld : is_ld (i_mn i)).
  { unfold is_ld. destruct (i_mn i); try discriminate LD; auto. }
  assert (fp = FNext).
  { apply (plain_falls_through cfg (i_mn i) op probe sp cp fp); [|exact X].
    destruct (i_mn i); try discriminate LD; reflexivity. }
  subst fp. apply exec_load_inv in X; [|exact Hld]. destruct X as (v & R & _).
  assert (R' : exists v' c', read_operand cfg (i_mn i) s op = Some (v', c')).
  { destruct op as [|iv|y k ix|y k|l]; try discriminate IO.
    - discriminate R.
    - unfold read_operand in *. destruct (imm_value cfg iv); [|discriminate R].
      destruct (legal (i_mn i) Imm); [eauto|discriminate R].
    - unfold read_operand, eff_addr in *. rewrite HP in *. cbn [read_addr] in *.
      destruct (layout cfg y) as [a0|]; [|discriminate R].
      destruct (resolve (i_mn i) (shape_of (OMem y k ix)) (a0 + k <? 256)) as [md|]; [|discriminate R].
      destruct md; eauto. }
  destruct R' as (v' & c' & R'). exists (set_nz (set_reg (i_mn i) s v') v'), op, c'. split; [exact P|].
  exact (exec_load_intro cfg _ op s v' c' Hld R').
Qed.

Lemma steps_det (cfg : config) (i : instr) (s a b : mstate) :
  steps_to cfg i s a -> steps_to cfg i s b -> a = b.
Proof.
  intros (op & c & P & E) (op' & c' & P' & E'). rewrite P in P'. inversion P'; subst op'.
  rewrite E in E'. inversion E'. reflexivity.
Qed.

Lemma jmp_no_step (cfg : config) (i : instr) (s s' : mstate) :
  i_mn i = JMP -> steps_to cfg i s s' -> False.
Proof.
  intros M (op & c & P & E). rewrite M in E. cbv beta iota zeta delta [exec] in E.
  destruct op; discriminate E.
Qed.

(** * Blocks *)

Definition jumps_to (cfg : config) (i : instr) (s : mstate) (l : string) (s' : mstate) : Prop :=
  exists op c, parse_operand (i_mn i) (i_op i) = Some op /\ exec cfg (i_mn i) op s = XOk s' c (FGoto l).

Lemma bexec_app (cfg : config) (a b : code) : forall s,
  bexec cfg (a ++ b) s =
  match bexec cfg a s with Some (BFall s1) => bexec cfg b s1 | x => x end.
Proof.
  induction a as [|x a IH]; intros s; [reflexivity|].
  destruct x as [l|i|t sz|cm|]; cbn [app bexec]; try reflexivity; try apply IH.
  destruct (parse_operand (i_mn i) (i_op i)) as [op|]; [|reflexivity].
  destruct (exec cfg (i_mn i) op s) as [s1 c f|w]; [|reflexivity].
  destruct f; try reflexivity. apply IH.
Qed.

Lemma bexec_skip (cfg : config) (l : code) :
  forallb skip_line l = true -> forall s, bexec cfg l s = Some (BFall s).
Proof.
  induction l as [|x l IH]; intros H s; [reflexivity|].
  cbn [forallb] in H. apply andb_true_iff in H. destruct H as [H1 H2].
  destruct x; try discriminate H1; cbn [bexec]; apply IH; exact H2.
Qed.

Lemma bexec_skip_app (cfg : config) (l r : code) (s : mstate) :
  forallb skip_line l = true -> bexec cfg (l ++ r) s = bexec cfg r s.
Proof. intros H. rewrite bexec_app, (bexec_skip cfg l H). reflexivity. Qed.

Lemma bexec_ins_inv (cfg : config) (i : instr) (r : code) (s : mstate) (res : bres) :
  bexec cfg (Ins i :: r) s = Some res ->
  (exists s1, steps_to cfg i s s1 /\ bexec cfg r s1 = Some res) \/
  (exists l s1, jumps_to cfg i s l s1 /\ res = BJump l s1).
Proof.
  cbn [bexec]. intros H.
  destruct (parse_operand (i_mn i) (i_op i)) as [op|] eqn:P; [|discriminate H].
  destruct (exec cfg (i_mn i) op s) as [s1 c f|w] eqn:E; [|discriminate H].
  destruct f; try discriminate H.
  - left. exists s1. split; [exists op, c; auto|exact H].
  - right. inversion H; subst. exists l, s1. split; [exists op, c; auto|reflexivity].
Qed.

Lemma bexec_ins_step (cfg : config) (i : instr) (r : code) (s s1 : mstate) :
  steps_to cfg i s s1 -> bexec cfg (Ins i :: r) s = bexec cfg r s1.
Proof. intros (op & c & P & E). cbn [bexec]. rewrite P, E. reflexivity. Qed.

Lemma bexec_ins_jump (cfg : config) (i : instr) (r : code) (s s1 : mstate) (l : string) :
  jumps_to cfg i s l s1 -> bexec cfg (Ins i :: r) s = Some (BJump l s1).
Proof. intros (op & c & P & E). cbn [bexec]. rewrite P, E. reflexivity. Qed.

Lemma plain_no_jump (cfg : config) (i : instr) (s s1 : mstate) (l : string) :
  plain (i_mn i) = true -> jumps_to cfg i s l s1 -> False.
Proof.
  intros PL (op & c & P & E). pose proof (plain_falls_through _ _ _ _ _ _ _ PL E) as F. discriminate F.
Qed.

Lemma bres_eq_refl (r : bres) : bres_eq r r.
Proof. destruct r; cbn; [apply eq_state_refl|split; [reflexivity|apply eq_state_refl]]. Qed.

Lemma bres_eq_dest (c : code) (after : nat) (r r' : bres) :
  bres_eq r' r -> dest c after r' = dest c after r /\ eq_state (bst r') (bst r).
Proof.
  destruct r, r'; cbn [bres_eq dest bst]; try contradiction; [auto|].
  intros [-> E]. auto.
Qed.

(** the fall-through execution of a block, split at an instruction *)
Lemma bfall_snoc (cfg : config) (p : code) (i : instr) (t s2 : mstate) :
  bfall cfg (p ++ [Ins i]) t = Some s2 <->
  exists s1, bfall cfg p t = Some s1 /\ steps_to cfg i s1 s2.
Proof.
  unfold bfall. rewrite bexec_app. split.
  - destruct (bexec cfg p t) as [[s1|l s1]|]; try discriminate. intros H. exists s1. split; [reflexivity|].
    cbn [bexec] in H.
    destruct (parse_operand (i_mn i) (i_op i)) as [op|] eqn:P; [|discriminate H].
    destruct (exec cfg (i_mn i) op s1) as [s' c f|w] eqn:E; [|discriminate H].
    destruct f; try discriminate H. inversion H; subst. exists op, c. auto.
  - intros (s1 & B & ST). destruct (bexec cfg p t) as [[s1'|l s1']|]; try discriminate B.
    inversion B; subst. rewrite (bexec_ins_step cfg i [] s1 s2 ST). reflexivity.
Qed.

Lemma bfall_bytes (cfg : config) (p : code) (t s1 : mstate) :
  bytes_ok t -> bfall cfg p t = Some s1 -> bytes_ok s1.
Proof.
  unfold bfall. intros HB H. destruct (bexec cfg p t) as [[s|l s]|] eqn:B; try discriminate H.
  inversion H; subst. exact (bexec_bytes cfg p t (BFall s1) HB B).
Qed.

(** the lines of a reversed prefix up to and including its last label, in program order *)
Fixpoint hdp (pre : list line) : list line :=
  match pre with
  | [] => []
  | Lbl l :: r => rev (Lbl l :: r)
  | _ :: r => hdp r
  end.

Lemma rev_hdp_blk (pre : list line) : rev pre = hdp pre ++ blk pre.
Proof.
  induction pre as [|x pre IH]; [reflexivity|].
  destruct x; cbn [hdp blk]; try (rewrite app_nil_r; reflexivity);
    cbn [rev]; rewrite IH, <- app_assoc; reflexivity.
Qed.

Lemma blk_mid (mid p : list line) :
  forallb skip_line mid = true -> blk (mid ++ p) = blk p ++ rev mid.
Proof.
  induction mid as [|x mid IH]; intros H; [cbn; rewrite app_nil_r; reflexivity|].
  cbn [forallb] in H. apply andb_true_iff in H. destruct H as [H1 H2].
  destruct x; try discriminate H1; cbn [app blk rev]; rewrite (IH H2), <- app_assoc; reflexivity.
Qed.

Lemma cf_ok_rev (cfg : config) (c : code) : cf_ok cfg (rev c) = cf_ok cfg c.
Proof.
  unfold cf_ok. induction c as [|x c IH]; [reflexivity|].
  cbn [rev forallb]. rewrite forallb_app, IH. cbn [forallb]. rewrite andb_true_r. apply andb_comm.
Qed.

Lemma cf_ok_blk (cfg : config) (pre : list line) :
  cf_ok cfg pre = true -> cf_ok cfg (blk pre) = true /\ nobar (blk pre) = true.
Proof.
  induction pre as [|x pre IH]; intros H; [split; reflexivity|].
  apply cf_ok_cons in H. destruct H as [H1 H2]. destruct (IH H2) as [I1 I2].
  destruct x; cbn [blk]; try discriminate H1; try (split; reflexivity);
    (split; [apply cf_ok_app; split; [exact I1|]; unfold cf_ok; cbn [forallb]; rewrite H1; reflexivity
            |rewrite nobar_app, I2; reflexivity]).
Qed.

Lemma cf_ok_skip (cfg : config) (l : code) : forallb skip_line l = true -> cf_ok cfg l = true.
Proof.
  induction l as [|x l IH]; intros H; [reflexivity|].
  cbn [forallb] in H. apply andb_true_iff in H. destruct H as [H1 H2].
  unfold cf_ok. cbn [forallb]. fold (cf_ok cfg l). rewrite (IH H2).
  destruct x; try discriminate H1; reflexivity.
Qed.

Lemma nobar_skip (l : code) : forallb skip_line l = true -> nobar l = true.
Proof.
  induction l as [|x l IH]; intros H; [reflexivity|].
  cbn [forallb] in H. apply andb_true_iff in H. destruct H as [H1 H2].
  unfold nobar. cbn [forallb]. fold (nobar l). rewrite (IH H2).
  destruct x; try discriminate H1; reflexivity.
Qed.

(** plain stretches: [bexec] is [exec_straight] *)
Lemma bexec_straight (cfg : config) (x : code) : forall s,
  straight_ok cfg x = true ->
  bexec cfg x s = match exec_straight cfg x s with Some s' => Some (BFall s') | None => None end.
Proof.
  induction x as [|l x IH]; intros s OK; [reflexivity|].
  apply straight_ok_cons in OK. destruct OK as [OK1 OK2].
  destruct l as [lb|i|t sz|cm|]; try discriminate OK1; cbn [bexec exec_straight]; try (apply IH; exact OK2).
  apply line_ok_ins in OK1. destruct OK1 as [PL _].
  destruct (parse_operand (i_mn i) (i_op i)) as [op|]; [|reflexivity].
  destruct (exec cfg (i_mn i) op s) as [s1 c f|w] eqn:E; [|reflexivity].
  rewrite (plain_falls_through _ _ _ _ _ _ _ PL E). apply IH. exact OK2.
Qed.

Lemma straight_nobar (cfg : config) (x : code) : straight_ok cfg x = true -> nobar x = true.
Proof.
  induction x as [|l x IH]; intros OK; [reflexivity|].
  apply straight_ok_cons in OK. destruct OK as [OK1 OK2].
  unfold nobar. cbn [forallb]. fold (nobar x). rewrite (IH OK2).
  destruct l; try discriminate OK1; reflexivity.
Qed.

Lemma cf_line_straight (cfg : config) (i : instr) :
  cf_ins_ok cfg i = true -> plain (i_mn i) = true -> line_ok cfg (Ins i) = true.
Proof.
  intros OK PL. destruct (cf_ins_parts cfg i OK) as (_ & PO & _).
  cbn [line_ok]. rewrite PL. exact (proj2 (PO (plain_no_label _ PL))).
Qed.

Lemma defines_cf_plain (m : mnem) : defines_nz m = true -> cf_mnem m = true -> plain m = true.
Proof. destruct m; intros D C; try discriminate D; try discriminate C; reflexivity. Qed.

(** what the optimiser has looked at is a plain stretch that redefines N and Z *)
Lemma lookahead_window (cfg : config) (ahead : list line) :
  cf_ok cfg ahead = true -> lda_lookahead ahead = true \/ ldxy_lookahead ahead = true ->
  exists X R, ahead = X ++ R /\ straight_ok cfg X = true /\ nz_redefined X = true.
Proof.
  intros OK [H|H].
  - unfold lda_lookahead in H.
    destruct ahead as [|[l|j1|tx sz|cm|] t]; try discriminate H.
    apply cf_ok_cons in OK. destruct OK as [O1 OK]. cbn [cf_line_ok] in O1.
    destruct (i_mn j1) eqn:M; try discriminate H.
    + (* STA *)
      assert (L1 : line_ok cfg (Ins j1) = true) by (apply cf_line_straight; [exact O1|rewrite M; reflexivity]).
      destruct t as [|[l|j2|tx sz|cm|] t']; try discriminate H.
      * apply cf_ok_cons in OK. destruct OK as [O2 OK]. cbn [cf_line_ok] in O2.
        pose proof (is_load_defines_nz _ H) as D2.
        assert (L2 : line_ok cfg (Ins j2) = true).
        { apply cf_line_straight; [exact O2|]. apply defines_cf_plain; [exact D2|]. exact (cf_ins_mnem cfg j2 O2). }
        exists [Ins j1; Ins j2], t'. split; [reflexivity|]. split.
        -- unfold straight_ok. cbn [forallb]. rewrite L1, L2. reflexivity.
        -- unfold nz_redefined. cbn [existsb]. rewrite D2. apply orb_true_r.
      * destruct t' as [|[l|j3|tx sz|cm|] t'']; try discriminate H.
        apply cf_ok_cons in OK. destruct OK as [_ OK].
        apply cf_ok_cons in OK. destruct OK as [O3 OK]. cbn [cf_line_ok] in O3.
        pose proof (is_load_defines_nz _ H) as D3.
        assert (L3 : line_ok cfg (Ins j3) = true).
        { apply cf_line_straight; [exact O3|]. apply defines_cf_plain; [exact D3|]. exact (cf_ins_mnem cfg j3 O3). }
        exists [Ins j1; Dummy; Ins j3], t''. split; [reflexivity|]. split.
        -- unfold straight_ok. cbn [forallb line_ok] in *. rewrite L1, L3. reflexivity.
        -- unfold nz_redefined. cbn [existsb]. rewrite D3. rewrite !orb_true_r. reflexivity.
    + (* CMP *)
      assert (L1 : line_ok cfg (Ins j1) = true) by (apply cf_line_straight; [exact O1|rewrite M; reflexivity]).
      exists [Ins j1], t. split; [reflexivity|]. split.
      * unfold straight_ok. cbn [forallb]. rewrite L1. reflexivity.
      * unfold nz_redefined. cbn [existsb]. rewrite M. reflexivity.
  - induction ahead as [|x t IH]; [discriminate H|].
    apply cf_ok_cons in OK. destruct OK as [O1 OK].
    destruct x as [l|j|tx sz|cm|]; cbn [ldxy_lookahead] in H; try discriminate H.
    + cbn [cf_line_ok] in O1.
      assert (L1 : line_ok cfg (Ins j) = true).
      { apply cf_line_straight; [exact O1|]. apply defines_cf_plain; [exact H|]. exact (cf_ins_mnem cfg j O1). }
      exists [Ins j], t. split; [reflexivity|]. split.
      * unfold straight_ok. cbn [forallb]. rewrite L1. reflexivity.
      * unfold nz_redefined. cbn [existsb]. rewrite H. reflexivity.
    + destruct (IH OK H) as (X & R & E & S & N). exists (Cmt cm :: X), R.
      split; [rewrite E; reflexivity|]. split; [exact S|exact N].
    + destruct (IH OK H) as (X & R & E & S & N). exists (Dummy :: X), R.
      split; [rewrite E; reflexivity|]. split; [exact S|exact N].
Qed.

(** * Local simulations: what each rewriting does to the block it touches *)

(** the part of the block before the rewriting is common *)
Lemma ls_prefix (cfg : config) (c : code) (after : nat) (P A A' : code) :
  (forall s s1, bytes_ok s -> bfall cfg P s = Some s1 ->
     forall r, bexec cfg A s1 = Some r -> exists r', bexec cfg A' s1 = Some r' /\ bres_eq r' r) ->
  forall s r k, bytes_ok s -> bexec cfg (P ++ A) s = Some r -> dest c after r = Some k ->
    exists r', bexec cfg (P ++ A') s = Some r' /\ dest c after r' = Some k /\ eq_state (bst r') (bst r).
Proof.
  intros H s r k HB B D. rewrite bexec_app in B |- *. unfold bfall in H. specialize (H s).
  destruct (bexec cfg P s) as [[s1|l s1]|]; [|idtac|discriminate B].
  - destruct (H s1 HB eq_refl r B) as (r' & B' & E). exists r'. split; [exact B'|].
    destruct (bres_eq_dest c after r r' E) as [D' E']. rewrite D'. auto.
  - exists r. split; [exact B|]. split; [exact D|apply eq_state_refl].
Qed.

(** remove_second *)
Lemma tsim_rs (cfg : config) (i1 i2 : instr) (mid X : code) (s1 : mstate) :
  forallb skip_line mid = true ->
  plain (i_mn i2) = true \/ i_mn i1 = JMP ->
  (forall s2 s3, steps_to cfg i1 s1 s2 -> steps_to cfg i2 s2 s3 ->
     forall r, bexec cfg X s3 = Some r -> exists r', bexec cfg X s2 = Some r' /\ bres_eq r' r) ->
  forall r, bexec cfg (Ins i1 :: rev mid ++ Ins i2 :: X) s1 = Some r ->
  exists r', bexec cfg (Ins i1 :: rev mid ++ Dummy :: X) s1 = Some r' /\ bres_eq r' r.
Proof.
  intros M NJ H r B.
  destruct (bexec_ins_inv cfg i1 _ s1 r B) as [(s2 & ST1 & B2)|(l & s2 & J & ->)].
  - rewrite (bexec_ins_step cfg i1 _ s1 s2 ST1).
    rewrite (bexec_skip_app cfg _ _ s2 (skip_rev _ M)) in B2.
    rewrite (bexec_skip_app cfg _ _ s2 (skip_rev _ M)). cbn [bexec].
    destruct (bexec_ins_inv cfg i2 _ s2 r B2) as [(s3 & ST2 & B3)|(l & s3 & J & _)].
    + exact (H s2 s3 ST1 ST2 r B3).
    + exfalso. destruct NJ as [PL|M1]; [exact (plain_no_jump cfg i2 s2 s3 l PL J)|].
      exact (jmp_no_step cfg i1 s1 s2 M1 ST1).
  - rewrite (bexec_ins_jump cfg i1 _ s1 s2 l J). eexists. split; [reflexivity|apply bres_eq_refl].
Qed.

(** remove_first *)
Lemma tsim_rf (cfg : config) (i1 i2 : instr) (mid : code) (s1 : mstate) :
  forallb skip_line mid = true -> plain (i_mn i1) = true -> plain (i_mn i2) = true ->
  (forall s2 s3, steps_to cfg i1 s1 s2 -> steps_to cfg i2 s2 s3 ->
     exists s2', steps_to cfg i2 s1 s2' /\ eq_state s2' s3) ->
  forall r, bexec cfg (Ins i1 :: rev mid ++ [Ins i2]) s1 = Some r ->
  exists r', bexec cfg (Dummy :: rev mid ++ [Ins i2]) s1 = Some r' /\ bres_eq r' r.
Proof.
  intros M P1 P2 H r B.
  destruct (bexec_ins_inv cfg i1 _ s1 r B) as [(s2 & ST1 & B2)|(l & s2 & J & _)];
    [|exfalso; exact (plain_no_jump cfg i1 s1 s2 l P1 J)].
  rewrite (bexec_skip_app cfg _ _ s2 (skip_rev _ M)) in B2.
  destruct (bexec_ins_inv cfg i2 _ s2 r B2) as [(s3 & ST2 & B3)|(l & s3 & J & _)];
    [|exfalso; exact (plain_no_jump cfg i2 s2 s3 l P2 J)].
  cbn [bexec] in B3. inversion B3; subst r.
  destruct (H s2 s3 ST1 ST2) as (s2' & ST' & E).
  cbn [bexec]. rewrite (bexec_skip_app cfg _ _ s1 (skip_rev _ M)).
  rewrite (bexec_ins_step cfg i2 _ s1 s2' ST'). cbn [bexec]. eexists. split; [reflexivity|exact E].
Qed.

(** swap *)
Lemma tsim_sw (cfg : config) (i1 i2 : instr) (mid : code) (s1 : mstate) :
  forallb skip_line mid = true -> plain (i_mn i1) = true -> plain (i_mn i2) = true ->
  (forall s2 s3, steps_to cfg i1 s1 s2 -> steps_to cfg i2 s2 s3 ->
     exists t1 t2, steps_to cfg i2 s1 t1 /\ steps_to cfg i1 t1 t2 /\ eq_state t2 s3) ->
  forall r, bexec cfg (Ins i1 :: rev mid ++ [Ins i2]) s1 = Some r ->
  exists r', bexec cfg (Ins i2 :: rev mid ++ [Ins i1]) s1 = Some r' /\ bres_eq r' r.
Proof.
  intros M P1 P2 H r B.
  destruct (bexec_ins_inv cfg i1 _ s1 r B) as [(s2 & ST1 & B2)|(l & s2 & J & _)];
    [|exfalso; exact (plain_no_jump cfg i1 s1 s2 l P1 J)].
  rewrite (bexec_skip_app cfg _ _ s2 (skip_rev _ M)) in B2.
  destruct (bexec_ins_inv cfg i2 _ s2 r B2) as [(s3 & ST2 & B3)|(l & s3 & J & _)];
    [|exfalso; exact (plain_no_jump cfg i2 s2 s3 l P2 J)].
  cbn [bexec] in B3. inversion B3; subst r.
  destruct (H s2 s3 ST1 ST2) as (t1 & t2 & T1 & T2 & E).
  rewrite (bexec_ins_step cfg i2 _ s1 t1 T1). rewrite (bexec_skip_app cfg _ _ t1 (skip_rev _ M)).
  rewrite (bexec_ins_step cfg i1 _ t1 t2 T2). cbn [bexec]. eexists. split; [reflexivity|exact E].
Qed.

(** * The structure of the code is kept by the rewritings of Proofs/OptFacts.v *)

Lemma lbls_app (a b : code) : lbls (a ++ b) = lbls a ++ lbls b.
Proof.
  induction a as [|x a IH]; [reflexivity|].
  destruct x; cbn [app lbls]; rewrite IH; reflexivity.
Qed.

Lemma lbls_skip (l : code) : forallb OptFacts.quiet l = true -> lbls l = [].
Proof.
  induction l as [|x l IH]; intros H; [reflexivity|].
  cbn [forallb] in H. apply andb_true_iff in H. destruct H as [H1 H2].
  destruct x; try discriminate H1; cbn [lbls]; apply IH; exact H2.
Qed.

Lemma rw1_lbls (m : N) (a b : code) : OptFacts.rw1 m a b -> lbls b = lbls a.
Proof.
  intros H. destruct H as [l1 i l2 D|l1 i1 mm i2 l2 H1 H2 H3];
    rewrite !lbls_app; cbn [lbls]; rewrite ?lbls_app; cbn [lbls]; reflexivity.
Qed.

Lemma rw1_cf_ok (cfg : config) (m : N) (a b : code) :
  OptFacts.rw1 m a b -> cf_ok cfg a = true -> cf_ok cfg b = true.
Proof.
  intros H. destruct H as [l1 i l2 D|l1 i1 mm i2 l2 H1 H2 H3]; intros OK.
  - apply cf_ok_app in OK. destruct OK as [O1 O2]. apply cf_ok_cons in O2.
    apply cf_ok_app. split; [exact O1|]. unfold cf_ok. cbn [forallb cf_line_ok]. exact (proj2 O2).
  - apply cf_ok_app in OK. destruct OK as [O1 O2]. apply cf_ok_cons in O2. destruct O2 as [O2 O3].
    apply cf_ok_app in O3. destruct O3 as [O3 O4]. apply cf_ok_cons in O4. destruct O4 as [O4 O5].
    apply cf_ok_app. split; [exact O1|]. unfold cf_ok. cbn [forallb]. rewrite O4. cbn [andb].
    apply cf_ok_app. split; [exact O3|]. unfold cf_ok. cbn [forallb]. rewrite O2. exact O5.
Qed.

Lemma rws_struct (cfg : config) (n : N) (a b : code) :
  OptFacts.rws n a b ->
  (cf_ok cfg a = true -> cf_ok cfg b = true) /\ lbls b = lbls a.
Proof.
  apply (OptFacts.rws_invariant
           (fun a b => (cf_ok cfg a = true -> cf_ok cfg b = true) /\ lbls b = lbls a)).
  - intros c. split; [auto|reflexivity].
  - intros x y z m [H1 H2] R. split.
    + intros OK. exact (rw1_cf_ok cfg m y z R (H1 OK)).
    + rewrite (rw1_lbls m y z R). exact H2.
Qed.

Lemma quiet_skip (l : code) : forallb OptFacts.quiet l = forallb skip_line l.
Proof. induction l as [|x l IH]; [reflexivity|]. cbn [forallb]. rewrite IH. destruct x; reflexivity. Qed.

(** * Updating the knowledge invariant *)

Lemma KInv_weaken (cfg : config) (b : bool) (pre : list line) (f : instr) (k : know) :
  KInv cfg false pre f k -> KInv cfg b pre f k.
Proof.
  intros H t s2 HB B. specialize (H t s2 HB B). destruct b; [apply know_sound_kregs|]; exact H.
Qed.

Lemma bfall_skip_r (cfg : config) (p m : code) (t : mstate) :
  forallb skip_line m = true -> bfall cfg (p ++ m) t = bfall cfg p t.
Proof.
  intros M. unfold bfall. rewrite bexec_app.
  destruct (bexec cfg p t) as [[s|l s]|]; try reflexivity. rewrite (bexec_skip cfg m M). reflexivity.
Qed.

Lemma transfer_jmp (k : know) (i : instr) (a : list line) :
  i_mn i = JMP -> fst (transfer k i a) = k_none.
Proof. unfold transfer. intros ->. reflexivity. Qed.

(** advance: the second instruction is kept and becomes the first *)
Lemma kinv_advance (cfg : config) (lev : bool) (pre mid : list line) (i1 i2 : instr) (k : know)
      (a : list line) :
  ports cfg = [] -> KInv cfg lev pre i1 k ->
  (lev = true -> i_mn i2 = LDA /\ k_acc k = None) ->
  cf_ins_ok cfg i2 = true -> know_ops_ok cfg k -> forallb skip_line mid = true ->
  snd (transfer k i2 a) = false ->
  KInv cfg false (mid ++ Ins i1 :: pre) i2 (fst (transfer k i2 a)).
Proof.
  intros HP KI LV OK KO M R t s3 HB B.
  rewrite (blk_mid mid _ M) in B. cbn [blk] in B.
  apply bfall_snoc in B. destruct B as (s2 & B & ST).
  rewrite (bfall_skip_r cfg _ _ t (skip_rev _ M)) in B.
  pose proof (KI t s2 HB B) as KS.
  assert (HB2 : bytes_ok s2) by (exact (bfall_bytes cfg _ t s2 HB B)).
  destruct lev.
  - destruct (LV eq_refl) as [ML A]. destruct (cf_ins_parts cfg i2 OK) as (_ & PO & _).
    assert (T : takes_label (i_mn i2) = false) by (rewrite ML; reflexivity).
    destruct (PO T) as [PL IO].
    exact (know_sound_lda_fresh cfg k i2 a s2 s3 HP HB2 PL IO ML A KO KS ST).
  - exact (transfer_sound_cf cfg k i2 a s2 s3 HP HB2 OK KO KS ST R).
Qed.

(** remove_second by [transfer] *)
Lemma kinv_removed (cfg : config) (pre : list line) (i1 i2 : instr) (k : know) (a : list line) :
  KInv cfg false pre i1 k -> snd (transfer k i2 a) = true ->
  KInv cfg false pre i1 (fst (transfer k i2 a)).
Proof.
  intros KI R t s2 HB B. exact (transfer_removed_sound cfg k i2 a s2 (KI t s2 HB B) R).
Qed.

(** remove_first: the first load is no longer executed *)
Lemma kinv_rf (cfg : config) (pre mid : list line) (i1 i2 : instr) (k : know) (a : list line) :
  ports cfg = [] -> KInv cfg false pre i1 k ->
  (i_mn i1 = LDA /\ i_mn i2 = LDA) \/ (i_mn i1 = LDX /\ i_mn i2 = LDX) \/
  (i_mn i1 = LDY /\ i_mn i2 = LDY) ->
  cf_ins_ok cfg i1 = true -> cf_ins_ok cfg i2 = true -> know_ops_ok cfg k ->
  forallb skip_line mid = true -> snd (transfer k i2 a) = false ->
  KInv cfg false (mid ++ Dummy :: pre) i2 (fst (transfer k i2 a)).
Proof.
  intros HP KI SH OK1 OK2 KO M R t s2' HB B.
  rewrite (blk_mid mid _ M) in B. cbn [blk] in B.
  apply bfall_snoc in B. destruct B as (s1 & B & ST').
  rewrite (bfall_skip_r cfg _ _ t (skip_rev _ M)) in B.
  rewrite (bfall_skip_r cfg _ [Dummy] t eq_refl) in B.
  assert (HB1 : bytes_ok s1) by (exact (bfall_bytes cfg _ t s1 HB B)).
  assert (L1 : is_load (i_mn i1) = true) by (destruct SH as [[H _]|[[H _]|[H _]]]; rewrite H; reflexivity).
  assert (L2 : is_load (i_mn i2) = true) by (destruct SH as [[_ H]|[[_ H]|[_ H]]]; rewrite H; reflexivity).
  destruct (cf_ins_parts cfg i1 OK1) as (_ & PO1 & W1).
  destruct (cf_ins_parts cfg i2 OK2) as (_ & PO2 & W2).
  assert (T1 : takes_label (i_mn i1) = false) by (destruct (i_mn i1); try discriminate L1; reflexivity).
  assert (T2 : takes_label (i_mn i2) = false) by (destruct (i_mn i2); try discriminate L2; reflexivity).
  destruct (PO1 T1) as [PL1 IO1]. destruct (PO2 T2) as [PL2 IO2].
  destruct (load_defined cfg i1 s1 HP L1 IO1 W1) as (s2 & ST1).
  assert (B2 : bfall cfg (blk pre ++ [Ins i1]) t = Some s2) by (apply bfall_snoc; eauto).
  pose proof (KI t s2 HB B2) as KS.
  assert (HB2 : bytes_ok s2) by (exact (bfall_bytes cfg _ t s2 HB B2)).
  destruct (load_defined cfg i2 s2 HP L2 IO2 W2) as (s3 & ST2).
  destruct (rule_load_load cfg i1 i2 s1 s2 s3 SH (ins_ok_ind_legal cfg i2 IO2) ST1 ST2) as (x & STx & EQ).
  rewrite (steps_det cfg i2 s1 s2' x ST' STx).
  apply (know_sound_eq cfg _ s3 x (eq_state_sym _ _ EQ)).
  exact (transfer_sound_cf cfg k i2 a s2 s3 HP HB2 OK2 KO KS ST2 R).
Qed.

(** swap: only the register part, and nothing about A *)
Lemma kinv_sw (cfg : config) (lev : bool) (pre : list line) (i1 i2 : instr) (k : know) :
  ports cfg = [] -> KInv cfg lev pre i1 k ->
  i_mn i1 = LDA -> is_flag_setter (i_mn i2) = true -> cf_ins_ok cfg i1 = true ->
  KInv cfg true pre i2 (mkK None (k_x k) (k_y k) (k_flags k)).
Proof.
  intros HP KI M1 F2 OK1 t t1 HB B.
  apply bfall_snoc in B. destruct B as (s1 & B & T1).
  destruct (flag_setter_inv cfg i2 s1 t1 F2 T1) as (b & ->).
  destruct (cf_ins_parts cfg i1 OK1) as (_ & PO1 & W1).
  assert (T : takes_label (i_mn i1) = false) by (rewrite M1; reflexivity).
  destruct (PO1 T) as [PL1 IO1].
  assert (L1 : is_load (i_mn i1) = true) by (rewrite M1; reflexivity).
  destruct (load_defined cfg i1 s1 HP L1 IO1 W1) as (s2 & ST1).
  assert (B2 : bfall cfg (blk pre ++ [Ins i1]) t = Some s2) by (apply bfall_snoc; eauto).
  pose proof (KI t s2 HB B2) as KS.
  apply (swap_know cfg k i1 s1 s2 b M1 ST1).
  destruct lev; [exact KS|apply know_sound_kregs; exact KS].
Qed.

(** a block restarted after a label: whatever the state *)
Lemma analyse_label (k : know) (i : instr) :
  analyse_load AlLabel (reset_regs k) i = analyse_load AlStart k_init i.
Proof. unfold analyse_load, reset_regs, k_init. destruct (i_mn i); reflexivity. Qed.

Lemma kinv_start (cfg : config) (p : list line) (i : instr) :
  ports cfg = [] -> forallb skip_line (blk p) = true -> cf_ins_ok cfg i = true ->
  KInv cfg false p i (analyse_load AlStart k_init i).
Proof.
  intros HP Q OK t s2 HB B.
  apply bfall_snoc in B. destruct B as (s1 & B & ST).
  unfold bfall in B. rewrite (bexec_skip cfg _ Q) in B. inversion B; subst s1.
  destruct (analyse_start i []) as [AS AR]. rewrite AS.
  destruct (is_load (i_mn i)); [|apply know_sound_init].
  apply (transfer_sound_cf cfg k_init i [] t s2 HP HB OK (know_ops_ok_init cfg) (know_sound_init cfg t) ST AR).
Qed.

Lemma know_ops_ok_start (cfg : config) (i : instr) :
  cf_ins_ok cfg i = true -> know_ops_ok cfg (analyse_load AlStart k_init i).
Proof.
  intros OK. destruct (analyse_start i []) as [AS _]. rewrite AS.
  destruct (is_load (i_mn i)); [|apply know_ops_ok_init].
  apply know_ops_ok_transfer_cf; [exact OK|apply know_ops_ok_init].
Qed.

Lemma analyse_start_jmp (i : instr) : i_mn i = JMP -> analyse_load AlStart k_init i = k_none.
Proof. unfold analyse_load. intros ->. reflexivity. Qed.

Lemma kinv_none (cfg : config) (b : bool) (p : list line) (i : instr) : KInv cfg b p i k_none.
Proof.
  intros t s2 _ _. destruct b; [apply know_sound_kregs|]; apply know_sound_init.
Qed.

(** * The removals, on blocks *)

Lemma cf_no_ind (cfg : config) (i : instr) (y : string) (k : Z) :
  cf_ins_ok cfg i = true -> parse_operand (i_mn i) (i_op i) = Some (OInd y k) -> False.
Proof.
  intros H P. destruct (cf_ins_parts cfg i H) as (C & PO & _).
  destruct (takes_label (i_mn i)) eqn:T.
  - rewrite parse_operand_eq in P. rewrite T in P. destruct (String.eqb (i_op i) ""); discriminate P.
  - destruct (PO eq_refl) as [_ IO]. unfold ins_ok in IO. rewrite P in IO. discriminate IO.
Qed.

Lemma cf_ptr_not_hit (cfg : config) (i : instr) (s : mstate) : cf_ins_ok cfg i = true -> ptr_not_hit cfg i s.
Proof. intros H y k a0 a md cr P. exfalso. exact (cf_no_ind cfg i y k H P). Qed.

(** remove_second by a pair rule: the second instruction changes nothing *)
Lemma rs0_sound_cf (cfg : config) (k : know) (i1 i2 : instr) (s1 s2 s3 : mstate) :
  ports cfg = [] -> bytes_ok s1 -> cf_ins_ok cfg i1 = true ->
  rs0_shape k i1 i2 -> know_sound cfg k s2 ->
  steps_to cfg i1 s1 s2 -> steps_to cfg i2 s2 s3 -> eq_state s3 s2.
Proof.
  intros HP HB OK SH KS ST1 ST2.
  destruct SH as [(M1 & M2 & EO & FA)|[(MM & EO)|[MM|(M2 & O2 & FA)]]].
  - apply (rule_sta_lda_exact cfg k i1 i2 s1 s2 s3); auto. apply cf_ptr_not_hit. exact OK.
  - apply (rule_ld_st cfg i1 i2 s1 s2 s3); auto. apply (cf_ind_legal cfg). exact OK.
  - apply (rule_transfer_pair cfg i1 i2 s1 s2 s3); auto.
  - apply (rule_ora_zero_exact cfg k i2 s2 s3); auto.
    destruct ST1 as (op & c & _ & E). exact (GenTemplatesFacts.exec_bytes_ok _ _ _ _ _ _ _ E HB).
Qed.

(** remove_second by [transfer]: the stretch the optimiser has looked at cannot tell *)
Lemma removal_window (cfg : config) (k : know) (i2 : instr) (ahead : list line) :
  ports cfg = [] -> cf_ok cfg ahead = true -> snd (transfer k i2 ahead) = true ->
  exists X R, ahead = X ++ R /\ nobar X = true /\
    forall s2 s3, know_sound cfg k s2 -> steps_to cfg i2 s2 s3 ->
    forall r, bexec cfg X s3 = Some r -> exists r', bexec cfg X s2 = Some r' /\ bres_eq r' r.
Proof.
  intros HP OK R.
  destruct (lda_lookahead ahead || ldxy_lookahead ahead) eqn:LK.
  - apply orb_true_iff in LK.
    destruct (lookahead_window cfg ahead OK LK) as (X & R' & EA & SX & NR).
    exists X, R'. split; [exact EA|]. split; [exact (straight_nobar cfg X SX)|].
    intros s2 s3 KS ST r B.
    destruct (removal_sound cfg k i2 ahead s2 s3 HP KS ST R) as [NZ _].
    rewrite (bexec_straight cfg X s3 SX) in B. rewrite (bexec_straight cfg X s2 SX).
    destruct (exec_straight cfg X s3) as [t|] eqn:E; [|discriminate B]. inversion B; subst r.
    destruct (exec_straight_redefined cfg X SX NR s3 s2 t NZ E) as (t2 & E2 & Q).
    rewrite E2. eexists. split; [reflexivity|]. cbn [bres_eq]. apply eq_state_sym. exact Q.
  - apply orb_false_iff in LK. destruct LK as [LK1 LK2].
    exists [], ahead. split; [reflexivity|]. split; [reflexivity|].
    intros s2 s3 KS ST r B. cbn [bexec] in B |- *. inversion B; subst r.
    eexists. split; [reflexivity|]. cbn [bres_eq]. apply eq_state_sym.
    destruct (removal_sound cfg k i2 ahead s2 s3 HP KS ST R) as [_ [H|[[_ H]|[_ H]]]];
      [exact H|congruence|congruence].
Qed.

Lemma cf_equiv_eq (cfg : config) (a b : code) : a = b -> cf_equiv cfg a b.
Proof. intros -> s s' _ H. exists s'. split; [exact H|apply eq_state_refl]. Qed.

Ltac lnorm := repeat (progress (cbn [rev app]) || rewrite rev_app_distr || rewrite <- app_assoc).

Lemma nobar_ins_mid (i : instr) (mid tl : code) :
  forallb skip_line mid = true -> nobar tl = true -> nobar (Ins i :: rev mid ++ tl) = true.
Proof.
  intros M T. unfold nobar. cbn [forallb]. rewrite forallb_app.
  fold (nobar (rev mid)). fold (nobar tl). rewrite (nobar_skip _ (skip_rev _ M)), T. reflexivity.
Qed.

Lemma find_lbl_none (l : string) (a : code) : ~ In l (lbls a) -> find_lbl l a = None.
Proof.
  induction a as [|x a IH]; intros H; [reflexivity|].
  destruct x as [y|i|t sz|cm|]; cbn [find_lbl lbls] in *; try (rewrite IH; [reflexivity|exact H]).
  destruct (String.eqb_spec y l) as [->|NE]; [exfalso; apply H; left; reflexivity|].
  rewrite IH; [reflexivity|]. intros I. apply H. right. exact I.
Qed.

Lemma jmp_jumps (cfg : config) (f : instr) (s s1 : mstate) (l : string) :
  i_mn f = JMP -> jumps_to cfg f s l s1 -> l = i_op f /\ s1 = s.
Proof.
  intros M (op & c & P & E). rewrite M in P, E. rewrite parse_operand_eq in P.
  destruct (String.eqb (i_op f) ""); cbn [takes_label] in P; inversion P; subst op;
    cbv beta iota zeta delta [exec] in E; [discriminate E|]. inversion E. auto.
Qed.

Lemma blk_quiet_cons (x : line) (p : list line) :
  match x with Inl _ _ | Ins _ => false | _ => true end = true ->
  forallb skip_line (blk p) = true -> forallb skip_line (blk (x :: p)) = true.
Proof.
  intros X H. destruct x; try discriminate X; cbn [blk]; try reflexivity;
    rewrite forallb_app, H; reflexivity.
Qed.

Lemma skip_to_ins_blk (cfg : config) (l : list line) : forall p p' i r,
  skip_to_ins p l = Some (p', i, r) -> cf_ok cfg l = true ->
  forallb skip_line (blk p) = true -> forallb skip_line (blk p') = true.
Proof.
  induction l as [|x l IH]; intros p p' i r H OK Q; [discriminate H|].
  apply cf_ok_cons in OK. destruct OK as [O1 O2].
  destruct x as [y|j|t sz|cm|]; cbn [skip_to_ins] in H; try discriminate O1.
  - apply (IH _ _ _ _ H O2). apply blk_quiet_cons; [reflexivity|exact Q].
  - inversion H; subst. exact Q.
  - apply (IH _ _ _ _ H O2). apply blk_quiet_cons; [reflexivity|exact Q].
  - apply (IH _ _ _ _ H O2). apply blk_quiet_cons; [reflexivity|exact Q].
Qed.

(** * The invariant is preserved *)

Section CF.
  Variables (cfg : config) (c0 : code).
  Hypothesis HP : ports cfg = [].
  Hypothesis OK0 : cf_ok cfg c0 = true.
  Hypothesis ND0 : NoDup (lbls c0).

  (** the invariant, and the fact that the code is a rewriting of [c0] in the sense of
      Proofs/OptFacts.v (which gives its structural properties) *)
  Definition InvS (z : zst) : Prop :=
    InvCF cfg c0 z /\ exists m, OptFacts.rws m c0 (z_code z).

  Definition ResCF (r : step_result) : Prop :=
    match r with
    | Done c _ => cf_equiv cfg c0 c
    | Next z' => InvS z'
    end.

  Lemma cf_equiv_trans (a b : code) : cf_equiv cfg c0 a -> cf_equiv cfg a b -> cf_equiv cfg c0 b.
  Proof.
    intros H1 H2 s s' HB H. destruct (H1 s s' HB H) as (s1 & A & E1).
    destruct (H2 s s1 HB A) as (s2 & B & E2). exists s2. split; [exact B|].
    exact (eq_state_trans _ _ _ E2 E1).
  Qed.

  Lemma InvS_intro (z : zst) :
    (exists m, OptFacts.rws m c0 (z_code z)) -> forallb skip_line (z_mid z) = true ->
    know_ops_ok cfg (z_k z) -> (i_mn (z_f z) = JMP -> z_k z = k_none) ->
    cf_equiv cfg c0 (z_code z) -> KInv cfg (pswap z) (z_pre z) (z_f z) (z_k z) ->
    InvS z.
  Proof.
    intros (m & RW) M KO JK EQ KI. split; [|exists m; exact RW].
    destruct (rws_struct cfg m c0 (z_code z) RW) as [S1 S2].
    unfold InvCF. split; [exact (S1 OK0)|]. split; [exact M|]. split; [rewrite S2; exact ND0|].
    repeat (split; [assumption|]). exact KI.
  Qed.

  (** the rewriting of a label-free stretch [A] into [A'], what precedes it since the last
      label being common *)
  Lemma rewrite_equiv (pre : list line) (A A' tail : code) :
    cf_ok cfg (rev pre ++ A' ++ tail) = true ->
    nobar A = true -> nobar A' = true -> length A = length A' ->
    (forall s s1, bytes_ok s -> bfall cfg (blk pre) s = Some s1 ->
       forall r, bexec cfg A s1 = Some r -> exists r', bexec cfg A' s1 = Some r' /\ bres_eq r' r) ->
    cf_equiv cfg (rev pre ++ A ++ tail) (rev pre ++ A' ++ tail).
  Proof.
    intros OK NA NA' LEN H.
    assert (OKP : cf_ok cfg pre = true).
    { apply cf_ok_app in OK. rewrite <- cf_ok_rev. exact (proj1 OK). }
    destruct (cf_ok_blk cfg pre OKP) as [_ NB].
    rewrite rev_hdp_blk in OK |- *.
    assert (E : forall Y, (hdp pre ++ blk pre) ++ Y ++ tail = hdp pre ++ (blk pre ++ Y) ++ tail).
    { intros Y. rewrite <- !app_assoc. reflexivity. }
    rewrite !E in *.
    apply window.
    - rewrite nobar_app, NB, NA. reflexivity.
    - rewrite nobar_app, NB, NA'. reflexivity.
    - rewrite !app_length, LEN. reflexivity.
    - exact OK.
    - apply ls_prefix. exact H.
  Qed.

  Lemma z_code_parts (z : zst) :
    cf_ok cfg (z_code z) = true ->
    cf_ok cfg (z_pre z) = true /\ cf_ins_ok cfg (z_f z) = true /\ cf_ok cfg (z_rest z) = true.
  Proof.
    unfold z_code. intros H. apply cf_ok_app in H. destruct H as [H1 H2].
    rewrite cf_ok_rev in H1. apply cf_ok_cons in H2. destruct H2 as [H2 H3].
    apply cf_ok_app in H3. tauto.
  Qed.

  Lemma pswap_true' (z : zst) (i2 : instr) (ahead : list line) :
    z_rest z = Ins i2 :: ahead -> pswap z = true ->
    is_flag_setter (i_mn (z_f z)) = true /\ i_mn i2 = LDA /\ k_acc (z_k z) = None.
  Proof.
    unfold pswap. intros -> H. apply andb_true_iff in H. destruct H as [H1 H2].
    apply andb_true_iff in H2. destruct H2 as [H2 H3]. apply mnem_eqb_eq in H2.
    destruct (k_acc (z_k z)); [discriminate H3|]. auto.
  Qed.

  Lemma pair_rules_rs0_cf (k : know) (i1 i2 : instr) :
    snd (fst (pair_rules k i1 i2)) = true ->
    rs0_shape k i1 i2 \/ (i_mn i1 = JMP /\ i_mn i2 = JMP).
  Proof.
    intros E. unfold pair_rules in E. cbv beta zeta in E. cbn [fst snd] in E. unfold rs0_shape.
    OptSimFacts.bsplit; tauto.
  Qed.

  Lemma rs0_shape_plain2 (k : know) (i1 i2 : instr) : rs0_shape k i1 i2 -> plain (i_mn i2) = true.
  Proof.
    unfold rs0_shape. intros H.
    destruct H as [(_ & M & _)|[([[_ M]|[[_ M]|[_ M]]] & _)|[[[_ M]|[[_ M]|[[_ M]|[_ M]]]]|(M & _)]]];
      rewrite M; reflexivity.
  Qed.

  (** (P)+(T)+(A): every branch of [step_pair] but remove_both *)
  Lemma step_pair_cf (z : zst) (i2 : instr) (ahead : list line) :
    InvS z -> z_rest z = Ins i2 :: ahead ->
    fst (fst (fst (pair_rules (z_k z) (z_f z) i2))) = false ->
    ResCF (step_pair z i2 ahead).
  Proof.
    intros [(OKC & MID & ND & KOK & JK & EQV & KI) (m0 & RW)] ER RB.
    assert (MQ : OptFacts.mid_ok z) by (unfold OptFacts.mid_ok; rewrite quiet_skip; exact MID).
    destruct (OptFacts.step_pair_spec z i2 ahead ER MQ) as [GOOD MU].
    pose proof (pswap_true' z i2 ahead ER) as PSW.
    destruct (z_code_parts z OKC) as (OKP & OK1 & OKR). rewrite ER in OKR.
    apply cf_ok_cons in OKR. destruct OKR as [OK2 OKA]. cbn [cf_line_ok] in OK2.
    destruct z as [pre i1 mid rest k n]. cbn [z_pre z_f z_mid z_rest z_k z_removed] in *. subst rest.
    set (z0 := mkZ pre i1 mid (Ins i2 :: ahead) k n) in *.
    (* what the new state must satisfy, the structural part coming from [step_pair_spec] *)
    assert (FIN : forall z', OptFacts.good (z_code z0) n (Next z') -> OptFacts.mid_ok z' ->
              know_ops_ok cfg (z_k z') -> (i_mn (z_f z') = JMP -> z_k z' = k_none) ->
              (cf_ok cfg (z_code z') = true -> cf_equiv cfg (z_code z0) (z_code z')) ->
              KInv cfg (pswap z') (z_pre z') (z_f z') (z_k z') -> InvS z').
    { intros z' G MQ' KO' JK' EQ' KI'. cbn [OptFacts.good] in G. destruct G as (m1 & RW1 & _).
      apply InvS_intro; try assumption.
      - exists (m0 + m1)%N. exact (OptFacts.rws_trans _ _ _ _ _ RW RW1).
      - apply (cf_equiv_trans _ _ EQV). apply EQ'. exact (proj1 (rws_struct cfg m1 _ _ RW1) OKC). }
    pose proof (pair_rules_rs0_cf k i1 i2) as SH.
    pose proof (pair_rules_rf_shape k i1 i2) as RF.
    pose proof (pair_rules_sw_shape k i1 i2) as SW.
    assert (KI' : pswap z0 = false -> KInv cfg false pre i1 k).
    { intros E. rewrite E in KI. exact KI. }
    assert (ZC : z_code z0 = rev pre ++ Ins i1 :: rev mid ++ Ins i2 :: ahead) by reflexivity.
    revert GOOD MU. unfold step_pair. cbn [z0 z_pre z_f z_mid z_rest z_k z_removed].
    destruct (pair_rules k i1 i2) as [[[rb rf] rs0] sw]. cbn [fst snd] in RB, SH, RF, SW.
    subst rb.
    destruct sw.
    - (* swap *)
      destruct (SW eq_refl) as [M1 F2].
      assert (RS0 : rs0 = false).
      { destruct rs0; [|reflexivity]. exfalso. destruct (SH eq_refl) as [S|[_ MJ]].
        - exact (rs0_shape_not_before_flag_setter k i1 i2 M1 F2 S).
        - apply flag_setter_cases in F2. destruct F2; congruence. }
      subst rs0. cbn [negb andb]. rewrite (transfer_flag_setter k i2 ahead F2).
      cbv beta iota zeta. intros GOOD [_ MQ'].
      cbn [ResCF]. apply FIN; [exact GOOD|exact MQ'| | | |]; cbn [z_pre z_f z_mid z_rest z_k].
      + intros o op [H|[H|H]] P; cbn [k_acc k_x k_y] in H; [discriminate H| |]; apply (KOK o op); auto.
      + intros MJ. apply flag_setter_cases in F2. destruct F2; congruence.
      + intros OKN.
        assert (P1 : plain (i_mn i1) = true) by (rewrite M1; reflexivity).
        assert (P2 : plain (i_mn i2) = true)
          by (apply flag_setter_cases in F2; destruct F2 as [F|F]; rewrite F; reflexivity).
        assert (E1 : z_code z0 = rev pre ++ (Ins i1 :: rev mid ++ [Ins i2]) ++ ahead)
          by (rewrite ZC; lnorm; reflexivity).
        assert (E2 : z_code (mkZ pre i2 mid (Ins i1 :: ahead) (mkK None (k_x k) (k_y k) (k_flags k)) n)
                     = rev pre ++ (Ins i2 :: rev mid ++ [Ins i1]) ++ ahead)
          by (unfold z_code; cbn [z_pre z_f z_mid z_rest]; lnorm; reflexivity).
        rewrite E2 in OKN |- *. rewrite E1.
        apply rewrite_equiv; [exact OKN| | | |].
        * apply nobar_ins_mid; [exact MID|reflexivity].
        * apply nobar_ins_mid; [exact MID|reflexivity].
        * cbn [length]. rewrite !app_length. reflexivity.
        * intros s s1 HB B. apply (tsim_sw cfg i1 i2 mid s1 MID P1 P2).
          intros s2 s3 ST1 ST2.
          exact (rule_swap_lda_carry cfg i1 i2 s1 s2 s3 M1 (flag_setter_cases _ F2) ST1 ST2).
      + assert (PS : pswap (mkZ pre i2 mid (Ins i1 :: ahead) (mkK None (k_x k) (k_y k) (k_flags k)) n) = true).
        { unfold pswap. cbn [z_f z_rest z_k k_acc]. rewrite F2, M1. reflexivity. }
        rewrite PS. exact (kinv_sw cfg _ pre i1 i2 k HP KI M1 F2 OK1).
    - destruct rs0.
      + (* remove_second by a pair rule *)
        cbn [negb andb]. cbv beta iota zeta. intros GOOD [_ MQ'].
        destruct (pswap z0) eqn:PS.
        { exfalso. destruct (PSW eq_refl) as (F & L & _). destruct (SH eq_refl) as [S|[MJ _]].
          - exact (rs0_shape_not_after_flag_setter k i1 i2 F L S).
          - apply flag_setter_cases in F. destruct F; congruence. }
        pose proof (KI' eq_refl) as KIf.
        cbn [ResCF]. apply FIN; [exact GOOD|exact MQ'|exact KOK|exact JK| |apply KInv_weaken; exact KIf].
        intros OKN.
        assert (E1 : z_code z0 = rev pre ++ (Ins i1 :: rev mid ++ Ins i2 :: []) ++ ahead)
          by (rewrite ZC; lnorm; reflexivity).
        assert (E2 : z_code (mkZ pre i1 (Dummy :: mid) ahead k (n + 1)%N)
                     = rev pre ++ (Ins i1 :: rev mid ++ Dummy :: []) ++ ahead)
          by (unfold z_code; cbn [z_pre z_f z_mid z_rest]; lnorm; reflexivity).
        rewrite E2 in OKN |- *. rewrite E1.
        apply rewrite_equiv; [exact OKN| | | |].
        * apply nobar_ins_mid; [exact MID|reflexivity].
        * apply nobar_ins_mid; [exact MID|reflexivity].
        * cbn [length]. rewrite !app_length. reflexivity.
        * intros s s1 HB B.
          assert (HB1 : bytes_ok s1) by (exact (bfall_bytes cfg _ s s1 HB B)).
          apply (tsim_rs cfg i1 i2 mid [] s1 MID).
          -- destruct (SH eq_refl) as [S|[MJ _]]; [left; exact (rs0_shape_plain2 k i1 i2 S)|right; exact MJ].
          -- intros s2 s3 ST1 ST2 r Br. cbn [bexec] in Br |- *. inversion Br; subst r.
             eexists. split; [reflexivity|]. cbn [bres_eq]. apply eq_state_sym.
             destruct (SH eq_refl) as [S|[MJ _]]; [|exfalso; exact (jmp_no_step cfg i1 s1 s2 MJ ST1)].
             apply (rs0_sound_cf cfg k i1 i2 s1 s2 s3 HP HB1 OK1 S); [|exact ST1|exact ST2].
             apply (KIf s s2 HB). apply bfall_snoc. eauto.
      + cbn [negb andb].
        pose proof (kinv_advance cfg (pswap z0) pre mid i1 i2 k ahead HP KI) as KADV.
        pose proof (kinv_removed cfg pre i1 i2 k ahead) as KREM.
        pose proof (kinv_rf cfg pre mid i1 i2 k ahead HP) as KRF.
        pose proof (know_ops_ok_transfer_cf cfg k i2 ahead OK2 KOK) as KOK1.
        pose proof (transfer_rs_known k i2 ahead) as TK.
        pose proof (removal_window cfg k i2 ahead HP OKA) as RWIN.
        pose proof (transfer_jmp k i2 ahead) as TJ.
        destruct (transfer k i2 ahead) as [k1 rs]. cbn [fst snd] in *. cbv beta iota zeta.
        destruct rs.
        * (* remove_second by [transfer] *)
          intros GOOD [_ MQ'].
          destruct (pswap z0) eqn:PS.
          { exfalso. destruct (PSW eq_refl) as (F & L & A).
            destruct (TK eq_refl) as [[_ H]|[[H _]|[H _]]]; congruence. }
          pose proof (KI' eq_refl) as KIf.
          assert (P2 : plain (i_mn i2) = true).
          { destruct (TK eq_refl) as [[H _]|[[H _]|[H _]]]; rewrite H; reflexivity. }
          cbn [ResCF]. apply FIN; [exact GOOD|exact MQ'|exact KOK1| |
                                   |apply KInv_weaken; exact (KREM KIf eq_refl)].
          -- cbn [z_f z_k]. intros MJ. specialize (JK MJ). subst k.
             destruct (TK eq_refl) as [[_ H]|[[_ H]|[_ H]]]; discriminate H.
          -- intros OKN. destruct (RWIN eq_refl) as (X & R & EA & NX & HX). subst ahead.
             assert (E1 : z_code z0 = rev pre ++ (Ins i1 :: rev mid ++ Ins i2 :: X) ++ R)
               by (rewrite ZC; lnorm; reflexivity).
             assert (E2 : z_code (mkZ pre i1 (Dummy :: mid) (X ++ R) k1 (n + 1)%N)
                          = rev pre ++ (Ins i1 :: rev mid ++ Dummy :: X) ++ R)
               by (unfold z_code; cbn [z_pre z_f z_mid z_rest]; lnorm; reflexivity).
             rewrite E2 in OKN |- *. rewrite E1.
             apply rewrite_equiv; [exact OKN| | | |].
             ++ apply nobar_ins_mid; [exact MID|]. unfold nobar. cbn [forallb]. exact NX.
             ++ apply nobar_ins_mid; [exact MID|]. unfold nobar. cbn [forallb]. exact NX.
             ++ cbn [length]. rewrite !app_length. reflexivity.
             ++ intros s s1 HB B.
                apply (tsim_rs cfg i1 i2 mid X s1 MID (or_introl P2)).
                intros s2 s3 ST1 ST2. apply HX; [|exact ST2].
                apply (KIf s s2 HB). apply bfall_snoc. eauto.
        * destruct rf.
          -- (* remove_first *)
             intros GOOD [_ MQ'].
             destruct (pswap z0) eqn:PS.
             { exfalso. destruct (PSW eq_refl) as (F & L & A). apply flag_setter_cases in F.
               destruct (RF eq_refl) as [[H _]|[[H _]|[H _]]]; destruct F; congruence. }
             pose proof (KI' eq_refl) as KIf.
             assert (P1 : plain (i_mn i1) = true)
               by (destruct (RF eq_refl) as [[H _]|[[H _]|[H _]]]; rewrite H; reflexivity).
             assert (P2 : plain (i_mn i2) = true)
               by (destruct (RF eq_refl) as [[_ H]|[[_ H]|[_ H]]]; rewrite H; reflexivity).
             cbn [ResCF]. apply FIN; [exact GOOD|exact MQ'|exact KOK1|exact TJ| |].
             ++ intros OKN.
                assert (E1 : z_code z0 = rev pre ++ (Ins i1 :: rev mid ++ [Ins i2]) ++ ahead)
                  by (rewrite ZC; lnorm; reflexivity).
                assert (E2 : z_code (mkZ (mid ++ Dummy :: pre) i2 [] ahead k1 (n + 1)%N)
                             = rev pre ++ (Dummy :: rev mid ++ [Ins i2]) ++ ahead)
                  by (unfold z_code; cbn [z_pre z_f z_mid z_rest]; lnorm; reflexivity).
                rewrite E2 in OKN |- *. rewrite E1.
                apply rewrite_equiv; [exact OKN| | | |].
                ** apply nobar_ins_mid; [exact MID|reflexivity].
                ** unfold nobar. cbn [forallb]. rewrite forallb_app. cbn [forallb].
                   fold (nobar (rev mid)). rewrite (nobar_skip _ (skip_rev _ MID)). reflexivity.
                ** cbn [length]. rewrite !app_length. reflexivity.
                ** intros s s1 HB B. apply (tsim_rf cfg i1 i2 mid s1 MID P1 P2).
                   intros s2 s3 ST1 ST2.
                   exact (rule_load_load cfg i1 i2 s1 s2 s3 (RF eq_refl) (cf_ind_legal cfg i2 OK2) ST1 ST2).
             ++ apply KInv_weaken. cbn [z_pre z_f z_k].
                exact (KRF KIf (RF eq_refl) OK1 OK2 KOK MID eq_refl).
          -- (* nothing removed: advance *)
             intros GOOD [_ MQ'].
             cbn [ResCF]. apply FIN; [exact GOOD|exact MQ'|exact KOK1|exact TJ| |].
             ++ intros _. apply cf_equiv_eq. rewrite ZC. unfold z_code. cbn [z_pre z_f z_mid z_rest].
                lnorm. reflexivity.
             ++ apply KInv_weaken. cbn [z_pre z_f z_k]. apply KADV; try assumption; try reflexivity.
                intros E. destruct (PSW E) as (_ & L & A). auto.
  Qed.

  (** (J): a JMP to the label that follows it goes where falling through goes *)
  Lemma step_jmp_cf (z : zst) : InvS z -> ResCF (step_jmp z).
  Proof.
    intros I. pose proof I as [(OKC & MID & ND & KOK & JK & EQV & KI) (m0 & RW)].
    destruct (OptFacts.step_jmp_spec z) as [GOOD _].
    destruct (z_code_parts z OKC) as (OKP & OK1 & OKR).
    destruct z as [pre f mid rest k n]. unfold step_jmp in *.
    cbn [z_pre z_f z_mid z_rest z_k z_removed] in *.
    destruct rest as [|x r]; [exact I|].
    destruct x as [l|j|t sz|cm|]; try exact I.
    destruct (mnem_eqb (i_mn f) JMP && String.eqb (i_op f) l && negb (i_prot f)) eqn:C; [|exact I].
    apply andb_true_iff in C. destruct C as [C _]. apply andb_true_iff in C. destruct C as [M EL].
    apply mnem_eqb_eq in M. apply String.eqb_eq in EL.
    apply cf_ok_cons in OKR. destruct OKR as [_ OKR].
    (* the rewriting itself *)
    assert (EQ : cf_ok cfg (rev pre ++ (Dummy :: rev mid) ++ Lbl l :: r) = true ->
                 cf_equiv cfg (rev pre ++ (Ins f :: rev mid) ++ Lbl l :: r)
                              (rev pre ++ (Dummy :: rev mid) ++ Lbl l :: r)).
    { intros OKN. apply window; [| | |exact OKN|].
      - pose proof (nobar_ins_mid f mid [] MID eq_refl) as NB. rewrite app_nil_r in NB. exact NB.
      - unfold nobar. cbn [forallb]. fold (nobar (rev mid)). exact (nobar_skip _ (skip_rev _ MID)).
      - reflexivity.
      - intros s r0 k0 HB B D.
        destruct (bexec_ins_inv cfg f _ s r0 B) as [(s1 & ST & _)|(l' & s1 & J & ->)];
          [exfalso; exact (jmp_no_step cfg f s s1 M ST)|].
        destruct (jmp_jumps cfg f s s1 l' M J) as [-> ->]. rewrite EL in D. cbn [dest] in D.
        exists (BFall s). cbn [bexec]. rewrite (bexec_skip cfg _ (skip_rev _ MID)).
        split; [reflexivity|]. split; [|apply eq_state_refl]. cbn [dest bst]. rewrite <- D.
        symmetry. rewrite find_lbl_app.
        assert (NL : ~ In l (lbls (rev pre))).
        { unfold z_code in ND. cbn [z_pre z_f z_mid z_rest] in ND.
          rewrite !lbls_app in ND. cbn [lbls] in ND. rewrite lbls_app in ND. cbn [lbls] in ND.
          rewrite app_assoc in ND. apply NoDup_remove_2 in ND. intros X. apply ND.
          apply in_or_app. left. apply in_or_app. left. exact X. }
        rewrite (find_lbl_none l _ NL). rewrite find_lbl_app.
        assert (NB : nobar (Ins f :: rev mid) = true).
        { pose proof (nobar_ins_mid f mid [] MID eq_refl) as NB0. rewrite app_nil_r in NB0. exact NB0. }
        rewrite (find_lbl_nobar l _ NB). cbn [find_lbl]. rewrite String.eqb_refl. cbn [option_map].
        f_equal. lia. }
    assert (ZC : z_code (mkZ pre f mid (Lbl l :: r) k n) = rev pre ++ (Ins f :: rev mid) ++ Lbl l :: r)
      by (unfold z_code; cbn [z_pre z_f z_mid z_rest]; lnorm; reflexivity).
    assert (NC : rev (Lbl l :: mid ++ Dummy :: pre) ++ r = rev pre ++ (Dummy :: rev mid) ++ Lbl l :: r)
      by (lnorm; reflexivity).
    destruct (skip_to_ins (Lbl l :: mid ++ Dummy :: pre) r) as [[[pre'' i] r']|] eqn:S.
    - pose proof (OptFacts.skip_to_ins_some _ _ _ _ _ S) as [S1 _].
      cbn [OptFacts.good] in GOOD. destruct GOOD as (m1 & RW1 & _).
      assert (ZC' : z_code (mkZ pre'' i [] r' k (n + 1)%N) = rev pre ++ (Dummy :: rev mid) ++ Lbl l :: r).
      { unfold z_code. cbn [z_pre z_f z_mid z_rest rev app]. rewrite <- S1. exact NC. }
      cbn [ResCF]. apply InvS_intro; cbn [z_pre z_f z_mid z_rest z_k].
      + exists (m0 + m1)%N. exact (OptFacts.rws_trans _ _ _ _ _ RW RW1).
      + reflexivity.
      + exact KOK.
      + intros _. exact (JK M).
      + apply (cf_equiv_trans _ _ EQV). rewrite ZC, ZC'. apply EQ. rewrite <- ZC'.
        exact (proj1 (rws_struct cfg m1 _ _ RW1) OKC).
      + rewrite (JK M). apply kinv_none.
    - unfold finish in *. cbn [OptFacts.good] in GOOD. destruct GOOD as (m1 & RW1 & _).
      cbn [ResCF]. apply (cf_equiv_trans _ _ EQV). rewrite ZC, NC. apply EQ. rewrite <- NC.
      exact (proj1 (rws_struct cfg m1 _ _ RW1) OKC).
  Qed.

  (** (S): nothing is rewritten; after a label the knowledge is reset, and the new knowledge is
      sound whatever the state in which the label is reached *)
  Definition know_part (z : zst) : Prop :=
    know_ops_ok cfg (z_k z) /\ (i_mn (z_f z) = JMP -> z_k z = k_none) /\
    KInv cfg (pswap z) (z_pre z) (z_f z) (z_k z).

  Lemma step_second_know (B : nat) :
    forall rest : list line, (length rest <= B)%nat ->
    forall (pre : list line) (f : instr) (mid : list line) (k : know) (n : N),
    cf_ok cfg rest = true -> know_part (mkZ pre f mid rest k n) ->
    match step_second pre f mid rest k n with
    | Done _ _ => True
    | Next z2 => know_part z2
    end.
  Proof.
    induction B as [|B IHB]; intros rest LB pre f mid k n OKR KP.
    - destruct rest as [|x r]; [exact I|cbn [length] in LB; lia].
    - destruct rest as [|x r]; [exact I|].
      cbn [length] in LB. assert (Lr : (length r <= B)%nat) by lia.
      apply cf_ok_cons in OKR. destruct OKR as [OKx OKr].
      assert (FA : forall (r0 p : list line), (length r0 <= B)%nat -> cf_ok cfg r0 = true ->
                forallb skip_line (blk p) = true ->
                match OptFacts.find_after p r0 k n with
                | Done _ _ => True
                | Next z2 => know_part z2
                end).
      { induction r0 as [|y r0 IHr]; intros p L0 OK0' Q; [exact I|].
        cbn [length] in L0. apply cf_ok_cons in OK0'. destruct OK0' as [OKy OKr0].
        destruct y as [l'|j'|t' sz'|s'|]; cbn [OptFacts.find_after]; try discriminate OKy.
        - apply IHr; [lia|exact OKr0|]. apply blk_quiet_cons; [reflexivity|exact Q].
        - cbn [cf_line_ok] in OKy. apply IHB; [lia|exact OKr0|].
          unfold know_part. cbn [z_pre z_f z_mid z_rest z_k]. rewrite analyse_label.
          split; [exact (know_ops_ok_start cfg j' OKy)|]. split; [exact (analyse_start_jmp j')|].
          apply KInv_weaken. exact (kinv_start cfg p j' HP Q OKy).
        - apply IHr; [lia|exact OKr0|]. apply blk_quiet_cons; [reflexivity|exact Q].
        - apply IHr; [lia|exact OKr0|]. apply blk_quiet_cons; [reflexivity|exact Q]. }
      destruct KP as (KO & JK & KI).
      assert (PS0 : forall m', pswap (mkZ pre f m' (x :: r) k n) = false ->
                    KInv cfg false pre f k).
      { intros m' E. cbn [z_pre z_f z_k] in KI. unfold pswap in KI, E. cbn [z_f z_rest z_k] in KI, E.
        rewrite E in KI. exact KI. }
      destruct x as [l|j|t sz|s|]; try discriminate OKx.
      + rewrite OptFacts.step_second_lbl. apply FA; [exact Lr|exact OKr|reflexivity].
      + cbn [step_second]. split; [exact KO|]. split; [exact JK|exact KI].
      + cbn [step_second]. apply IHB; [exact Lr|exact OKr|].
        split; [exact KO|]. split; [exact JK|]. cbn [z_pre z_f z_k]. apply KInv_weaken.
        apply (PS0 mid). unfold pswap. cbn [z_f z_rest]. apply andb_false_r.
      + cbn [step_second]. apply IHB; [exact Lr|exact OKr|].
        split; [exact KO|]. split; [exact JK|]. cbn [z_pre z_f z_k]. apply KInv_weaken.
        apply (PS0 mid). unfold pswap. cbn [z_f z_rest]. apply andb_false_r.
  Qed.

  Lemma step_second_cf (z : zst) :
    InvS z ->
    match step_second (z_pre z) (z_f z) (z_mid z) (z_rest z) (z_k z) (z_removed z) with
    | Done c _ => cf_equiv cfg c0 c
    | Next z2 => InvS z2 /\ exists i2 ahead, z_rest z2 = Ins i2 :: ahead
    end.
  Proof.
    intros [(OKC & MID & ND & KOK & JK & EQV & KI) (m0 & RW)].
    assert (MQ : OptFacts.mid_ok z) by (unfold OptFacts.mid_ok; rewrite quiet_skip; exact MID).
    pose proof (OptFacts.step_second_spec z MQ) as SS.
    destruct (z_code_parts z OKC) as (_ & _ & OKR).
    pose proof (step_second_know (length (z_rest z)) (z_rest z) (le_n _) (z_pre z) (z_f z) (z_mid z)
                  (z_k z) (z_removed z) OKR) as SK.
    destruct (step_second (z_pre z) (z_f z) (z_mid z) (z_rest z) (z_k z) (z_removed z)) as [c n'|z2].
    - cbn [OptFacts.second_ok] in SS. destruct SS as [-> _]. exact EQV.
    - cbn [OptFacts.second_ok] in SS. destruct SS as (S1 & _ & MQ2 & S3 & _).
      split; [|exact S3].
      destruct SK as (KO2 & JK2 & KI2).
      { destruct z; split; [exact KOK|]. split; [exact JK|exact KI]. }
      apply InvS_intro; try assumption.
      + exists m0. rewrite S1. exact RW.
      + rewrite S1. exact EQV.
  Qed.

  Lemma step_cf (z : zst) : InvS z -> rb_here z = false -> ResCF (step z).
  Proof.
    intros I RB. unfold step. unfold rb_here in RB.
    pose proof (step_jmp_cf z I) as J.
    destruct (step_jmp z) as [c n|z1]; [exact J|]. cbn [ResCF] in J.
    pose proof (step_second_cf z1 J) as S.
    destruct (step_second (z_pre z1) (z_f z1) (z_mid z1) (z_rest z1) (z_k z1) (z_removed z1)) as [c n|z2];
      [exact S|].
    destruct S as [I2 (i2 & ahead & E)]. rewrite E in RB |- *.
    exact (step_pair_cf z2 i2 ahead I2 E RB).
  Qed.

  Lemma run_cf (fuel : nat) : forall (z : zst) (c : code) (n : N),
    InvS z -> run_rb_free fuel z = true -> run fuel z = Some (c, n) -> cf_equiv cfg c0 c.
  Proof.
    induction fuel as [|fuel IH]; intros z c n I RB R; [discriminate R|].
    cbn [run] in R. cbn [run_rb_free] in RB. apply andb_true_iff in RB. destruct RB as [RB1 RB2].
    apply negb_true_iff in RB1. pose proof (step_cf z I RB1) as RS.
    destruct (step z) as [c' n'|z'].
    - inversion R; subst. exact RS.
    - exact (IH z' c n RS RB2 R).
  Qed.

  Lemma InvS_init (pre : list line) (i : instr) (r : list line) :
    skip_to_ins [] c0 = Some (pre, i, r) ->
    InvS (mkZ pre i [] r (analyse_load AlStart k_init i) 0%N).
  Proof.
    intros SK. pose proof (OptFacts.skip_to_ins_some _ _ _ _ _ SK) as [S1 _]. cbn [rev app] in S1.
    assert (ZC : z_code (mkZ pre i [] r (analyse_load AlStart k_init i) 0%N) = c0).
    { unfold z_code. cbn [z_pre z_f z_mid z_rest rev app]. symmetry. exact S1. }
    assert (OKi : cf_ins_ok cfg i = true).
    { pose proof OK0 as O. rewrite S1 in O. apply cf_ok_app in O. destruct O as [_ O].
      apply cf_ok_cons in O. exact (proj1 O). }
    apply InvS_intro; cbn [z_pre z_f z_mid z_rest z_k].
    - exists 0%N. rewrite ZC. apply OptFacts.rws_refl.
    - reflexivity.
    - exact (know_ops_ok_start cfg i OKi).
    - exact (analyse_start_jmp i).
    - rewrite ZC. apply cf_equiv_eq. reflexivity.
    - apply KInv_weaken. apply (kinv_start cfg pre i HP); [|exact OKi].
      exact (skip_to_ins_blk cfg c0 [] pre i r SK OK0 eq_refl).
  Qed.

  Theorem optimize_cf_equiv : rb_free c0 = true -> cf_equiv cfg c0 (fst (optimize c0)).
  Proof.
    intros RB. unfold optimize, optimize_opt. unfold rb_free in RB.
    destruct (skip_to_ins [] c0) as [[[pre i] r]|] eqn:SK; [|apply cf_equiv_eq; reflexivity].
    destruct (run (optimize_fuel c0) (mkZ pre i [] r (analyse_load AlStart k_init i) 0%N))
      as [[c' n]|] eqn:R; [|apply cf_equiv_eq; reflexivity].
    cbn [fst]. exact (run_cf (optimize_fuel c0) _ c' n (InvS_init pre i r SK) RB R).
  Qed.
End CF.

(** * The theorem *)

(** code with labels, conditional branches and JMP: whenever the original halts (falls off its
    end), so does the optimised code, in the same state *)
Theorem optimize_cf_sound : forall cfg c s s',
  ports cfg = [] -> bytes_ok s -> cf_ok cfg c = true -> NoDup (lbls c) -> rb_free c = true ->
  halts cfg c s s' ->
  exists s'', halts cfg (fst (optimize c)) s s'' /\ eq_state s'' s'.
Proof.
  intros cfg c s s' HP HB OK ND RB H.
  exact (optimize_cf_equiv cfg c HP OK ND RB s s' HB H).
Qed.
Print Assumptions optimize_cf_sound.

(** * [halts] is [Sem.run]

    [GenLoopsFacts.halts_to cfg c s s']: the code assembles and [Sem.run] executes it from [s]
    (empty call stack, any program around it, any sufficient fuel) to a normal halt in [s']. *)

Lemma slines_length (c : code) : forall sl, slines_of c = Some sl -> length sl = length c.
Proof.
  induction c as [|x c IH]; intros sl H; [inversion H; reflexivity|].
  cbn [slines_of] in H. destruct (sline_of x); [|discriminate H].
  destruct (slines_of c) as [sr|]; [|discriminate H]. inversion H; subst. cbn [length].
  rewrite (IH sr eq_refl). reflexivity.
Qed.

Lemma slines_nth (c : code) : forall sl pc, slines_of c = Some sl ->
  match nth_error c pc with
  | None => nth_error sl pc = None
  | Some x => exists y, sline_of x = Some y /\ nth_error sl pc = Some y
  end.
Proof.
  induction c as [|x c IH]; intros sl pc H.
  - inversion H; subst. destruct pc; reflexivity.
  - cbn [slines_of] in H. destruct (sline_of x) as [y|] eqn:SX; [|discriminate H].
    destruct (slines_of c) as [sr|] eqn:SR; [|discriminate H]. inversion H; subst.
    destruct pc as [|pc]; cbn [nth_error]; [eauto|]. exact (IH sr pc eq_refl).
Qed.

Lemma slines_find (l : string) (c : code) : forall sl k, slines_of c = Some sl ->
  find_label l sl k = match find_lbl l c with Some j => Some (k + j)%nat | None => None end.
Proof.
  induction c as [|x c IH]; intros sl k H.
  - inversion H; subst. reflexivity.
  - cbn [slines_of] in H. destruct (sline_of x) as [y|] eqn:SX; [|discriminate H].
    destruct (slines_of c) as [sr|] eqn:SR; [|discriminate H]. inversion H; subst.
    assert (G : find_label l sr (S k) =
                match option_map S (find_lbl l c) with Some j => Some (k + j)%nat | None => None end).
    { rewrite (IH sr (S k) eq_refl). destruct (find_lbl l c); cbn [option_map]; [f_equal; lia|reflexivity]. }
    destruct x as [lb|i|t sz|cm|]; cbn [sline_of] in SX.
    + inversion SX; subst. cbn [find_label find_lbl].
      destruct (String.eqb lb l); [f_equal; lia|exact G].
    + destruct (parse_operand (i_mn i) (i_op i)); inversion SX; subst. cbn [find_label find_lbl]. exact G.
    + inversion SX; subst. cbn [find_label find_lbl]. exact G.
    + inversion SX; subst. cbn [find_label find_lbl]. exact G.
    + inversion SX; subst. cbn [find_label find_lbl]. exact G.
Qed.

Lemma crun_stepn (cfg : config) (c : code) (sl : list sline) :
  slines_of c = Some sl -> cf_ok cfg c = true ->
  forall n pc s, crun cfg c n pc s = GenCmp16Facts.stepn cfg sl n pc s.
Proof.
  intros SL OK. induction n as [|n IH]; intros pc s; [reflexivity|].
  cbn [crun GenCmp16Facts.stepn]. pose proof (slines_nth c sl pc SL) as N.
  destruct (nth_error c pc) as [x|] eqn:NC.
  - destruct N as (y & SX & ->).
    assert (OKx : cf_line_ok cfg x = true).
    { apply nth_error_In in NC. exact (proj1 (forallb_forall _ _) OK _ NC). }
    destruct x as [lb|i|t sz|cm|]; cbn [sline_of] in SX; try discriminate OKx.
    + inversion SX; subst. apply IH.
    + destruct (parse_operand (i_mn i) (i_op i)) as [op|]; [|discriminate SX]. inversion SX; subst.
      destruct (exec cfg (i_mn i) op s) as [s1 k f|w]; [|reflexivity].
      destruct f; try reflexivity; [apply IH|].
      rewrite (slines_find l c sl 0 SL). destruct (find_lbl l c); [apply IH|reflexivity].
    + inversion SX; subst. apply IH.
    + inversion SX; subst. apply IH.
  - rewrite N. reflexivity.
Qed.

Lemma halts_halts_to (cfg : config) (c : code) (sl : list sline) (s s' : mstate) :
  slines_of c = Some sl -> cf_ok cfg c = true -> halts cfg c s s' ->
  GenLoopsFacts.halts_to cfg c s s'.
Proof.
  intros SL OK (n & H). rewrite (crun_stepn cfg c sl SL OK) in H.
  destruct (GenLoopsFacts.halts_to_reach cfg c sl s (fun x => x = s') SL) as (st' & HT & ->).
  - exists n, (length c), s'. split; [exact H|]. split; [symmetry; apply slines_length; exact SL|reflexivity].
  - exact HT.
Qed.

Lemma cf_flow (cfg : config) (m : mnem) (o : operand) (s s1 : mstate) (k : N) (f : flow) :
  cf_mnem m = true -> exec cfg m o s = XOk s1 k f -> f = FNext \/ exists l, f = FGoto l.
Proof.
  intros C E. destruct (cf_mnem_cases m C) as [P|[B| ->]].
  - left. exact (plain_falls_through cfg m o s s1 k f P E).
  - destruct m; try discriminate B; cbv beta iota zeta delta [exec] in E;
      destruct o; try discriminate E;
      match type of E with (if ?b then _ else _) = _ => destruct b end; inversion E; eauto.
  - cbv beta iota zeta delta [exec] in E. destruct o; try discriminate E. inversion E. eauto.
Qed.

Lemma find_lbl_lt (l : string) (c : code) (k : nat) : find_lbl l c = Some k -> (k < length c)%nat.
Proof. intros H. apply find_lbl_nth in H. apply nth_error_Some. rewrite H. discriminate. Qed.

Lemma run_halt_crun (cfg : config) (prog : sprogram) (inl_sem ext_call : string -> mstate -> option mstate)
      (c : code) (sl : list sline) :
  slines_of c = Some sl -> cf_ok cfg c = true ->
  forall fuel fname pc s tr cy s' tr' cy', (pc <= length c)%nat ->
  Sem.run cfg prog inl_sem ext_call fuel fname sl pc [] s tr cy = Halt s' tr' cy' ->
  exists n, crun cfg c n pc s = Some (length c, s').
Proof.
  intros SL OK. induction fuel as [|fuel IH]; intros fname pc s tr cy s' tr' cy' LE R; [discriminate R|].
  rewrite GenTemplatesFacts.run_S in R. pose proof (slines_nth c sl pc SL) as N.
  destruct (nth_error c pc) as [x|] eqn:NC.
  - destruct N as (y & SX & NS). rewrite NS in R.
    assert (LT : (pc < length c)%nat) by (apply nth_error_Some; rewrite NC; discriminate).
    assert (OKx : cf_line_ok cfg x = true).
    { apply nth_error_In in NC. exact (proj1 (forallb_forall _ _) OK _ NC). }
    assert (ONE : forall s1 pc1 tr1 cy1, (pc1 <= length c)%nat ->
              Sem.run cfg prog inl_sem ext_call fuel fname sl pc1 [] s1 tr1 cy1 = Halt s' tr' cy' ->
              forall X, (forall n, crun cfg c (S n) pc s = X n) -> (forall n, X n = crun cfg c n pc1 s1) ->
              exists n, crun cfg c n pc s = Some (length c, s')).
    { intros s1 pc1 tr1 cy1 L1 R1 X HX HX'. destruct (IH fname pc1 s1 tr1 cy1 s' tr' cy' L1 R1) as [n Hn].
      exists (S n). rewrite HX, HX'. exact Hn. }
    destruct x as [lb|i|t sz|cm|]; cbn [sline_of] in SX; try discriminate OKx.
    + inversion SX; subst y.
      apply (ONE s (S pc) tr cy LT R (fun n => crun cfg c n (S pc) s)); [|reflexivity].
      intros n. cbn [crun]. rewrite NC. reflexivity.
    + destruct (parse_operand (i_mn i) (i_op i)) as [op|] eqn:P; [|discriminate SX]. inversion SX; subst y.
      cbv zeta in R.
      destruct (exec cfg (i_mn i) op s) as [s1 k f|w] eqn:E; [|discriminate R].
      destruct (cf_flow cfg _ _ _ _ _ _ (cf_ins_mnem cfg i OKx) E) as [->|[l ->]].
      * apply (ONE s1 (S pc) _ _ LT R (fun n => crun cfg c n (S pc) s1)); [|reflexivity].
        intros n. cbn [crun]. rewrite NC, P, E. reflexivity.
      * rewrite (slines_find l c sl 0 SL) in R.
        destruct (find_lbl l c) as [j|] eqn:F; [|discriminate R]. cbn [Nat.add] in R.
        apply (ONE s1 j _ _ (Nat.lt_le_incl _ _ (find_lbl_lt l c j F)) R (fun n => crun cfg c n j s1));
          [|reflexivity].
        intros n. cbn [crun]. rewrite NC, P, E, F. reflexivity.
    + inversion SX; subst y.
      apply (ONE s (S pc) tr cy LT R (fun n => crun cfg c n (S pc) s)); [|reflexivity].
      intros n. cbn [crun]. rewrite NC. reflexivity.
    + inversion SX; subst y.
      apply (ONE s (S pc) tr cy LT R (fun n => crun cfg c n (S pc) s)); [|reflexivity].
      intros n. cbn [crun]. rewrite NC. reflexivity.
  - rewrite N in R. inversion R; subst. exists O. cbn [crun]. f_equal. f_equal.
    apply nth_error_None in NC. lia.
Qed.

Lemma halts_to_halts (cfg : config) (c : code) (s s' : mstate) :
  cf_ok cfg c = true -> GenLoopsFacts.halts_to cfg c s s' -> halts cfg c s s'.
Proof.
  intros OK (sl & SL & N & H).
  destruct (H [] (fun _ _ => None) (fun _ _ => None) ""%string (S N) (Nat.lt_succ_diag_r _)) as (tr & cy & R).
  exact (run_halt_crun cfg _ _ _ c sl SL OK _ _ _ _ _ _ _ _ _ (Nat.le_0_l _) R).
Qed.

Lemma slines_some (c : code) :
  (forall i, In (Ins i) c -> parse_operand (i_mn i) (i_op i) <> None) -> exists sl, slines_of c = Some sl.
Proof.
  induction c as [|x c IH]; intros H; [exists []; reflexivity|].
  destruct IH as [sr SR]; [intros i Hi; apply H; right; exact Hi|].
  cbn [slines_of]. rewrite SR.
  destruct x as [lb|i|t sz|cm|]; cbn [sline_of]; eauto.
  destruct (parse_operand (i_mn i) (i_op i)) eqn:P; [eauto|].
  exfalso. exact (H i (or_introl eq_refl) P).
Qed.

Lemma slines_parse (c : code) : forall sl i, slines_of c = Some sl -> In (Ins i) c ->
  parse_operand (i_mn i) (i_op i) <> None.
Proof.
  induction c as [|x c IH]; intros sl i H Hin; [destruct Hin|]. destruct Hin as [E|Hin].
  - subst x. cbn [slines_of sline_of] in H. destruct (parse_operand (i_mn i) (i_op i)); [discriminate|discriminate H].
  - cbn [slines_of] in H. destruct (sline_of x); [|discriminate H].
    destruct (slines_of c) as [sr|]; [|discriminate H]. exact (IH sr i eq_refl Hin).
Qed.

(** the theorem, on [Sem.run] *)
Theorem optimize_cf_run : forall cfg c s s',
  ports cfg = [] -> bytes_ok s -> cf_ok cfg c = true -> NoDup (lbls c) -> rb_free c = true ->
  GenLoopsFacts.halts_to cfg c s s' ->
  exists s'', GenLoopsFacts.halts_to cfg (fst (optimize c)) s s'' /\ eq_state s'' s'.
Proof.
  intros cfg c s s' HP HB OK ND RB HT.
  pose proof HT as (sl & SL & _).
  destruct (optimize_cf_sound cfg c s s' HP HB OK ND RB (halts_to_halts cfg c s s' OK HT)) as (s'' & H & E).
  exists s''. split; [|exact E].
  destruct (slines_some (fst (optimize c))) as [sl' SL'].
  { intros i Hi. apply (slines_parse c sl i SL). apply OptFacts.optimize_instrs_subset. exact Hi. }
  apply (halts_halts_to cfg _ sl' s s'' SL'); [|exact H].
  exact (proj1 (rws_struct cfg _ _ _ (OptFacts.optimize_rws c)) OK).
Qed.
Print Assumptions optimize_cf_run.

(** * Non-vacuity: a loop *)

#[local] Open Scope string_scope.

(** w := 0; three times: w := w + 2; then Y := 1.  The swap and "STA w; LDA w" fire inside the
    loop, the repeated "LDY #1" and the JMP to the next line go: three instructions removed *)
Definition cf_code : code :=
  [sim_ins LDA "#0"; sim_ins STA "w"; sim_ins LDX "#3"; Lbl "loop"; sim_ins LDA "w"; sim_ins CLC "";
   sim_ins ADC "#2"; sim_ins STA "w"; sim_ins LDA "w"; Cmt "next"; sim_ins DEX ""; sim_ins BNE "loop";
   sim_ins LDY "#1"; sim_ins LDY "#1"; sim_ins JMP "end"; Lbl "end"].

Example cf_code_optimized :
  optimize cf_code =
  ([sim_ins LDA "#0"; sim_ins STA "w"; sim_ins LDX "#3"; Lbl "loop"; sim_ins CLC ""; sim_ins LDA "w";
    sim_ins ADC "#2"; sim_ins STA "w"; Dummy; Cmt "next"; sim_ins DEX ""; sim_ins BNE "loop";
    sim_ins LDY "#1"; Dummy; Dummy; Lbl "end"], 3%N).
Proof. vm_compute. reflexivity. Qed.

Lemma NoDup_compute (l : list string) :
  (fix nd (l : list string) : bool :=
     match l with [] => true | x :: r => negb (existsb (String.eqb x) r) && nd r end) l = true ->
  NoDup l.
Proof.
  induction l as [|x l IH]; intros H; [constructor|].
  apply andb_true_iff in H. destruct H as [H1 H2]. constructor; [|exact (IH H2)].
  intros I. apply negb_true_iff in H1. assert (E : existsb (String.eqb x) l = true).
  { apply existsb_exists. exists x. split; [exact I|apply String.eqb_refl]. }
  congruence.
Qed.

Example optimize_cf_sound_example :
  ports sim_cfg = [] /\ bytes_ok sim_state /\ cf_ok sim_cfg cf_code = true /\
  NoDup (lbls cf_code) /\ rb_free cf_code = true /\
  exists s' s'', halts sim_cfg cf_code sim_state s' /\
                 halts sim_cfg (fst (optimize cf_code)) sim_state s'' /\
                 eq_state s'' s' /\ rA s' = 6 /\ rX s' = 0 /\ rY s' = 1 /\ mget (mem s') 128 = 6.
Proof.
  assert (OK : cf_ok sim_cfg cf_code = true) by (vm_compute; reflexivity).
  assert (ND : NoDup (lbls cf_code)) by (apply NoDup_compute; vm_compute; reflexivity).
  assert (RB : rb_free cf_code = true) by (vm_compute; reflexivity).
  split; [reflexivity|]. split; [exact sim_state_bytes|]. split; [exact OK|]. split; [exact ND|].
  split; [exact RB|].
  destruct (crun sim_cfg cf_code 34 0 sim_state) as [[pc s']|] eqn:E; [|vm_compute in E; discriminate E].
  assert (PC : pc = length cf_code) by (vm_compute in E; inversion E; reflexivity). subst pc.
  assert (H : halts sim_cfg cf_code sim_state s') by (exists 34%nat; exact E).
  destruct (optimize_cf_sound sim_cfg cf_code sim_state s' eq_refl sim_state_bytes OK ND RB H)
    as (s'' & H2 & Q).
  exists s', s''. split; [exact H|]. split; [exact H2|]. split; [exact Q|].
  vm_compute in E. inversion E. vm_compute. repeat split; reflexivity.
Qed.
Print Assumptions optimize_cf_sound_example.

(** * The hypotheses are needed *)

(** the known-compare rule: "CMP #2; BNE l" is removed because A is known to hold "#2"; the
    branch is indeed not taken, but CMP sets the carry and the ADC that follows reads it
    (A = 3 in the original, 2 after optimisation) *)
Example cmp_rule_changes_c :
  exists c s' s'',
    cf_ok sim_cfg c = true /\ NoDup (lbls c) /\ rb_free c = false /\
    halts sim_cfg c sim_state s' /\ halts sim_cfg (fst (optimize c)) sim_state s'' /\
    rA s' = 3 /\ rA s'' = 2.
Proof.
  exists [sim_ins LDA "#2"; sim_ins CMP "#2"; sim_ins BNE "l"; sim_ins ADC "#0"; Lbl "l"].
  eexists. eexists.
  split; [vm_compute; reflexivity|]. split; [apply NoDup_compute; vm_compute; reflexivity|].
  split; [vm_compute; reflexivity|].
  split; [exists 5%nat; vm_compute; reflexivity|]. split; [exists 5%nat; vm_compute; reflexivity|].
  split; vm_compute; reflexivity.
Qed.
Print Assumptions cmp_rule_changes_c.

(** labels must be pairwise different: "JMP l" followed by "l:" is removed, but a branch goes to
    the FIRST definition of its label (X = 0 in the original, 1 after optimisation) *)
Example duplicate_label_changes_x :
  exists c s' s'',
    cf_ok sim_cfg c = true /\ rb_free c = true /\
    halts sim_cfg c sim_state s' /\ halts sim_cfg (fst (optimize c)) sim_state s'' /\
    rX s' = 0 /\ rX s'' = 1.
Proof.
  exists [sim_ins LDX "#2"; Lbl "l"; sim_ins DEX ""; sim_ins BEQ "out"; sim_ins JMP "l"; Lbl "l"; Lbl "out"].
  eexists. eexists.
  split; [vm_compute; reflexivity|]. split; [vm_compute; reflexivity|].
  split; [exists 9%nat; vm_compute; reflexivity|]. split; [exists 7%nat; vm_compute; reflexivity|].
  split; vm_compute; reflexivity.
Qed.
Print Assumptions duplicate_label_changes_x.
