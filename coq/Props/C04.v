(** C04 — reported function size equals the assembled size.  Statements only. *)
From Coq Require Import String Ascii List Bool NArith ZArith.
From CC Require Import Base.Str Asm.Lines M6502.Isa Asm.Operand Model.AsmSel Model.Optimize
     Model.CheckBranches Proofs.AsmSelFacts Proofs.OptFacts.
Import ListNotations.

(** whatever [asm()] emits for a sensible (mnemonic, operand) pair carries as [nb_bytes] the
    size of the encoding a 6502 assembler selects for it (zero-page form for page-zero
    operands when the mnemonic has one, absolute form otherwise), for every variable kind,
    memory class, offset, byte selection and bank-switching scheme *)
Theorem C04_asm_sel_size : forall sch m e high m' sg em md,
  sensible m e = true ->
  asm_sel sch m e high = AEmit m' sg em ->
  resolve m' (shape_of (operand_of (e_op em))) (popnd_zp e) = Some md ->
  mode_size md = e_bytes em.
Proof. exact asm_sel_size. Qed.

(** the optimiser only deletes: the reported size never grows and every remaining instruction
    is one that was emitted (with its size) *)
Theorem C04_optimize_size_le : forall c : code, (size_bytes (fst (optimize c)) <= size_bytes c)%N.
Proof. exact optimize_size_le. Qed.

Theorem C04_optimize_instrs_subset : forall (c : code) (i : instr),
  In (Ins i) (fst (optimize c)) -> In (Ins i) c.
Proof. exact optimize_instrs_subset. Qed.

(** the instructions the branch repair adds have their real sizes: 2 for a branch, 3 for JMP *)
Theorem C04_repair_sizes : forall m l,
  is_cond_branch m = true ->
  resolved_size m ShLabel false = Some 2%N /\ resolved_size JMP ShLabel false = Some 3%N
  /\ line_bytes (mk_branch m l) = 2%N /\ line_bytes (mk_jmp l) = 3%N.
Proof. intros m l H; destruct m; try discriminate H; repeat split; reflexivity. Qed.
