(** Model of the constant calculator [parse_calc] (src/compile.rs): pest's Pratt algorithm with the
    calculator's operator table, the operator implementations on 32-bit integers (wrapping, as in
    a release build; a debug build panics where this wraps), the sentinel encoding of ?: .
    Input: the token sequence of a [calc_expr] (primaries are numbers or parenthesised
    sub-sequences), i.e. what the grammar hands to the Pratt parser. *)
From Coq Require Import String List Bool ZArith.
Import ListNotations.
Open Scope Z_scope.

Inductive bop := OMul | ODiv | OAdd | OSub | OShl | OShr | OLAnd | OLOr | OAnd | OXor | OOr
               | OGte | OGt | OLte | OLt | OEq | ONeq | OQ | OColon.
Inductive uop := UNeg | UNot | UBNot.

Inductive tok :=
| TNum (n : Z)
| TParen (inner : list tok)
| TBin (o : bop)
| TUn (o : uop).

(** binding powers: pest gives level k (1-based, in the order of the [.op] calls) power 10k *)
Definition prec (o : bop) : Z :=
  match o with
  | OColon => 10 | OQ => 20 | OLOr => 30 | OLAnd => 40 | OOr => 50 | OXor => 60 | OAnd => 70
  | OEq | ONeq => 80 | OGt | OGte | OLt | OLte => 90
  | OShr | OShl => 100 | OAdd | OSub => 110 | OMul | ODiv => 120
  end.
Definition right_assoc (o : bop) : bool := match o with OColon | OQ => true | _ => false end.
Definition prefix_prec : Z := 130.

Definition wrap32 (v : Z) : Z :=
  let m := v mod 4294967296 in if m <? 2147483648 then m else m - 4294967296.

Definition sentinel : Z := 2125323949.   (* 0x7eaddead *)

Inductive cres := COk (v : Z) | CDivZero | CShift | CStuck.   (* CShift: shift count outside 0..31 *)

Definition b2z (b : bool) : Z := if b then 1 else 0.

Definition apply_bin (o : bop) (l r : Z) : cres :=
  match o with
  | OMul => COk (wrap32 (l * r))
  | ODiv => if r =? 0 then CDivZero else COk (wrap32 (Z.quot l r))
  | OAdd => COk (wrap32 (l + r))
  | OSub => COk (wrap32 (l - r))
  | OAnd => COk (Z.land l r)
  | OOr => COk (Z.lor l r)
  | OXor => COk (Z.lxor l r)
  | OShr => if (r <? 0) || (32 <=? r) then CShift else COk (Z.shiftr l r)
  | OShl => if (r <? 0) || (32 <=? r) then CShift else COk (wrap32 (Z.shiftl l r))
  | OLAnd => COk (b2z (negb (l =? 0) && negb (r =? 0)))
  | OLOr => COk (b2z (negb (l =? 0) || negb (r =? 0)))
  | OGt => COk (b2z (r <? l))
  | OGte => COk (b2z (r <=? l))
  | OLt => COk (b2z (l <? r))
  | OLte => COk (b2z (l <=? r))
  | OEq => COk (b2z (l =? r))
  | ONeq => COk (b2z (negb (l =? r)))
  | OQ => COk (if negb (l =? 0) then r else sentinel)
  | OColon => COk (if l =? sentinel then r else l)
  end.

Definition apply_un (o : uop) (v : Z) : Z :=
  match o with
  | UNeg => wrap32 (- v)
  | UNot => b2z (v =? 0)
  | UBNot => - v - 1
  end.

(** pest's [expr(rbp)]: nud, then led while rbp < lbp(next).  Returns the value and the rest. *)
Fixpoint pexpr (fuel : nat) (ts : list tok) (rbp : Z) {struct fuel} : option (cres * list tok) :=
  match fuel with
  | O => None
  | S f =>
      let nud :=
        match ts with
        | TNum n :: r => Some (COk n, r)
        | TParen inner :: r =>
            match pexpr f inner 0 with
            | Some (v, []) => Some (v, r)
            | _ => None
            end
        | TUn o :: r =>
            match pexpr f r (prefix_prec - 1) with
            | Some (COk v, r') => Some (COk (apply_un o v), r')
            | other => other
            end
        | _ => None
        end in
      match nud with
      | None => None
      | Some (lhs, rest) => led f lhs rest rbp
      end
  end
with led (fuel : nat) (lhs : cres) (ts : list tok) (rbp : Z) {struct fuel} : option (cres * list tok) :=
  match fuel with
  | O => None
  | S f =>
      match ts with
      | TBin o :: r =>
          if rbp <? prec o then
            match pexpr f r (if right_assoc o then prec o - 1 else prec o) with
            | Some (rhs, r') =>
                let v := match lhs, rhs with
                         | COk a, COk b => apply_bin o a b
                         | COk _, e => e
                         | e, _ => e
                         end in
                led f v r' rbp
            | None => None
            end
          else Some (lhs, ts)
      | [] => Some (lhs, [])
      | _ => None
      end
  end.

Fixpoint tok_size (t : tok) : nat :=
  match t with
  | TParen l => S (fold_right (fun x acc => tok_size x + acc)%nat 0%nat l)
  | _ => 1%nat
  end.
Definition toks_size (l : list tok) : nat := fold_right (fun x acc => tok_size x + acc)%nat 0%nat l.

Definition calc (ts : list tok) : cres :=
  match pexpr (2 * toks_size ts + 2) ts 0 with
  | Some (v, []) => v
  | _ => CStuck
  end.

(** ** C's grammar for the shared operators: precedence levels of ISO C (higher binds tighter) *)
Definition c_prec (o : bop) : Z :=
  match o with
  | OColon => 1 | OQ => 1
  | OLOr => 3 | OLAnd => 4 | OOr => 5 | OXor => 6 | OAnd => 7
  | OEq | ONeq => 8
  | OGt | OGte | OLt | OLte => 9
  | OShr | OShl => 10 | OAdd | OSub => 11 | OMul | ODiv => 12
  end.

(** in "a o1 b o2 c" (binary, left-associative C operators, no ?:) C groups the left pair iff
    o1 binds at least as tightly as o2 *)
Definition c_groups_left (o1 o2 : bop) : bool := c_prec o2 <=? c_prec o1.
Definition is_ternary (o : bop) : bool := match o with OQ | OColon => true | _ => false end.
